package props

import (
	"bytes"
	"compress/gzip"
	"fmt"
	"io"
	"math/rand"
	"os"
	"reflect"
	"sort"
	"strings"
	"sync"

	"github.com/parquet-go/parquet-go"
	"github.com/parquet-go/parquet-go/encoding"
	"github.com/parquet-go/parquet-go/encoding/thrift"
	"github.com/parquet-go/parquet-go/format"

	"verifharness/core"
	"verifharness/gen"
)

// C11 — Row-group copy and re-encode fast paths are indistinguishable from the row path.
//
// L1 (oracle from the property statement): rows written under configuration A are handed, as a row
// group of one of the source kinds below, to a writer under configuration B through WriteRowGroup.
// The output must hold the rows of rg.Rows() in order (compared with a file written from the same
// rows one by one under B, with the file WriteRowGroup produces when both fast paths are switched
// off, and — for the kinds whose rows the harness knows — with the reference shredder), and B's
// settings must be honoured in the output's metadata exactly as far as the one-by-one file
// honours them: codec per chunk, version and encoding of every data page, bloom filter presence,
// page-header statistics, column index value lengths, chunk min/max and deprecated min/max
// presence, rows per row group.
// L2: the path counters (copyPathCounter / reencodePathCounter, read through the verif hooks) must
// equal what the Lean mirror `plan` predicts from the metadata of the source chunks.
func init() { RegisterSub("C11", "paths", RunC11) }

// The fast-path switches and counters are package globals of the library: every WriteRowGroup
// call of this check runs under this mutex.
var c11Mu sync.Mutex

// ---------------------------------------------------------------- configurations

type c11Cfg struct {
	Base       *gen.WriterCfg
	Opts       []parquet.WriterOption
	Stats      bool
	IndexLimit int // effective ColumnIndexSizeLimit
	MaxRows    int64
	Bloom      map[string]uint // leaf path -> bits per value
	DeferBloom bool            // DeferBloomFiltersWithBuffers: filters are written at the end of the file
	BloomGzip  bool            // BloomFilterCompression(gzip): the filter bitsets are stored gzip-compressed
	Enc        bool                 // the files written under this configuration are encrypted (WithEncryption)
	Dec        []parquet.FileOption // what OpenFile needs to read them
	Desc       string
}

// key retriever of the encryption class: one footer key, optional per-column keys
type c11Keys struct {
	footer []byte
	cols   map[string][]byte
}

func (k c11Keys) FooterKey([]byte) ([]byte, error) { return k.footer, nil }
func (k c11Keys) ColumnKey(path []string, _ []byte) ([]byte, error) {
	if v, ok := k.cols[strings.Join(path, ".")]; ok {
		return v, nil
	}
	return k.footer, nil
}

// c11Encrypted returns cfg with modular encryption switched on (footer key for every column or
// one column under its own key; encrypted or plaintext footer)
func c11Encrypted(r *rand.Rand, cfg *c11Cfg, schema *parquet.Schema) *c11Cfg {
	keys := c11Keys{footer: []byte("0123456789abcdef"), cols: map[string][]byte{}}
	ec := &parquet.EncryptionConfig{FooterKey: keys.footer, EncryptedFooter: r.Intn(2) == 0, FileIdentifier: []byte("c11-file")}
	desc := fmt.Sprintf(" encrypted(footer=%v", ec.EncryptedFooter)
	if cols := schema.Columns(); len(cols) > 0 && r.Intn(2) == 0 {
		p := strings.Join(cols[r.Intn(len(cols))], ".")
		keys.cols[p] = []byte("fedcba9876543210")
		ec.ColumnKeys = map[string][]byte{p: keys.cols[p]}
		desc += " columnkey=" + p
	}
	nc := *cfg
	nc.Opts = append(append([]parquet.WriterOption{}, cfg.Opts...), parquet.WithEncryption(ec))
	nc.Enc = true
	nc.Dec = []parquet.FileOption{parquet.WithDecryption(keys)}
	nc.Desc = cfg.Desc + desc + ")"
	return &nc
}

var c11Encodings = map[parquet.Kind][]encoding.Encoding{
	parquet.Int32:     {&parquet.Plain, &parquet.DeltaBinaryPacked, &parquet.RLEDictionary},
	parquet.Int64:     {&parquet.Plain, &parquet.DeltaBinaryPacked, &parquet.RLEDictionary},
	parquet.ByteArray: {&parquet.Plain, &parquet.DeltaLengthByteArray, &parquet.DeltaByteArray, &parquet.RLEDictionary},
	parquet.Float:     {&parquet.Plain, &parquet.RLEDictionary},
	parquet.Double:    {&parquet.Plain, &parquet.RLEDictionary},
}
var c11Kinds = []parquet.Kind{parquet.Int32, parquet.Int64, parquet.ByteArray, parquet.Float, parquet.Double}

func c11LeafKinds(schema *parquet.Schema) map[string]parquet.Kind {
	out := map[string]parquet.Kind{}
	for _, p := range schema.Columns() {
		if leaf, ok := schema.Lookup(p...); ok {
			out[strings.Join(p, ".")] = leaf.Node.Type().Kind()
		}
	}
	return out
}

// c11RandCfg: every axis of gen.RandWriterCfg plus explicit DataPageStatistics(false), limits up
// to 64, SkipPageBounds, deprecated statistics, default encodings per kind, bloom filters.
func c11RandCfg(r *rand.Rand, schema *parquet.Schema) *c11Cfg {
	b := gen.RandWriterCfg(r)
	c := &c11Cfg{Base: b, Opts: append([]parquet.WriterOption{}, b.Opts...), Stats: true, IndexLimit: 16, MaxRows: b.MaxRows, Bloom: map[string]uint{}}
	if b.IndexLimit > 0 {
		c.IndexLimit = b.IndexLimit
	}
	var extra []string
	if r.Intn(3) == 0 {
		c.Stats = false
		c.Opts = append(c.Opts, parquet.DataPageStatistics(false))
	}
	if r.Intn(4) == 0 {
		lim := []int{1, 7, 8, 9, 32, 33, 64}[r.Intn(7)]
		c.IndexLimit = lim
		c.Opts = append(c.Opts, parquet.ColumnIndexSizeLimit(func([]string) int { return lim }))
	}
	cols := schema.Columns()
	if r.Intn(6) == 0 && len(cols) > 0 {
		p := cols[r.Intn(len(cols))]
		c.Opts = append(c.Opts, parquet.SkipPageBounds(p...))
		extra = append(extra, "skipbounds="+strings.Join(p, "."))
	}
	if r.Intn(8) == 0 && len(cols) > 0 {
		p := cols[r.Intn(len(cols))]
		c.Opts = append(c.Opts, parquet.SkipPageStatistics(p...))
		extra = append(extra, "skipstats="+strings.Join(p, "."))
	}
	if r.Intn(6) == 0 {
		c.Opts = append(c.Opts, parquet.DeprecatedDataPageStatistics(true))
		extra = append(extra, "deprecated")
	}
	if r.Intn(3) == 0 {
		k := c11Kinds[r.Intn(len(c11Kinds))]
		e := c11Encodings[k][r.Intn(len(c11Encodings[k]))]
		c.Opts = append(c.Opts, parquet.DefaultEncodingFor(k, e))
		extra = append(extra, fmt.Sprintf("enc[%s]=%s", k, e.Encoding()))
	}
	if r.Intn(3) == 0 && len(cols) > 0 {
		kinds := c11LeafKinds(schema)
		bpv := []uint{1, 8, 10, 16}[r.Intn(4)]
		var filters []parquet.BloomFilterColumn
		for n := 1 + r.Intn(2); n > 0; n-- {
			p := cols[r.Intn(len(cols))]
			key := strings.Join(p, ".")
			if kinds[key] == parquet.Boolean {
				continue
			}
			if _, dup := c.Bloom[key]; dup {
				continue
			}
			c.Bloom[key] = bpv
			filters = append(filters, parquet.SplitBlockFilter(bpv, p...))
		}
		if len(filters) > 0 {
			c.Opts = append(c.Opts, parquet.BloomFilters(filters...))
			var keys []string
			for k := range c.Bloom {
				keys = append(keys, k)
			}
			sort.Strings(keys)
			extra = append(extra, fmt.Sprintf("bloom=%d@%s", bpv, strings.Join(keys, "+")))
			if r.Intn(2) == 0 {
				c.DeferBloom = true
				c.Opts = append(c.Opts, parquet.DeferBloomFiltersWithBuffers(parquet.NewBufferPool()))
				extra = append(extra, "deferbloom")
			}
		}
	}
	c.Desc = b.Desc + fmt.Sprintf(" pagestats=%v limit=%d %s", c.Stats, c.IndexLimit, strings.Join(extra, " "))
	return c
}

// c11CfgLike returns B as a copy of A (so that the verbatim path is eligible) with a few axes re-drawn.
func c11CfgLike(r *rand.Rand, a *c11Cfg, schema *parquet.Schema) *c11Cfg {
	c := &c11Cfg{Base: a.Base, Opts: append([]parquet.WriterOption{}, a.Opts...), Stats: a.Stats, IndexLimit: a.IndexLimit, MaxRows: a.MaxRows, Bloom: a.Bloom, DeferBloom: a.DeferBloom, BloomGzip: a.BloomGzip, Enc: a.Enc, Dec: a.Dec}
	var extra []string
	switch r.Intn(6) {
	case 0:
		c.Stats = !a.Stats
		c.Opts = append(c.Opts, parquet.DataPageStatistics(c.Stats))
		extra = append(extra, fmt.Sprintf("pagestats:=%v", c.Stats))
	case 1:
		lim := []int{1, 4, 8, 16, 64}[r.Intn(5)]
		c.IndexLimit = lim
		c.Opts = append(c.Opts, parquet.ColumnIndexSizeLimit(func([]string) int { return lim }))
		extra = append(extra, fmt.Sprintf("limit:=%d", lim))
	case 2:
		c.MaxRows = int64(1 + r.Intn(200))
		c.Opts = append(c.Opts, parquet.MaxRowsPerRowGroup(c.MaxRows))
		extra = append(extra, fmt.Sprintf("maxrows:=%d", c.MaxRows))
	case 3:
		if cols := schema.Columns(); len(cols) > 0 {
			p := cols[r.Intn(len(cols))]
			c.Opts = append(c.Opts, parquet.SkipPageBounds(p...))
			extra = append(extra, "skipbounds+="+strings.Join(p, "."))
		}
	case 4:
		c.Opts = append(c.Opts, parquet.PageBufferSize(1+r.Intn(300)))
		extra = append(extra, "pagebuf:=small")
	case 5: // (no draw) the codec of the bloom filter sections flips; nothing else differs
		if len(a.Bloom) > 0 {
			c.BloomGzip = !a.BloomGzip
			if c.BloomGzip {
				c.Opts = append(c.Opts, parquet.BloomFilterCompression(&parquet.Gzip))
			} else {
				c.Opts = append(c.Opts, parquet.BloomFilterCompression(&parquet.Uncompressed))
			}
			extra = append(extra, fmt.Sprintf("bloomgzip:=%v", c.BloomGzip))
		}
	}
	c.Desc = a.Desc + " | like-A " + strings.Join(extra, " ")
	return c
}

// ---------------------------------------------------------------- file metadata

type c11Page struct {
	Type, Enc          int
	HasStats           bool
	NullPage           bool
	NullCount          int64
	MinLen, MaxLen     int
	MaxFF              int // number of leading 0xFF bytes of the column index max value
}

type c11Chunk struct {
	Type, Codec          int
	EncStats             [][3]int
	CIOff, OIOff         int64
	BloomOff             int64
	BloomLen             int32
	BloomHdr             *[4]int // numBytes, splitBlock, xxhash, uncompressed; nil = absent / undecodable
	BloomGzip            bool    // the header announces a gzip-compressed bitset
	BloomBits            int     // bytes of the bitset (after decompression); -1 = unknown
	DictLen              int64   // num_values of the dictionary page header; -1 = no dictionary page / unknown
	NumValues, NullCount int64
	Rows                 int64
	HasDict              bool
	Pages                []c11Page
	HasMinMax, HasDep    bool
	// layout numbers (the byte splice mirror, Splice.lean)
	DictOff, DataOff     int64
	TotalC, TotalU       int64
	Locs                 [][3]int64 // offset, compressed size, first row index
	// value-carrying metadata (column index, size statistics, statistics, encoding statistics) in
	// the text of the `copy.splicev` op (SpliceMeta.lean)
	Values               string
	PageErr              string // a page location of the offset index does not lead to a page header
	// the row group entry the chunk belongs to: file_offset, total_byte_size, total_compressed_size
	RG                   [3]int64
}

func (p c11Page) trivial() bool { return !p.NullPage && p.NullCount == 0 && p.MinLen == 0 && p.MaxLen == 0 }

func b2i(b bool) int {
	if b {
		return 1
	}
	return 0
}

// c11FileInfo extracts, from the footer, the page index and the page headers, what the copy
// predicates read and what the settings oracle checks. Indexed [row group][column].
func c11FileInfo(file []byte, f *parquet.File, encrypted ...bool) (out [][]c11Chunk, err error) {
	// page headers (and bloom filter headers) of an encrypted file cannot be parsed from the raw bytes
	parsePages := len(encrypted) == 0 || !encrypted[0]
	defer func() {
		if r := recover(); r != nil {
			err = fmt.Errorf("PANIC: %v", r)
		}
	}()
	md := f.Metadata()
	cis, ois := f.ColumnIndexes(), f.OffsetIndexes()
	k := 0
	for _, rg := range md.RowGroups {
		var row []c11Chunk
		for ci := range rg.Columns {
			cc := &rg.Columns[ci]
			m := &cc.MetaData
			c := c11Chunk{Type: int(m.Type), Codec: int(m.Codec), CIOff: cc.ColumnIndexOffset, OIOff: cc.OffsetIndexOffset,
				BloomOff: m.BloomFilterOffset, BloomLen: m.BloomFilterLength, NumValues: m.NumValues, NullCount: m.Statistics.NullCount,
				Rows: rg.NumRows, HasDict: m.DictionaryPageOffset != 0, RG: [3]int64{rg.FileOffset, rg.TotalByteSize, rg.TotalCompressedSize},
				DictOff: m.DictionaryPageOffset, DataOff: m.DataPageOffset, TotalC: m.TotalCompressedSize, TotalU: m.TotalUncompressedSize,
				// an empty byte string bound is present (non-nil, length 0); absent bounds decode as nil
				HasMinMax: m.Statistics.MinValue != nil || m.Statistics.MaxValue != nil,
				HasDep:    m.Statistics.Min != nil || m.Statistics.Max != nil, BloomBits: -1, DictLen: -1}
			if parsePages && c.DictOff > 0 && c.DictOff < int64(len(file)) {
				var h format.PageHeader
				p := thrift.CompactProtocol{}
				if e := thrift.NewDecoder(p.NewReader(bytes.NewReader(file[c.DictOff:]))).Decode(&h); e == nil && h.Type == format.DictionaryPage {
					c.DictLen = int64(h.DictionaryPageHeader.V.NumValues)
				}
			}
			for _, s := range m.EncodingStats {
				c.EncStats = append(c.EncStats, [3]int{int(s.PageType), int(s.Encoding), int(s.Count)})
			}
			if parsePages && c.BloomOff != 0 && c.BloomLen > 0 && c.BloomOff+int64(c.BloomLen) <= int64(len(file)) {
				var h format.BloomFilterHeader
				p := thrift.CompactProtocol{}
				if e := thrift.NewDecoder(p.NewReader(bytes.NewReader(file[c.BloomOff : c.BloomOff+int64(c.BloomLen)]))).Decode(&h); e == nil {
					_, split := h.Algorithm.Value.(*format.SplitBlockAlgorithm)
					_, xx := h.Hash.Value.(*format.XxHash)
					_, unc := h.Compression.Value.(*format.BloomFilterUncompressed)
					c.BloomHdr = &[4]int{int(h.NumBytes), b2i(split), b2i(xx), b2i(unc)}
					_, c.BloomGzip = h.Compression.Value.(*format.BloomFilterGzip)
					// the section is the header followed by NumBytes bytes of (compressed) bitset
					if nb := int64(h.NumBytes); nb >= 0 && nb <= int64(c.BloomLen) {
						end := c.BloomOff + int64(c.BloomLen)
						switch body := file[end-nb : end]; {
						case unc:
							c.BloomBits = len(body)
						case c.BloomGzip:
							if zr, e := gzip.NewReader(bytes.NewReader(body)); e == nil {
								if n, e := io.Copy(io.Discard, zr); e == nil {
									c.BloomBits = int(n)
								}
							}
						}
					}
				}
			}
			if k < len(cis) {
				c.Values = c11Values(m, &cis[k])
			}
			if parsePages && k < len(ois) && k < len(cis) {
				cix := &cis[k]
				for pi, loc := range ois[k].PageLocations {
					c.Locs = append(c.Locs, [3]int64{loc.Offset, int64(loc.CompressedPageSize), loc.FirstRowIndex})
					var h format.PageHeader
					p := thrift.CompactProtocol{}
					end := loc.Offset + int64(loc.CompressedPageSize)
					if loc.Offset < 0 || end > int64(len(file)) {
						c.PageErr = "page location outside the file"
						continue
					}
					if e := thrift.NewDecoder(p.NewReader(bytes.NewReader(file[loc.Offset:end]))).Decode(&h); e != nil {
						c.PageErr = fmt.Sprintf("page header: %v", e)
						continue
					}
					pg := c11Page{Type: int(h.Type)}
					var st format.Statistics
					if h.Type == format.DataPageV2 {
						pg.Enc, st = int(h.DataPageHeaderV2.V.Encoding), h.DataPageHeaderV2.V.Statistics
					} else {
						pg.Enc, st = int(h.DataPageHeader.V.Encoding), h.DataPageHeader.V.Statistics
					}
					pg.HasStats = st.Min != nil || st.Max != nil || st.MinValue != nil || st.MaxValue != nil || st.NullCount != 0 || st.DistinctCount != 0
					if pi < len(cix.NullPages) {
						pg.NullPage = cix.NullPages[pi]
					}
					if pi < len(cix.NullCounts) {
						pg.NullCount = cix.NullCounts[pi]
					}
					if pi < len(cix.MinValues) {
						pg.MinLen = len(cix.MinValues[pi])
					}
					if pi < len(cix.MaxValues) {
						pg.MaxLen = len(cix.MaxValues[pi])
						for pg.MaxFF < pg.MaxLen && cix.MaxValues[pi][pg.MaxFF] == 0xFF {
							pg.MaxFF++
						}
					}
					c.Pages = append(c.Pages, pg)
				}
			}
			k++
			row = append(row, c)
		}
		out = append(out, row)
	}
	return out, nil
}

// c11InfoDiff: "" when two readings of one file's metadata agree, else "<aspect>: <where>"
func c11InfoDiff(before, after [][]c11Chunk) string {
	if len(before) != len(after) {
		return fmt.Sprintf("row-groups: %d before, %d after", len(before), len(after))
	}
	for gi := range before {
		if len(before[gi]) != len(after[gi]) {
			return fmt.Sprintf("column-chunks: row group %d: %d before, %d after", gi, len(before[gi]), len(after[gi]))
		}
		for ci := range before[gi] {
			b, a := before[gi][ci], after[gi][ci]
			where := fmt.Sprintf("row group %d column %d", gi, ci)
			if b.Values != a.Values {
				return fmt.Sprintf("column-index-or-statistics-values: %s: before %.300s after %.300s", where, b.Values, a.Values)
			}
			if !reflect.DeepEqual(b.Pages, a.Pages) {
				return fmt.Sprintf("column-index-entries: %s: before %v after %v", where, b.Pages, a.Pages)
			}
			if !reflect.DeepEqual(b.Locs, a.Locs) {
				return fmt.Sprintf("offset-index: %s: before %v after %v", where, b.Locs, a.Locs)
			}
			b.Values, b.Pages, b.Locs, a.Values, a.Pages, a.Locs = "", nil, nil, "", nil, nil
			if !reflect.DeepEqual(b, a) {
				return fmt.Sprintf("chunk-metadata: %s: before %+v after %+v", where, b, a)
			}
		}
	}
	return ""
}

// layout numbers of a chunk in the text of the `copy.splice` op; withBloom: request form
func (c *c11Chunk) layoutText(bloomLen int64, request bool) string {
	d := "n"
	if c.DictOff != 0 {
		d = fmt.Sprint(c.DictOff)
	}
	var ls []string
	for _, l := range c.Locs {
		ls = append(ls, fmt.Sprintf("%d.%d.%d", l[0], l[1], l[2]))
	}
	locs := "-"
	if len(ls) > 0 {
		locs = strings.Join(ls, "+")
	}
	if request {
		return fmt.Sprintf("%s,%d,%d,%d,%d,%d,%d,%s", d, c.DataOff, c.TotalC, c.TotalU, c.NumValues, c.Rows, bloomLen, locs)
	}
	return fmt.Sprintf("%s,%d,%d,%d,%d,%d,%s", d, c.DataOff, c.TotalC, c.TotalU, c.NumValues, c.Rows, locs)
}

// text of a file chunk for the model (Driver/Ops/C11.lean)
func (c *c11Chunk) modelText(encrypted bool) string {
	var es, ps []string
	for _, s := range c.EncStats {
		es = append(es, fmt.Sprintf("%d.%d.%d", s[0], s[1], s[2]))
	}
	for _, p := range c.Pages {
		ps = append(ps, fmt.Sprintf("%d.%d.%d.%d.%d.%d.%d", p.Type, p.Enc, b2i(p.HasStats), b2i(p.NullPage), p.NullCount, p.MinLen, p.MaxLen))
	}
	dash := func(xs []string) string {
		if len(xs) == 0 {
			return "-"
		}
		return strings.Join(xs, "+")
	}
	bh := "n"
	if c.BloomHdr != nil {
		bh = fmt.Sprintf("%d.%d.%d.%d", c.BloomHdr[0], c.BloomHdr[1], c.BloomHdr[2], c.BloomHdr[3])
	}
	return fmt.Sprintf("F:%d:%d:%s:%d:%d:%d:%d:%s:%d:%d:%d:%d:%d:%s:%d:%d", c.Type, c.Codec, dash(es), c.CIOff, c.OIOff, c.BloomOff, c.BloomLen,
		bh, b2i(encrypted), c.NumValues, c.NullCount, c.Rows, b2i(c.HasDict), dash(ps), b2i(c.HasMinMax), b2i(c.HasDep))
}

// ---------------------------------------------------------------- sources

// an opened source file with the Go rows of each of its row groups
type c11File struct {
	bytes []byte
	f     *parquet.File
	info  [][]c11Chunk
	rgs   []parquet.RowGroup
	rows  []reflect.Value // Go rows per row group (nil when not tracked)
	enc   bool            // opened with decryption keys
}

type c11Env struct {
	chunkOf map[*parquet.FileColumnChunk]*c11Chunk // metadata of every source file chunk
	files   []*c11File                             // every source file opened for the case
}

func (env *c11Env) open(file []byte, rows reflect.Value, dec ...parquet.FileOption) (*c11File, error) {
	f, err := parquet.OpenFile(bytes.NewReader(file), int64(len(file)), dec...)
	if err != nil {
		return nil, err
	}
	info, err := c11FileInfo(file, f, len(dec) > 0)
	if err != nil {
		return nil, err
	}
	if e := c11PageErr(info); e != "" {
		return nil, fmt.Errorf("%s", e)
	}
	cf := &c11File{bytes: file, f: f, info: info, rgs: f.RowGroups(), enc: len(dec) > 0}
	env.files = append(env.files, cf)
	start := 0
	for gi, rg := range cf.rgs {
		for ci, cc := range rg.ColumnChunks() {
			if fc, ok := cc.(*parquet.FileColumnChunk); ok && gi < len(info) && ci < len(info[gi]) {
				env.chunkOf[fc] = &info[gi][ci]
			}
		}
		n := int(rg.NumRows())
		if rows.IsValid() && start+n <= rows.Len() {
			cf.rows = append(cf.rows, rows.Slice(start, start+n))
		} else {
			cf.rows = append(cf.rows, reflect.Value{})
		}
		start += n
	}
	return cf, nil
}

// foreign implementations of parquet.RowGroup (defined outside the library: no marker methods)
type c11Foreign struct{ parquet.RowGroup }

// a foreign wrapper whose Rows() drops every other row: chunk-level copies would bypass it
type c11ForeignSkip struct{ parquet.RowGroup }

type c11SkipRows struct {
	parquet.Rows
	idx int64
}

func (w c11ForeignSkip) Rows() parquet.Rows { return &c11SkipRows{Rows: w.RowGroup.Rows()} }

func (s *c11SkipRows) ReadRows(rows []parquet.Row) (int, error) {
	for {
		buf := make([]parquet.Row, len(rows))
		n, err := s.Rows.ReadRows(buf)
		k := 0
		for i := 0; i < n; i++ {
			if s.idx%2 == 0 {
				rows[k] = append(rows[k][:0], buf[i]...)
				k++
			}
			s.idx++
		}
		if k > 0 || err != nil || n == 0 {
			return k, err
		}
	}
}

func (s *c11SkipRows) SeekToRow(int64) error { return fmt.Errorf("c11SkipRows: no seeking") }

// one row group handed to WriteRowGroup, with the Go rows it holds when the harness knows them
type c11Source struct {
	kind string
	rg   parquet.RowGroup
	rows []reflect.Value // Go rows in order (nil = expectation comes from rg.Rows() only)
	// for (nested) multi row groups built by the harness: the member row groups in order; the rows
	// of the whole must be the concatenation of the members' own Rows()
	leaves []parquet.RowGroup
}

func c11ReadRows(rg parquet.RowGroup) (out []parquet.Row, err error) {
	defer func() {
		if r := recover(); r != nil {
			err = fmt.Errorf("PANIC: %v", r)
		}
	}()
	rows := rg.Rows()
	defer rows.Close()
	buf := make([]parquet.Row, 64)
	for {
		n, err := rows.ReadRows(buf)
		for _, r := range buf[:n] {
			out = append(out, r.Clone())
		}
		if err == io.EOF {
			return out, nil
		}
		if err != nil {
			return out, err
		}
		if n == 0 {
			return out, fmt.Errorf("ReadRows returned 0 rows and no error")
		}
	}
}

// describe a row group for the Lean model; ok=false when a chunk cannot be described
func (env *c11Env) describe(rg parquet.RowGroup, sb *[]string) bool {
	t := fmt.Sprintf("%T", rg)
	segs, _ := parquet.VerifRowGroupSegments(rg)
	leaf := ""
	switch {
	case t == "*parquet.FileRowGroup":
		leaf = "file"
	case t == "*parquet.Buffer" || strings.HasPrefix(t, "*parquet.GenericBuffer["):
		leaf = "buffer"
	case t == "*parquet.rowRangeRowGroup":
		leaf = "range"
	case t == "*parquet.mergedRowGroup":
		leaf = "merged"
	case t == "*parquet.dedupRowGroup":
		leaf = "dedup"
	case t == "*parquet.convertedRowGroup":
		leaf = "converted"
	case t == "*parquet.multiRowGroup":
		*sb = append(*sb, fmt.Sprintf("S,multi,%d", len(segs)))
	case t == "*parquet.sortedSegmentRowGroup":
		// which of the two the row group is comes from its fields, not from what rowGroupSegments()
		// answers (the answer is what the mirror's segmentsOf is compared with)
		fsegs, drop, _ := parquet.VerifSortedSegmentRowGroup(rg)
		if drop {
			leaf = "sortedDedup"
		} else {
			segs = fsegs
			*sb = append(*sb, fmt.Sprintf("S,sorted,%d", len(segs)))
		}
	case strings.HasPrefix(t, "props."):
		leaf = "foreign"
	default:
		leaf = "other"
	}
	if leaf == "" {
		for _, s := range segs {
			if !env.describe(s, sb) {
				return false
			}
		}
		return true
	}
	chunks := rg.ColumnChunks()
	*sb = append(*sb, fmt.Sprintf("L,%s,%d,%d", leaf, rg.NumRows(), len(chunks)))
	for _, c := range chunks {
		txt, ok := env.describeChunk(c)
		if !ok {
			return false
		}
		*sb = append(*sb, txt)
	}
	return true
}

func (env *c11Env) describeChunk(c parquet.ColumnChunk) (string, bool) {
	if fc, ok := c.(*parquet.FileColumnChunk); ok {
		m := env.chunkOf[fc]
		if m == nil {
			return "", false
		}
		return m.modelText(parquet.VerifSourceEncrypted(fc)), true
	}
	if _, ok := c.(parquet.ColumnBuffer); ok {
		return "B", true
	}
	if base := parquet.VerifRangeBase(c); base != nil {
		txt, ok := env.describeChunk(base)
		return "R>" + txt, ok
	}
	return "O", true
}

// c11SegmentsVsMirror compares rowGroupSegments() of rg and of everything below it with what the
// mirror's segmentsOf (CopyPath.lean) says of the dynamic type: multiRowGroup = its children;
// sortedSegmentRowGroup = its segments unless it drops duplicated rows (then: implemented, none);
// mergedRowGroup = implemented, none; every other type does not implement the interface.
func c11SegmentsVsMirror(rg parquet.RowGroup) string {
	t := fmt.Sprintf("%T", rg)
	segs, impl := parquet.VerifRowGroupSegments(rg)
	switch {
	case t == "*parquet.sortedSegmentRowGroup":
		fsegs, drop, _ := parquet.VerifSortedSegmentRowGroup(rg)
		if drop && (!impl || len(segs) != 0) {
			return fmt.Sprintf("%s dropping duplicated rows: rowGroupSegments() answers %d segments (implemented=%v), the mirror none (deduplication spans the segments)", t, len(segs), impl)
		}
		if !drop && (!impl || len(segs) != len(fsegs)) {
			return fmt.Sprintf("%s: rowGroupSegments() answers %d segments (implemented=%v), the mirror its %d segments", t, len(segs), impl, len(fsegs))
		}
	case t == "*parquet.mergedRowGroup":
		if !impl || len(segs) != 0 {
			return fmt.Sprintf("%s: rowGroupSegments() answers %d segments (implemented=%v), the mirror none (heap merge)", t, len(segs), impl)
		}
	case t == "*parquet.multiRowGroup":
		if !impl {
			return t + ": orderedRowGroupSegments not implemented, the mirror says its children"
		}
	default:
		if impl {
			return t + ": implements orderedRowGroupSegments, the mirror says it does not"
		}
	}
	for _, s := range segs {
		if why := c11SegmentsVsMirror(s); why != "" {
			return why
		}
	}
	return ""
}

// expected marker per dynamic type (cross-checked against chunkTransparentRowGroup)
func c11Marker(rg parquet.RowGroup) bool {
	t := fmt.Sprintf("%T", rg)
	return t == "*parquet.FileRowGroup" || t == "*parquet.Buffer" || strings.HasPrefix(t, "*parquet.GenericBuffer[") || t == "*parquet.rowRangeRowGroup"
}

// ---------------------------------------------------------------- one case

type c11Out struct {
	file           []byte
	copyN, reencN  int64
	err            error
	again          func() c11Out // the same writer after Reset, the same input once more
}

func c11NewWriter(w io.Writer, schema *parquet.Schema, cfg *c11Cfg) (pw *parquet.Writer, err error) {
	defer func() {
		if r := recover(); r != nil {
			err = fmt.Errorf("PANIC: %v", r)
		}
	}()
	return parquet.NewWriter(w, append([]parquet.WriterOption{schema}, cfg.Opts...)...), nil
}

// write the sources through WriteRowGroup under cfg; the library globals are held for the call.
// out.again (set when the pass succeeded) resets the same writer onto a fresh buffer (Writer.Reset)
// and writes the same rows and row groups once more: a writer that is reused and sources that are
// handed to WriteRowGroup more than once.
func c11WriteRowGroups(schema *parquet.Schema, cfg *c11Cfg, prefix []parquet.Row, srcs []*c11Source, disable bool) (out c11Out) {
	buf := new(bytes.Buffer)
	pw, err := c11NewWriter(buf, schema, cfg)
	if err != nil {
		out.err = err
		return
	}
	out = c11Pass(pw, buf, prefix, srcs, disable)
	if out.err == nil {
		out.again = func() (o c11Out) {
			defer func() {
				if r := recover(); r != nil {
					o.err = fmt.Errorf("PANIC: %v", r)
				}
			}()
			buf2 := new(bytes.Buffer)
			pw.Reset(buf2)
			return c11Pass(pw, buf2, prefix, srcs, disable)
		}
	}
	return
}

func c11Pass(pw *parquet.Writer, buf *bytes.Buffer, prefix []parquet.Row, srcs []*c11Source, disable bool) (out c11Out) {
	defer func() {
		if r := recover(); r != nil {
			out.err = fmt.Errorf("PANIC: %v", r)
		}
	}()
	// rows the destination writer already buffers (Write/WriteRows without Flush) when the row
	// group arrives
	for i := 0; i < len(prefix); {
		j := i + 1 + i%3
		if j > len(prefix) {
			j = len(prefix)
		}
		if _, err := pw.WriteRows(prefix[i:j]); err != nil {
			out.err = err
			return
		}
		i = j
	}
	c11Mu.Lock()
	func() {
		defer c11Mu.Unlock()
		oc := parquet.VerifSetDisableWriteCopy(disable)
		or := parquet.VerifSetDisableWriteReencode(disable)
		defer parquet.VerifSetDisableWriteCopy(oc)
		defer parquet.VerifSetDisableWriteReencode(or)
		c0, r0 := parquet.VerifCopyPathCount(), parquet.VerifReencodePathCount()
		for _, s := range srcs {
			if _, err := pw.WriteRowGroup(s.rg); err != nil {
				out.err = err
				break
			}
		}
		out.copyN, out.reencN = parquet.VerifCopyPathCount()-c0, parquet.VerifReencodePathCount()-r0
	}()
	if out.err != nil {
		return
	}
	if err := pw.Close(); err != nil {
		out.err = err
		return
	}
	out.file = buf.Bytes()
	return
}

func c11WriteRows(schema *parquet.Schema, cfg *c11Cfg, rows []parquet.Row) (file []byte, err error) {
	defer func() {
		if r := recover(); r != nil {
			err = fmt.Errorf("PANIC: %v", r)
		}
	}()
	var buf bytes.Buffer
	pw, err := c11NewWriter(&buf, schema, cfg)
	if err != nil {
		return nil, err
	}
	for i := range rows {
		if _, err := pw.WriteRows(rows[i : i+1]); err != nil {
			return nil, err
		}
	}
	if err := pw.Close(); err != nil {
		return nil, err
	}
	return buf.Bytes(), nil
}

// per-column summary of a file for the settings oracle
type c11ColSummary struct {
	codecs, ptypes, encs   map[int]bool
	bloom                  map[bool]bool
	pagesWithStats, pages  int // non-trivial pages only
	maxIdxLen              int
	minmax, dep            map[bool]bool // over chunks holding non-null values
	colIndex               map[bool]bool // the chunk has a column index
	maxRows                int64
}

func c11Summarise(info [][]c11Chunk, ncol int) []c11ColSummary {
	out := make([]c11ColSummary, ncol)
	for i := range out {
		out[i] = c11ColSummary{codecs: map[int]bool{}, ptypes: map[int]bool{}, encs: map[int]bool{}, bloom: map[bool]bool{}, minmax: map[bool]bool{}, dep: map[bool]bool{}, colIndex: map[bool]bool{}}
	}
	for _, rg := range info {
		for ci := range rg {
			if ci >= ncol {
				continue
			}
			c, s := &rg[ci], &out[ci]
			s.codecs[c.Codec] = true
			s.colIndex[c.CIOff != 0] = true
			if c.Rows > s.maxRows {
				s.maxRows = c.Rows
			}
			if c.NumValues > c.NullCount {
				// a dictionary-encoded chunk without values sizes its filter for 0 values: no filter
				s.bloom[c.BloomOff != 0] = true
				s.minmax[c.HasMinMax] = true
				s.dep[c.HasDep] = true
			}
			for _, p := range c.Pages {
				s.ptypes[p.Type] = true
				s.encs[p.Enc] = true
				if !p.trivial() {
					s.pages++
					if p.HasStats {
						s.pagesWithStats++
					}
				}
				if p.MinLen > s.maxIdxLen {
					s.maxIdxLen = p.MinLen
				}
				if p.MaxLen > s.maxIdxLen {
					s.maxIdxLen = p.MaxLen
				}
			}
		}
	}
	return out
}

// c11OverLimit counts the column index entries of column ci that are longer than the limit although
// a shorter bound exists: any min value; a max value whose first `lim` bytes are not all 0xFF
func c11OverLimit(info [][]c11Chunk, ci, lim int) (n int, example string) {
	if lim <= 0 {
		return
	}
	for gi, rg := range info {
		if ci >= len(rg) || (rg[ci].Type != int(format.ByteArray) && rg[ci].Type != int(format.FixedLenByteArray)) {
			continue
		}
		for pi, p := range rg[ci].Pages {
			if p.MinLen > lim || (p.MaxLen > lim && p.MaxFF < lim) {
				if n == 0 {
					example = fmt.Sprintf("row group %d page %d: min %d bytes, max %d bytes", gi, pi, p.MinLen, p.MaxLen)
				}
				n++
			}
		}
	}
	return
}

func keys[K comparable](m map[K]bool) string {
	var xs []string
	for k := range m {
		xs = append(xs, fmt.Sprint(k))
	}
	sort.Strings(xs)
	return strings.Join(xs, ",")
}

func subset[K comparable](a, b map[K]bool) bool {
	for k := range a {
		if !b[k] {
			return false
		}
	}
	return true
}

type c11Case struct {
	entry     *gen.Entry
	kind      string
	schema    *parquet.Schema // destination schema
	a, b      *c11Cfg
	srcs      []*c11Source
	valTexts  []string
	srcDesc   string
	keyCol    int // column of the sort key in the destination schema (-1 = none)
	prefix    int // number of rows (the first rows of Rows()) the destination already buffers
	reuse     bool // the destination writer is Reset and handed the same input once more
	falseCounts bool // a harness wrapper in the source drops rows from Rows(): NumValues() of its chunks is false
}

// settings oracle: `got` (written through WriteRowGroup) must honour B's settings as far as `ref`
// (same rows one by one under B) does. Returns the list of violated aspects.
func c11Settings(b *c11Cfg, got, ref [][]c11Chunk, ncol int) (aspects []string, stat []string) {
	g, r := c11Summarise(got, ncol), c11Summarise(ref, ncol)
	for ci := 0; ci < ncol; ci++ {
		if len(r[ci].codecs) == 0 || len(g[ci].codecs) == 0 {
			continue
		}
		col := fmt.Sprintf("col%d", ci)
		if !subset(g[ci].codecs, r[ci].codecs) {
			aspects = append(aspects, fmt.Sprintf("codec %s: got {%s} row path {%s}", col, keys(g[ci].codecs), keys(r[ci].codecs)))
		}
		if len(r[ci].ptypes) > 0 && !subset(g[ci].ptypes, r[ci].ptypes) {
			aspects = append(aspects, fmt.Sprintf("page-version %s: got page types {%s} row path {%s}", col, keys(g[ci].ptypes), keys(r[ci].ptypes)))
		}
		if len(r[ci].encs) > 0 {
			allowed := map[int]bool{}
			for e := range r[ci].encs {
				allowed[e] = true
				if e == int(format.RLEDictionary) || e == int(format.PlainDictionary) {
					allowed[int(format.Plain)] = true // dictionary overflow falls back to PLAIN
				}
			}
			if !subset(g[ci].encs, allowed) {
				aspects = append(aspects, fmt.Sprintf("encoding %s: got {%s} row path {%s}", col, keys(g[ci].encs), keys(r[ci].encs)))
			}
		}
		if !subset(g[ci].bloom, r[ci].bloom) {
			aspects = append(aspects, fmt.Sprintf("bloom-presence %s: got {%s} row path {%s}", col, keys(g[ci].bloom), keys(r[ci].bloom)))
		}
		if r[ci].pages > 0 && g[ci].pages > 0 {
			if r[ci].pagesWithStats == 0 && g[ci].pagesWithStats > 0 {
				stat = append(stat, fmt.Sprintf("page-statistics %s: %d of %d data page headers carry statistics, none on the row path", col, g[ci].pagesWithStats, g[ci].pages))
			}
			if r[ci].pagesWithStats == r[ci].pages && g[ci].pagesWithStats < g[ci].pages {
				stat = append(stat, fmt.Sprintf("page-statistics %s: %d of %d data page headers lack statistics, none on the row path", col, g[ci].pages-g[ci].pagesWithStats, g[ci].pages))
			}
		}
		if g[ci].maxIdxLen > b.IndexLimit && g[ci].maxIdxLen > r[ci].maxIdxLen {
			stat = append(stat, fmt.Sprintf("index-limit %s: column index value of %d bytes, limit %d, longest on the row path %d", col, g[ci].maxIdxLen, b.IndexLimit, r[ci].maxIdxLen))
		} else if n, ex := c11OverLimit(got, ci, b.IndexLimit); n > 0 {
			// entry by entry: a value longer than the limit that could have been shortened (a lower
			// bound always can; an upper bound unless its first `limit` bytes are all 0xFF)
			if rn, _ := c11OverLimit(ref, ci, b.IndexLimit); rn == 0 {
				stat = append(stat, fmt.Sprintf("index-limit %s: %d column index values exceed the limit %d although they can be shortened (%s); none on the row path", col, n, b.IndexLimit, ex))
			}
		}
		if !subset(g[ci].colIndex, r[ci].colIndex) {
			stat = append(stat, fmt.Sprintf("column-index-presence %s: column index present {%s} row path {%s}", col, keys(g[ci].colIndex), keys(r[ci].colIndex)))
		}
		if len(r[ci].minmax) > 0 && !subset(g[ci].minmax, r[ci].minmax) {
			stat = append(stat, fmt.Sprintf("chunk-bounds %s: min/max present {%s} row path {%s}", col, keys(g[ci].minmax), keys(r[ci].minmax)))
		}
		if len(r[ci].dep) > 0 && !subset(g[ci].dep, r[ci].dep) {
			stat = append(stat, fmt.Sprintf("deprecated-minmax %s: present {%s} row path {%s}", col, keys(g[ci].dep), keys(r[ci].dep)))
		}
	}
	if b.MaxRows > 0 {
		for gi, rg := range got {
			if len(rg) > 0 && rg[0].Rows > b.MaxRows {
				aspects = append(aspects, fmt.Sprintf("row-group-size: row group %d has %d rows, MaxRowsPerRowGroup %d", gi, rg[0].Rows, b.MaxRows))
				break
			}
		}
	}
	return
}

// c11BloomSettings: the bloom filter settings of the destination (bits per value of the column's
// SplitBlockFilter, BloomFilterCompression) must be honoured by every filter of `got` as far as the
// file written row by row honours them. (i) The bitset of a chunk's filter has the size the filter
// column prescribes (BloomFilterColumn.Size) for the number of values it is built from: the entries
// of the dictionary when every data page is dictionary-encoded, the values of the chunk otherwise;
// a size the row path gives a chunk of the same shape is accepted as well. (ii) The bitset is stored
// under the configured filter codec (the header says which). Chunks whose filter header cannot be
// parsed from the raw bytes (encrypted files) are not judged. One aspect per column and clause.
// sizes = false: clause (i) is not judged (a harness wrapper of the source drops rows from Rows()
// while its chunks go on announcing them: the writer is told a false number of values).
func c11BloomSettings(b *c11Cfg, paths [][]string, got, ref [][]c11Chunk, sizes bool) (aspects []string) {
	type shape struct {
		nv, dict int64
		bits     int
	}
	for ci, path := range paths {
		bpv, has := b.Bloom[strings.Join(path, ".")]
		if !has {
			continue
		}
		filter := parquet.SplitBlockFilter(bpv, path...)
		// a dictionary-encoded chunk: the entries of the dictionary; once the writer has given the
		// dictionary up (which the file shows only if a PLAIN page followed) the values of the chunk
		builtFrom := func(c *c11Chunk) (n int64, what string) {
			if c.HasDict && c.DictLen >= 0 {
				return c.DictLen, "dictionary entries"
			}
			return c.NumValues, "values"
		}
		prescribed := func(c *c11Chunk) bool {
			n, _ := builtFrom(c)
			return c.BloomBits == filter.Size(n) || (c.HasDict && c.BloomBits == filter.Size(c.NumValues))
		}
		refShapes, refGzip := map[shape]bool{}, map[bool]bool{}
		for _, rg := range ref {
			if ci < len(rg) && rg[ci].BloomHdr != nil {
				c := &rg[ci]
				n, _ := builtFrom(c)
				refShapes[shape{c.NumValues, n, c.BloomBits}] = true
				refGzip[c.BloomGzip] = true
			}
		}
		sizeDone, compDone := false, false
		for gi, rg := range got {
			if ci >= len(rg) || rg[ci].BloomHdr == nil {
				continue
			}
			c := &rg[ci]
			n, what := builtFrom(c)
			if want := filter.Size(n); sizes && !sizeDone && !prescribed(c) && !refShapes[shape{c.NumValues, n, c.BloomBits}] {
				sizeDone = true
				aspects = append(aspects, fmt.Sprintf("bloom-size col%d (%s): row group %d: bitset of %d bytes for %d %s (chunk of %d values), %d bits per value prescribe %d bytes; no chunk of this shape has such a filter on the row path",
					ci, strings.Join(path, "."), gi, c.BloomBits, n, what, c.NumValues, bpv, want))
			}
			if !compDone && c.BloomGzip != b.BloomGzip && !refGzip[c.BloomGzip] {
				compDone = true
				aspects = append(aspects, fmt.Sprintf("bloom-compression col%d (%s): row group %d: the filter header announces gzip=%v, the destination's BloomFilterCompression is gzip=%v (row path: gzip {%s})",
					ci, strings.Join(path, "."), gi, c.BloomGzip, b.BloomGzip, keys(refGzip)))
			}
		}
	}
	return
}

// rowsOfFile reads every row of a file as canonical text (for multiset comparison)
func rowsOfFile(file []byte, dec ...parquet.FileOption) (out []string, err error) {
	defer func() {
		if r := recover(); r != nil {
			err = fmt.Errorf("PANIC: %v", r)
		}
	}()
	f, err := parquet.OpenFile(bytes.NewReader(file), int64(len(file)), dec...)
	if err != nil {
		return nil, err
	}
	for _, rg := range f.RowGroups() {
		rows, err := c11ReadRows(rg)
		if err != nil {
			return nil, err
		}
		for _, row := range rows {
			var sb strings.Builder
			for _, v := range row {
				fmt.Fprintf(&sb, "%d:%v;", v.Column(), gen.TripleOf(v))
			}
			out = append(out, sb.String())
		}
	}
	sort.Strings(out)
	return out, nil
}

// compareRows checks "same rows, same order". A heap merge (mergedRowGroup) orders rows with equal
// sort keys differently depending on the ReadRows batch size, so for sources containing one the
// comparison is: identical key column stream, identical stream lengths, and (unless duplicates are
// dropped, where the survivor of an equal-key run depends on that order) the same multiset of rows.
func (c *c11Case) compareRows(tieDependent bool, refCols, gotCols [][]gen.Triple, ref, got []byte) (bool, string) {
	if !tieDependent {
		col, i, desc := firstDiff(refCols, gotCols)
		return col == -2, fmt.Sprintf("column %d entry %d: %s", col, i, desc)
	}
	if len(refCols) != len(gotCols) {
		return false, "column count differs"
	}
	for ci := range refCols {
		if len(refCols[ci]) != len(gotCols[ci]) && c.kind != "merged-dedup" {
			return false, fmt.Sprintf("column %d holds %d entries, expected %d", ci, len(gotCols[ci]), len(refCols[ci]))
		}
	}
	if c.keyCol >= 0 && c.keyCol < len(refCols) {
		if col, i, desc := firstDiff(refCols[c.keyCol:c.keyCol+1], gotCols[c.keyCol:c.keyCol+1]); col != -2 {
			return false, fmt.Sprintf("sort key column %d entry %d: %s", c.keyCol, i, desc)
		}
	}
	if c.kind == "merged-dedup" {
		return true, ""
	}
	a, err1 := rowsOfFile(ref, c.b.Dec...)
	b, err2 := rowsOfFile(got, c.b.Dec...)
	if err1 != nil || err2 != nil {
		return false, fmt.Sprintf("rows unreadable: %v %v", err1, err2)
	}
	if len(a) != len(b) {
		return false, fmt.Sprintf("%d rows, expected %d", len(b), len(a))
	}
	for i := range a {
		if a[i] != b[i] {
			return false, fmt.Sprintf("row multisets differ: expected %s got %s", a[i], b[i])
		}
	}
	return true, ""
}

func aspectClass(a string) string {
	if i := strings.IndexAny(a, " :"); i > 0 {
		return a[:i]
	}
	return a
}

// c11SpecCheck pipes a file through `file.check` of the C02 spec reader; "" = accepted
func c11SpecCheck(d interface {
	AskMany([]string) ([]string, error)
}, file []byte, maxRows int64) string {
	f, err := os.CreateTemp("", "c11-*.parquet")
	if err != nil {
		return ""
	}
	defer os.Remove(f.Name())
	if _, err := f.Write(file); err != nil {
		f.Close()
		return ""
	}
	f.Close()
	ans, err := d.AskMany([]string{fmt.Sprintf("file.check %s %d", f.Name(), maxRows)})
	if err != nil || len(ans) != 1 {
		return ""
	}
	if strings.HasPrefix(ans[0], "ok") {
		return ""
	}
	return ans[0]
}

func c11AllVerbatim(paths []string) bool {
	for _, p := range paths {
		if p != "verbatim" {
			return false
		}
	}
	return len(paths) > 0
}

// c11SpliceL2: every source row group was spliced verbatim; the numbers of the output's metadata
// (dictionary / data page offsets, page locations, sizes, counts, bloom filter sections) must be
// the Lean splice (Splice.lean: loadCopied, writeCopied, rowGroupMetasMixed, placeBlooms) applied
// to the source's metadata at the output row group's start offset.
func c11SpliceL2(ctx *core.Ctx, env *c11Env, d interface {
	AskMany([]string) ([]string, error)
}, c *c11Case, outInfo [][]c11Chunk, detail func(map[string]any) map[string]any) {
	paths := c.schema.Columns()
	var reqs, wants []string
	gi := 0
	for _, s := range c.srcs {
		if s.rg.NumRows() == 0 {
			continue // nothing is written for an empty row group
		}
		if gi >= len(outInfo) {
			ctx.Fail("L2", "splice-row-group-count", "fewer output row groups than spliced source row groups", detail(nil))
			return
		}
		og := outInfo[gi]
		gi++
		chunks := s.rg.ColumnChunks()
		if len(chunks) != len(og) || len(og) == 0 {
			return
		}
		start := og[0].DataOff
		if og[0].DictOff != 0 {
			start = og[0].DictOff
		}
		var req, want, blooms []string
		for ci, cc := range chunks {
			fc, ok := cc.(*parquet.FileColumnChunk)
			if !ok || env.chunkOf[fc] == nil {
				return
			}
			src := env.chunkOf[fc]
			bl := int64(0)
			if ci < len(paths) {
				if _, has := c.b.Bloom[strings.Join(paths[ci], ".")]; has {
					bl = int64(src.BloomLen)
				}
			}
			req = append(req, src.layoutText(bl, true)+"~"+src.Values)
			want = append(want, og[ci].layoutText(0, false)+"~"+og[ci].Values)
			if c.b.DeferBloom {
				req[len(req)-1] = src.layoutText(0, true) + "~" + src.Values // written by writeDeferredBloomFilters at the end of the file
				blooms = append(blooms, "n")
			} else if og[ci].BloomOff != 0 {
				blooms = append(blooms, fmt.Sprintf("%d.%d", og[ci].BloomOff, og[ci].BloomLen))
			} else {
				blooms = append(blooms, "n")
			}
		}
		reqs = append(reqs, fmt.Sprintf("copy.splicev %d %s", start, strings.Join(req, ";")))
		wants = append(wants, "ok "+strings.Join(want, ";")+" "+strings.Join(blooms, ",")+fmt.Sprintf(" rg=%d,%d,%d,%d", og[0].RG[0], og[0].RG[1], og[0].RG[2], og[0].Rows))
	}
	if len(reqs) == 0 {
		return
	}
	ans, err := d.AskMany(reqs)
	if err != nil {
		ctx.Fail("L2", "driver-error", err.Error(), nil)
		return
	}
	for i, a := range ans {
		ctx.Hist("splice-mirror-compared", "row-group")
		if a != wants[i] {
			key, what := "splice-metadata-vs-mirror", "the metadata of a spliced row group differs from the Lean splice of the source's metadata"
			if c11LayoutOnly(a) == c11LayoutOnly(wants[i]) {
				key, what = "splice-values-vs-mirror", "the column index / size statistics / statistics / encoding statistics of a spliced row group differ from the Lean splice (SpliceMeta.spliceRowGroupBlooms) of the source's"
			}
			ctx.Fail("L2", key, what, detail(map[string]any{"request": reqs[i], "model": a, "library": wants[i]}))
		}
	}
}

func c11PageErr(info [][]c11Chunk) string {
	for gi, rg := range info {
		for ci := range rg {
			if rg[ci].PageErr != "" {
				return fmt.Sprintf("row group %d column %d: %s", gi, ci, rg[ci].PageErr)
			}
		}
	}
	return ""
}

// c11LayoutOnly strips the value parts (`~...`) of a `copy.splicev` answer
func c11LayoutOnly(ans string) string {
	f := strings.Fields(ans)
	if len(f) != 4 {
		return ans
	}
	chunks := strings.Split(f[1], ";")
	for i, c := range chunks {
		if j := strings.IndexByte(c, '~'); j >= 0 {
			chunks[i] = c[:j]
		}
	}
	return f[0] + " " + strings.Join(chunks, ";") + " " + f[2] + " " + f[3]
}

// c11Split: the row groups n buffered rows are flushed as
func c11Split(n, maxRows int64) (out []int64) {
	for maxRows > 0 && n > maxRows {
		out = append(out, maxRows)
		n -= maxRows
	}
	if n > 0 {
		out = append(out, n)
	}
	return
}

// c11BloomMisses: every value stored in a chunk that carries a bloom filter must be found by it
func c11BloomMisses(file []byte, dec ...parquet.FileOption) (misses []string, err error) {
	defer func() {
		if r := recover(); r != nil {
			err = fmt.Errorf("PANIC: %v", r)
		}
	}()
	f, err := parquet.OpenFile(bytes.NewReader(file), int64(len(file)), dec...)
	if err != nil {
		return nil, err
	}
	for gi, rg := range f.RowGroups() {
		for ci, cc := range rg.ColumnChunks() {
			bf := cc.BloomFilter()
			if bf == nil {
				continue
			}
			pages := cc.Pages()
			for {
				p, err := pages.ReadPage()
				if err == io.EOF {
					break
				}
				if err != nil {
					pages.Close()
					return misses, err
				}
				vr := p.Values()
				buf := make([]parquet.Value, 256)
				for {
					n, err := vr.ReadValues(buf)
					for _, v := range buf[:n] {
						if v.IsNull() {
							continue
						}
						ok, cerr := bf.Check(v)
						if cerr != nil {
							parquet.Release(p)
							pages.Close()
							return misses, cerr
						}
						if !ok && len(misses) < 3 {
							misses = append(misses, fmt.Sprintf("row group %d column %d value %v", gi, ci, gen.TripleOf(v)))
						}
					}
					if err != nil {
						break
					}
				}
				parquet.Release(p)
			}
			pages.Close()
		}
	}
	return misses, nil
}

func rowGroupSizes(info [][]c11Chunk) []int64 {
	var out []int64
	for _, rg := range info {
		if len(rg) > 0 {
			out = append(out, rg[0].Rows)
		}
	}
	return out
}

func c11Run(ctx *core.Ctx, env *c11Env, d interface {
	AskMany([]string) ([]string, error)
}, c *c11Case, sample bool) {
	var kinds []string
	for _, s := range c.srcs {
		kinds = append(kinds, fmt.Sprintf("%T", s.rg))
	}
	detail := func(extra map[string]any) map[string]any {
		m := map[string]any{"type": c.entry.Name, "kind": c.kind, "source": c.srcDesc, "row_group_types": kinds, "config_A": c.a.Desc, "config_B": c.b.Desc, "rows": c.valTexts, "rows_buffered_in_destination_before_WriteRowGroup": c.prefix}
		if len(c.valTexts) > 30 {
			m["rows"] = append(append([]string{}, c.valTexts[:30]...), fmt.Sprintf("... %d rows, regenerate with the run seed (stream c11/%s)", len(c.valTexts), c.entry.Name))
		}
		for k, v := range extra {
			m[k] = v
		}
		return m
	}
	// the rows, as the property defines them: what Rows() yields
	var want []parquet.Row
	for _, s := range c.srcs {
		rows, err := c11ReadRows(s.rg)
		if err != nil {
			ctx.Hist("skipped", "rows-unreadable kind="+c.kind)
			return
		}
		want = append(want, rows...)
	}
	// (nested) multi row groups: Rows() of the whole must be the members' Rows() one after the other
	for _, s := range c.srcs {
		if s.leaves == nil || len(c.srcs) != 1 {
			continue
		}
		var indep []parquet.Row
		for _, l := range s.leaves {
			rows, err := c11ReadRows(l)
			if err != nil {
				ctx.Hist("skipped", "member-rows-unreadable kind="+c.kind)
				return
			}
			indep = append(indep, rows...)
		}
		canon := func(row parquet.Row) string { // floats by bit pattern (NaN payloads)
			var sb strings.Builder
			for _, v := range row {
				fmt.Fprintf(&sb, "%d:%v;", v.Column(), gen.TripleOf(v))
			}
			return sb.String()
		}
		same := len(indep) == len(want)
		for i := 0; same && i < len(want); i++ {
			same = canon(want[i]) == canon(indep[i])
		}
		if !same {
			ctx.Fail("L1", "multi-row-group-rows-bypass-member-semantics kind="+c.kind,
				fmt.Sprintf("Rows() of a (nested) MultiRowGroup yields %d rows, its members' Rows() one after the other %d rows: a member's Rows() semantics is bypassed", len(want), len(indep)),
				map[string]any{"type": c.entry.Name, "kind": c.kind, "source": c.srcDesc, "config_A": c.a.Desc})
		}
		want = indep
	}
	nontrivial := len(want) >= 2 && c.a.Desc != c.b.Desc
	ctx.Case(c.entry.Name+"|"+c.kind+"|"+c.srcDesc+"|"+c.a.Desc+"|"+c.b.Desc+"|"+strings.Join(c.valTexts, "|"), nontrivial)
	ctx.Hist("kind", c.kind)
	ctx.Hist("rows", fmt.Sprint(len(want)/50*50)+"+")
	sig := "kind=" + c.kind
	if sample {
		ctx.Sample(detail(nil))
	}

	// ---- L2 request: what does the mirror say for each WriteRowGroup call?
	var reqs []string
	describable := d != nil
	if describable {
		twin, err := c11NewWriter(io.Discard, c.schema, c.b)
		if err != nil {
			describable = false
		} else {
			cols := parquet.VerifDstColumns(twin)
			paths := c.schema.Columns()
			var cs []string
			for i, dc := range cols {
				bpv := "n"
				if i < len(paths) {
					if v, ok := c.b.Bloom[strings.Join(paths[i], ".")]; ok {
						bpv = fmt.Sprint(v)
						// the mirror of splitBlockFilter.Size against the real one
						for _, n := range []int64{0, 1, 25, 26, 255, 1000} {
							want := 32 * (((int(n)*int(v)+7)/8 + 31) / 32)
							if got := parquet.VerifDstFilterSize(twin, i, n); got != want {
								ctx.Fail("L2", "bloom-size-mirror", "splitBlockFilter.Size differs from the mirror bloomSize", map[string]any{"bpv": v, "n": n, "impl": got, "model": want})
							}
						}
					}
				}
				if dc.HasFilter != (bpv != "n") {
					ctx.Fail("L2", "dst-filter-config", "destination column filter presence differs from the configured bloom filters", detail(map[string]any{"column": i}))
				}
				cs = append(cs, fmt.Sprintf("%d,%d,%d,%d,%d,%s,%d,%d,%d,%d,%d,%d", dc.Kind, dc.Codec, dc.Encoding, b2i(dc.Dict), dc.PageType, bpv,
					b2i(dc.FilterCompressed), b2i(dc.Encrypted), b2i(dc.WritePageStats), b2i(dc.WritePageBounds), b2i(dc.WriteDeprecatedStat), dc.IndexLimit))
				if dc.IndexLimit != 0 && dc.IndexLimit != c.b.IndexLimit {
					ctx.Fail("L2", "dst-index-limit-config", "the column indexer's size limit differs from the configured ColumnIndexSizeLimit", detail(map[string]any{"column": i, "indexer": dc.IndexLimit, "configured": c.b.IndexLimit}))
				}
			}
			colsTxt := "-"
			if len(cs) > 0 {
				colsTxt = strings.Join(cs, ";")
			}
			g := fmt.Sprintf("0,0,%d,%d", b2i(parquet.VerifDstEncrypting(twin)), parquet.VerifDstMaxRows(twin))
			for _, s := range c.srcs {
				var toks []string
				if !env.describe(s.rg, &toks) {
					describable = false
					break
				}
				reqs = append(reqs, "copy.choose cur "+g+" "+colsTxt+" "+strings.Join(toks, ";"))
				if why := c11SegmentsVsMirror(s.rg); why != "" {
					ctx.Fail("L2", "row-group-segments-vs-mirror "+strings.SplitN(why, ":", 2)[0], "rowGroupSegments() differs from the mirror's segmentsOf: "+why, detail(nil))
				}
				if parquet.VerifChunkTransparent(s.rg) != c11Marker(s.rg) {
					ctx.Fail("L2", "marker-table "+fmt.Sprintf("%T", s.rg), "chunkTransparentRowGroup differs from the mirror's table of marker types", detail(nil))
				}
			}
		}
	}

	// ---- the three files
	if c.prefix > len(want) {
		c.prefix = len(want)
	}
	prefix := want[:c.prefix]
	if c.prefix > 0 {
		ctx.Hist("destination-buffers-rows-before-WriteRowGroup", c.kind)
	}
	out := c11WriteRowGroups(c.schema, c.b, prefix, c.srcs, false)
	if out.err != nil {
		ctx.Fail("L1", "write-row-group-error "+sig+" "+errClass(out.err), "WriteRowGroup failed on a valid row group: "+out.err.Error(), detail(nil))
		return
	}
	off := c11WriteRowGroups(c.schema, c.b, prefix, c.srcs, true)
	if off.err != nil {
		ctx.Fail("L1", "write-row-group-error(disabled) "+sig+" "+errClass(off.err), "WriteRowGroup with both fast paths disabled failed: "+off.err.Error(), detail(nil))
		return
	}
	if off.copyN != 0 || off.reencN != 0 {
		ctx.Fail("L2", "disable-switches-ignored "+sig, fmt.Sprintf("fast path counters moved (copy %d, reencode %d) although both disable switches are on", off.copyN, off.reencN), detail(nil))
	}
	ref, err := c11WriteRows(c.schema, c.b, append(append([]parquet.Row{}, prefix...), want...))
	if err != nil {
		ctx.Fail("L1", "row-path-error "+sig+" "+errClass(err), "writing the rows of Rows() one by one failed: "+err.Error(), detail(nil))
		return
	}
	switch {
	case out.copyN > 0 && out.reencN > 0:
		ctx.Hist("path", "copy+reencode")
	case out.copyN > 0:
		ctx.Hist("path", "copy")
	case out.reencN > 0:
		ctx.Hist("path", "reencode")
	default:
		ctx.Hist("path", "rows")
	}

	refCols, err := gen.ReadColumns(ref, c.b.Dec...)
	if err != nil {
		ctx.Fail("L1", "row-path-unreadable "+sig+" "+errClass(err), "the one-by-one file cannot be read back: "+err.Error(), detail(nil))
		return
	}
	tieDependent := false
	for _, s := range c.srcs {
		var toks []string
		env.describe(s.rg, &toks)
		for _, t := range toks {
			if strings.HasPrefix(t, "L,merged,") {
				tieDependent = true
			}
		}
	}
	if tieDependent {
		ctx.Hist("heap-merge-compared-up-to-tie-order", c.kind)
	}
	// ---- the oracle on one output of WriteRowGroup (pass = "" for the fresh writer, a suffix of the
	// failure keys for the output of the reused writer)
	sig0 := sig
	checkOut := func(out c11Out, pass string) (outInfo [][]c11Chunk, ncol int, ok bool) {
		sig := sig0 + pass
		// ---- L1a: same rows, same order
		outCols, err := gen.ReadColumns(out.file, c.b.Dec...)
		if err != nil {
			ctx.Fail("L1", "output-unreadable "+sig+" "+errClass(err), "the file written through WriteRowGroup cannot be read back: "+err.Error(), detail(map[string]any{"copied_chunks": out.copyN, "reencoded_row_groups": out.reencN}))
			return nil, 0, false
		}
		pathSig := fmt.Sprintf("copy=%v reencode=%v", out.copyN > 0, out.reencN > 0) + pass
		// the output must be readable row by row (the row reader insists on pages starting at a row)
		if _, _, err := gen.ReadRowsColumns(out.file, 64, c.b.Dec...); err != nil {
			if _, _, rerr := gen.ReadRowsColumns(ref, 64, c.b.Dec...); rerr != nil {
				ctx.Hist("row-path-file-unreadable-by-rows-too", c.kind)
			} else {
				ctx.Fail("L1", "output-rows-unreadable "+pathSig+" "+errClass(err), "the file written through WriteRowGroup cannot be read back row by row: "+err.Error(),
					detail(map[string]any{"copied_chunks": out.copyN, "reencoded_row_groups": out.reencN}))
			}
		}
		// ... and accepted by the Lean spec reader of C02 (structure, page/row alignment, counts)
		if d != nil && !c.b.Enc { // the Lean reader does not decrypt
			if why := c11SpecCheck(d, out.file, c.b.MaxRows); why != "" {
				if c11SpecCheck(d, ref, c.b.MaxRows) != "" {
					ctx.Hist("row-path-file-rejected-by-spec-reader-too", c02Class(why))
				} else {
					ctx.Fail("L1", "output-rejected-by-spec-reader "+pathSig+" "+c02Class(why), "the independent (Lean) Parquet reader rejects the file written through WriteRowGroup, and accepts the one written row by row: "+why,
						detail(map[string]any{"copied_chunks": out.copyN, "reencoded_row_groups": out.reencN}))
				}
			}
			ctx.Hist("spec-reader-checked", c.kind)
		}
		if same, desc := c.compareRows(tieDependent, refCols, outCols, ref, out.file); !same && c.kind == "multi-wrapper" {
			ctx.Fail("L1", "multi-row-group-over-wrapper-rows-depend-on-fast-path",
				fmt.Sprintf("a MultiRowGroup with a child whose Rows() differs from its column chunks: Rows() of the multi row group (and WriteRowGroup with both fast paths disabled) reads the child's chunks, the segmented fast path writes the child through its own Rows(): %s", desc),
				detail(map[string]any{"copied_chunks": out.copyN, "reencoded_row_groups": out.reencN}))
		} else if !same {
			ctx.Fail("L1", "rows-differ "+sig0+" "+pathSig, "WriteRowGroup stored other rows than Rows() yields: "+desc,
				detail(map[string]any{"copied_chunks": out.copyN, "reencoded_row_groups": out.reencN}))
		}
		// independent expectation (reference shredder) for the kinds whose Go rows are known
		known := true
		var sh gen.Shredder
		nrows := 0
		for left := c.prefix; left > 0 && known; { // the buffered rows are the first rows of the sources
			for _, s := range c.srcs {
				if s.rows == nil {
					known = false
					break
				}
				for _, rv := range s.rows {
					for i := 0; i < rv.Len() && left > 0; i++ {
						sh.ShredRow(c.entry.Schema, rv.Index(i))
						left--
					}
				}
			}
			break
		}
		for _, s := range c.srcs {
			if s.rows == nil {
				known = false
				break
			}
			for _, rv := range s.rows {
				for i := 0; i < rv.Len(); i++ {
					sh.ShredRow(c.entry.Schema, rv.Index(i))
					nrows++
				}
			}
		}
		if known && nrows > 0 && parquet.EqualNodes(c.entry.Schema, c.schema) {
			if col, i, desc := firstDiff(sh.Cols, outCols); col != -2 {
				ctx.Fail("L1", "rows-differ-from-source "+sig0+" "+pathSig, fmt.Sprintf("the output does not hold the source rows: column %d entry %d: %s", col, i, desc),
					detail(map[string]any{"copied_chunks": out.copyN, "reencoded_row_groups": out.reencN}))
			}
		}

		// ---- L1b: B's settings honoured
		fo, errO := parquet.OpenFile(bytes.NewReader(out.file), int64(len(out.file)), c.b.Dec...)
		fr, err2 := parquet.OpenFile(bytes.NewReader(ref), int64(len(ref)), c.b.Dec...)
		if errO != nil || err2 != nil {
			ctx.Fail("L1", "output-unopenable "+sig, fmt.Sprintf("OpenFile failed: %v %v", errO, err2), detail(nil))
			return nil, 0, false
		}
		// ---- L1d: the page index and the statistics of the output describe the pages it holds
		// (parquet.thrift OffsetIndex / ColumnIndex / Statistics / SizeStatistics), as far as they do
		// in the file written row by row
		{
			px := map[string]any{"copied_chunks": out.copyN, "reencoded_row_groups": out.reencN}
			viol, derr := c11DescribeOracle(fo)
			if derr != nil || len(viol) > 0 {
				refViol, rerr := c11DescribeOracle(fr)
				switch {
				case rerr != nil:
					ctx.Hist("row-path-file-pages-unreadable-too", c.kind)
				case derr != nil:
					ctx.Fail("L1", "output-pages-unreadable "+pathSig+" "+errClass(derr), "the pages of the file written through WriteRowGroup cannot be read one after the other: "+derr.Error(), detail(px))
				default:
					for _, aspect := range sortedKeys(viol) {
						if _, too := refViol[aspect]; too {
							ctx.Hist("metadata-does-not-describe-pages-on-row-path-too", aspect) // not specific to WriteRowGroup (C05)
							continue
						}
						px["violated"] = viol[aspect]
						ctx.Fail("L1", "metadata-does-not-describe-pages "+aspect+" "+pathSig,
							"the metadata of a file written through WriteRowGroup does not describe the pages the file holds (it does in the file written row by row): "+viol[aspect], detail(px))
					}
				}
			}
			ctx.Hist("metadata-describes-pages-checked", pathSig)
		}
		var err1 error
		outInfo, err1 = c11FileInfo(out.file, fo, c.b.Enc)
		refInfo, err2 := c11FileInfo(ref, fr, c.b.Enc)
		// an encrypted side never takes the verbatim path (pages sealed under another file's AAD / in
		// the clear); stated here on the counters alone, the mirror comparison follows below
		srcEnc := false
		for _, s := range c.srcs {
			for _, cc := range s.rg.ColumnChunks() {
				if fc, ok := cc.(*parquet.FileColumnChunk); ok && parquet.VerifSourceEncrypted(fc) {
					srcEnc = true
				}
			}
		}
		if c.b.Enc || srcEnc {
			ctx.Hist("encryption", fmt.Sprintf("source=%v destination=%v %s", srcEnc, c.b.Enc, pathSig))
			if out.copyN != 0 && (c.b.Enc || c.kind == "file" || c.kind == "range") {
				ctx.Fail("L2", "verbatim-copy-with-an-encrypted-side", fmt.Sprintf("%d chunks were copied verbatim although the source or the destination is encrypted", out.copyN), detail(nil))
			}
		}
		if err1 != nil || err2 != nil {
			ctx.Fail("L1", "output-metadata-unreadable "+sig, fmt.Sprintf("page headers / indexes unreadable: %v %v", err1, err2), detail(nil))
			return nil, 0, false
		}
		if e := c11PageErr(refInfo); e != "" {
			ctx.Fail("L1", "output-metadata-unreadable "+sig, "page headers / indexes of the file written row by row unreadable: "+e, detail(nil))
			return nil, 0, false
		}
		ncol = len(c.schema.Columns())
		aspects, stat := c11Settings(c.b, outInfo, refInfo, ncol)
		aspects = append(aspects, c11DictLimitSettings(ctx, c.b, out.file, outInfo, ref, refInfo, ncol)...) // c11_fallback.go
		if len(c.b.Bloom) > 0 {
			aspects = append(aspects, c11BloomSettings(c.b, c.schema.Columns(), outInfo, refInfo, !c.falseCounts)...)
			ctx.Hist("bloom-settings-checked", fmt.Sprintf("%s gzip=%v", pathSig, c.b.BloomGzip))
		}
		extra := map[string]any{"copied_chunks": out.copyN, "reencoded_row_groups": out.reencN, "output_row_groups": rowGroupSizes(outInfo)}
		if e := c11PageErr(outInfo); e != "" {
			// the settings oracle needs every page header; the L2 comparison below still runs
			ctx.Fail("L1", "output-metadata-unreadable "+sig, "page headers / indexes unreadable: a page location of the output's offset index does not lead to a page header: "+e, detail(extra))
			aspects, stat = nil, nil
		}
		for _, a := range aspects {
			extra["violated"] = a
			if strings.HasPrefix(a, "bloom-") {
				ctx.Hist("bloom-setting-not-honoured", aspectClass(a)+" kind="+c.kind+" "+pathSig)
			}
			ctx.Fail("L1", "setting-not-honoured "+aspectClass(a)+" "+pathSig, "the destination writer's setting is not honoured by WriteRowGroup: "+a, detail(extra))
		}
		if len(stat) > 0 {
			extra["violated"] = stat
			if out.copyN > 0 {
				ctx.Fail("L1", "verbatim-copy-ignores-destination-statistics-settings",
					"WriteRowGroup copied chunks verbatim although the destination writer's statistics settings (DataPageStatistics / SkipPageStatistics / ColumnIndexSizeLimit / SkipPageBounds / DeprecatedDataPageStatistics) differ from what the source chunks carry: "+stat[0],
					detail(extra))
			} else {
				ctx.Fail("L1", "statistics-setting-not-honoured "+aspectClass(stat[0])+" "+pathSig, "the destination writer's statistics setting is not honoured by WriteRowGroup: "+stat[0], detail(extra))
			}
		}

		// ---- L1c: configured bloom filters contain every stored value
		if len(c.b.Bloom) > 0 {
			paths := c.schema.Columns()
			for _, rg := range outInfo {
				for ci := range rg {
					if ci >= len(paths) {
						continue
					}
					if _, has := c.b.Bloom[strings.Join(paths[ci], ".")]; !has || rg[ci].BloomOff == 0 {
						continue
					}
					dictPages, plainPages := 0, 0
					for _, p := range rg[ci].Pages {
						switch p.Enc {
						case int(format.RLEDictionary), int(format.PlainDictionary):
							dictPages++
						case int(format.Plain):
							plainPages++
						}
					}
					if rg[ci].HasDict && dictPages > 0 && plainPages > 0 {
						ctx.Hist("bloom-filter-on-chunk-with-dictionary-fallback-mid-chunk", pathSig)
					}
				}
			}
			misses, err := c11BloomMisses(out.file, c.b.Dec...)
			if err != nil {
				ctx.Fail("L1", "bloom-filter-unreadable "+sig+" "+errClass(err), "bloom filters of the output cannot be checked: "+err.Error(), detail(extra))
			} else if len(misses) > 0 {
				if refMisses, _ := c11BloomMisses(ref, c.b.Dec...); len(refMisses) > 0 {
					ctx.Hist("bloom-miss-on-row-path-too", c.kind) // not specific to WriteRowGroup (C07)
				} else {
					extra["missed"] = misses
					ctx.Fail("L1", "bloom-filter-misses-stored-value "+pathSig, "a bloom filter written through WriteRowGroup answers absent for a value stored in its chunk: "+misses[0], detail(extra))
				}
			}
			ctx.Hist("bloom-containment-checked", c.kind)
		}

		return outInfo, ncol, true
	}
	outInfo, ncol, ok := checkOut(out, "")
	offCols, err := gen.ReadColumns(off.file, c.b.Dec...)
	if err != nil {
		ctx.Fail("L1", "output-unreadable(disabled) "+sig+" "+errClass(err), "the file written with both fast paths disabled cannot be read back: "+err.Error(), detail(nil))
	} else if same, desc := c.compareRows(tieDependent, refCols, offCols, ref, off.file); !same {
		ctx.Fail("L1", "rows-differ(disabled) "+sig, "with both fast paths disabled WriteRowGroup stored other rows than Rows() yields: "+desc, detail(nil))
	}
	// ---- the same writer after Reset, the same rows and row groups once more (always when chunks
	// were spliced: what the writer stages of a spliced chunk comes from the source's metadata)
	if out.again != nil && (c.reuse || out.copyN > 0) {
		const reused = " writer-reused-after-Reset"
		ctx.Hist("writer-reused-after-Reset", fmt.Sprintf("%s copy=%v reencode=%v", c.kind, out.copyN > 0, out.reencN > 0))
		out2 := out.again()
		if out2.err != nil {
			ctx.Fail("L1", "write-row-group-error "+sig+reused+" "+errClass(out2.err), "WriteRowGroup on a writer reused after Reset failed on the row groups it wrote before: "+out2.err.Error(), detail(nil))
		} else {
			if out2.copyN != out.copyN || out2.reencN != out.reencN {
				ctx.Fail("L2", "path-counters-differ-on-reused-writer "+sig, fmt.Sprintf("fresh writer: copy=%d reencode=%d; the same writer after Reset on the same row groups: copy=%d reencode=%d (the mirror's plan depends on the row groups and the configuration only)", out.copyN, out.reencN, out2.copyN, out2.reencN), detail(nil))
			}
			checkOut(out2, reused)
		}
	}
	// ---- WriteRowGroup reads its source: the metadata of the source files (footer, page index) is
	// what it was before the writes, as after reading the rows one by one
	for _, cf := range env.files {
		info, err := c11FileInfo(cf.bytes, cf.f, cf.enc)
		if err != nil {
			ctx.Fail("L1", "source-changed-by-WriteRowGroup unreadable", "the metadata of a source file cannot be read after WriteRowGroup: "+err.Error(), detail(nil))
			continue
		}
		if why := c11InfoDiff(cf.info, info); why != "" {
			ctx.Fail("L1", "source-changed-by-WriteRowGroup "+strings.SplitN(why, ":", 2)[0], "the open source file's metadata differs from what it was before it was handed to WriteRowGroup (Close, Reset of the destination included): "+why, detail(map[string]any{"copied_chunks": out.copyN, "reencoded_row_groups": out.reencN}))
		}
	}
	if !ok {
		return
	}
	refInfo, _ := func() ([][]c11Chunk, error) {
		fr, err := parquet.OpenFile(bytes.NewReader(ref), int64(len(ref)), c.b.Dec...)
		if err != nil {
			return nil, err
		}
		return c11FileInfo(ref, fr, c.b.Enc)
	}()
	// ---- L2: counters vs the Lean mirror
	if describable && len(reqs) > 0 {
		ans, err := d.AskMany(reqs)
		if err != nil {
			ctx.Fail("L2", "driver-error", err.Error(), nil)
			return
		}
		var wantCopy, wantReenc int64
		allFast := true
		var sizes []int64
		var paths []string
		for i, a := range ans {
			f := strings.Fields(a)
			if len(f) != 5 || f[0] != "ok" {
				ctx.Fail("L2", "driver-bad-answer", "pqdriver did not answer copy.choose", map[string]any{"request": reqs[i], "answer": a})
				return
			}
			var cN, rN int64
			fmt.Sscan(f[2], &cN)
			fmt.Sscan(f[3], &rN)
			wantCopy += cN
			wantReenc += rN
			paths = append(paths, f[1])
			ctx.Hist("model-path", f[1])
			if f[4] != "-" {
				for _, st := range strings.Split(f[4], ",") {
					var n int64
					fmt.Sscan(st[2:], &n)
					if st[0] == 'r' {
						allFast = false
					} else if n > 0 {
						sizes = append(sizes, n)
					}
				}
			}
		}
		if wantCopy != out.copyN || wantReenc != out.reencN {
			var over []string
			for ci := 0; ci < ncol; ci++ {
				gn, gex := c11OverLimit(outInfo, ci, c.b.IndexLimit)
				rn, _ := c11OverLimit(refInfo, ci, c.b.IndexLimit)
				if gn > 0 || rn > 0 {
					over = append(over, fmt.Sprintf("col%d: output %d (%s), row path %d", ci, gn, gex, rn))
				}
			}
			ctx.Fail("L2", "path-counters-vs-mirror "+sig, fmt.Sprintf("the library took copy=%d reencode=%d, the Lean mirror predicts copy=%d reencode=%d (paths %v)", out.copyN, out.reencN, wantCopy, wantReenc, paths),
				detail(map[string]any{"requests": reqs, "answers": ans, "column_index_values_over_the_limit": over}))
		} else if c11AllVerbatim(paths) && c.prefix == 0 && c.kind == "file" {
			c11SpliceL2(ctx, env, d, c, outInfo, detail)
		}
		if wantCopy != out.copyN || wantReenc != out.reencN {
		} else if allFast && fmt.Sprint(append(c11Split(int64(c.prefix), c.b.MaxRows), sizes...)) != fmt.Sprint(rowGroupSizes(outInfo)) {
			sizes = append(c11Split(int64(c.prefix), c.b.MaxRows), sizes...)
			ctx.Fail("L2", "row-groups-vs-mirror "+sig, fmt.Sprintf("output row groups %v, the mirror's plan gives %v", rowGroupSizes(outInfo), sizes),
				detail(map[string]any{"requests": reqs, "answers": ans}))
		}
	}
}

// ---------------------------------------------------------------- generation of sources

// sort key: a required top-level leaf of an orderable kind
func c11SortKey(schema *parquet.Schema) (path string, col int, typ parquet.Type, ok bool) {
	for _, f := range schema.Fields() {
		if !f.Leaf() || !f.Required() {
			continue
		}
		switch f.Type().Kind() {
		case parquet.Int32, parquet.Int64, parquet.ByteArray:
		default:
			continue
		}
		if leaf, found := schema.Lookup(f.Name()); found {
			return f.Name(), leaf.ColumnIndex, f.Type(), true
		}
	}
	return "", 0, nil, false
}

func c11SortRows(e *gen.Entry, rows reflect.Value, col int, typ parquet.Type) reflect.Value {
	n := rows.Len()
	keys := make([]parquet.Value, n)
	for i := 0; i < n; i++ {
		row := e.Schema.Deconstruct(nil, rows.Index(i).Addr().Interface())
		for _, v := range row {
			if v.Column() == col {
				keys[i] = v.Clone()
			}
		}
	}
	idx := make([]int, n)
	for i := range idx {
		idx[i] = i
	}
	sort.SliceStable(idx, func(a, b int) bool { return typ.Compare(keys[idx[a]], keys[idx[b]]) < 0 })
	out := reflect.MakeSlice(rows.Type(), n, n)
	for i, j := range idx {
		out.Index(i).Set(rows.Index(j))
	}
	return out
}

func c11WriteFile(e *gen.Entry, rows reflect.Value, cfg *c11Cfg, extra ...parquet.WriterOption) ([]byte, error) {
	var buf bytes.Buffer
	err := e.WriteGeneric(&buf, rows.Interface(), nil, append(append([]parquet.WriterOption{}, cfg.Opts...), extra...)...)
	return buf.Bytes(), err
}

var c11KindNames = []string{"file", "buffer", "range", "multi", "merged-unsorted", "merged-sorted", "merged-dedup", "dedup", "converted", "foreign", "foreign-skip", "multi-wrapper", "merged-packed", "multi-nested"}

// c11BuildOpt: forced axes of a built case (nil = everything drawn at random)
type c11BuildOpt struct {
	tweakA func(a *c11Cfg)                       // applied to the source configuration before any source is written
	makeB  func(r *rand.Rand, a *c11Cfg) *c11Cfg // destination configuration
	views  bool                                  // kind multi: half of the file row groups are handed over as two row-range views
}

func c11Build(ctx *core.Ctx, env *c11Env, e *gen.Entry, r *rand.Rand, kind string, n int, opts ...*c11BuildOpt) *c11Case {
	var opt *c11BuildOpt
	if len(opts) > 0 {
		opt = opts[0]
	}
	prof := &gen.Profile{NullProb: []float64{0.1, 0.5}[r.Intn(2)], MaxLen: 1 + r.Intn(3), SmallDomain: r.Intn(2) == 0}
	if n >= 400 { // repeated columns beyond the 1024-value batches of the column-oriented re-encode path
		prof.NullProb, prof.MaxLen = 0.1, 3+r.Intn(2)
	}
	rows := e.NewRows(n)
	gen.FillRows(r, rows, prof)
	a := c11RandCfg(r, e.Schema)
	if opt != nil && opt.tweakA != nil {
		opt.tweakA(a)
	}
	if a.MaxRows > 0 && a.MaxRows < 4 && n > 40 {
		n = 40
		rows = rows.Slice(0, n)
	}
	var b *c11Cfg
	if opt != nil && opt.makeB != nil {
		b = opt.makeB(r, a)
	} else if r.Intn(2) == 0 {
		b = c11CfgLike(r, a, e.Schema)
	} else {
		b = c11RandCfg(r, e.Schema)
	}
	c := &c11Case{entry: e, kind: kind, a: a, b: b, schema: e.Schema, keyCol: -1}
	texts := func(rv reflect.Value) {
		for i := 0; i < rv.Len(); i++ {
			var one gen.Shredder
			c.valTexts = append(c.valTexts, one.ShredRow(e.Schema, rv.Index(i)))
		}
	}
	fail := func(what string, err error) *c11Case {
		ctx.Hist("skipped", what+" kind="+kind)
		_ = err
		return nil
	}
	openRows := func(rv reflect.Value, cfg *c11Cfg, extra ...parquet.WriterOption) *c11File {
		file, err := c11WriteFile(e, rv, cfg, extra...)
		if err != nil {
			return nil
		}
		cf, err := env.open(file, rv, cfg.Dec...)
		if err != nil {
			return nil
		}
		return cf
	}
	fileSources := func(cf *c11File, k string) (out []*c11Source) {
		for i, rg := range cf.rgs {
			out = append(out, &c11Source{kind: k, rg: rg, rows: []reflect.Value{cf.rows[i]}})
		}
		return
	}
	pickSchema := func(rg parquet.RowGroup) {
		if !parquet.EqualNodes(e.Schema, rg.Schema()) || r.Intn(3) == 0 {
			c.schema = rg.Schema()
		}
	}
	switch kind {
	case "file", "foreign", "foreign-skip":
		cf := openRows(rows, a)
		if cf == nil {
			return fail("source-write", nil)
		}
		texts(rows)
		c.srcs = fileSources(cf, kind)
		c.srcDesc = fmt.Sprintf("%d row groups of one file", len(c.srcs))
		if len(c.srcs) > 0 {
			pickSchema(c.srcs[0].rg)
		}
		if kind == "foreign" {
			for _, s := range c.srcs {
				s.rg = c11Foreign{s.rg}
			}
		}
		if kind == "foreign-skip" {
			for _, s := range c.srcs {
				s.rg, s.rows = c11ForeignSkip{s.rg}, nil
				c.falseCounts = true
			}
		}
	case "buffer":
		texts(rows)
		var rg parquet.RowGroup
		if r.Intn(2) == 0 {
			g, err := e.NewGenericBuffer(rows.Interface())
			if err != nil {
				return fail("buffer", err)
			}
			rg, c.srcDesc = g, "GenericBuffer"
		} else {
			buf := parquet.NewBuffer(e.Schema)
			for i := 0; i < n; i++ {
				if err := buf.Write(rows.Index(i).Addr().Interface()); err != nil {
					return fail("buffer", err)
				}
			}
			rg, c.srcDesc = buf, "Buffer"
		}
		c.srcs = []*c11Source{{kind: kind, rg: rg, rows: []reflect.Value{rows}}}
	case "range":
		cf := openRows(rows, a)
		if cf == nil {
			return fail("source-write", nil)
		}
		texts(rows)
		for i, rg := range cf.rgs {
			m := rg.NumRows()
			if m < 2 {
				c.srcs = append(c.srcs, &c11Source{kind: "file", rg: rg, rows: []reflect.Value{cf.rows[i]}})
				continue
			}
			// two adjacent views covering the row group: [0,k) and [k,m)
			k := 1 + r.Int63n(m-1)
			c.srcs = append(c.srcs,
				&c11Source{kind: kind, rg: parquet.VerifNewRowRangeRowGroup(rg, 0, k), rows: []reflect.Value{cf.rows[i].Slice(0, int(k))}},
				&c11Source{kind: kind, rg: parquet.VerifNewRowRangeRowGroup(rg, k, m-k), rows: []reflect.Value{cf.rows[i].Slice(int(k), int(m))}})
		}
		c.srcDesc = fmt.Sprintf("%d range views / row groups", len(c.srcs))
	case "multi", "multi-wrapper", "merged-unsorted", "multi-nested":
		// 2-3 files (the first under A, the others under A or another configuration), all their row groups
		texts(rows)
		cuts := []int{0, n / 3, n / 2, n}
		if r.Intn(2) == 0 {
			cuts = []int{0, n / 2, n}
		}
		var children []parquet.RowGroup
		var goRows []reflect.Value
		for i := 0; i+1 < len(cuts); i++ {
			cfg := a
			if i > 0 && r.Intn(2) == 0 {
				cfg = c11RandCfg(r, e.Schema)
			}
			part := rows.Slice(cuts[i], cuts[i+1])
			if i == 1 && r.Intn(3) == 0 && part.Len() > 0 { // a buffer among the files
				g, err := e.NewGenericBuffer(part.Interface())
				if err != nil {
					return fail("buffer", err)
				}
				children = append(children, g)
				goRows = append(goRows, part)
				continue
			}
			cf := openRows(part, cfg)
			if cf == nil {
				return fail("source-write", nil)
			}
			for j, rg := range cf.rgs {
				if kind == "multi" && rg.NumRows() >= 2 && (r.Intn(4) == 0 || (opt != nil && opt.views && r.Intn(2) == 0)) {
					k := 1 + r.Int63n(rg.NumRows()-1)
					children = append(children, parquet.VerifNewRowRangeRowGroup(rg, 0, k), parquet.VerifNewRowRangeRowGroup(rg, k, rg.NumRows()-k))
				} else if kind == "multi" && r.Intn(6) == 0 {
					children = append(children, c11Foreign{rg})
				} else {
					children = append(children, rg)
				}
				goRows = append(goRows, cf.rows[j])
			}
		}
		if len(children) == 0 {
			return fail("no-row-groups", nil)
		}
		switch kind {
		case "multi":
			c.srcs = []*c11Source{{kind: kind, rg: parquet.MultiRowGroup(children...), rows: goRows, leaves: children}}
			c.srcDesc = fmt.Sprintf("MultiRowGroup of %d", len(children))
		case "multi-nested":
			// MultiRowGroup(MultiRowGroup(file..., wrapper, ...), rest...): the inner multi row group
			// mixes members that read their chunks in order with a row-dropping wrapper
			for len(children) < 3 {
				children = append(children, children[0])
			}
			k := 2 + r.Intn(len(children)-2) // members of the inner multi row group
			w := r.Intn(k)
			plain := (w + 1) % k
			children[w] = c11ForeignSkip{children[w]}
			c.falseCounts = true
			if _, isFile := children[plain].(*parquet.FileRowGroup); !isFile {
				ctx.Hist("multi-nested-inner-plain-member", fmt.Sprintf("%T", children[plain]))
			}
			inner := parquet.MultiRowGroup(children[:k]...)
			outer := parquet.MultiRowGroup(append([]parquet.RowGroup{inner}, children[k:]...)...)
			c.srcs = []*c11Source{{kind: kind, rg: outer, leaves: children}}
			c.srcDesc = fmt.Sprintf("MultiRowGroup(MultiRowGroup of %d with member %d wrapped by a row-dropping foreign RowGroup, %d more)", k, w, len(children)-k)
			if r.Intn(2) == 0 {
				// MaxRowsPerRowGroup below every segment: no fast path, the row path reads the outer Rows()
				minRows := inner.NumRows()
				for _, ch := range children[k:] {
					if ch.NumRows() < minRows {
						minRows = ch.NumRows()
					}
				}
				if minRows >= 2 {
					nb := *c.b
					nb.MaxRows = 1 + r.Int63n(minRows-1)
					nb.Opts = append(append([]parquet.WriterOption{}, c.b.Opts...), parquet.MaxRowsPerRowGroup(nb.MaxRows))
					nb.Desc = c.b.Desc + fmt.Sprintf(" maxrows:=%d(below every segment)", nb.MaxRows)
					c.b = &nb
				}
			}
		case "multi-wrapper":
			w := r.Intn(len(children))
			children[w] = c11ForeignSkip{children[w]}
			c.falseCounts = true
			c.srcs = []*c11Source{{kind: kind, rg: parquet.MultiRowGroup(children...), leaves: children}}
			c.srcDesc = fmt.Sprintf("MultiRowGroup of %d, child %d wrapped by a row-dropping foreign RowGroup", len(children), w)
		default:
			m, err := parquet.MergeRowGroups(children)
			if err != nil {
				return fail("merge", err)
			}
			c.srcs = []*c11Source{{kind: kind, rg: m}}
			c.srcDesc = fmt.Sprintf("MergeRowGroups of %d without sorting columns", len(children))
			c.schema = m.Schema()
		}
	case "merged-packed":
		// MergeRowGroups of 2-4 sorted files / sorted buffers with pairwise disjoint key ranges:
		// a sortedSegmentRowGroup whose segments writeSegmentsPacked packs column by column; the
		// destination's MaxRowsPerRowGroup sits around the total and it already buffers rows
		key, col, typ, ok := c11SortKey(e.Schema)
		if !ok {
			return fail("no-sort-key", nil)
		}
		rows = c11SortRows(e, rows, col, typ)
		texts(rows)
		var changes []int // positions where the key changes
		{
			var prev parquet.Value
			for i := 0; i < n; i++ {
				var k parquet.Value
				for _, v := range e.Schema.Deconstruct(nil, rows.Index(i).Addr().Interface()) {
					if v.Column() == col {
						k = v.Clone()
					}
				}
				if i > 0 && typ.Compare(prev, k) != 0 {
					changes = append(changes, i)
				}
				prev = k
			}
		}
		if len(changes) == 0 {
			return fail("single-key", nil)
		}
		r.Shuffle(len(changes), func(i, j int) { changes[i], changes[j] = changes[j], changes[i] })
		ncut := 1 + r.Intn(3)
		if ncut > len(changes) {
			ncut = len(changes)
		}
		cuts := append([]int{0, n}, changes[:ncut]...)
		sort.Ints(cuts)
		sortingW := parquet.SortingWriterConfig(parquet.SortingColumns(parquet.Ascending(key)))
		sortingB := parquet.SortingRowGroupConfig(parquet.SortingColumns(parquet.Ascending(key)))
		var children []parquet.RowGroup
		for i := 0; i+1 < len(cuts); i++ {
			part := rows.Slice(cuts[i], cuts[i+1])
			if r.Intn(4) == 0 {
				g, err := e.NewGenericBuffer(part.Interface(), sortingB)
				if err != nil {
					return fail("buffer", err)
				}
				children = append(children, g)
				continue
			}
			cfg := a
			if i > 0 && r.Intn(2) == 0 {
				cfg = c11RandCfg(r, e.Schema)
			}
			cf := openRows(part, cfg, sortingW, parquet.MaxRowsPerRowGroup(1<<20))
			if cf == nil {
				return fail("source-write", nil)
			}
			children = append(children, cf.rgs...)
		}
		r.Shuffle(len(children), func(i, j int) { children[i], children[j] = children[j], children[i] })
		// one case in four drops duplicated rows: deduplication spans the (disjoint) segments and
		// each input may hold repeated keys, so no segment may be written on its own
		mergeCfg, dropping := sortingB, ""
		if r.Intn(4) == 0 {
			mergeCfg = parquet.SortingRowGroupConfig(parquet.SortingColumns(parquet.Ascending(key)), parquet.DropDuplicatedRows(true))
			dropping = " dropping duplicated rows"
		}
		m, err := parquet.MergeRowGroups(children, mergeCfg)
		if err != nil {
			return fail("merge", err)
		}
		c.srcs = []*c11Source{{kind: kind, rg: m}}
		c.srcDesc = fmt.Sprintf("MergeRowGroups of %d disjoint sorted files/buffers by %s%s (%T)", len(children), key, dropping, m)
		c.schema = m.Schema()
		if leaf, ok := c.schema.Lookup(key); ok {
			c.keyCol = leaf.ColumnIndex
		}
		maxRows := []int64{int64(n), int64(n) + 1, int64(n) - 1, 2 * int64(n), int64(n)/2 + 1}[r.Intn(5)]
		if maxRows < 1 {
			maxRows = 1
		}
		nb := *c.b
		nb.Opts = append(append([]parquet.WriterOption{}, c.b.Opts...), parquet.MaxRowsPerRowGroup(maxRows))
		nb.MaxRows = maxRows
		nb.Desc = c.b.Desc + fmt.Sprintf(" maxrows:=%d", maxRows)
		c.b = &nb
		c.prefix = []int{1, 2, n/3 + 1, n}[r.Intn(4)]
	case "merged-sorted", "merged-dedup", "dedup":
		key, col, typ, ok := c11SortKey(e.Schema)
		if !ok {
			return fail("no-sort-key", nil)
		}
		rows = c11SortRows(e, rows, col, typ)
		texts(rows)
		sorting := parquet.SortingWriterConfig(parquet.SortingColumns(parquet.Ascending(key)))
		var parts []reflect.Value
		switch {
		case kind == "dedup":
			parts = []reflect.Value{rows}
		case r.Intn(2) == 0: // disjoint key ranges
			parts = []reflect.Value{rows.Slice(0, n/2), rows.Slice(n/2, n)}
		default: // interleaved: overlapping key ranges
			ev, od := reflect.MakeSlice(rows.Type(), 0, n), reflect.MakeSlice(rows.Type(), 0, n)
			for i := 0; i < n; i++ {
				if i%3 == 0 {
					od = reflect.Append(od, rows.Index(i))
				} else {
					ev = reflect.Append(ev, rows.Index(i))
				}
			}
			parts = []reflect.Value{ev, od}
			if n > 6 { // plus a disjoint tail
				parts = []reflect.Value{ev.Slice(0, ev.Len()-2), od.Slice(0, od.Len()-1), rows.Slice(n-1, n)}
			}
		}
		var children []parquet.RowGroup
		for i, p := range parts {
			if p.Len() == 0 {
				continue
			}
			cfg := a
			if i > 0 && r.Intn(2) == 0 {
				cfg = c11RandCfg(r, e.Schema)
			}
			// one row group per file so that every input is sorted as a whole
			cf := openRows(p, cfg, sorting, parquet.MaxRowsPerRowGroup(1<<20))
			if cf == nil {
				return fail("source-write", nil)
			}
			children = append(children, cf.rgs...)
		}
		if len(children) == 0 {
			return fail("no-row-groups", nil)
		}
		opts := []parquet.SortingOption{parquet.SortingColumns(parquet.Ascending(key))}
		if kind != "merged-sorted" {
			opts = append(opts, parquet.DropDuplicatedRows(true))
		}
		m, err := parquet.MergeRowGroups(children, parquet.SortingRowGroupConfig(opts...))
		if err != nil {
			return fail("merge", err)
		}
		c.srcs = []*c11Source{{kind: kind, rg: m}}
		c.srcDesc = fmt.Sprintf("MergeRowGroups of %d sorted by %s (%T)", len(children), key, m)
		c.schema = m.Schema()
		if leaf, ok := c.schema.Lookup(key); ok {
			c.keyCol = leaf.ColumnIndex
		}
	case "converted":
		cf := openRows(rows, a)
		if cf == nil {
			return fail("source-write", nil)
		}
		texts(rows)
		fields := e.Schema.Fields()
		g := parquet.Group{}
		variant := r.Intn(3)
		for i, f := range fields {
			if variant == 0 && i == len(fields)-1 && len(fields) > 1 {
				continue // drop the last column
			}
			g[f.Name()] = f
		}
		if variant != 0 {
			g["zz_added"] = parquet.Optional(parquet.Leaf(parquet.Int64Type))
		}
		target := parquet.NewSchema(e.Schema.Name(), g)
		conv, err := parquet.Convert(target, e.Schema)
		if err != nil {
			return fail("convert", err)
		}
		for _, rg := range cf.rgs {
			c.srcs = append(c.srcs, &c11Source{kind: kind, rg: parquet.ConvertRowGroup(rg, conv)})
		}
		c.schema = target
		c.srcDesc = fmt.Sprintf("ConvertRowGroup variant %d of %d row groups", variant, len(cf.rgs))
	}
	if len(c.srcs) == 0 {
		return fail("no-row-groups", nil)
	}
	if kind != "merged-packed" && r.Intn(3) == 0 {
		c.prefix = []int{1, 2, 7, 50, n}[r.Intn(5)]
	}
	c.reuse = r.Intn(4) == 0
	return c
}

func c11HasBytesLeaf(schema *parquet.Schema) bool {
	for _, p := range schema.Columns() {
		if leaf, ok := schema.Lookup(p...); ok {
			if k := leaf.Node.Type().Kind(); k == parquet.ByteArray || k == parquet.FixedLenByteArray {
				return true
			}
		}
	}
	return false
}

// c11DictLeaves: non-boolean leaves whose schema asks for dictionary encoding
func c11DictLeaves(schema *parquet.Schema) (out [][]string) {
	for _, p := range schema.Columns() {
		leaf, ok := schema.Lookup(p...)
		if !ok || leaf.Node.Type().Kind() == parquet.Boolean {
			continue
		}
		if enc := leaf.Node.Encoding(); enc != nil && enc.Encoding() == format.RLEDictionary {
			out = append(out, p)
		}
	}
	return
}

// c11BloomLeaves: the leaves a bloom filter can be configured on (not BOOLEAN), repeated ones apart
func c11BloomLeaves(schema *parquet.Schema) (repeated, flat [][]string) {
	for _, p := range schema.Columns() {
		leaf, ok := schema.Lookup(p...)
		if !ok || leaf.Node.Type().Kind() == parquet.Boolean {
			continue
		}
		if leaf.MaxRepetitionLevel > 0 {
			repeated = append(repeated, p)
		} else {
			flat = append(flat, p)
		}
	}
	return
}

// c11SetBloom returns cfg with its bloom filter settings replaced (later options override earlier ones)
func c11SetBloom(cfg *c11Cfg, paths [][]string, bpv uint, comp int, note string) *c11Cfg {
	nb := *cfg
	nb.Bloom = map[string]uint{}
	var filters []parquet.BloomFilterColumn
	var names []string
	for _, p := range paths {
		nb.Bloom[strings.Join(p, ".")] = bpv
		filters = append(filters, parquet.SplitBlockFilter(bpv, p...))
		names = append(names, strings.Join(p, "."))
	}
	nb.Opts = append(append([]parquet.WriterOption{}, cfg.Opts...), parquet.BloomFilters(filters...))
	nb.BloomGzip = comp == 2
	switch comp { // 0: BloomFilterCompression left nil
	case 1:
		nb.Opts = append(nb.Opts, parquet.BloomFilterCompression(&parquet.Uncompressed))
	case 2:
		nb.Opts = append(nb.Opts, parquet.BloomFilterCompression(&parquet.Gzip))
	}
	nb.Desc = cfg.Desc + fmt.Sprintf(" %sbloom:=%d@%s bloomcodec:=%s", note, bpv, strings.Join(names, "+"), []string{"unset", "uncompressed", "gzip"}[comp])
	return &nb
}

// c11BloomOpt: source and destination both build bloom filters on the same leaves (a repeated one
// two times in three when the type has any); the axes are the bits per value, the codec of the
// filter sections on either side (unset / uncompressed / gzip), the page codec (so that the filter
// codec equals, and differs from, the page codec of the source), and MaxRowsPerRowGroup large enough
// for every segment of the source to be packed into one row group.
func c11BloomOpt(rb *rand.Rand, schema *parquet.Schema) *c11BuildOpt {
	repeated, flat := c11BloomLeaves(schema)
	if len(repeated)+len(flat) == 0 {
		return nil
	}
	var paths [][]string
	if len(repeated) > 0 && (len(flat) == 0 || rb.Intn(3) > 0) {
		paths = append(paths, repeated[rb.Intn(len(repeated))])
		if len(flat) > 0 && rb.Intn(3) == 0 {
			paths = append(paths, flat[rb.Intn(len(flat))])
		}
	} else {
		paths = append(paths, flat[rb.Intn(len(flat))])
	}
	bpv := []uint{1, 8, 10, 16}[rb.Intn(4)]
	compA := []int{0, 0, 1, 2}[rb.Intn(4)]
	pageCodec := []string{"", "", "gzip", "gzip", "none", "snappy"}[rb.Intn(6)]
	return &c11BuildOpt{
		views: true,
		tweakA: func(a *c11Cfg) {
			na := c11SetBloom(a, paths, bpv, compA, "")
			if pageCodec != "" {
				na.Opts = append(na.Opts, parquet.Compression(gen.Codecs[pageCodec]))
				na.Desc += " codec:=" + pageCodec
			}
			if a.MaxRows > 0 && rb.Intn(2) == 0 {
				na.MaxRows = 0
				na.Opts = append(na.Opts, parquet.MaxRowsPerRowGroup(1<<40))
				na.Desc += " maxrows:=unbounded"
			}
			*a = *na
		},
		makeB: func(r *rand.Rand, a *c11Cfg) *c11Cfg {
			var b *c11Cfg
			switch r.Intn(4) {
			case 0: // another bits-per-value figure
				b = c11SetBloom(a, paths, []uint{1, 8, 10, 16}[r.Intn(4)], compA, "| like-A ")
			case 1: // drawn independently, same filter columns
				b = c11SetBloom(c11RandCfg(r, schema), paths, bpv, r.Intn(3), "")
			default: // only the codec of the filter sections re-drawn
				b = c11SetBloom(a, paths, bpv, r.Intn(3), "| like-A ")
			}
			if b.MaxRows > 0 && r.Intn(2) == 0 {
				b.MaxRows = 0
				b.Opts = append(b.Opts, parquet.MaxRowsPerRowGroup(1<<40))
				b.Desc += " maxrows:=unbounded"
			}
			return b
		},
	}
}

// c11FallbackBloom turns the destination of a built case into one whose dictionary-encoded column
// `path` carries a bloom filter and overflows its dictionary in the middle of the chunk (small
// DictionaryMaxBytes, small pages): the filter is pre-sized by WriteRowGroup and must contain the
// values of the dictionary pages written before the switch to PLAIN as well as the later ones.
func c11FallbackBloom(r *rand.Rand, c *c11Case, path []string) {
	dm := []int64{48, 200, 1000}[r.Intn(3)]
	pb := []int{48, 200}[r.Intn(2)]
	bpv := []uint{8, 10, 16}[r.Intn(3)]
	nb := *c.b
	nb.Opts = append(append([]parquet.WriterOption{}, c.b.Opts...), parquet.DictionaryMaxBytes(dm), parquet.PageBufferSize(pb),
		parquet.BloomFilters(parquet.SplitBlockFilter(bpv, path...)))
	nb.Bloom = map[string]uint{strings.Join(path, "."): bpv}
	nb.Desc = c.b.Desc + fmt.Sprintf(" | dictmax:=%d pagebuf:=%d bloom:=%d@%s (dictionary fallback under a pre-sized filter)", dm, pb, bpv, strings.Join(path, "."))
	c.b = &nb
}

// F9 as a fixed case, run first: source with page statistics and ColumnIndexSizeLimit 64,
// destination DataPageStatistics(false) and limit 8.
func c11F9(ctx *core.Ctx, env *c11Env, d interface {
	AskMany([]string) ([]string, error)
}) {
	e := gen.ByName("T005") // { float64 split; string optional delta; float32 split }
	if e == nil {
		e = gen.Catalog[0]
	}
	n := 100
	rows := e.NewRows(n)
	r := rand.New(rand.NewSource(9))
	gen.FillRows(r, rows, &gen.Profile{NullProb: 0.1, MaxLen: 2})
	lim := func(n int) parquet.WriterOption { return parquet.ColumnIndexSizeLimit(func([]string) int { return n }) }
	a := &c11Cfg{Opts: []parquet.WriterOption{parquet.DataPageStatistics(true), lim(64)}, Stats: true, IndexLimit: 64, Bloom: map[string]uint{}, Desc: "pagestats=true limit=64"}
	b := &c11Cfg{Opts: []parquet.WriterOption{parquet.DataPageStatistics(false), lim(8)}, Stats: false, IndexLimit: 8, Bloom: map[string]uint{}, Desc: "pagestats=false limit=8"}
	file, err := c11WriteFile(e, rows, a)
	if err != nil {
		ctx.Fail("L2", "fixed-case-unbuildable", err.Error(), nil)
		return
	}
	cf, err := env.open(file, rows)
	if err != nil {
		ctx.Fail("L2", "fixed-case-unbuildable", err.Error(), nil)
		return
	}
	c := &c11Case{entry: e, kind: "file", a: a, b: b, schema: e.Schema, srcDesc: "fixed case F9", keyCol: -1}
	for i := 0; i < n; i++ {
		var one gen.Shredder
		c.valTexts = append(c.valTexts, one.ShredRow(e.Schema, rows.Index(i)))
	}
	for i, rg := range cf.rgs {
		c.srcs = append(c.srcs, &c11Source{kind: "file", rg: rg, rows: []reflect.Value{cf.rows[i]}})
	}
	c11Run(ctx, env, d, c, true)
}

func RunC11(ctx *core.Ctx) {
	ctx.SetRule("catalogue struct types x random rows x source configuration A x destination configuration B (page version, codec, page buffer, MaxRowsPerRowGroup, dictionary limit, DataPageStatistics on/off, SkipPageStatistics, SkipPageBounds, deprecated statistics, ColumnIndexSizeLimit 1..64, default encodings, bloom filters; B either drawn independently or A with one axis changed) x source kind {file row groups, Buffer/GenericBuffer, row-range views, MultiRowGroup (files, views, buffers, foreign children), MergeRowGroups unsorted / sorted / dropping duplicates, dedup wrapper, ConvertRowGroup, foreign RowGroup, row-dropping foreign RowGroup, MultiRowGroup over a row-dropping child, MergeRowGroups of 2-4 disjoint sorted files/buffers (packed segments; one in four dropping duplicated rows) with MaxRowsPerRowGroup around the total} x destination writer already buffering rows from WriteRows (one case in three, always for packed merges); destination writer Reset onto a fresh buffer and handed the same rows and row groups once more (one case in four, always when chunks were spliced: all oracles on the second output, counters repeat, source file metadata unchanged); nested MultiRowGroups mixing file and wrapper members with MaxRowsPerRowGroup below every segment; deferred bloom filter buffers; bloom filter settings on both sides (stream c11-bloom: bits per value, BloomFilterCompression unset / uncompressed / gzip against page codecs gzip / none / snappy, filters on repeated leaves, half of the row groups of a MultiRowGroup handed over as two row-range views next to whole row groups, MaxRowsPerRowGroup unbounded so that views and whole row groups are packed together); sources of 600/1030 rows (repeated columns beyond the 1024-value re-encode batches); oracle on the output: readable row by row and accepted by the C02 Lean spec reader (file.check), rows of (nested) multi row groups = members' Rows() in order, rows/order, settings, every row group <= MaxRowsPerRowGroup, configured bloom filters contain every stored value, have the bitset size their bits-per-value figure prescribes for the dictionary entries / values of their chunk (or the size the row path gives a chunk of the same shape; not judged under a row-dropping harness wrapper, whose value counts are false) and are stored under the configured filter codec; non-trivial = at least 2 rows and A differs from B")
	// fixed case first (corpus)
	{
		env := &c11Env{chunkOf: map[*parquet.FileColumnChunk]*c11Chunk{}}
		if d := ctx.Driver(); d != nil {
			c11F9(ctx, env, d)
		} else {
			c11F9(ctx, env, nil)
		}
	}
	per := ctx.Scale(3, 22) // cases per (type, kind); 22 since round 4 (the reuse pass repeats the oracle on about a third of the cases)
	var wg sync.WaitGroup
	sem := make(chan struct{}, 16)
	for ei, e := range gen.Catalog {
		wg.Add(1)
		sem <- struct{}{}
		go func(ei int, e *gen.Entry) {
			defer wg.Done()
			defer func() { <-sem }()
			d := ctx.Driver()
			r := ctx.Rand("c11/" + e.Name)
			for ki, kind := range c11KindNames {
				reps := per
				if kind == "merged-packed" {
					reps = 4 * per // few catalogue types have a sort key
				}
				for k := 0; k < reps; k++ {
					n := []int{1, 2, 3, 9, 33, 64, 65, 100, 130, 257}[r.Intn(10)]
					if kind == "merged-packed" && n < 9 {
						n = 9 + 8*n
					}
					switch kind {
					case "buffer", "file", "range", "multi", "merged-packed", "foreign":
						if r.Intn(8) == 0 {
							n = []int{600, 1030}[r.Intn(2)]
						}
					}
					env := &c11Env{chunkOf: map[*parquet.FileColumnChunk]*c11Chunk{}}
					var c *c11Case
					func() {
						defer func() {
							if rec := recover(); rec != nil {
								ctx.Fail("L1", "panic-building-source kind="+kind, fmt.Sprintf("building the source row group panicked: %v", rec), map[string]any{"type": e.Name, "kind": kind})
							}
						}()
						c = c11Build(ctx, env, e, r, kind, n)
					}()
					if c == nil {
						continue
					}
					if d == nil {
						c11Run(ctx, env, nil, c, false)
					} else {
						c11Run(ctx, env, d, c, ei == 1 && k == 0 && ki < 4)
					}
				}
			}
			// the destination is the source configuration with a smaller ColumnIndexSizeLimit (source
			// written with limit 64): the verbatim copy is eligible in every other respect
			if c11HasBytesLeaf(e.Schema) {
				rl := ctx.Rand("c11-limit/" + e.Name)
				shrink := &c11BuildOpt{
					tweakA: func(a *c11Cfg) {
						a.IndexLimit = 64
						a.Opts = append(a.Opts, parquet.ColumnIndexSizeLimit(func([]string) int { return 64 }))
						a.Desc += " limit:=64"
					},
					makeB: func(r *rand.Rand, a *c11Cfg) *c11Cfg {
						lim := []int{1, 2, 4, 8, 16}[r.Intn(5)]
						nb := *a
						nb.IndexLimit = lim
						nb.Opts = append(append([]parquet.WriterOption{}, a.Opts...), parquet.ColumnIndexSizeLimit(func([]string) int { return lim }))
						nb.Desc = a.Desc + fmt.Sprintf(" | like-A limit:=%d", lim)
						return &nb
					},
				}
				for _, kind := range []string{"file", "multi", "range"} {
					for k := 0; k < ctx.Scale(2, 8); k++ {
						env := &c11Env{chunkOf: map[*parquet.FileColumnChunk]*c11Chunk{}}
						var c *c11Case
						func() {
							defer func() {
								if rec := recover(); rec != nil {
									ctx.Fail("L1", "panic-building-source kind="+kind, fmt.Sprintf("building the source row group panicked: %v", rec), map[string]any{"type": e.Name, "kind": kind})
								}
							}()
							c = c11Build(ctx, env, e, rl, kind, []int{9, 33, 100}[rl.Intn(3)], shrink)
						}()
						if c == nil {
							continue
						}
						ctx.Hist("destination-limit-below-source-limit", kind)
						if d == nil {
							c11Run(ctx, env, nil, c, false)
						} else {
							c11Run(ctx, env, d, c, false)
						}
					}
				}
			}
			// modular encryption on the source, on the destination, or on both (same keys)
			{
				re := ctx.Rand("c11-encryption/" + e.Name)
				for _, kind := range []string{"file", "range", "multi", "buffer", "merged-packed"} {
					for k := 0; k < ctx.Scale(1, 4); k++ {
						mode := re.Intn(3)
						opt := &c11BuildOpt{
							tweakA: func(a *c11Cfg) {
								if mode != 1 {
									*a = *c11Encrypted(re, a, e.Schema)
								}
							},
							makeB: func(r *rand.Rand, a *c11Cfg) *c11Cfg {
								var b *c11Cfg
								switch {
								case mode == 2: // same configuration and keys, possibly one axis changed
									b = c11CfgLike(r, a, e.Schema)
									b.Enc, b.Dec = a.Enc, a.Dec
								case r.Intn(2) == 0:
									plain := *a
									if a.Enc { // A without its encryption option (the last one appended)
										plain.Opts, plain.Enc, plain.Dec = a.Opts[:len(a.Opts)-1], false, nil
										plain.Desc = a.Desc + " | like-A without encryption"
									}
									b = c11CfgLike(r, &plain, e.Schema)
								default:
									b = c11RandCfg(r, e.Schema)
								}
								if mode == 1 {
									b = c11Encrypted(r, b, e.Schema)
								}
								return b
							},
						}
						env := &c11Env{chunkOf: map[*parquet.FileColumnChunk]*c11Chunk{}}
						var c *c11Case
						func() {
							defer func() {
								if rec := recover(); rec != nil {
									ctx.Fail("L1", "panic-building-source kind="+kind, fmt.Sprintf("building the source row group panicked: %v", rec), map[string]any{"type": e.Name, "kind": kind, "encryption_mode": mode})
								}
							}()
							c = c11Build(ctx, env, e, re, kind, []int{3, 33, 100, 257}[re.Intn(4)], opt)
						}()
						if c == nil {
							continue
						}
						if d == nil {
							c11Run(ctx, env, nil, c, false)
						} else {
							c11Run(ctx, env, d, c, false)
						}
					}
				}
			}
			// bloom filter settings: bits per value and filter codec on both sides, filter codec against
			// page codec, range views packed with whole row groups (the settings oracle's bloom clauses)
			{
				rb := ctx.Rand("c11-bloom/" + e.Name)
				for _, kind := range []string{"file", "range", "multi", "merged-packed", "buffer"} {
					for k := 0; k < ctx.Scale(2, 8); k++ {
						opt := c11BloomOpt(rb, e.Schema)
						if opt == nil {
							continue
						}
						env := &c11Env{chunkOf: map[*parquet.FileColumnChunk]*c11Chunk{}}
						var c *c11Case
						func() {
							defer func() {
								if rec := recover(); rec != nil {
									ctx.Fail("L1", "panic-building-source kind="+kind, fmt.Sprintf("building the source row group panicked: %v", rec), map[string]any{"type": e.Name, "kind": kind})
								}
							}()
							c = c11Build(ctx, env, e, rb, kind, []int{9, 33, 100, 257, 600}[rb.Intn(5)], opt)
						}()
						if c == nil {
							continue
						}
						ctx.Hist("bloom-settings-axis", fmt.Sprintf("kind=%s source-gzip=%v destination-gzip=%v", kind, c.a.BloomGzip, c.b.BloomGzip))
						if d == nil {
							c11Run(ctx, env, nil, c, false)
						} else {
							c11Run(ctx, env, d, c, false)
						}
					}
				}
			}
			// dictionary fallback in the middle of a chunk under a bloom filter, per dictionary leaf
			rf := ctx.Rand("c11-fallback/" + e.Name)
			for _, path := range c11DictLeaves(e.Schema) {
				for _, kind := range []string{"buffer", "file", "multi", "merged-packed"} {
					for k := 0; k < ctx.Scale(1, 6); k++ {
						env := &c11Env{chunkOf: map[*parquet.FileColumnChunk]*c11Chunk{}}
						var c *c11Case
						func() {
							defer func() {
								if rec := recover(); rec != nil {
									ctx.Fail("L1", "panic-building-source kind="+kind, fmt.Sprintf("building the source row group panicked: %v", rec), map[string]any{"type": e.Name, "kind": kind})
								}
							}()
							c = c11Build(ctx, env, e, rf, kind, []int{130, 257, 600}[rf.Intn(3)])
						}()
						if c == nil {
							continue
						}
						if _, ok := c.schema.Lookup(path...); !ok {
							continue
						}
						c11FallbackBloom(rf, c, path)
						if d == nil {
							c11Run(ctx, env, nil, c, false)
						} else {
							c11Run(ctx, env, d, c, false)
						}
					}
				}
			}
		}(ei, e)
	}
	wg.Wait()
}
