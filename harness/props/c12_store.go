package props

// Property C12, sub-checks "mask" and "store": L2 ties for the mirrors of Props/C12AddDrop and
// Props/C12Seek (fourth wave of round 6). Until now nothing compared these two mirrors with the
// functions they transliterate.
//
// mask: `unmasked` (the un-masking loop of maskMissingRowGroupColumns, convert.go) against the
// masked copy a real ConvertRowGroup(...) reads its rows through - hook VerifConvertedSourceMask:
// which source columns are *missingColumnChunk - for random source schemas and targets that
// add AND drop columns (the shape the slip of seed C12-6a needs), over a Buffer, a file row group
// and a MultiRowGroup; `reads` (the source columns conversion.Convert reads) behaviourally: the
// real conversion.Convert of a source row must not change when every column outside the mirror's
// `reads` is replaced by the placeholder a masked column yields (one null at definition level 0)
// - the hypothesis `hconv` of masked_conversion_is_conversion, on the real function.
//
// store: the storage-level mirrors `fill`, `copyLoop`, `seekBatch` against the real
// forwardRowSeeker.ReadRows (reached through the public API: ConvertRowReader with the identity
// conversion hands the caller's buffer straight to it), call by call over a history of
// ReadRows/SeekToRow with two caller buffers whose slots are prepared by the harness: distinct
// arrays, slots SHARING an array (inside a buffer and across the two), fresh nil slots. After
// every call: the count, which slots share storage (backing-array pointers of the rows' value
// slices) and what every slot shows.

import (
	"bytes"
	"fmt"
	"io"
	"math/rand"
	"strings"
	"unsafe"

	"github.com/parquet-go/parquet-go"

	"verifharness/core"
)

func init() {
	RegisterSub("C12", "mask", RunC12Mask)
	RegisterSub("C12", "store", RunC12Store)
}

const c12MaskRule = "mask: a case is one (random source schema, target = add then drop+permute / add / drop+permute / permute / widen of it, 0-3 rows, " +
	"source row group as Buffer / file row group / MultiRowGroup of two Buffers); the masked columns of ConvertRowGroup's source copy vs the Lean mirror `unmasked`, " +
	"and conversion.Convert of every row with the columns outside the mirror's `reads` replaced by placeholders; non-trivial = at least one source column masked and at least one target column added"

func RunC12Mask(ctx *core.Ctx) {
	ctx.SetRule(c12MaskRule)
	d := ctx.Driver()
	if d == nil {
		return
	}
	n := ctx.Scale(1500, 30000)
	r := ctx.Rand("c12-mask")
	for k := 0; k < n; k++ {
		func() {
			defer func() {
				if x := recover(); x != nil {
					ctx.Fail("L1", "path-panic:mask:harness-case", fmt.Sprintf("panic in a mask case: %v", x), map[string]any{"case": k})
				}
			}()
			c12MaskCase(ctx, d, r)
		}()
	}
}

func c12MaskCase(ctx *core.Ctx, d c12Asker, r *rand.Rand) {
	g := &c12Gen{r: r}
	src := g.schema()
	shape := []string{"add-drop", "add-drop", "add-drop", "add", "drop-permute", "permute", "widen"}[r.Intn(7)]
	var tgt *c12Node
	var tops []string
	if shape == "add-drop" {
		t1 := g.target(src, "add")
		t2 := g.target(t1.node, "drop-permute")
		tgt, tops = t2.node, append(append([]string(nil), t1.ops...), t2.ops...)
	} else {
		t := g.target(src, shape)
		tgt, tops = t.node, t.ops
	}
	tleaves := tgt.leaves()
	nsrc := len(src.leaves())
	srcS := parquet.NewSchema("src", src.build())
	tgtS := parquet.NewSchema("tgt", tgt.build())
	nrows := r.Intn(4)
	var rows []parquet.Row
	var rowTexts []string
	for i := 0; i < nrows; i++ {
		row := c12RowOf(c12ShredRow(src, c12GenBody(r, src, []float64{0.1, 0.5}[r.Intn(2)], 1+r.Intn(3))))
		rows = append(rows, row)
		rowTexts = append(rowTexts, fmt.Sprintf("%+v", row))
	}
	kind := []string{"buffer", "file", "multi"}[r.Intn(3)]
	detail := func(extra map[string]any) map[string]any {
		m := map[string]any{"source": src.text(), "target": tgt.text(), "shape": shape, "target_ops": tops, "row_group": kind, "source_rows": rowTexts}
		for k, v := range extra {
			m[k] = v
		}
		return m
	}

	var conv parquet.Conversion
	var masked, masked2 []bool
	var isConverted bool
	var colsOf []int
	var convType string
	_, err := c12Guard(func() (*c12Out, error) {
		var err error
		if conv, err = parquet.Convert(tgtS, srcS); err != nil {
			return nil, err
		}
		convType = fmt.Sprintf("%T", conv)
		newBuf := func(rs []parquet.Row) (*parquet.Buffer, error) {
			b := parquet.NewBuffer(srcS)
			for _, row := range rs {
				if _, err := b.WriteRows([]parquet.Row{row.Clone()}); err != nil {
					return nil, err
				}
			}
			return b, nil
		}
		var rg parquet.RowGroup
		switch kind {
		case "buffer":
			if rg, err = newBuf(rows); err != nil {
				return nil, err
			}
		case "multi":
			b1, err := newBuf(rows[:len(rows)/2])
			if err != nil {
				return nil, err
			}
			b2, err := newBuf(rows[len(rows)/2:])
			if err != nil {
				return nil, err
			}
			rg = parquet.MultiRowGroup(b1, b2)
		default:
			var fbuf bytes.Buffer
			w := parquet.NewWriter(&fbuf, srcS)
			for _, row := range rows {
				if _, err := w.WriteRows([]parquet.Row{row.Clone()}); err != nil {
					return nil, err
				}
			}
			if err := w.Close(); err != nil {
				return nil, err
			}
			f, err := parquet.OpenFile(bytes.NewReader(fbuf.Bytes()), int64(fbuf.Len()))
			if err != nil {
				return nil, err
			}
			if len(f.RowGroups()) == 0 {
				kind = "buffer (empty file)"
				if rg, err = newBuf(nil); err != nil {
					return nil, err
				}
			} else {
				rg = f.RowGroups()[0]
			}
		}
		for i := range tleaves {
			colsOf = append(colsOf, conv.Column(i))
		}
		masked, isConverted = parquet.VerifConvertedSourceMask(parquet.ConvertRowGroup(rg, conv))
		masked2 = parquet.VerifMaskMissingColumns(rg, len(tleaves), conv)
		return nil, nil
	})
	if err != nil {
		ctx.Hist("mask: case not run", errClass(err))
		if strings.HasPrefix(err.Error(), "PANIC") {
			ctx.Fail("L1", "path-panic:mask:"+shape, err.Error(), detail(nil))
		}
		return
	}
	if convType != "*parquet.conversion" {
		// EqualNodes(target, source): ConvertRowGroup still masks through identity.Column
		ctx.Hist("mask: conversion type", convType)
	}
	var cols []string
	nadded := 0
	for i, lf := range tleaves {
		added, _, _ := c12AddedShape(src, tgt, lf.path)
		j := "n"
		if colsOf[i] >= 0 {
			j = fmt.Sprint(colsOf[i])
		}
		m := "0"
		if added {
			m = "1"
			nadded++
		}
		cols = append(cols, j+":"+m)
	}
	colText := "-"
	if len(cols) > 0 {
		colText = strings.Join(cols, ",")
	}
	req := "mask.unmasked 0 " + colText
	ans, derr := d.AskMany([]string{req})
	if derr != nil {
		ctx.Fail("L2", "driver-error", derr.Error(), nil)
		return
	}
	parts := strings.Split(ans[0], " | ")
	if len(parts) != 2 || !strings.HasPrefix(parts[0], "ok ") {
		ctx.Fail("L2", "lean-rejects-case", "mask.unmasked: "+ans[0], detail(map[string]any{"request": req}))
		return
	}
	toSet := func(s string) map[int]bool {
		m := map[int]bool{}
		if s != "-" {
			for _, x := range strings.Split(s, ",") {
				var j int
				fmt.Sscan(x, &j)
				m[j] = true
			}
		}
		return m
	}
	unm, reads := toSet(strings.TrimPrefix(parts[0], "ok ")), toSet(parts[1])
	want := make([]bool, nsrc)
	nmasked := 0
	for j := range want {
		want[j] = !unm[j]
		if want[j] {
			nmasked++
		}
	}
	ctx.Case(src.text()+"|"+tgt.text()+"|"+kind+"|"+strings.Join(rowTexts, "|"), nmasked > 0 && nadded > 0)
	ctx.Hist("mask: target shape", shape)
	ctx.Hist("mask: row group", kind)
	ctx.Hist("mask: masked source columns", fmt.Sprint(min(nmasked, 6)))
	ctx.Hist("mask: added target columns", fmt.Sprint(min(nadded, 6)))
	templateDropped := false
	for i, lf := range tleaves {
		if added, _, _ := c12AddedShape(src, tgt, lf.path); added && colsOf[i] >= 0 {
			kept := false
			for i2, lf2 := range tleaves {
				if a2, _, _ := c12AddedShape(src, tgt, lf2.path); !a2 && colsOf[i2] == colsOf[i] {
					kept = true
				}
			}
			if !kept {
				templateDropped = true
			}
		}
	}
	ctx.Hist("mask: an added column's template sibling is dropped by the target", fmt.Sprint(templateDropped))
	if !isConverted && parquet.EqualNodes(tgtS, srcS) {
		// ConvertRowGroup hands back the source row group itself; the un-masking loop is still
		// compared through the direct call
		ctx.Hist("mask: target equals source (ConvertRowGroup returns the source)", kind)
		masked, isConverted = masked2, true
	}
	if !isConverted {
		ctx.Fail("L2", "mask-hook-not-a-converted-row-group", "ConvertRowGroup did not return a *convertedRowGroup", detail(nil))
		return
	}
	if masked == nil {
		ctx.Fail("L2", "mask-source-not-a-masked-copy", "ConvertRowGroup over a "+kind+" does not read through a masked copy", detail(nil))
		return
	}
	if fmt.Sprint(masked) != fmt.Sprint(want) || fmt.Sprint(masked2) != fmt.Sprint(want) {
		which := "masked-column-left-readable"
		for j := range want {
			if j < len(masked) && masked[j] && !want[j] {
				which = "column-read-is-masked"
				if !reads[j] {
					which = "column-masked-though-selected"
				}
			}
		}
		ctx.Fail("L2", "masked-columns-vs-lean-mirror:"+which, "the masked copy of ConvertRowGroup(...) (maskMissingRowGroupColumns) and the Lean mirror `unmasked` disagree on which source columns are masked",
			detail(map[string]any{"request": req, "lean": ans[0], "go_masked": fmt.Sprint(masked), "go_masked_direct_call": fmt.Sprint(masked2), "lean_masked": fmt.Sprint(want)}))
		return
	}
	// `reads`: conversion.Convert does not look at a column outside it
	for i, row := range rows {
		var mrow parquet.Row
		row.Range(func(j int, vs []parquet.Value) bool {
			if reads[j] {
				mrow = append(mrow, vs...)
			} else {
				mrow = append(mrow, parquet.Value{}.Level(0, 0, j))
			}
			return true
		})
		var a, b string
		_, err := c12Guard(func() (*c12Out, error) {
			x := []parquet.Row{row.Clone()}
			if _, err := conv.Convert(x); err != nil {
				return nil, err
			}
			y := []parquet.Row{mrow.Clone()}
			if _, err := conv.Convert(y); err != nil {
				return nil, err
			}
			a, b = fmt.Sprintf("%+v", x[0]), fmt.Sprintf("%+v", y[0])
			return nil, nil
		})
		if err != nil {
			ctx.Hist("mask: Convert of a row fails", errClass(err))
			continue
		}
		if a != b {
			ctx.Fail("L2", "conversion-reads-a-column-outside-lean-mirror-reads", "conversion.Convert of a row changes when the columns outside the mirror's `reads` are replaced by placeholders",
				detail(map[string]any{"request": req, "lean": ans[0], "row": i, "converted": a, "converted_from_masked_row": b, "masked_row": fmt.Sprintf("%+v", mrow)}))
			return
		}
	}
}

// ------------------------------------------------------------------------------------- store

const c12StoreRule = "store: a case is one (flat schema rid + 0-2 columns, 1-60 rows, underlying reader = harness slice reader / Buffer.Rows() / file row group Rows(), " +
	"two caller buffers of 2-16 slots whose slots point at harness-made arrays: all distinct / some shared inside a buffer or across the two / some fresh nil slots, " +
	"a history of 3-12 ReadRows/SeekToRow calls) run through ConvertRowReader(reader, identity) = forwardRowSeeker; after every call the count, the slots sharing storage and the row every slot shows " +
	"vs the Lean mirrors fill/copyLoop/seekBatch; non-trivial = the history holds a seek strictly inside the next batch followed by at least two reads into the same buffer"

func RunC12Store(ctx *core.Ctx) {
	ctx.SetRule(c12StoreRule)
	d := ctx.Driver()
	if d == nil {
		return
	}
	n := ctx.Scale(3000, 60000)
	r := ctx.Rand("c12-store")
	for k := 0; k < n; k++ {
		func() {
			defer func() {
				if x := recover(); x != nil {
					ctx.Fail("L1", "path-panic:store:harness-case", fmt.Sprintf("panic in a store case: %v", x), map[string]any{"case": k})
				}
			}()
			c12StoreCase(ctx, d, r)
		}()
	}
}

func c12StoreCase(ctx *core.Ctx, d c12Asker, r *rand.Rand) {
	extra := r.Intn(3)
	group := parquet.Group{"rid": parquet.Int(64)}
	if extra > 0 {
		group["x"] = parquet.Optional(parquet.Int(64))
	}
	if extra > 1 {
		group["y"] = parquet.Int(64)
	}
	ncols := 1 + extra
	schema := parquet.NewSchema("s", group)
	rowOf := func(id int64) parquet.Row {
		row := parquet.Row{parquet.ValueOf(id).Level(0, 0, 0)}
		if extra > 0 {
			row = append(row, parquet.ValueOf(id*7+1).Level(0, 1, 1))
		}
		if extra > 1 {
			row = append(row, parquet.ValueOf(id*11+2).Level(0, 0, 2))
		}
		return row
	}
	nrows := []int{1, 3, 8, 20, 40, 60}[r.Intn(6)]
	lens := [2]int{2 + r.Intn(15), 2 + r.Intn(15)}
	batch := 1 + r.Intn(min(lens[0], lens[1]))
	ops, nontrivial := c12SeekHistory(r, nrows, batch)
	// slots
	style := []string{"distinct", "distinct", "shared", "shared", "fresh", "mixed"}[r.Intn(6)]
	var ptr [2][]int
	nextArr, nextFresh := 0, 500
	for b := range ptr {
		for i := 0; i < lens[b]; i++ {
			var id int
			switch {
			case (style == "fresh" || style == "mixed") && r.Intn(3) == 0:
				id = nextFresh
				nextFresh++
			case (style == "shared" || style == "mixed") && nextArr > 0 && r.Intn(4) == 0:
				id = r.Intn(nextArr) // an array already in use, in this buffer or the other
			default:
				id = nextArr
				nextArr++
			}
			ptr[b] = append(ptr[b], id)
		}
	}
	arrays := make([][]parquet.Value, nextArr)
	for a := range arrays {
		arr := make([]parquet.Value, ncols, ncols+r.Intn(3))
		copy(arr, rowOf(int64(1000+a)))
		arrays[a] = arr
	}
	var bufs [2][]parquet.Row
	for b := range ptr {
		for _, id := range ptr[b] {
			if id >= 500 {
				bufs[b] = append(bufs[b], nil)
			} else {
				bufs[b] = append(bufs[b], parquet.Row(arrays[id]))
			}
		}
	}
	under := []string{"slice-reader", "buffer-rows", "file-rows"}[r.Intn(3)]
	var opTexts []string
	for i := range ops {
		if ops[i].kind == 'r' {
			ops[i].arg = min(ops[i].arg, lens[ops[i].buf])
			opTexts = append(opTexts, fmt.Sprintf("r%d%c", ops[i].arg, 'A'+ops[i].buf))
		} else {
			opTexts = append(opTexts, fmt.Sprintf("s%d", ops[i].arg))
			ctx.Hist("store: seek target", ops[i].class)
		}
	}
	ptrText := func(p []int) string {
		s := make([]string, len(p))
		for i, x := range p {
			s[i] = fmt.Sprint(x)
		}
		return strings.Join(s, ",")
	}
	req := fmt.Sprintf("seek.store %d %s/%s %s", nrows, ptrText(ptr[0]), ptrText(ptr[1]), strings.Join(opTexts, ";"))
	detail := func(extra map[string]any) map[string]any {
		m := map[string]any{"request": req, "columns": ncols, "underlying_reader": under, "slot_style": style}
		for k, v := range extra {
			m[k] = v
		}
		return m
	}
	ctx.Case(req+"|"+under+fmt.Sprint(ncols), nontrivial)
	ctx.Hist("store: slots", style)
	ctx.Hist("store: underlying reader", under)
	ctx.Hist("store: rows", fmt.Sprint(nrows))

	var got []string
	_, err := c12Guard(func() (*c12Out, error) {
		conv, err := parquet.Convert(schema, schema)
		if err != nil {
			return nil, err
		}
		if t := fmt.Sprintf("%T", conv); t != "parquet.identity" {
			return nil, fmt.Errorf("harness: Convert(s, s) is %s, not the identity", t)
		}
		var rows []parquet.Row
		for i := 0; i < nrows; i++ {
			rows = append(rows, rowOf(int64(i)))
		}
		var ur parquet.RowReader
		switch under {
		case "slice-reader":
			ur = &c12SliceReader{rows: rows, schema: schema}
		case "buffer-rows":
			b := parquet.NewBuffer(schema)
			if _, err := b.WriteRows(rows); err != nil {
				return nil, err
			}
			ur = b.Rows()
		default:
			var fbuf bytes.Buffer
			w := parquet.NewWriter(&fbuf, schema, parquet.PageBufferSize(64))
			if _, err := w.WriteRows(rows); err != nil {
				return nil, err
			}
			if err := w.Close(); err != nil {
				return nil, err
			}
			f, err := parquet.OpenFile(bytes.NewReader(fbuf.Bytes()), int64(fbuf.Len()))
			if err != nil {
				return nil, err
			}
			ur = f.RowGroups()[0].Rows()
		}
		rr := parquet.ConvertRowReader(ur, conv)
		for _, op := range ops {
			if op.kind == 's' {
				if err := rr.(parquet.RowSeeker).SeekToRow(int64(op.arg)); err != nil {
					got = append(got, "err")
				} else {
					got = append(got, "ok")
				}
				continue
			}
			n, err := rr.ReadRows(bufs[op.buf][:op.arg])
			if err != nil && err != io.EOF {
				return nil, err
			}
			got = append(got, fmt.Sprintf("%d|%s", n, c12StoreState(bufs, ncols)))
		}
		return nil, nil
	})
	if err != nil {
		k := "forward-seek-storage:error:" + errClass(err)
		if strings.HasPrefix(err.Error(), "PANIC") {
			k = "path-panic:store:" + under
		}
		ctx.Fail("L1", k, err.Error(), detail(map[string]any{"go_so_far": strings.Join(got, ";")}))
		return
	}
	ans, derr := d.AskMany([]string{req})
	if derr != nil {
		ctx.Fail("L2", "driver-error", derr.Error(), nil)
		return
	}
	want := strings.Split(strings.TrimPrefix(ans[0], "ok "), ";")
	if !strings.HasPrefix(ans[0], "ok ") || len(want) != len(got) {
		ctx.Fail("L2", "lean-rejects-case", "seek.store: "+ans[0], detail(nil))
		return
	}
	for i := range got {
		// A slot the call did not return a row in may have been truncated by the underlying reader
		// (`rows[k] = rows[k][:0]` before it finds the stream exhausted: Buffer.Rows(), file Rows()):
		// the mirror has arrays, not slice lengths, so such a slot (shown `-` by the code) is not compared.
		if g, w := strings.Split(got[i], "|"), strings.Split(want[i], "|"); len(g) == 3 && len(w) == 3 && g[0] == w[0] {
			gs, ws := strings.Split(g[2], ","), strings.Split(w[2], ",")
			lo, hi := 0, 0
			fmt.Sscan(g[0], &hi)
			if ops[i].buf == 1 {
				lo, hi = lens[0], lens[0]+hi
			}
			for k := range gs {
				if k < len(ws) && gs[k] == "-" && (k < lo || k >= hi) && gs[k] != ws[k] {
					ws[k] = "-"
					ctx.Hist("store: slots truncated by the underlying reader (not compared)", under)
				}
			}
			want[i] = w[0] + "|" + w[1] + "|" + strings.Join(ws, ",")
		}
		if got[i] == want[i] {
			continue
		}
		what := "seek-outcome"
		g, w := strings.Split(got[i], "|"), strings.Split(want[i], "|")
		if len(g) == 3 && len(w) == 3 {
			switch {
			case g[0] != w[0]:
				what = "count"
			case g[1] != w[1]:
				what = "slots-sharing-storage"
			default:
				what = "rows-in-slots"
			}
		}
		ctx.Fail("L2", "forward-seek-storage-vs-lean-mirror:"+what, "forwardRowSeeker.ReadRows over the caller's buffers and the Lean storage mirror (fill/copyLoop/seekBatch) disagree",
			detail(map[string]any{"op": i, "op_text": opTexts[i], "go": got[i], "lean": want[i], "go_history": strings.Join(got, ";"), "lean_history": ans[0]}))
		return
	}
}

// c12StoreState: for every slot of A++B the first slot with the same backing array, and the row
// the slot shows (its rid; "torn" when the columns belong to different rows).
func c12StoreState(bufs [2][]parquet.Row, ncols int) string {
	var all []parquet.Row
	all = append(all, bufs[0]...)
	all = append(all, bufs[1]...)
	first := make([]string, len(all))
	shows := make([]string, len(all))
	for i, row := range all {
		first[i] = fmt.Sprint(i)
		if cap(row) > 0 {
			p := unsafe.SliceData(row[:cap(row)])
			for j := 0; j < i; j++ {
				if cap(all[j]) > 0 && unsafe.SliceData(all[j][:cap(all[j])]) == p {
					first[i] = fmt.Sprint(j)
					break
				}
			}
		}
		switch {
		case len(row) == 0:
			shows[i] = "-"
		case len(row) != ncols:
			shows[i] = fmt.Sprintf("len%d", len(row))
		default:
			id := row[0].Int64()
			shows[i] = fmt.Sprint(id)
			if (ncols > 1 && (row[1].IsNull() || row[1].Int64() != id*7+1)) || (ncols > 2 && row[2].Int64() != id*11+2) {
				shows[i] = "torn"
			}
			for c, v := range row {
				if v.Column() != c {
					shows[i] = "torn"
				}
			}
		}
	}
	return strings.Join(first, ",") + "|" + strings.Join(shows, ",")
}
