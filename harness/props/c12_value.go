package props

import (
	"encoding/binary"
	"encoding/hex"
	"errors"
	"fmt"
	"io"
	"math"
	"math/big"
	"math/rand"
	"strconv"
	"strings"

	"github.com/parquet-go/parquet-go"
	"github.com/parquet-go/parquet-go/deprecated"

	"verifharness/core"
)

// Property C12, sub-check "value": the value type conversions behind Convert
// (convertToType = targetType.ConvertValue(v, sourceType) over every value of a retargeted column).
//
// A case is one (target type, source type, column of source values, required|optional).
//   * direct:  targetType.ConvertValue(v, sourceType) for every value (public API), under recover;
//   * L2:      every direct answer against the Lean mirror op `conv.value` (value kind + payload
//              bytes, floats by bit pattern; invalid / panic outcomes included; the numeric
//              int <-> float and double -> float pairs are mirrored bit-exactly (rounding to nearest
//              even, truncation, the amd64 result for NaN / out of range), only FLOAT/DOUBLE/INT96
//              <-> STRING answer `unmodelled` and stay L1);
//   * rows:    the same column is written into a Buffer next to a key column, the buffer is read
//              through ConvertRowGroup(buffer, Convert(target, source)).Rows(): the retargeted
//              column must carry exactly the direct answers, the key column must be untouched,
//              and an invalid value must surface as an error of ReadRows (L1);
//   * L1 oracles written from the property, independent of the mirror: identity when both types
//     are equal; round trip source -> target -> source on the widening pairs (target holds every
//     source value: bool -> anything, int32 -> int64/int96/double/bytes/string, int64 -> int96/bytes/
//     string, int96 -> bytes, float -> double/bytes, double -> bytes, fixed -> hex string,
//     fixed(n) <- 4/8/12 byte values when n is large enough); a null stays null; nothing panics.
//
// Defects of the unchanged library found by this sub-check are recorded as OBSERVATIONS (keys in
// c12ValueFindingPrefixes) until the integrator has entered them in known_findings.json; every
// other difference is a failure.

func init() { RegisterSub("C12", "value", RunC12Value) }

const c12ValueRule = "value: a case is one (target type, source type, 4-10 source values aimed at the boundaries of the pair, required|optional column) " +
	"run through ConvertValue, the Lean mirror and ConvertRowGroup over a Buffer; non-trivial = the types differ and at least one value converts without error to a payload that differs from the source payload"

// keys of defects of the unchanged library (reported as observations, see the file comment)
var c12ValueFindingPrefixes = []string{
	"value-conversion-panics:str-to-fl",                   // hex.Decode into a destination shorter than the string
	"value-conversion-panics:null-i96",                   // v.int96() of a null value
	"value-conversion-null-becomes-value:",                // convertToType runs over nulls
	"value-conversion-null-fails:",                        // ... and parses "" for a string source
	"value-conversion-roundtrip-differs:i96-str",          // convertStringToInt96: big-endian magnitude read as little-endian, sign dropped
	"value-conversion-wrong-kind:fl-ba",                    // FIXED_LEN_BYTE_ARRAY value handed back for a BYTE_ARRAY column
	"value-conversion-rows-panic:",                        // the same panics through ConvertRowGroup
	"value-conversion-rows-null-becomes-value:",           // the same nulls through ConvertRowGroup
	"value-conversion-rows-fail-on-null:",
}

func c12vReport(ctx *core.Ctx, layer, key, what string, detail any) {
	for _, p := range c12ValueFindingPrefixes {
		if strings.HasPrefix(key, p) {
			ctx.Observe(key, what, detail)
			ctx.Hist("value: findings on the unchanged library (observations)", key)
			return
		}
	}
	ctx.Fail(layer, key, what, detail)
}

type c12vType struct {
	code string // bool i32 i64 i96 f32 f64 ba fl<n> str
	size int    // fl only
}

func (t c12vType) class() string {
	if strings.HasPrefix(t.code, "fl") {
		return "fl"
	}
	return t.code
}

func (t c12vType) node() parquet.Node {
	switch t.class() {
	case "bool":
		return parquet.Leaf(parquet.BooleanType)
	case "i32":
		return parquet.Leaf(parquet.Int32Type)
	case "i64":
		return parquet.Leaf(parquet.Int64Type)
	case "i96":
		return parquet.Leaf(parquet.Int96Type)
	case "f32":
		return parquet.Leaf(parquet.FloatType)
	case "f64":
		return parquet.Leaf(parquet.DoubleType)
	case "ba":
		return parquet.Leaf(parquet.ByteArrayType)
	case "str":
		return parquet.String()
	default:
		return parquet.Leaf(parquet.FixedLenByteArrayType(t.size))
	}
}

// width of the fixed-width payload, 0 for byte arrays
func (t c12vType) width() int {
	switch t.class() {
	case "bool":
		return 1
	case "i32", "f32":
		return 4
	case "i64", "f64":
		return 8
	case "i96":
		return 12
	case "fl":
		return t.size
	}
	return 0
}

func c12vMake(t c12vType, payload []byte) parquet.Value {
	switch t.class() {
	case "bool":
		return parquet.BooleanValue(payload[0] != 0)
	case "i32":
		return parquet.Int32Value(int32(binary.LittleEndian.Uint32(payload)))
	case "i64":
		return parquet.Int64Value(int64(binary.LittleEndian.Uint64(payload)))
	case "i96":
		return parquet.Int96Value(deprecated.Int96{binary.LittleEndian.Uint32(payload), binary.LittleEndian.Uint32(payload[4:]), binary.LittleEndian.Uint32(payload[8:])})
	case "f32":
		return parquet.FloatValue(math.Float32frombits(binary.LittleEndian.Uint32(payload)))
	case "f64":
		return parquet.DoubleValue(math.Float64frombits(binary.LittleEndian.Uint64(payload)))
	case "fl":
		return parquet.FixedLenByteArrayValue(append([]byte{}, payload...))
	default:
		return parquet.ByteArrayValue(append([]byte{}, payload...))
	}
}

func c12vKindCode(k parquet.Kind) string {
	switch k {
	case parquet.Boolean:
		return "bool"
	case parquet.Int32:
		return "i32"
	case parquet.Int64:
		return "i64"
	case parquet.Int96:
		return "i96"
	case parquet.Float:
		return "f32"
	case parquet.Double:
		return "f64"
	case parquet.ByteArray:
		return "ba"
	case parquet.FixedLenByteArray:
		return "fl"
	}
	return "kind" + strconv.Itoa(int(k))
}

func c12vHex(b []byte) string {
	if len(b) == 0 {
		return "-"
	}
	return hex.EncodeToString(b)
}

// canonical text of a value: kind + payload bytes (floats by bit pattern); same grammar as the driver
func c12vCanon(v parquet.Value) string {
	if v.IsNull() {
		return "null -"
	}
	return c12vKindCode(v.Kind()) + " " + c12vHex(v.Bytes())
}

// targetType.ConvertValue(v, sourceType) -> "ok <kind> <hex>" | "invalid" | "panic" | "error:<text>"
func c12vDirect(tgt, src parquet.Type, v parquet.Value) (out string, res parquet.Value, panicText string) {
	defer func() {
		if r := recover(); r != nil {
			out, panicText = "panic", fmt.Sprint(r)
		}
	}()
	w, err := tgt.ConvertValue(v, src)
	if err != nil {
		if errors.Is(err, parquet.ErrInvalidConversion) {
			return "invalid", w, ""
		}
		return "error:" + err.Error(), w, ""
	}
	return "ok " + c12vCanon(w), w, ""
}

func c12vLE(x uint64, n int) []byte {
	b := make([]byte, 8)
	binary.LittleEndian.PutUint64(b, x)
	return b[:n]
}

var c12vI32 = []int64{0, 1, -1, 2, 127, 128, 255, 256, 65535, 65536, math.MaxInt32, math.MinInt32, math.MaxInt32 - 1, math.MinInt32 + 1}
var c12vI64 = []int64{0, 1, -1, 2, 255, 256, math.MaxInt32, math.MaxInt32 + 1, math.MinInt32, math.MinInt32 - 1, 1 << 32, 1<<32 + 5, -(1 << 32), math.MaxInt64, math.MinInt64, math.MaxInt64 - 1, 1 << 40}
var c12vF32 = []uint32{0, 0x80000000, 0x3F800000, 0xBF800000, 0x7FC00000, 0x7F800001, 0xFFC12345, 0x7F800000, 0xFF800000, 1, 0x007FFFFF, 0x00800000, 0x00000400, 0x7F7FFFFF, 0x3EAAAAAB, 0x80000001}
var c12vF64 = []uint64{0, 0x8000000000000000, 0x3FF0000000000000, 0xBFF0000000000000, 0x7FF8000000000000, 0x7FF0000000000001, 0xFFF8000012345678, 0x7FF0000000000000, 0xFFF0000000000000, 1, 0x000FFFFFFFFFFFFF, 0x0010000000000000, 0x7FEFFFFFFFFFFFFF, 0x3FD5555555555555}

func c12vRandBytes(r *rand.Rand, n int) []byte {
	b := make([]byte, n)
	switch r.Intn(6) {
	case 0: // zeros
	case 1:
		for i := range b {
			b[i] = 0xFF
		}
	case 2: // zeros with one late non-zero byte
		if n > 0 {
			b[n-1] = byte(1 + r.Intn(255))
		}
	default:
		r.Read(b)
	}
	return b
}

func c12vDecimal(r *rand.Rand) string {
	var n *big.Int
	switch r.Intn(8) {
	case 0:
		n = big.NewInt(c12vI32[r.Intn(len(c12vI32))])
	case 1:
		n = big.NewInt(c12vI64[r.Intn(len(c12vI64))])
	case 2: // one beyond the int32 / int64 range
		n = big.NewInt(c12vI64[r.Intn(len(c12vI64))])
		n.Add(n, big.NewInt(int64(r.Intn(3)-1)))
		if r.Intn(2) == 0 {
			n = new(big.Int).Lsh(big.NewInt(1), uint([]int{31, 63, 64, 95, 96, 100}[r.Intn(6)]))
			n.Sub(n, big.NewInt(int64(r.Intn(3)-1)))
			if r.Intn(2) == 0 {
				n.Neg(n)
			}
		}
	case 3:
		n = big.NewInt(int64(r.Intn(70000)) - 300)
	default:
		n = new(big.Int).Rand(r, new(big.Int).Lsh(big.NewInt(1), uint(1+r.Intn(100))))
		if r.Intn(3) == 0 {
			n.Neg(n)
		}
	}
	s := n.String()
	switch r.Intn(12) {
	case 0:
		if n.Sign() >= 0 {
			s = "+" + s
		}
	case 1:
		s = "00" + strings.TrimPrefix(s, "-")
	}
	return s
}

var c12vOddStrings = []string{"", "-", "+", "-0", "+0", "1_000", " 1", "1 ", "0x1f", "12a", "１", "--1", "+-1", "1e3", "1.0", "true", "0b1", "\x00", "9223372036854775808", "-9223372036854775809", "2147483648", "-2147483649"}
var c12vBoolStrings = []string{"1", "t", "T", "TRUE", "true", "True", "0", "f", "F", "FALSE", "false", "False", "TrUe", "yes", "", "true ", "tRUE", "2", "no", "fALSE"}

// one string aimed at the target type
func c12vString(r *rand.Rand, tgt c12vType) []byte {
	switch tgt.class() {
	case "bool":
		return []byte(c12vBoolStrings[r.Intn(len(c12vBoolStrings))])
	case "i32", "i64", "i96":
		if r.Intn(5) == 0 {
			return []byte(c12vOddStrings[r.Intn(len(c12vOddStrings))])
		}
		return []byte(c12vDecimal(r))
	case "fl":
		n := 2*tgt.size + []int{0, 0, 0, -2, 2, -1, 1, 4, -4}[r.Intn(9)]
		if r.Intn(10) == 0 {
			n = r.Intn(4 * (tgt.size + 1))
		}
		if n < 0 {
			n = 0
		}
		const digits = "0123456789abcdefABCDEF"
		b := make([]byte, n)
		for i := range b {
			b[i] = digits[r.Intn(len(digits))]
		}
		if n > 0 && r.Intn(6) == 0 {
			b[r.Intn(n)] = "gG xz-\x00\xff"[r.Intn(8)]
		}
		return b
	}
	if r.Intn(3) == 0 {
		return []byte(c12vDecimal(r))
	}
	return c12vRandBytes(r, r.Intn(14))
}

// one payload of the source type, aimed at the target type
func c12vPayload(r *rand.Rand, src, tgt c12vType) []byte {
	switch src.class() {
	case "bool":
		return []byte{byte(r.Intn(2))}
	case "i32":
		if r.Intn(4) == 0 {
			return c12vLE(uint64(r.Uint32()), 4)
		}
		return c12vLE(uint64(uint32(int32(c12vI32[r.Intn(len(c12vI32))]))), 4)
	case "i64":
		if r.Intn(4) == 0 {
			return c12vLE(r.Uint64(), 8)
		}
		return c12vLE(uint64(c12vI64[r.Intn(len(c12vI64))]), 8)
	case "i96":
		b := make([]byte, 12)
		switch r.Intn(6) {
		case 0: // small non-negative
			copy(b, c12vLE(uint64(r.Intn(70000)), 8))
		case 1: // sign-extended int32 / int64
			x := c12vI64[r.Intn(len(c12vI64))]
			copy(b, c12vLE(uint64(x), 8))
			if x < 0 {
				copy(b[8:], []byte{0xFF, 0xFF, 0xFF, 0xFF})
			}
		case 2: // one word set
			b[4*r.Intn(3)+r.Intn(4)] = byte(1 + r.Intn(255))
		case 3: // zero
		default:
			r.Read(b)
		}
		return b
	case "f32":
		if (tgt.class() == "i32" || tgt.class() == "i64") && r.Intn(2) == 0 {
			// around integers and around the ends of the integer ranges
			f := float32(c12vI64[r.Intn(len(c12vI64))]) + []float32{0, 0.5, -0.5, 0.75, 1, -1}[r.Intn(6)]
			switch r.Intn(4) {
			case 0:
				f = math.Nextafter32(f, float32(math.Inf(1)))
			case 1:
				f = math.Nextafter32(f, float32(math.Inf(-1)))
			}
			return c12vLE(uint64(math.Float32bits(f)), 4)
		}
		if r.Intn(4) == 0 {
			return c12vLE(uint64(r.Uint32()), 4)
		}
		return c12vLE(uint64(c12vF32[r.Intn(len(c12vF32))]), 4)
	case "f64":
		if (tgt.class() == "i32" || tgt.class() == "i64") && r.Intn(2) == 0 {
			f := float64(c12vI64[r.Intn(len(c12vI64))]) + []float64{0, 0.5, -0.5, 0.999, 1, -1}[r.Intn(6)]
			switch r.Intn(4) {
			case 0:
				f = math.Nextafter(f, math.Inf(1))
			case 1:
				f = math.Nextafter(f, math.Inf(-1))
			}
			return c12vLE(math.Float64bits(f), 8)
		}
		if tgt.class() == "f32" && r.Intn(3) != 0 {
			// a float32 value (normal, subnormal, largest, smallest) moved by half an ulp of float32 and a bit
			x := c12vF32[r.Intn(len(c12vF32))]
			if r.Intn(2) == 0 {
				x = r.Uint32()
			}
			b := math.Float64bits(float64(math.Float32frombits(x)))
			if b&0x7FF0000000000000 != 0x7FF0000000000000 {
				b += []uint64{0, 1 << 28, 1<<28 + 1, 1<<28 - 1, 1 << 29, 3 << 28, ^uint64(0), ^uint64(1<<28) + 1}[r.Intn(8)]
				if r.Intn(6) == 0 { // the subnormal range of float32: exponents 2^-150 .. 2^-126
					b = b&(1<<63) | uint64(1023-151+r.Intn(27))<<52 | r.Uint64()&(1<<52-1)&^uint64((1<<uint(r.Intn(53)))-1)
				}
			}
			return c12vLE(b, 8)
		}
		if r.Intn(4) == 0 {
			return c12vLE(r.Uint64(), 8)
		}
		return c12vLE(c12vF64[r.Intn(len(c12vF64))], 8)
	case "fl":
		return c12vRandBytes(r, src.size)
	case "str":
		return c12vString(r, tgt)
	}
	// ba: lengths around the width of the target
	w := tgt.width()
	n := []int{0, 1, 2, 3, 4, 5, 7, 8, 9, 11, 12, 13, 16, 17}[r.Intn(14)]
	if w > 0 && r.Intn(2) == 0 {
		n = w + r.Intn(3) - 1
	}
	if n < 0 {
		n = 0
	}
	return c12vRandBytes(r, n)
}

func c12vPickType(r *rand.Rand) c12vType {
	codes := []string{"bool", "i32", "i64", "i96", "f32", "f64", "ba", "str", "fl", "fl"}
	c := codes[r.Intn(len(codes))]
	if c == "fl" {
		n := []int{1, 2, 3, 4, 5, 7, 8, 9, 11, 12, 13, 16, 20}[r.Intn(13)]
		return c12vType{"fl" + strconv.Itoa(n), n}
	}
	return c12vType{c, 0}
}

// the target holds every value of the source: source -> target -> source must be the identity
func c12vWidens(src, tgt c12vType) bool {
	s, t := src.class(), tgt.class()
	if s == t && s != "fl" {
		return false // covered by the identity oracle
	}
	switch s {
	case "bool":
		return t != "fl" || tgt.size >= 1
	case "i32":
		return t == "i64" || t == "i96" || t == "f64" || t == "ba" || t == "str" || (t == "fl" && tgt.size >= 4)
	case "i64":
		return t == "i96" || t == "ba" || t == "str" || (t == "fl" && tgt.size >= 8)
	case "i96":
		return t == "ba" || t == "str" || (t == "fl" && tgt.size >= 12)
	case "f32":
		return t == "f64" || t == "ba" || (t == "fl" && tgt.size >= 4)
	case "f64":
		return t == "ba" || (t == "fl" && tgt.size >= 8)
	case "fl":
		return t == "str" || t == "ba" || (t == "fl" && tgt.size == src.size)
	}
	return false
}

func c12vIsSignallingNaN32(p []byte) bool {
	x := binary.LittleEndian.Uint32(p)
	return x&0x7F800000 == 0x7F800000 && x&0x007FFFFF != 0 && x&0x00400000 == 0
}

type c12vCase struct {
	tgt, src c12vType
	optional bool
	payloads [][]byte // nil entry = null (optional only)
}

func (c *c12vCase) canon() string {
	var sb strings.Builder
	fmt.Fprintf(&sb, "%s<-%s opt=%v", c.tgt.code, c.src.code, c.optional)
	for _, p := range c.payloads {
		if p == nil {
			sb.WriteString(" null")
		} else {
			sb.WriteString(" " + c12vHex(p))
		}
	}
	return sb.String()
}

// the rows path: Buffer(source schema) -> ConvertRowGroup -> Rows
func c12vRows(c *c12vCase, values []parquet.Value) (out []string, keys []int64, err error, panicText string) {
	defer func() {
		if r := recover(); r != nil {
			panicText = fmt.Sprint(r)
		}
	}()
	wrap := func(n parquet.Node) parquet.Node {
		if c.optional {
			return parquet.Optional(n)
		}
		return parquet.Required(n)
	}
	srcSchema := parquet.NewSchema("t", parquet.Group{"c": wrap(c.src.node()), "k": parquet.Required(parquet.Leaf(parquet.Int64Type))})
	tgtSchema := parquet.NewSchema("t", parquet.Group{"c": wrap(c.tgt.node()), "k": parquet.Required(parquet.Leaf(parquet.Int64Type))})
	buf := parquet.NewBuffer(srcSchema)
	rows := make([]parquet.Row, len(values))
	for i, v := range values {
		d := 0
		if c.optional && !v.IsNull() {
			d = 1
		}
		rows[i] = parquet.Row{v.Level(0, d, 0), parquet.Int64Value(int64(1000 + i)).Level(0, 0, 1)}
	}
	if _, err = buf.WriteRows(rows); err != nil {
		return nil, nil, fmt.Errorf("buffer write: %w", err), ""
	}
	conv, err := parquet.Convert(tgtSchema, srcSchema)
	if err != nil {
		return nil, nil, fmt.Errorf("Convert: %w", err), ""
	}
	rg := parquet.ConvertRowGroup(buf, conv)
	rr := rg.Rows()
	defer rr.Close()
	got := make([]parquet.Row, 3) // small batches: several ReadRows calls per column
	for {
		n, rerr := rr.ReadRows(got)
		for _, row := range got[:n] {
			for _, v := range row {
				switch v.Column() {
				case 0:
					s := c12vCanon(v)
					if c.optional {
						s += " D" + strconv.Itoa(v.DefinitionLevel())
					}
					out = append(out, s)
				case 1:
					keys = append(keys, v.Int64())
				}
			}
		}
		if rerr == io.EOF {
			return out, keys, nil, ""
		}
		if rerr != nil {
			return out, keys, rerr, ""
		}
		if n == 0 {
			return out, keys, errors.New("ReadRows returns 0 rows without an error"), ""
		}
	}
}

func RunC12Value(ctx *core.Ctx) {
	ctx.SetRule(c12ValueRule)
	r := ctx.Rand("c12-value")
	d := ctx.Driver()
	ncases := ctx.Scale(20000, 300000)

	type pending struct {
		c      *c12vCase
		idx    int
		direct string
	}
	var reqs []string
	var pend []pending
	flush := func() {
		if len(reqs) == 0 {
			return
		}
		if d != nil {
			answers, err := d.AskMany(reqs)
			if err != nil {
				ctx.Fail("L2", "value-driver-fails", "pqdriver fails on a conv.value batch: "+err.Error(), nil)
			}
			for i, a := range answers {
				p := pend[i]
				pair := p.c.src.class() + "-to-" + p.c.tgt.class()
				if a == "unmodelled" {
					ctx.Hist("value: pairs outside the mirror (L1 only)", pair)
					continue
				}
				ctx.Hist("value: mirror outcome", strings.SplitN(a, " ", 3)[0]+func() string {
					if strings.HasPrefix(a, "ok ") {
						return ""
					}
					return " " + pair
				}())
				if a != p.direct {
					ctx.Fail("L2", "convert-value-vs-lean-mirror:"+pair,
						"ConvertValue and the Lean mirror convertValue disagree",
						map[string]any{"request": reqs[i], "go": p.direct, "lean": a, "case": p.c.canon()})
				}
			}
		}
		reqs, pend = reqs[:0], pend[:0]
	}

	for n := 0; n < ncases; n++ {
		c := &c12vCase{src: c12vPickType(r), tgt: c12vPickType(r), optional: r.Intn(3) == 0}
		if r.Intn(12) == 0 {
			c.tgt = c.src
		}
		nv := 4 + r.Intn(7)
		for i := 0; i < nv; i++ {
			if c.optional && r.Intn(4) == 0 {
				c.payloads = append(c.payloads, nil)
			} else {
				c.payloads = append(c.payloads, c12vPayload(r, c.src, c.tgt))
			}
		}
		srcT, tgtT := c.src.node().Type(), c.tgt.node().Type()
		pair := c.src.class() + "-" + c.tgt.class()
		sameType := c.src.code == c.tgt.code
		ctx.Hist("value: pair (source-target)", pair)
		ctx.Hist("value: column", map[bool]string{true: "optional", false: "required"}[c.optional])

		values := make([]parquet.Value, len(c.payloads))
		direct := make([]string, len(c.payloads))
		nontrivial := false
		for i, p := range c.payloads {
			v := parquet.NullValue()
			if p != nil {
				v = c12vMake(c.src, p)
			}
			values[i] = v
			out, w, ptxt := c12vDirect(tgtT, srcT, v)
			direct[i] = out
			detail := map[string]any{"case": c.canon(), "value": i, "direct": out, "panic": ptxt}
			payloadText := "null"
			if p != nil {
				payloadText = c12vHex(p)
			}
			reqs = append(reqs, "conv.value "+c.tgt.code+" "+c.src.code+" "+payloadText)
			pend = append(pend, pending{c, i, out})
			switch {
			case out == "panic":
				ctx.Hist("value: direct outcome", "panic "+pair)
				key := "value-conversion-panics:" + c.src.class() + "-to-" + c.tgt.class()
				if p == nil {
					key = "value-conversion-panics:null-" + c.src.class()
				}
				c12vReport(ctx, "L1", key, "ConvertValue panics: "+ptxt, detail)
				continue
			case out == "invalid":
				ctx.Hist("value: direct outcome", "invalid "+pair)
				if p == nil && c.src.class() == "str" { // INT96 <-> FLOAT/DOUBLE fail on every value
					c12vReport(ctx, "L1", "value-conversion-null-fails:"+c.src.class(),
						"ConvertValue of the NULL value fails: a null in an optional column makes the conversion of the column fail", detail)
				}
				continue
			case strings.HasPrefix(out, "error:"):
				ctx.Fail("L1", "value-conversion-untyped-error:"+pair, "ConvertValue returns an error that is not ErrInvalidConversion", detail)
				continue
			}
			ctx.Hist("value: direct outcome", "ok")
			if p == nil {
				if !w.IsNull() {
					ctx.Hist("value: NULL converted to a value (pair)", pair)
					c12vReport(ctx, "L1", "value-conversion-null-becomes-value:convert-value",
						"ConvertValue turns the NULL value into a non-null value (convertToType runs it over the nulls of an optional column)", detail)
				}
				continue
			}
			if !sameType && out != "ok "+c12vCanon(v) {
				nontrivial = true
			}
			// L1: identity on equal types
			if sameType && out != "ok "+c12vCanon(v) {
				ctx.Fail("L1", "value-conversion-same-type-not-identity:"+c.src.class(), "ConvertValue between equal types changes the value", detail)
			}
			// L1: the result is a value of the target column (kind, fixed length)
			wantKind := c.tgt.class()
			if wantKind == "str" {
				wantKind = "ba"
			}
			if got := c12vKindCode(w.Kind()); got != wantKind {
				detail["kind"] = got
				c12vReport(ctx, "L1", "value-conversion-wrong-kind:"+pair, "ConvertValue returns a value whose kind is not the target column's", detail)
			} else if c.tgt.class() == "fl" && len(w.ByteArray()) != c.tgt.size {
				ctx.Fail("L1", "value-conversion-wrong-length:"+pair, "ConvertValue to FIXED_LEN_BYTE_ARRAY(n) returns a value of another length", detail)
			}
			// L1: round trip on the widening pairs
			if c12vWidens(c.src, c.tgt) && !(c.src.class() == "f32" && c.tgt.class() == "f64" && c12vIsSignallingNaN32(p)) {
				backOut, _, bp := c12vDirect(srcT, tgtT, w)
				ctx.Hist("value: round trips checked", pair)
				if backOut != "ok "+c12vCanon(v) {
					detail["back"] = backOut
					detail["back-panic"] = bp
					c12vReport(ctx, "L1", "value-conversion-roundtrip-differs:"+pair, "source -> target -> source is not the identity on a pair whose target holds every source value", detail)
				}
			}
		}
		ctx.Case(c.canon(), nontrivial)
		if n < 3 {
			ctx.Sample(map[string]any{"case": c.canon(), "direct": direct})
		}

		// rows path. What the property asks of it: a non-null value comes out as ConvertValue
		// converts it, a null stays null, an invalid value is an error of ReadRows.
		if !sameType && n%2 == 0 {
			out, keys, err, ptxt := c12vRows(c, values)
			detail := map[string]any{"case": c.canon(), "direct": direct, "rows": out, "keys": keys}
			mode := map[bool]string{true: "optional", false: "required"}[c.optional]
			// what ConvertValue does with the non-null values, and whether it mistreats a null
			invalidNN, panicNN, nullTrouble := false, false, false
			for i, dd := range direct {
				switch {
				case c.payloads[i] == nil:
					nullTrouble = nullTrouble || dd != "ok null -"
				case dd == "invalid":
					invalidNN = true
				case dd == "panic":
					panicNN = true
				}
			}
			switch {
			case ptxt != "":
				detail["panic"] = ptxt
				ctx.Hist("value: rows outcome", "panic")
				if panicNN || nullTrouble {
					c12vReport(ctx, "L1", "value-conversion-rows-panic:"+map[bool]string{true: "null-i96", false: pair}[c.src.class() == "i96"], "reading a converted row group panics: "+ptxt, detail)
				} else {
					ctx.Fail("L1", "path-panic:convert-rowgroup-rows-retyped:"+pair, "reading a converted row group with one retyped column panics: "+ptxt, detail)
				}
			case err != nil:
				detail["error"] = err.Error()
				ctx.Hist("value: rows outcome", "error")
				switch {
				case !errors.Is(err, parquet.ErrInvalidConversion):
					ctx.Fail("L1", "retyped-column-untyped-error:"+pair, "reading a converted row group fails with an error that does not wrap ErrInvalidConversion", detail)
				case invalidNN: // as it must
				case nullTrouble:
					c12vReport(ctx, "L1", "value-conversion-rows-fail-on-null:"+c.src.class(), "reading a converted row group fails on a NULL of the retyped optional column", detail)
				default:
					ctx.Fail("L1", "retyped-column-read-fails:"+pair+":"+mode, "reading a converted row group fails although every value converts", detail)
				}
			case invalidNN || panicNN:
				ctx.Hist("value: rows outcome", "rows despite invalid value")
				ctx.Fail("L1", "invalid-conversion-swallowed:"+pair, "a value that ConvertValue rejects is delivered by the converted row group without an error", detail)
			default:
				ctx.Hist("value: rows outcome", "rows")
				bad, nullAsValue := len(out) != len(values) || len(keys) != len(values), false
				for i := 0; !bad && i < len(values); i++ {
					if keys[i] != int64(1000+i) {
						bad = true
						break
					}
					want := strings.TrimPrefix(direct[i], "ok ")
					if c.optional {
						want += map[bool]string{true: " D0", false: " D1"}[c.payloads[i] == nil]
					}
					switch {
					case c.payloads[i] == nil && out[i] == "null - D0": // the null stays null
					case c.payloads[i] == nil && out[i] == want: // the null came out as ConvertValue(null)
						nullAsValue = true
					case out[i] != want:
						bad = true
					}
				}
				if bad {
					ctx.Fail("L1", "convert-rows-differ-from-convert-value:"+pair+":"+mode, "the retyped column of a converted row group does not carry the converted values (or the key column changed)", detail)
				} else if nullAsValue {
					c12vReport(ctx, "L1", "value-conversion-rows-null-becomes-value:"+mode, "a NULL of the retyped optional column is read as a non-null value at definition level 0", detail)
				}
			}
		}
		if len(reqs) >= 4000 {
			flush()
		}
	}
	flush()
}
