package props

// C14/typed — the TYPED thrift decoder (structDecoder.decode, decodeFuncSliceOf / Slice[T].DecodeFunc, the
// scalar decoders, unionDecoder.decode) against its Lean mirror PqModel.ThriftDecode.decStruct.
//
// The schema description the mirror is driven by is derived HERE by reflection from the real package format
// types (struct tags: id, required; enum -> i32; Null[T], pointers -> T; Slice[T] / []T -> list; union ->
// members), one per root type of C02's generator (FileMetaData, PageHeader, ColumnIndex, OffsetIndex, RowGroup,
// ColumnChunk, SchemaElement, BloomFilterHeader). Inputs per root:
//   - marshal: format values filled by C02's generator and marshalled by the library (valid encodings)
//   - gen: schema-directed encodings written here (optional fields present or not, bool fields coalesced, bool
//     list items with element type TRUE or FALSE, short and long field / list headers), clean or with mutations
//     aimed at the branches of the decoder: a required field dropped, an unknown field id, a field / list of
//     another wire type than the schema's, an integer outside its width, an inflated string length, an
//     announced list size larger than the list (up to 2^31-1), ids out of order
//   - foreign: grammar-generated structs of C14/footer (nearly everything is an unknown field)
//   - cuts and byte patches of the above.
// Every real decode runs in an isolated process with an address-space limit (RLIMIT_AS).
//
//   L2 thrift.typed   real Decode (ok <BytesRead> | error class, MissingField with its id) = mirror with the
//                     allocator that grants everything; when the real process dies or panics the mirror run with
//                     the allocator bounded by len(input) must answer oom (recorded as an observation: the decoder
//                     allocates the announced list size before reading the elements)
//   L1 typed<=walk    on the real code alone: what Decode accepts, skipStruct accepts with the same byte count
//   L1 typed-prefix   on the real code alone: an accepted input is rejected at every cut before its end, with
//                     io.EOF or io.ErrUnexpectedEOF
//   L1 marshal        Decode accepts the library's own Marshal output at its full length

import (
	"bufio"
	"bytes"
	"encoding/binary"
	"encoding/hex"
	"errors"
	"fmt"
	"math/rand"
	"os"
	"os/exec"
	"reflect"
	"sort"
	"strconv"
	"strings"
	"sync"
	"syscall"
	"time"

	"github.com/parquet-go/parquet-go/encoding/thrift"

	"verifharness/core"
)

func init() {
	RegisterSub("C14", "typed", RunC14Typed)
	workers["c14-typed"] = c14TypedWorker
}

const c14TypedRule = "compact-thrift inputs for 8 root types of package format (library-marshalled values, schema-directed encodings clean and mutated, foreign structs, their cuts and byte patches), decoded by the real typed decoder in an isolated process and by the mirror under the schema reflected from the Go type; non-trivial = at least 4 bytes and not a plain library-marshalled value (a cut, patch, mutation, generated or foreign encoding)"

const c14TypedMax = 1200 // the mirror indexes a List

// ---------------------------------------------------------------- schema by reflection

type c14tTy struct {
	k      byte // b y h i l d s L S U
	elem   *c14tTy
	fields []c14tField
}
type c14tField struct {
	id  int
	req bool
	ty  *c14tTy
}

var (
	c14tValueType = reflect.TypeFor[thrift.Value]()
	c14tUnionType = reflect.TypeFor[thrift.Union]()
)

func c14tSchema(t reflect.Type, enum bool) *c14tTy {
	if t.Kind() == reflect.Struct && reflect.PointerTo(t).Implements(c14tUnionType) {
		u := &c14tTy{k: 'U'}
		for _, m := range reflect.New(t).Interface().(thrift.Union).UnionMembers() {
			u.fields = append(u.fields, c14tField{id: int(m.FieldID()), ty: c14tSchema(reflect.TypeOf(m).Elem(), false)})
		}
		sort.Slice(u.fields, func(i, j int) bool { return u.fields[i].id < u.fields[j].id })
		return u
	}
	if t.Implements(c14tValueType) {
		switch {
		case t.Kind() == reflect.Slice: // thrift.Slice[T]
			return &c14tTy{k: 'L', elem: c14tSchema(t.Elem(), false)}
		case t.Kind() == reflect.Struct && strings.HasPrefix(t.Name(), "Null[") && t.NumField() == 2:
			return c14tSchema(t.Field(0).Type, false)
		}
		panic("c14typed: unsupported thrift.Value type " + t.String())
	}
	if enum {
		switch t.Kind() {
		case reflect.Int, reflect.Int8, reflect.Int16, reflect.Int32, reflect.Int64:
			return &c14tTy{k: 'i'}
		}
	}
	switch t.Kind() {
	case reflect.Bool:
		return &c14tTy{k: 'b'}
	case reflect.Int8:
		return &c14tTy{k: 'y'}
	case reflect.Int16:
		return &c14tTy{k: 'h'}
	case reflect.Int32:
		return &c14tTy{k: 'i'}
	case reflect.Int64, reflect.Int:
		return &c14tTy{k: 'l'}
	case reflect.Float32, reflect.Float64:
		return &c14tTy{k: 'd'}
	case reflect.String:
		return &c14tTy{k: 's'}
	case reflect.Slice:
		if t.Elem().Kind() == reflect.Uint8 {
			return &c14tTy{k: 's'}
		}
		return &c14tTy{k: 'L', elem: c14tSchema(t.Elem(), false)}
	case reflect.Ptr:
		return c14tSchema(t.Elem(), false)
	case reflect.Struct:
		s := &c14tTy{k: 'S'}
		for i := 0; i < t.NumField(); i++ {
			f := t.Field(i)
			tag := f.Tag.Get("thrift")
			if tag == "" || (f.PkgPath != "" && !f.Anonymous) {
				continue
			}
			parts := strings.Split(tag, ",")
			id, err := strconv.Atoi(parts[0])
			if err != nil {
				panic("c14typed: tag " + tag)
			}
			fd := c14tField{id: id}
			en := false
			for _, o := range parts[1:] {
				switch o {
				case "required":
					fd.req = true
				case "enum":
					en = true
				}
			}
			fd.ty = c14tSchema(f.Type, en)
			s.fields = append(s.fields, fd)
		}
		sort.Slice(s.fields, func(i, j int) bool { return s.fields[i].id < s.fields[j].id })
		return s
	}
	panic("c14typed: unsupported kind " + t.String())
}

func (t *c14tTy) text(out *[]string) {
	switch t.k {
	case 'L':
		*out = append(*out, "L")
		t.elem.text(out)
	case 'S':
		*out = append(*out, "S", strconv.Itoa(len(t.fields)))
		for _, f := range t.fields {
			rq := "o"
			if f.req {
				rq = "r"
			}
			*out = append(*out, strconv.Itoa(f.id), rq)
			f.ty.text(out)
		}
	case 'U':
		*out = append(*out, "U", strconv.Itoa(len(t.fields)))
		for _, f := range t.fields {
			*out = append(*out, strconv.Itoa(f.id))
			f.ty.text(out)
		}
	default:
		*out = append(*out, string(t.k))
	}
}

func (t *c14tTy) wire() int {
	return map[byte]int{'b': 2, 'y': 3, 'h': 4, 'i': 5, 'l': 6, 'd': 7, 's': 8, 'L': 9, 'S': 12, 'U': 12}[t.k]
}

// ---------------------------------------------------------------- schema-directed encodings

type c14tGen struct {
	r    *rand.Rand
	p    int // one mutation in p choices (0 = none)
	muts []string
}

func (g *c14tGen) mut(name string) bool {
	if g.p > 0 && g.r.Intn(g.p) == 0 {
		g.muts = append(g.muts, name)
		return true
	}
	return false
}

func c14tZig(x int64) []byte { return binary.AppendUvarint(nil, uint64((x<<1)^(x>>63))) }

func (g *c14tGen) value(t *c14tTy, depth int) []byte {
	r := g.r
	edge := func(bits uint) int64 {
		lim := int64(1) << (bits - 1)
		switch r.Intn(6) {
		case 0:
			return lim - 1
		case 1:
			return -lim
		case 2:
			return 0
		}
		return r.Int63n(2*lim-1) - lim + 1
	}
	switch t.k {
	case 'b':
		return []byte{byte([]int{0, 1, 2}[r.Intn(3)])}
	case 'y':
		return []byte{byte(r.Intn(256))}
	case 'h':
		if g.mut("int-out-of-range") {
			return c14tZig(32768)
		}
		return c14tZig(edge(16))
	case 'i':
		if g.mut("int-out-of-range") {
			return c14tZig(-2147483649)
		}
		return c14tZig(edge(32))
	case 'l':
		if r.Intn(3) == 0 {
			return c14tZig([]int64{1<<63 - 1, -1 << 63, 1 << 40}[r.Intn(3)])
		}
		return c14tZig(edge(33))
	case 'd':
		b := make([]byte, 8)
		r.Read(b)
		return b
	case 's':
		n := []int{0, 1, 2, 5, 17}[r.Intn(5)]
		b := make([]byte, n)
		r.Read(b)
		an := uint64(n)
		if g.mut("string-length-inflated") {
			an = []uint64{uint64(n) + 1, 200, 1<<31 - 1, 1 << 31}[r.Intn(4)]
		}
		return append(c14FtUvarint(r, an), b...)
	case 'L':
		n := []int{0, 1, 2, 3}[r.Intn(4)]
		if depth <= 1 && r.Intn(6) == 0 {
			n = []int{14, 15, 16}[r.Intn(3)]
		}
		if depth > 2 && n > 1 {
			n = 1
		}
		et := t.elem.wire()
		foreign := false
		if g.mut("list-of-other-type") {
			et = c14FtType(r, 1)
			foreign = et != t.elem.wire() && !(et == 1 && t.elem.wire() == 2)
		} else if et == 2 && r.Intn(2) == 0 {
			et = 1
		}
		an := uint64(n)
		if g.mut("list-size-inflated") {
			an = []uint64{uint64(n) + 1, 1000, 1 << 20, 1<<31 - 1}[r.Intn(4)]
		}
		var out []byte
		if an < 15 && r.Intn(10) != 0 {
			out = append(out, byte(an<<4)|byte(et))
		} else {
			out = append(out, 0xF0|byte(et))
			out = append(out, c14FtUvarint(r, an)...)
		}
		for i := 0; i < n; i++ {
			if foreign {
				out = append(out, c14FtValue(r, et, 1, false)...)
			} else {
				out = append(out, g.value(t.elem, depth+1)...)
			}
		}
		return out
	case 'S', 'U':
		return g.strct(t, depth+1)
	}
	panic("c14typed: kind")
}

func (g *c14tGen) strct(t *c14tTy, depth int) []byte {
	r := g.r
	var out []byte
	last := 0
	header := func(id, ty int) {
		d := id - last
		if d > 0 && d <= 15 && r.Intn(12) != 0 {
			out = append(out, byte(d<<4|ty))
		} else {
			out = append(out, byte(ty))
			out = append(out, c14tZig(int64(id))...)
		}
		last = id
	}
	fields := t.fields
	if t.k == 'U' && len(fields) > 0 {
		switch r.Intn(8) {
		case 0:
			fields = nil
		case 1:
		default:
			i := r.Intn(len(fields))
			fields = fields[i : i+1]
		}
	}
	pOpt := []int{70, 50, 30, 15, 8}[min(depth, 4)]
	for _, f := range fields {
		if g.mut("unknown-field") {
			ty := c14FtType(r, 1)
			if ty != 0 {
				header([]int{f.id + 100, 300, 32767, last}[r.Intn(4)], ty)
				out = append(out, c14FtValue(r, ty, 1, true)...)
			}
		}
		if f.req {
			if g.mut("required-dropped") {
				continue
			}
		} else if t.k != 'U' && r.Intn(100) >= pOpt {
			continue
		}
		if g.mut("field-of-other-type") {
			ty := c14FtType(r, 1)
			if ty != 0 {
				header(f.id, ty)
				out = append(out, c14FtValue(r, ty, 1, true)...)
				continue
			}
		}
		if g.mut("ids-out-of-order") {
			last = f.id + 3
		}
		if f.ty.k == 'b' {
			header(f.id, 1+r.Intn(2))
			continue
		}
		header(f.id, f.ty.wire())
		out = append(out, g.value(f.ty, depth)...)
	}
	return append(out, 0)
}

// ---------------------------------------------------------------- the real decoder

func c14tClass(err error) string {
	var mf *thrift.MissingField
	if errors.As(err, &mf) {
		return fmt.Sprintf("missing:%d", mf.Field.ID)
	}
	return c14ThriftClass(err)
}

// c14tReal: `ok <BytesRead>` | `err <class>` | `panic <class>`
func c14tReal(root int, b []byte) (res string) {
	defer func() {
		if p := recover(); p != nil {
			res = "panic " + panicClass(fmt.Sprint(p))
		}
	}()
	p := thrift.CompactProtocol{}
	r := p.NewReaderFromBytes(bytes.Clone(b))
	if err := thrift.NewDecoder(r).Decode(thRoots[root].mk()); err != nil {
		return "err " + c14tClass(err)
	}
	return fmt.Sprintf("ok %d", r.BytesRead())
}

// c14TypedWorker: stdin `<root index> <hex | ->`, one answer line each; address space limited so that an
// allocation of an announced list size kills this process and not the machine.
func c14TypedWorker(args []string) int {
	lim := syscall.Rlimit{Cur: 6 << 30, Max: 6 << 30}
	syscall.Setrlimit(syscall.RLIMIT_AS, &lim)
	in := bufio.NewReaderSize(os.Stdin, 1<<20)
	out := bufio.NewWriter(os.Stdout)
	defer out.Flush()
	for {
		line, err := in.ReadString('\n')
		if line == "" && err != nil {
			return 0
		}
		f := strings.Fields(line)
		if len(f) != 2 {
			fmt.Fprintln(out, "bad-request")
		} else {
			root, _ := strconv.Atoi(f[0])
			var b []byte
			if f[1] != "-" {
				b, _ = hex.DecodeString(f[1])
			}
			fmt.Fprintln(out, c14tReal(root, b))
		}
		out.Flush()
	}
}

func c14tStart() (*c14FtWorker, error) {
	cmd := exec.Command(os.Args[0], "-worker", "c14-typed")
	cmd.Env = append(os.Environ(), "GOTRACEBACK=none")
	in, err := cmd.StdinPipe()
	if err != nil {
		return nil, err
	}
	outp, err := cmd.StdoutPipe()
	if err != nil {
		return nil, err
	}
	w := &c14FtWorker{cmd: cmd, in: in, out: bufio.NewReaderSize(outp, 1<<20), stderr: &bytes.Buffer{}}
	cmd.Stderr = w.stderr
	if err := cmd.Start(); err != nil {
		return nil, err
	}
	return w, nil
}

// ---------------------------------------------------------------- the sub-check

type c14tCase struct {
	root   int
	origin string // marshal | gen | gen-mut | foreign
	kind   string // base | cut | patch
	muts   string
	b      []byte
}

func RunC14Typed(ctx *core.Ctx) {
	ctx.SetRule(c14TypedRule)
	per := ctx.Scale(110, 1500)
	var wg sync.WaitGroup
	for ri := range thRoots {
		ri := ri
		wg.Add(1)
		go func() {
			defer wg.Done()
			root := thRoots[ri]
			r := ctx.Rand("c14typed/" + root.name)
			sch := c14tSchema(reflect.TypeOf(root.mk()).Elem(), false)
			var toks []string
			sch.text(&toks)
			schema := strings.Join(toks, ".")
			ctx.HistN("schema.tokens", root.name, int64(len(toks)))

			var cases []c14tCase
			add := func(c c14tCase) {
				if len(c.b) <= c14TypedMax {
					c.root = ri
					cases = append(cases, c)
				}
			}
			derive := func(c c14tCase) {
				n := len(c.b)
				cuts := []int{0, 1, n - 1, n / 2}
				for k := 0; k < 3; k++ {
					cuts = append(cuts, r.Intn(n+1))
				}
				for _, m := range cuts {
					if m >= 0 && m < n {
						add(c14tCase{origin: c.origin, kind: "cut", muts: c.muts, b: c.b[:m]})
					}
				}
				for k := 0; k < 4; k++ {
					add(c14tCase{origin: c.origin, kind: "patch", muts: c.muts, b: c14FtPatch(r, c.b)})
				}
			}
			for k := 0; k < per; k++ {
				// library-marshalled value
				v := root.mk()
				budget := []int{10, 20, 40, 80, 150}[r.Intn(5)]
				thFill(r, reflect.ValueOf(v).Elem(), 0, &budget)
				if b, err := thrift.Marshal(new(thrift.CompactProtocol), v); err == nil && len(b) <= c14TypedMax {
					c := c14tCase{origin: "marshal", kind: "base", b: b}
					if got := c14tReal(ri, b); got != fmt.Sprintf("ok %d", len(b)) {
						ctx.Fail("L1", "decode-rejects-marshal-output root="+root.name+" "+strings.SplitN(got, " ", 2)[0], fmt.Sprintf("Decode of the library's Marshal output (%d bytes) answers %q", len(b), got), map[string]any{"root": root.name, "bytes": core.Hex(b)})
					}
					add(c)
					if k%3 == 0 {
						derive(c)
					}
				}
				// schema-directed, clean and mutated
				for _, p := range []int{0, 25, 8} {
					g := &c14tGen{r: r, p: p}
					b := g.strct(sch, 0)
					o := "gen"
					if len(g.muts) > 0 {
						o = "gen-mut"
					}
					c := c14tCase{origin: o, kind: "base", muts: strings.Join(g.muts, "+"), b: b}
					add(c)
					if k%3 == 1 {
						derive(c)
					}
				}
				if k%4 == 0 {
					add(c14tCase{origin: "foreign", kind: "base", b: c14FtStruct(r, 2)})
				}
			}

			// the two sides
			d := ctx.Driver()
			reqs := make([]string, len(cases))
			wreqs := make([]string, len(cases))
			for i, c := range cases {
				h := "-"
				if len(c.b) > 0 {
					h = core.Hex(c.b)
				}
				reqs[i] = "thrift.typed " + schema + " " + h
				wreqs[i] = strconv.Itoa(ri) + " " + h
			}
			ans, err := d.AskMany(reqs)
			if err != nil {
				ctx.Fail("L2", "driver-error", err.Error(), nil)
				return
			}
			w, err := c14tStart()
			if err != nil {
				ctx.Fail("L2", "worker-unavailable", "cannot start the isolated process: "+err.Error(), nil)
				return
			}
			defer func() { w.kill() }()
			for i, c := range cases {
				real := w.ask(wreqs[i], 30*time.Second)
				if strings.HasPrefix(real, "crash") || real == "timeout" {
					w.kill()
					if w, err = c14tStart(); err != nil {
						ctx.Fail("L2", "worker-unavailable", "cannot restart the isolated process: "+err.Error(), nil)
						return
					}
				}
				c14tJudge(ctx, root.name, schema, c, ans[i], real)
			}
		}()
	}
	wg.Wait()
}

func c14tJudge(ctx *core.Ctx, rootName, schema string, c c14tCase, ans, real string) {
	hx := core.Hex(c.b)
	ctx.Case(rootName+" "+hx, len(c.b) >= 4 && !(c.origin == "marshal" && c.kind == "base"))
	ctx.Hist("root", rootName)
	ctx.Hist("origin", c.origin+"/"+c.kind)
	ctx.Hist("bytes", histBucket(len(c.b)))
	if c.kind == "base" {
		for _, m := range strings.Split(c.muts, "+") {
			if m != "" {
				ctx.Hist("mutation", m)
			}
		}
	}
	detail := func(extra map[string]any) map[string]any {
		m := map[string]any{"root": rootName, "origin": c.origin, "kind": c.kind, "mutations": c.muts, "bytes": hx, "schema": schema, "real": real, "mirror": ans}
		for k, v := range extra {
			m[k] = v
		}
		return m
	}
	f := strings.Fields(ans)
	if len(f) != 3 || f[0] != "ok" || !strings.HasPrefix(f[1], "inf=") || !strings.HasPrefix(f[2], "lim=") {
		ctx.Fail("L2", "mirror-rejects-request root="+rootName, "thrift.typed answered "+thClip(ans, 0), detail(nil))
		return
	}
	inf := strings.Replace(strings.TrimPrefix(f[1], "inf="), ":", " ", 1)
	lim := strings.Replace(strings.TrimPrefix(f[2], "lim="), ":", " ", 1)
	cls := func(s string) string { // "err missing:3" -> "err missing", "ok 12" -> "ok"
		s = strings.SplitN(s, ":", 2)[0]
		if strings.HasPrefix(s, "ok") {
			return "ok"
		}
		return s
	}
	ctx.Hist("real", cls(real))
	ctx.Hist("mirror.lim", cls(lim))
	abnormal := strings.HasPrefix(real, "crash") || strings.HasPrefix(real, "panic") || real == "timeout"
	switch {
	case abnormal && strings.HasPrefix(lim, "err oom"):
		ctx.Observe("typed-decoder-allocates-announced-list-size "+strings.Fields(real)[0], "the typed decoder allocates the announced list size before reading the elements (mirror: "+lim+" with an allocator bounded by the input length; theorem announced_list_size_not_bounded); the isolated process ended with: "+real, detail(nil))
		ctx.Hist("alloc", "process died, mirror lim=oom")
	case abnormal:
		ctx.Fail("L2", "typed-decoder-abnormal-end-not-predicted root="+rootName+" "+strings.Fields(real)[0]+" mirror="+cls(inf), "the real decoder ended with "+real+", the mirror answers "+inf, detail(nil))
	case real != inf:
		ctx.Fail("L2", "typed-decoder-differs root="+rootName+" real="+cls(real)+" mirror="+cls(inf), fmt.Sprintf("real %q, mirror %q", real, inf), detail(nil))
	default:
		if strings.HasPrefix(lim, "err oom") {
			ctx.Hist("alloc", "granted by the OS, mirror lim=oom")
		}
	}
	// L1 on the real code alone
	if strings.HasPrefix(real, "ok ") {
		e, _ := strconv.Atoi(strings.TrimPrefix(real, "ok "))
		if wk := c14RealSkip(c.b); wk != real {
			ctx.Fail("L1", "typed-accepts-beyond-walk root="+rootName+" walk="+cls(wk), fmt.Sprintf("Decode answers %q, skipStruct %q", real, wk), detail(nil))
		}
		cuts := []int{0, e - 1, e / 2}
		if e <= 48 {
			cuts = cuts[:0]
			for m := 0; m < e; m++ {
				cuts = append(cuts, m)
			}
		}
		for _, m := range cuts {
			if m < 0 || m >= e {
				continue
			}
			if a := c14tRealRoot(rootName, c.b[:m]); a != "err eof" && a != "err ueof" {
				ctx.Fail("L1", "typed-cut-not-eof root="+rootName+" "+cls(a), fmt.Sprintf("accepted at %d, the cut at %d answers %q, expected io.EOF / io.ErrUnexpectedEOF (typed_cut_eof)", e, m, a), detail(map[string]any{"cut": m}))
			} else {
				ctx.Hist("cut.class", cls(a))
			}
		}
		if c.kind != "base" || c.origin != "marshal" {
			ctx.Sample(map[string]any{"root": rootName, "origin": c.origin, "kind": c.kind, "mutations": c.muts, "bytes": len(c.b), "answer": real})
		}
	}
}

func c14tRealRoot(name string, b []byte) string {
	for i, r := range thRoots {
		if r.name == name {
			return c14tReal(i, b)
		}
	}
	return "bad-root"
}
