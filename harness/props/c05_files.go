package props

import (
	"bytes"
	"crypto/sha256"
	"encoding/binary"
	"encoding/hex"
	"fmt"
	"io"
	"math"
	"math/rand"
	"sort"
	"strings"
	"sync"

	"github.com/google/uuid"
	"github.com/parquet-go/parquet-go"
	"github.com/parquet-go/parquet-go/deprecated"
	"github.com/parquet-go/parquet-go/encoding/thrift"
	"github.com/parquet-go/parquet-go/format"

	"verifharness/core"
)

func init() {
	RegisterSub("C05", "files", func(ctx *core.Ctx) { runStatsFiles(ctx, true) })
	RegisterSub("C06", "files", func(ctx *core.Ctx) { runStatsFiles(ctx, false) })
}

// c05Row is the typed struct every generated file is written from: one required and one optional
// column per column order. PageBufferSize(1) makes every Write call its own page in every column.
type c05Row struct {
	I32   int32             `parquet:"i32"`
	OI32  *int32            `parquet:"oi32,optional"`
	I64   int64             `parquet:"i64"`
	OI64  *int64            `parquet:"oi64,optional"`
	U32   uint32            `parquet:"u32"`
	OU32  *uint32           `parquet:"ou32,optional"`
	U64   uint64            `parquet:"u64"`
	OU64  *uint64           `parquet:"ou64,optional"`
	F32   float32           `parquet:"f32"`
	OF32  *float32          `parquet:"of32,optional"`
	F64   float64           `parquet:"f64"`
	OF64  *float64          `parquet:"of64,optional"`
	S     string            `parquet:"s"`
	OS    *string           `parquet:"os,optional"`
	B     []byte            `parquet:"b"`
	OB    []byte            `parquet:"ob,optional"`
	FL    [5]byte           `parquet:"fl"`
	OFL   *[5]byte          `parquet:"ofl,optional"`
	FL20  [20]byte          `parquet:"fl20"`
	OFL20 *[20]byte         `parquet:"ofl20,optional"`
	BE    [16]byte          `parquet:"be"`
	OBE   *[16]byte         `parquet:"obe,optional"`
	UU    [16]byte          `parquet:"uu,uuid"`
	OUU   *uuid.UUID        `parquet:"ouu,optional"`
	D32   int32             `parquet:"d32,decimal(2:9)"`
	OD32  *int32            `parquet:"od32,optional,decimal(2:9)"`
	D64   int64             `parquet:"d64,decimal(2:18)"`
	OD64  *int64            `parquet:"od64,optional,decimal(2:18)"`
	DFL   [9]byte           `parquet:"dfl,decimal(2:20)"`
	ODFL  *[9]byte          `parquet:"odfl,optional,decimal(2:20)"`
	BO    bool              `parquet:"bo"`
	OBO   *bool             `parquet:"obo,optional"`
	I96   deprecated.Int96  `parquet:"i96"`
	OI96  *deprecated.Int96 `parquet:"oi96,optional"`
}

type c05Col struct {
	name     string
	kind     string
	optional bool
	set      func(r *c05Row, v *c05Val) // v == nil: null (optional columns only)
}

var c05Cols = []c05Col{
	{"i32", "i32", false, func(r *c05Row, v *c05Val) { r.I32 = int32(uint32(v.bits)) }},
	{"oi32", "i32", true, func(r *c05Row, v *c05Val) {
		if v != nil {
			x := int32(uint32(v.bits))
			r.OI32 = &x
		}
	}},
	{"i64", "i64", false, func(r *c05Row, v *c05Val) { r.I64 = int64(v.bits) }},
	{"oi64", "i64", true, func(r *c05Row, v *c05Val) {
		if v != nil {
			x := int64(v.bits)
			r.OI64 = &x
		}
	}},
	{"u32", "u32", false, func(r *c05Row, v *c05Val) { r.U32 = uint32(v.bits) }},
	{"ou32", "u32", true, func(r *c05Row, v *c05Val) {
		if v != nil {
			x := uint32(v.bits)
			r.OU32 = &x
		}
	}},
	{"u64", "u64", false, func(r *c05Row, v *c05Val) { r.U64 = v.bits }},
	{"ou64", "u64", true, func(r *c05Row, v *c05Val) {
		if v != nil {
			x := v.bits
			r.OU64 = &x
		}
	}},
	{"f32", "f32", false, func(r *c05Row, v *c05Val) { r.F32 = math.Float32frombits(uint32(v.bits)) }},
	{"of32", "f32", true, func(r *c05Row, v *c05Val) {
		if v != nil {
			x := math.Float32frombits(uint32(v.bits))
			r.OF32 = &x
		}
	}},
	{"f64", "f64", false, func(r *c05Row, v *c05Val) { r.F64 = math.Float64frombits(v.bits) }},
	{"of64", "f64", true, func(r *c05Row, v *c05Val) {
		if v != nil {
			x := math.Float64frombits(v.bits)
			r.OF64 = &x
		}
	}},
	{"s", "string", false, func(r *c05Row, v *c05Val) { r.S = string(v.b) }},
	{"os", "string", true, func(r *c05Row, v *c05Val) {
		if v != nil {
			x := string(v.b)
			r.OS = &x
		}
	}},
	{"b", "bytes", false, func(r *c05Row, v *c05Val) { r.B = append([]byte{}, v.b...) }},
	{"ob", "bytes", true, func(r *c05Row, v *c05Val) {
		if v != nil {
			r.OB = append([]byte{}, v.b...)
		}
	}},
	{"fl", "flba5", false, func(r *c05Row, v *c05Val) { copy(r.FL[:], v.b) }},
	{"ofl", "flba5", true, func(r *c05Row, v *c05Val) {
		if v != nil {
			r.OFL = new([5]byte)
			copy(r.OFL[:], v.b)
		}
	}},
	{"fl20", "flba20", false, func(r *c05Row, v *c05Val) { copy(r.FL20[:], v.b) }},
	{"ofl20", "flba20", true, func(r *c05Row, v *c05Val) {
		if v != nil {
			r.OFL20 = new([20]byte)
			copy(r.OFL20[:], v.b)
		}
	}},
	{"be", "be128", false, func(r *c05Row, v *c05Val) { copy(r.BE[:], v.b) }},
	{"obe", "be128", true, func(r *c05Row, v *c05Val) {
		if v != nil {
			r.OBE = new([16]byte)
			copy(r.OBE[:], v.b)
		}
	}},
	{"uu", "uuid", false, func(r *c05Row, v *c05Val) { copy(r.UU[:], v.b) }},
	{"ouu", "uuid", true, func(r *c05Row, v *c05Val) {
		if v != nil {
			r.OUU = new(uuid.UUID)
			copy(r.OUU[:], v.b)
		}
	}},
	{"d32", "dec32", false, func(r *c05Row, v *c05Val) { r.D32 = int32(uint32(v.bits)) }},
	{"od32", "dec32", true, func(r *c05Row, v *c05Val) {
		if v != nil {
			x := int32(uint32(v.bits))
			r.OD32 = &x
		}
	}},
	{"d64", "dec64", false, func(r *c05Row, v *c05Val) { r.D64 = int64(v.bits) }},
	{"od64", "dec64", true, func(r *c05Row, v *c05Val) {
		if v != nil {
			x := int64(v.bits)
			r.OD64 = &x
		}
	}},
	{"dfl", "dec9", false, func(r *c05Row, v *c05Val) { copy(r.DFL[:], v.b) }},
	{"odfl", "dec9", true, func(r *c05Row, v *c05Val) {
		if v != nil {
			r.ODFL = new([9]byte)
			copy(r.ODFL[:], v.b)
		}
	}},
	{"bo", "bool", false, func(r *c05Row, v *c05Val) { r.BO = v.bits != 0 }},
	{"obo", "bool", true, func(r *c05Row, v *c05Val) {
		if v != nil {
			x := v.bits != 0
			r.OBO = &x
		}
	}},
	{"i96", "int96", false, func(r *c05Row, v *c05Val) {
		for i := range r.I96 {
			r.I96[i] = binary.LittleEndian.Uint32(v.b[4*i:])
		}
	}},
	{"oi96", "int96", true, func(r *c05Row, v *c05Val) {
		if v != nil {
			r.OI96 = new(deprecated.Int96)
			for i := range r.OI96 {
				r.OI96[i] = binary.LittleEndian.Uint32(v.b[4*i:])
			}
		}
	}},
}

// one generated file: cells[col][page] = the values of that page (nil entry = null)
type c05File struct {
	id      string
	lim     int
	version int
	rows    []int // rows per page (= per Write call)
	cells   [][][]*c05Val
	only    string          // replay: check this column only
	maxRows int             // MaxRowsPerRowGroup (0 = one row group)
	multi   bool            // set while checking: the file has several row groups
	skip    map[string]bool // columns written with SkipPageBounds
	copyToo bool            // also copy the file with WriteRowGroup and check the copy
	copied  bool            // set while checking the WriteRowGroup copy of the file
}

// recordSample: the whole-record mirror (c05.record) is asked for one file in four (and on replays)
func (f *c05File) recordSample() bool { return f.only != "" || (len(f.rows)+f.lim)%4 == 0 }

func (f *c05File) colText(ci int) string {
	k := c05KindByName(c05Cols[ci].kind)
	var sb strings.Builder
	for p, page := range f.cells[ci] {
		if p > 0 {
			sb.WriteByte('|')
		}
		for i, v := range page {
			if i > 0 {
				sb.WriteByte(',')
			}
			if v == nil {
				sb.WriteString("null")
			} else {
				sb.WriteString(k.text(*v))
			}
		}
	}
	return sb.String()
}

func c05GenFile(r *rand.Rand, id string) *c05File {
	f := &c05File{id: id, lim: 1 + r.Intn(64), version: 1 + r.Intn(2)}
	if r.Intn(2) == 0 {
		f.lim = 1 + r.Intn(8)
	}
	np := 1 + r.Intn(6)
	if r.Intn(12) == 0 {
		np = 7 + r.Intn(14)
	}
	for p := 0; p < np; p++ {
		n := 1 + r.Intn(4)
		if r.Intn(8) == 0 {
			n = 5 + r.Intn(28)
		}
		f.rows = append(f.rows, n)
	}
	if r.Intn(3) == 0 {
		// several row groups: the writer keeps every row group's column index until Close while the
		// indexers are reset and refilled, so each row group must be checked against its own pages
		total := 0
		for _, n := range f.rows {
			total += n
		}
		f.maxRows = 1 + r.Intn(max(1, total/2))
	}
	f.skip = map[string]bool{}
	if r.Intn(6) == 0 {
		for i := 0; i < 1+r.Intn(3); i++ {
			f.skip[c05Cols[r.Intn(len(c05Cols))].name] = true
		}
	}
	f.copyToo = r.Intn(5) == 0
	f.cells = make([][][]*c05Val, len(c05Cols))
	for ci, col := range c05Cols {
		k := c05KindByName(col.kind)
		// a sorted pool of non-NaN values; pages walk it ascending / descending / randomly / stay put
		pool, _ := k.genList(r, 3+r.Intn(8))
		var okPool []c05Val
		for _, v := range pool {
			if !k.isNaN(v) {
				okPool = append(okPool, v)
			}
		}
		if len(okPool) == 0 {
			okPool = []c05Val{k.gen(r, 0)}
		}
		sort.SliceStable(okPool, func(i, j int) bool { return k.cmp(okPool[i], okPool[j]) < 0 })
		mode := r.Intn(4)
		pos := 0
		if mode == 1 {
			pos = len(okPool) - 1
		}
		nullPageP := []int{0, 3, 6}[r.Intn(3)]
		nanPageP := 0
		if k.float {
			nanPageP = []int{0, 2, 4}[r.Intn(3)]
		}
		forcedNull := -1
		if col.optional && r.Intn(3) == 0 {
			forcedNull = []int{0, np / 2, np - 1}[r.Intn(3)] // all-null page first / middle / last
		}
		for p := 0; p < np; p++ {
			n := f.rows[p]
			page := make([]*c05Val, n)
			switch {
			case col.optional && (p == forcedNull || r.Intn(16) < nullPageP):
				// all-null page
			case r.Intn(16) < nanPageP:
				for i := range page {
					v := k.gen(r, 16)
					page[i] = &v
				}
			default:
				switch mode {
				case 0:
					pos = min(len(okPool)-1, pos+r.Intn(2))
				case 1:
					pos = max(0, pos-r.Intn(2))
				case 2:
					pos = r.Intn(len(okPool))
				}
				for i := range page {
					if col.optional && r.Intn(4) == 0 {
						continue
					}
					var v c05Val
					switch {
					case k.float && r.Intn(6) == 0:
						v = k.gen(r, 16) // NaN among values
					default:
						v = okPool[min(len(okPool)-1, pos+r.Intn(2))]
					}
					page[i] = &v
				}
			}
			f.cells[ci] = append(f.cells[ci], page)
		}
	}
	return f
}

// c05ReplayFile rebuilds the file of a recorded case from detail{column, pages, limit, page_version}:
// the recorded column gets its pages back, the other columns are zero / null.
func c05ReplayFile(ctx *core.Ctx) *c05File {
	d := c05ReplayDetail(ctx)
	if d == nil {
		return nil
	}
	if op, _ := d["op"].(string); op != "file" {
		return nil
	}
	colName, _ := d["column"].(string)
	pagesText, _ := d["pages"].(string)
	lim, _ := d["limit"].(float64)
	ver, _ := d["page_version"].(float64)
	maxRows, _ := d["max_rows_per_row_group"].(float64)
	f := &c05File{id: "replay", lim: int(lim), version: int(ver), only: colName, maxRows: int(maxRows)}
	target := -1
	for ci, col := range c05Cols {
		if col.name == colName {
			target = ci
		}
	}
	if target < 0 || f.lim < 1 {
		ctx.Fail("L2", "replay-unparsable", "unknown column or limit", ctx.Replay)
		return nil
	}
	k := c05KindByName(c05Cols[target].kind)
	var pages [][]*c05Val
	for _, pt := range strings.Split(pagesText, "|") {
		var page []*c05Val
		for _, s := range strings.Split(pt, ",") {
			if s == "null" {
				page = append(page, nil)
				continue
			}
			v, ok := k.parse(s)
			if !ok {
				ctx.Fail("L2", "replay-unparsable", "value "+s, ctx.Replay)
				return nil
			}
			page = append(page, &v)
		}
		pages = append(pages, page)
		f.rows = append(f.rows, len(page))
	}
	f.cells = make([][][]*c05Val, len(c05Cols))
	for ci, col := range c05Cols {
		if ci == target {
			f.cells[ci] = pages
			continue
		}
		kk := c05KindByName(col.kind)
		for _, n := range f.rows {
			page := make([]*c05Val, n)
			if !col.optional {
				for i := range page {
					page[i] = &c05Val{b: make([]byte, kk.size)}
				}
			}
			f.cells[ci] = append(f.cells[ci], page)
		}
	}
	return f
}

func (f *c05File) options() []parquet.WriterOption {
	lim := f.lim
	opts := []parquet.WriterOption{
		parquet.PageBufferSize(1),
		parquet.ColumnIndexSizeLimit(func([]string) int { return lim }),
		parquet.DataPageStatistics(true),
		parquet.DataPageVersion(f.version),
	}
	if f.maxRows > 0 {
		opts = append(opts, parquet.MaxRowsPerRowGroup(int64(f.maxRows)))
	}
	var names []string
	for n := range f.skip {
		names = append(names, n)
	}
	sort.Strings(names)
	for _, n := range names {
		opts = append(opts, parquet.SkipPageBounds(n))
	}
	return opts
}

func (f *c05File) write() (data []byte, pan any) {
	var buf bytes.Buffer
	pan = c05Recover(func() {
		w := parquet.NewGenericWriter[c05Row](&buf, f.options()...)
		for p, n := range f.rows {
			rows := make([]c05Row, n)
			for ci, col := range c05Cols {
				for i := 0; i < n; i++ {
					col.set(&rows[i], f.cells[ci][p][i])
				}
			}
			if _, err := w.Write(rows); err != nil {
				panic(err)
			}
		}
		if err := w.Close(); err != nil {
			panic(err)
		}
	})
	return buf.Bytes(), pan
}

// copy writes the row groups of a written file into a new file with WriteRowGroup (same options: the
// verbatim copy path is taken when the writer finds the chunks copyable, else they are re-encoded).
func (f *c05File) copy(data []byte) (out []byte, copied int64, pan any) {
	var buf bytes.Buffer
	pan = c05Recover(func() {
		src, err := parquet.OpenFile(bytes.NewReader(data), int64(len(data)))
		if err != nil {
			panic(err)
		}
		before := parquet.VerifCopyPathCount()
		w := parquet.NewGenericWriter[c05Row](&buf, f.options()...)
		for _, rg := range src.RowGroups() {
			if _, err := w.WriteRowGroup(rg); err != nil {
				panic(err)
			}
		}
		if err := w.Close(); err != nil {
			panic(err)
		}
		copied = parquet.VerifCopyPathCount() - before
	})
	return buf.Bytes(), copied, pan
}

// what the page reader returns for one page
type c05ReadPage struct {
	vals      []c05Val // non-null values in order
	nulls     int
	numValues int
	numRows   int
}

func c05ReadPages(k *c05Kind, cc parquet.ColumnChunk) (out []c05ReadPage, err error) {
	pages := cc.Pages()
	defer pages.Close()
	for {
		p, e := pages.ReadPage()
		if e != nil {
			if e != io.EOF {
				err = e
			}
			return
		}
		rp := c05ReadPage{numValues: int(p.NumValues()), numRows: int(p.NumRows())}
		vr := p.Values()
		buf := make([]parquet.Value, 64)
		for {
			n, e := vr.ReadValues(buf)
			for _, v := range buf[:n] {
				if v.IsNull() {
					rp.nulls++
				} else {
					rp.vals = append(rp.vals, k.fromValue(v))
				}
			}
			if e != nil || n == 0 {
				break
			}
		}
		if int(p.NumNulls()) != rp.nulls {
			err = fmt.Errorf("page.NumNulls()=%d but %d null values were read", p.NumNulls(), rp.nulls)
		}
		parquet.Release(p)
		out = append(out, rp)
	}
}

type c05Stats struct {
	has      bool // statistics carry min and max
	min, max c05Val
	nulls    int64
}

func c05DecodeStats(k *c05Kind, st *format.Statistics, hasValues bool) (s c05Stats, ok bool) {
	s.nulls = st.NullCount
	if st.MinValue == nil && st.MaxValue == nil && !(k.isBytes() && k.size == 0 && hasValues) {
		return s, true
	}
	// thrift cannot tell an empty byte string from an absent one: for BYTE_ARRAY columns a missing
	// bound next to real values is the empty string
	mn, ok1 := k.fromPlain(st.MinValue)
	mx, ok2 := k.fromPlain(st.MaxValue)
	if !ok1 || !ok2 {
		return s, false
	}
	s.has, s.min, s.max = true, mn, mx
	return s, true
}

func runStatsFiles(ctx *core.Ctx, c05 bool) {
	if c05 {
		ctx.SetRule("files written with the typed GenericWriter from a 32-column struct (required+optional int32/int64/uint32/uint64/float/double/string/[]byte/FLBA(5)/FLBA(20)/be128/uuid/decimal int32,int64,FLBA(9)/bool), PageBufferSize(1) so each Write call is one page per column, all-null pages in every position, all-NaN pages, ColumnIndexSizeLimit 1..64, page versions 1 and 2, data page statistics on; plus files of dictionary-encoded columns of every order (c05DictRow: DictionaryMaxBytes 0/1..96 so chunks fall back to PLAIN mid-way, variable-width BYTE_ARRAY decimals with equal values in different widths) and WriteRowGroup copies (verbatim and re-encoded, the re-encoded copy's chunk statistics compared with the source's), and files whose row groups are cut by Flush with >= 2 pages each and designed seams (c05MultiRow); every file with several row groups is also read through parquet.MultiRowGroup, whose column index (members' entries, order claim recomputed across the borders) must satisfy the same clauses (L1) and agree with the Lean mirror multiAsc/multiDesc (L2); plus IN-MEMORY row groups (c05BufRow: Buffer / GenericBuffer filled through the typed and the untyped API, sorted or not, leaves at max definition level 0..3 and repetition level 0..2 with nulls at every level below the max, null-only buffers with and without a level-0 null, one dictionary-indexed leaf) whose chunks' own ColumnIndex / OffsetIndex / NumValues are checked against the single page they yield (L1) and against the Lean level model and the mirror of nullableColumnIndex.NullCount (L2), alone and as members of a MultiRowGroup next to a file's row group; read back through the page reader; recorded column index / offset index / chunk statistics / page header statistics checked against the values read (L1) and against the Lean mirrors of Bounds, of the chunk fold, of the whole chunk record and of the level model of nested pages (L2); distinct by file content, non-trivial = at least 2 pages")
	} else {
		ctx.SetRule("same generated files as C05/files: parquet.Search on the file's column index for every distinct value of every page (must return a page at or before the first page holding the value, whose bounds contain it) and for absent probes around the bounds; distinct by file content, non-trivial = at least 2 pages")
	}
	if ctx.Replay != "" {
		b := &c05Batch{ctx: ctx}
		if c05 {
			b.d = ctx.Driver()
		}
		if d := c05ReplayDetail(ctx); d != nil && d["op"] == "buffers" {
			if c05 {
				c05ReplayBuffers(ctx, b, d)
			}
		} else if f := c05ReplayFile(ctx); f != nil {
			c05CheckFile(ctx, b, f, c05, true)
		}
		b.flush()
		return
	}
	// thorough budgets of C05 are sized for a shared box (both builds of the whole property in < 10 minutes)
	nfiles := ctx.Scale(2800, 30000)
	workers := 16
	if !c05 {
		// C06 searches every file per row group and once more through MultiRowGroup: fewer files in thorough
		nfiles = ctx.Scale(2800, 16000)
		workers = 8
	}
	var wg sync.WaitGroup
	for w := 0; w < workers; w++ {
		wg.Add(1)
		go func(w int) {
			defer wg.Done()
			r := ctx.Rand(fmt.Sprintf("statsfiles/%d", w))
			b := &c05Batch{ctx: ctx}
			if c05 {
				b.d = ctx.Driver()
			}
			if c05 {
				for i := w; i < ctx.Scale(2, 8); i += workers {
					c05BigFile(ctx, b, i)
				}
				for i := w; i < ctx.Scale(300, 4000); i += workers {
					c05HistFile(ctx, b, fmt.Sprintf("statshist#%d", i))
				}
				for i := w; i < ctx.Scale(240, 3000); i += workers {
					c05DictFile(ctx, b, fmt.Sprintf("statsdict#%d", i))
				}
				for i := w; i < ctx.Scale(400, 3000); i += workers {
					c05MultiFile(ctx, b, fmt.Sprintf("statsmulti#%d", i))
				}
				for i := w; i < ctx.Scale(1200, 12000); i += workers {
					id := fmt.Sprintf("statsbuffers#%d", i)
					c05BufferCase(ctx, b, c05BufGenCase(ctx.Rand(id), id))
				}
			}
			for i := 0; i < nfiles/workers; i++ {
				f := c05GenFile(r, fmt.Sprintf("statsfiles/%d#%d", w, i))
				c05CheckFile(ctx, b, f, c05, i < 1 && w == 0)
			}
			b.flush()
		}(w)
	}
	wg.Wait()
}

func c05CheckFile(ctx *core.Ctx, b *c05Batch, f *c05File, c05 bool, sample bool) {
	h := sha256.New()
	for ci := range c05Cols {
		h.Write([]byte(f.colText(ci)))
		h.Write([]byte{0})
	}
	canon := fmt.Sprintf("file lim=%d v=%d maxrows=%d %s", f.lim, f.version, f.maxRows, hex.EncodeToString(h.Sum(nil)))
	ctx.Case(canon, len(f.rows) >= 2)
	ctx.Hist("file-pages", c05Bucket(len(f.rows)))
	ctx.Hist("file-limit", c05Bucket(f.lim))
	ctx.Hist("file-page-version", fmt.Sprint(f.version))
	if sample {
		ctx.Sample(map[string]any{"file": f.id, "limit": f.lim, "version": f.version, "rows_per_page": f.rows,
			"oi32": f.colText(1), "os": f.colText(13)})
	}
	var skipped []string
	for n := range f.skip {
		skipped = append(skipped, n)
	}
	sort.Strings(skipped)
	if len(skipped) > 0 {
		ctx.Hist("file-skip-page-bounds", fmt.Sprint(len(skipped)))
	}
	base := map[string]any{"file": f.id, "limit": f.lim, "page_version": f.version, "rows_per_page": f.rows, "max_rows_per_row_group": f.maxRows, "skip_page_bounds": skipped}
	data, pan := f.write()
	if pan != nil {
		ctx.Fail("L1", "writer-panic", fmt.Sprint(pan), base)
		return
	}
	src := c05CheckData(ctx, b, f, data, c05, base)
	if c05 && f.copyToo && f.only == "" {
		// statistics copied by the verbatim row-group copy path must still describe the copied pages
		cp, copied, pan := f.copy(data)
		cbase := map[string]any{"copied_with_WriteRowGroup": true, "chunks_copied_verbatim": copied}
		for k, v := range base {
			cbase[k] = v
		}
		if pan != nil {
			ctx.Fail("L1", "copy-row-group-failed", fmt.Sprint(pan), cbase)
			return
		}
		ctx.Case(canon+" copied", len(f.rows) >= 2)
		if copied > 0 {
			ctx.Hist("copied-file", "verbatim-chunks")
		} else {
			ctx.Hist("copied-file", "re-encoded")
		}
		f.copied = true
		dst := c05CheckData(ctx, b, f, cp, c05, cbase)
		f.copied = false
		if copied == 0 && src != nil && dst != nil {
			c05CompareReencoded(ctx, f, src, dst, cbase)
		}
	}
}

// c05CheckData checks one file image (as written, or as copied) against the values read back from it.
func c05CheckData(ctx *core.Ctx, b *c05Batch, f *c05File, data []byte, c05 bool, base map[string]any) (pf *parquet.File) {
	if p := c05Recover(func() {
		var err error
		pf, err = parquet.OpenFile(bytes.NewReader(data), int64(len(data)))
		if err != nil {
			panic(err)
		}
	}); p != nil {
		ctx.Fail("L1", "open-file-failed", fmt.Sprint(p), base)
		return nil
	}
	rgs := pf.RowGroups()
	if f.maxRows == 0 && len(rgs) != 1 {
		ctx.Fail("L1", "unexpected-row-groups", fmt.Sprintf("%d row groups", len(rgs)), base)
		return pf
	}
	ctx.Hist("file-row-groups", c05Bucket(len(rgs)))
	f.multi = len(rgs) > 1
	rawIdx := pf.ColumnIndexes()
	rowsSeen := 0
	allPages := make([][]c05ReadPage, len(c05Cols)) // C06: the pages of every row group one after the other
	allShort := make([]bool, len(c05Cols))
	allRead := make([]int, len(c05Cols))
	members := make([][]c05MultiMember, len(c05Cols)) // C05: every column's chunks with their pages, for the MultiRowGroup view
	for g, rg := range rgs {
		chunks := rg.ColumnChunks()
		md := pf.Metadata().RowGroups[g].Columns
		rowsSeen += int(rg.NumRows())
		for ci, col := range c05Cols {
			if f.only != "" && f.only != col.name {
				continue
			}
			kk := *c05KindByName(col.kind)
			kk.typ = chunks[ci].Type() // the file's own type defines the order
			detail := func(extra map[string]any) map[string]any {
				m := map[string]any{"op": "file", "column": col.name, "kind": col.kind, "pages": f.colText(ci), "row_group": g, "row_groups": len(rgs)}
				for k, v := range base {
					m[k] = v
				}
				for k, v := range extra {
					m[k] = v
				}
				return m
			}
			var raw *format.ColumnIndex
			if len(rawIdx) == len(c05Cols)*len(rgs) {
				raw = &rawIdx[g*len(c05Cols)+ci]
			}
			var pages []c05ReadPage
			var rerr error
			if p := c05Recover(func() { pages, rerr = c05ReadPages(&kk, chunks[ci]) }); p != nil || rerr != nil {
				ctx.Fail("L1", "read-pages-failed "+col.kind, fmt.Sprint(p, rerr), detail(nil))
				continue
			}
			if len(rgs) == 1 {
				if len(pages) != len(f.rows) {
					ctx.Hist("page-cut", "differs-from-write-calls")
				} else {
					ctx.Hist("page-cut", "one-page-per-write")
				}
			}
			if c05 {
				c05CheckChunk(ctx, b, &kk, col, f, data, chunks[ci], raw, &md[ci].MetaData, pages, detail)
				members[ci] = append(members[ci], c05MultiMember{cc: chunks[ci], pages: pages})
			} else {
				short := raw != nil && len(raw.MinValues) != len(raw.NullPages)
				c06CheckChunk(ctx, &kk, col, f, chunks[ci], short, pages, detail, "")
				allPages[ci] = append(allPages[ci], pages...)
				allShort[ci] = allShort[ci] || short
				allRead[ci]++
			}
		}
	}
	if !c05 && len(rgs) > 1 {
		// the same column through MultiRowGroup: one chunk whose column index lists the pages of all row groups
		// and recomputes the order flags across the row group borders
		var mchunks []parquet.ColumnChunk
		if p := c05Recover(func() { mchunks = parquet.MultiRowGroup(rgs...).ColumnChunks() }); p != nil || len(mchunks) != len(c05Cols) {
			ctx.Fail("L1", "multi-row-group-failed", fmt.Sprint(p), base)
			return
		}
		for ci, col := range c05Cols {
			if (f.only != "" && f.only != col.name) || allRead[ci] != len(rgs) {
				continue
			}
			kk := *c05KindByName(col.kind)
			kk.typ = mchunks[ci].Type()
			detail := func(extra map[string]any) map[string]any {
				m := map[string]any{"op": "file", "column": col.name, "kind": col.kind, "pages": f.colText(ci), "multi_row_group": true, "row_groups": len(rgs)}
				for k, v := range base {
					m[k] = v
				}
				for k, v := range extra {
					m[k] = v
				}
				return m
			}
			c06CheckChunk(ctx, &kk, col, f, mchunks[ci], allShort[ci], allPages[ci], detail, " multi-row-group")
		}
	}
	if c05 && len(rgs) > 1 {
		// C05: the statistics a reader gets for the same column through MultiRowGroup (entries of the members, order
		// claim recomputed across the row group borders) must satisfy the property like a file's own column index
		var mchunks []parquet.ColumnChunk
		if p := c05Recover(func() { mchunks = parquet.MultiRowGroup(rgs...).ColumnChunks() }); p != nil || len(mchunks) != len(c05Cols) {
			ctx.Fail("L1", "multi-row-group-failed", fmt.Sprint(p), base)
			return
		}
		for ci, col := range c05Cols {
			if (f.only != "" && f.only != col.name) || len(members[ci]) != len(rgs) || f.skip[col.name] {
				continue
			}
			kk := *c05KindByName(col.kind)
			kk.typ = mchunks[ci].Type()
			detail := func(extra map[string]any) map[string]any {
				m := map[string]any{"op": "file", "column": col.name, "kind": col.kind, "pages": f.colText(ci), "multi_row_group": true, "row_groups": len(rgs)}
				for k, v := range base {
					m[k] = v
				}
				for k, v := range extra {
					m[k] = v
				}
				return m
			}
			c05CheckMultiView(ctx, b, &kk, col.kind, f.lim, mchunks[ci], members[ci], detail)
		}
	}
	total := 0
	for _, n := range f.rows {
		total += n
	}
	if rowsSeen != total {
		ctx.Fail("L1", "row-groups-lose-rows", fmt.Sprintf("%d rows written, %d rows in %d row groups", total, rowsSeen, len(rgs)), base)
	}
	return pf
}

// c05CompareReencoded: a RE-ENCODED copy (WriteRowGroup that could not splice the chunk) recomputes every
// statistic from the values it reads back. Model (`reencode_sound`): the new record depends on the value
// sequence only, so per chunk the counts equal the source's and the chunk min/max are equal in the
// column's order (both are attained bounds of the same values), whatever pages the copy cut.
func c05CompareReencoded(ctx *core.Ctx, f *c05File, src, dst *parquet.File, base map[string]any) {
	a, c := src.Metadata().RowGroups, dst.Metadata().RowGroups
	if len(a) != len(c) {
		ctx.Hist("reencoded-row-groups", "regrouped")
		return
	}
	ctx.Hist("reencoded-row-groups", "aligned")
	for g := range a {
		if a[g].NumRows != c[g].NumRows || len(a[g].Columns) != len(c[g].Columns) || len(a[g].Columns) != len(c05Cols) {
			return
		}
		for ci, col := range c05Cols {
			if f.skip[col.name] {
				continue
			}
			k := *c05KindByName(col.kind)
			k.typ = src.RowGroups()[g].ColumnChunks()[ci].Type()
			ma, mc := &a[g].Columns[ci].MetaData, &c[g].Columns[ci].MetaData
			detail := func(extra map[string]any) map[string]any {
				m := map[string]any{"op": "file", "column": col.name, "kind": col.kind, "pages": f.colText(ci), "row_group": g}
				for kk, v := range base {
					m[kk] = v
				}
				for kk, v := range extra {
					m[kk] = v
				}
				return m
			}
			if ma.NumValues != mc.NumValues || ma.Statistics.NullCount != mc.Statistics.NullCount {
				ctx.Fail("L1", "reencoded-counts-differ "+col.kind, fmt.Sprintf("source chunk: num_values=%d null_count=%d, re-encoded copy: num_values=%d null_count=%d", ma.NumValues, ma.Statistics.NullCount, mc.NumValues, mc.Statistics.NullCount), detail(nil))
				continue
			}
			hasValues := ma.NumValues > ma.Statistics.NullCount
			sa, oka := c05DecodeStats(&k, &ma.Statistics, hasValues)
			sc, okc := c05DecodeStats(&k, &mc.Statistics, hasValues)
			if !oka || !okc || !sa.has || !sc.has {
				if oka && okc && sa.has != sc.has {
					ctx.Fail("L2", "reencoded-stats-differ "+col.kind, "one of the source chunk and its re-encoded copy has min/max, the other has none", detail(nil))
				}
				continue
			}
			if k.isNaN(sa.min) || k.isNaN(sc.min) || k.isNaN(sa.max) || k.isNaN(sc.max) {
				if (k.isNaN(sa.min) != k.isNaN(sc.min)) || (k.isNaN(sa.max) != k.isNaN(sc.max)) {
					ctx.Fail("L2", "reencoded-stats-differ "+col.kind, "NaN chunk bound in only one of the source chunk and its re-encoded copy", detail(map[string]any{"source": k.text(sa.min) + ":" + k.text(sa.max), "copy": k.text(sc.min) + ":" + k.text(sc.max)}))
				}
				continue
			}
			if k.cmp(sa.min, sc.min) != 0 || k.cmp(sa.max, sc.max) != 0 {
				ctx.Fail("L2", "reencoded-stats-differ "+col.kind, "chunk min/max of a re-encoded copy differ (in the column's order) from the source chunk's, although both describe the same values", detail(map[string]any{"source": k.text(sa.min) + ":" + k.text(sa.max), "copy": k.text(sc.min) + ":" + k.text(sc.max)}))
			}
			ctx.Hist("reencoded-chunk-compared", col.kind)
		}
	}
}

// c05BigFile: default page size, one Write call of 70000+ rows over the six numeric columns, so that
// the 64-bit columns get pages of about 32113 values and the 32-bit columns pages of about 64000
// (the lengths at which boundsXxx switches kernels). Every page's column index entry, page header
// statistics and the chunk statistics must bound (and, untruncated, be attained by) the values read
// back, in the column's order; the page header min/max are also compared with the Lean mirror of
// Bounds() on the values of the page (L2).
func c05BigFile(ctx *core.Ctx, b *c05Batch, idx int) {
	id := fmt.Sprintf("statsbig#%d", idx)
	r := ctx.Rand(id)
	n := 70000 + r.Intn(4000)
	cols := []struct{ name, kind string }{{"i32", "i32"}, {"i64", "i64"}, {"u32", "u32"}, {"u64", "u64"}, {"f32", "f32"}, {"f64", "f64"}}
	rows := make([]c05ReuseRow, n)
	for _, c := range cols {
		k := c05KindByName(c.kind)
		vs, _ := k.genList(r, n)
		for i, v := range vs {
			switch c.name {
			case "i32":
				rows[i].I32 = int32(uint32(v.bits))
			case "i64":
				rows[i].I64 = int64(v.bits)
			case "u32":
				rows[i].U32 = uint32(v.bits)
			case "u64":
				rows[i].U64 = v.bits
			case "f32":
				rows[i].F32 = math.Float32frombits(uint32(v.bits))
			case "f64":
				rows[i].F64 = math.Float64frombits(v.bits)
			}
		}
	}
	ctx.Case(fmt.Sprintf("bigfile %s n=%d", id, n), true)
	ctx.Hist("file-pages", "big")
	base := map[string]any{"op": "bigfile", "file": id, "rows": n, "note": "values are regenerated from the run seed (stream = file id)"}
	var buf bytes.Buffer
	var pf *parquet.File
	if p := c05Recover(func() {
		w := parquet.NewGenericWriter[c05ReuseRow](&buf, parquet.DataPageStatistics(true))
		if _, err := w.Write(rows); err != nil {
			panic(err)
		}
		if err := w.Close(); err != nil {
			panic(err)
		}
		var err error
		if pf, err = parquet.OpenFile(bytes.NewReader(buf.Bytes()), int64(buf.Len())); err != nil {
			panic(err)
		}
	}); p != nil {
		ctx.Fail("L1", "bigfile-write-or-open-failed", fmt.Sprint(p), base)
		return
	}
	data := buf.Bytes()
	for g, rg := range pf.RowGroups() {
		for ci, c := range cols {
			kk := *c05KindByName(c.kind)
			cc := rg.ColumnChunks()[ci]
			kk.typ = cc.Type()
			k := &kk
			detail := func(extra map[string]any) map[string]any {
				m := map[string]any{"column": c.name, "kind": c.kind, "row_group": g}
				for kx, v := range base {
					m[kx] = v
				}
				for kx, v := range extra {
					m[kx] = v
				}
				return m
			}
			var pages []c05ReadPage
			var rerr error
			if p := c05Recover(func() { pages, rerr = c05ReadPages(k, cc) }); p != nil || rerr != nil {
				ctx.Fail("L1", "read-pages-failed "+c.kind, fmt.Sprint(p, rerr), detail(nil))
				continue
			}
			ci2, err := cc.ColumnIndex()
			oi, err2 := cc.OffsetIndex()
			if err != nil || err2 != nil {
				ctx.Fail("L1", "column-index-missing "+c.kind, fmt.Sprint(err, err2), detail(nil))
				continue
			}
			v := c05ViewIndex(k, ci2)
			if v.panicked != nil || v.n != len(pages) || oi.NumPages() != len(pages) {
				ctx.Fail("L1", "index-numpages "+c.kind, fmt.Sprintf("NumPages()=%d, %d pages read, panic=%v", v.n, len(pages), v.panicked), detail(nil))
				continue
			}
			var all []c05Val
			for i, p := range pages {
				ctx.Hist("bigfile-page-values", c05BigBucket(len(p.vals)))
				all = append(all, p.vals...)
				d := func(extra map[string]any) map[string]any {
					tmn, tmx, _, _ := c05PageBoundsPortable(k, p.vals)
					m := detail(map[string]any{"page": i, "page_values": len(p.vals), "true_min": k.text(tmn), "true_max": k.text(tmx)})
					for kx, vx := range extra {
						m[kx] = vx
					}
					return m
				}
				if key, what := c05BoundsOracle(k, p.vals, v.min[i], v.max[i], !v.nullPage[i], true); key != "" {
					ctx.Fail("L1", c05BoundKey("bigpage-index-", key, c.kind), "column index of a default-size page: "+what, d(map[string]any{"entry_min": k.text(v.min[i]), "entry_max": k.text(v.max[i])}))
				}
				var hdr format.PageHeader
				off := oi.Offset(i)
				if off < 0 || off >= int64(len(data)) || thrift.NewDecoder(new(thrift.CompactProtocol).NewReaderFromBytes(bytes.Clone(data[off:min(int64(len(data)), off+4096)]))).Decode(&hdr) != nil {
					ctx.Fail("L1", "page-header-unreadable "+c.kind, fmt.Sprintf("page %d at offset %d", i, off), detail(nil))
					continue
				}
				var st *format.Statistics
				switch {
				case hdr.DataPageHeader.Valid:
					st = &hdr.DataPageHeader.V.Statistics
				case hdr.DataPageHeaderV2.Valid:
					st = &hdr.DataPageHeaderV2.V.Statistics
				default:
					continue
				}
				s, ok := c05DecodeStats(k, st, len(p.vals) > 0)
				if !ok || !s.has {
					ctx.Fail("L1", "page-stats-missing "+c.kind, "no page header statistics", d(nil))
					continue
				}
				if key, what := c05BoundsOracle(k, p.vals, s.min, s.max, true, true); key != "" {
					ctx.Fail("L1", c05BoundKey("bigpage-stats-", key, c.kind), "page header statistics of a default-size page: "+what, d(map[string]any{"stat_min": k.text(s.min), "stat_max": k.text(s.max)}))
				}
				got := "ok " + k.text(s.min) + " " + k.text(s.max)
				b.ask("c05.bounds "+k.drv+" "+k.texts(p.vals), func(ans string) {
					if ans != got {
						ctx.Fail("L2", "bigfile-bounds-mirror "+c.kind, "page header min/max of a default-size page differ from the Lean mirror of Bounds() on the values read back", d(map[string]any{"impl": got, "model": ans, "build": ctx.Variant}))
					}
				})
			}
			md := &pf.Metadata().RowGroups[g].Columns[ci].MetaData
			s, ok := c05DecodeStats(k, &md.Statistics, len(all) > 0)
			if !ok || !s.has {
				ctx.Fail("L1", "chunk-stats-missing "+c.kind, "the chunk has values but no min/max", detail(nil))
				continue
			}
			if key, what := c05BoundsOracle(k, all, s.min, s.max, true, false); key != "" {
				ctx.Fail("L1", c05BoundKey("bigpage-chunk-stats-", key, c.kind), "chunk statistics over default-size pages: "+what, detail(map[string]any{"chunk_min": k.text(s.min), "chunk_max": k.text(s.max)}))
			}
		}
	}
}

func c05BigBucket(n int) string {
	switch {
	case n < 32113:
		return "<32113"
	case n < 60000:
		return "32113-59999"
	default:
		return ">=60000"
	}
}

// true min/max by the column's own Compare, NaN ignored (for failure details only)
func c05PageBoundsPortable(k *c05Kind, vs []c05Val) (mn, mx c05Val, ok bool, _ any) {
	for _, v := range vs {
		if k.isNaN(v) {
			continue
		}
		if !ok {
			mn, mx, ok = v, v, true
			continue
		}
		if k.cmp(v, mn) < 0 {
			mn = v
		}
		if k.cmp(v, mx) > 0 {
			mx = v
		}
	}
	return
}

// index entries as the reader sees them (under recover: MinValue panics on short lists)
type c05IndexView struct {
	n          int
	nullPage   []bool
	nullCount  []int64
	min, max   []c05Val
	order      int
	panicked   any
	panickedAt int
}

func c05ViewIndex(k *c05Kind, ci parquet.ColumnIndex) (v c05IndexView) {
	v.panicked = c05Recover(func() {
		v.n = ci.NumPages()
		if ci.IsAscending() {
			v.order = 1
		} else if ci.IsDescending() {
			v.order = 2
		}
		for i := 0; i < v.n; i++ {
			v.panickedAt = i
			np := ci.NullPage(i)
			nc := ci.NullCount(i)
			var mn, mx c05Val
			if !np {
				mn, mx = k.fromValue(ci.MinValue(i)), k.fromValue(ci.MaxValue(i))
			}
			v.nullPage, v.nullCount = append(v.nullPage, np), append(v.nullCount, nc)
			v.min, v.max = append(v.min, mn), append(v.max, mx)
		}
	})
	return
}

func c05PagesHaveNull(pages []c05ReadPage) bool {
	for _, p := range pages {
		if len(p.vals) == 0 {
			return true
		}
	}
	return false
}

func c05CheckChunk(ctx *core.Ctx, b *c05Batch, k *c05Kind, col c05Col, f *c05File, data []byte, cc parquet.ColumnChunk,
	raw *format.ColumnIndex, md *format.ColumnMetaData, pages []c05ReadPage, detail func(map[string]any) map[string]any) {
	ctx.Hist("chunk-kind", col.kind)
	nullPages, nanPages := 0, 0
	for _, p := range pages {
		if len(p.vals) == 0 {
			nullPages++
			continue
		}
		all := true
		for _, v := range p.vals {
			all = all && k.isNaN(v)
		}
		if all {
			nanPages++
		}
	}
	ctx.HistN("pages", "null", int64(nullPages))
	ctx.HistN("pages", "all-nan", int64(nanPages))
	ctx.HistN("pages", "with-values", int64(len(pages)-nullPages-nanPages))

	// ---- raw thrift lists
	skipped := f.skip[col.name]
	if skipped {
		ctx.Hist("chunk-skip-page-bounds", col.kind)
	}
	if raw != nil && !(skipped && len(raw.NullPages) == 0) {
		if len(raw.NullPages) != len(pages) || len(raw.MinValues) != len(raw.NullPages) || len(raw.MaxValues) != len(raw.NullPages) {
			d := detail(map[string]any{"null_pages": len(raw.NullPages), "min_values": len(raw.MinValues), "max_values": len(raw.MaxValues), "num_pages": len(pages)})
			if k.short && nullPages > 0 && len(raw.NullPages) == len(pages) {
				ctx.Fail("L1", "flba-null-page-index-short", "column index of a FIXED_LEN_BYTE_ARRAY column with an all-null page has fewer min_values/max_values than null_pages (the null page's empty bound is dropped and later entries shift)", d)
			} else {
				ctx.Fail("L1", "index-list-lengths "+col.kind, "column index lists do not have one entry per page", d)
			}
		}
	}
	// ---- column index through the reader API
	ci, err := cc.ColumnIndex()
	if err != nil {
		// SkipPageBounds: the writer has no bounds to put into a column index, so it must write none
		// (a column index cannot say "unknown"); any index that IS present is judged like every other
		if !skipped {
			ctx.Fail("L1", "column-index-missing "+col.kind, err.Error(), detail(nil))
		}
	} else {
		if skipped {
			ctx.Hist("skip-page-bounds-index", "present")
		}
		v := c05ViewIndex(k, ci)
		switch {
		case v.panicked != nil:
			if k.short && nullPages > 0 {
				ctx.Fail("L1", "flba-null-page-index-short", fmt.Sprintf("ColumnIndex.MinValue(%d) panics: %v (FIXED_LEN_BYTE_ARRAY column with an all-null page: min_values is shorter than null_pages)", v.panickedAt, v.panicked), detail(nil))
			} else {
				ctx.Fail("L1", "column-index-panic "+col.kind, fmt.Sprint(v.panicked), detail(nil))
			}
		case v.n != len(pages):
			{
				ctx.Fail("L1", "index-numpages "+col.kind, fmt.Sprintf("NumPages()=%d, %d pages read", v.n, len(pages)), detail(nil))
			}
		default:
			shifted := raw != nil && len(raw.MinValues) != len(raw.NullPages) // entries are misaligned: already reported above
			for i, p := range pages {
				d := func() map[string]any {
					return detail(map[string]any{"page": i, "entry_min": k.text(v.min[i]), "entry_max": k.text(v.max[i]), "null_page": v.nullPage[i], "null_count": v.nullCount[i]})
				}
				if v.nullPage[i] != (len(p.vals) == 0) {
					ctx.Fail("L1", "null-pages-flag-wrong "+col.kind, "null_pages flag differs from 'the page has no non-null value'", d())
				}
				if v.nullCount[i] != int64(p.nulls) {
					key, what := "null-counts-wrong "+col.kind, "null_counts entry differs from the number of nulls read"
					if f.multi {
						// one signature for every column kind: the per-row-group indexes share state
						key, what = "null-counts-wrong-multi-row-group", "null_counts entry of a row group of a file with several row groups differs from the number of nulls read from that row group's page (column indexes of earlier row groups must not change when the indexer is reset and refilled)"
					}
					ctx.Fail("L1", key, what, d())
				}
				if v.nullPage[i] || len(p.vals) == 0 || shifted {
					continue
				}
				if key, what := c05BoundsOracle(k, p.vals, v.min[i], v.max[i], true, false); key != "" {
					switch {
					case skipped:
						ctx.Fail("L1", "skip-page-bounds-zero-index", "a column written with SkipPageBounds has a column index whose min/max (the zero value, null_pages=false) do not bound the page: readers pruning by it skip pages that hold matching values", d())
					case key == "max-below-value" && k.isBytes() && k.drv != "dec" && c05TruncAllFF(p.vals, f.lim): // (the decimal indexer never truncates)
						ctx.Fail("L1", "truncmax-all-ff-prefix", "column index max is smaller than a value of the page: the max was truncated to a prefix of all 0xFF bytes", d())
					default:
						ctx.Fail("L1", c05BoundKey("index-", key, col.kind), "column index: "+what, d())
					}
				}
			}
			if !shifted {
				c05OrderClaim(ctx, k, v.order, v.nullPage, v.min, v.max, detail(nil))
			}
			ctx.Hist("file-boundary-order", fmt.Sprint(v.order))
		}
	}
	// ---- offset index
	var headers []format.PageHeader
	if oi, err := cc.OffsetIndex(); err != nil {
		ctx.Fail("L1", "offset-index-missing "+col.kind, err.Error(), detail(nil))
	} else if oi.NumPages() != len(pages) {
		ctx.Fail("L1", "offset-index-numpages "+col.kind, fmt.Sprintf("%d locations, %d pages", oi.NumPages(), len(pages)), detail(nil))
	} else {
		row := 0
		for i, p := range pages {
			if oi.FirstRowIndex(i) != int64(row) {
				ctx.Fail("L1", "first-row-index-wrong "+col.kind, fmt.Sprintf("page %d: first_row_index=%d, want %d", i, oi.FirstRowIndex(i), row), detail(nil))
				break
			}
			row += p.numRows
			off := oi.Offset(i)
			var hdr format.PageHeader
			if off < 0 || off >= int64(len(data)) || thrift.NewDecoder(new(thrift.CompactProtocol).NewReaderFromBytes(bytes.Clone(data[off:min(int64(len(data)), off+4096)]))).Decode(&hdr) != nil {
				ctx.Fail("L1", "page-header-unreadable "+col.kind, fmt.Sprintf("page %d at offset %d", i, off), detail(nil))
				headers = nil
				break
			}
			headers = append(headers, hdr)
		}
	}
	// ---- page header statistics (exact page bounds) + L2 of Bounds() on the real write path
	var pageBounds []*[2]c05Val
	if len(headers) == len(pages) {
		for i, p := range pages {
			var st *format.Statistics
			switch {
			case headers[i].DataPageHeader.Valid:
				st = &headers[i].DataPageHeader.V.Statistics
			case headers[i].DataPageHeaderV2.Valid:
				st = &headers[i].DataPageHeaderV2.V.Statistics
			}
			if st == nil {
				ctx.Fail("L1", "page-header-no-data-page "+col.kind, fmt.Sprintf("page %d", i), detail(nil))
				pageBounds = nil
				break
			}
			s, ok := c05DecodeStats(k, st, len(p.vals) > 0)
			d := func() map[string]any {
				return detail(map[string]any{"page": i, "stat_min": k.text(s.min), "stat_max": k.text(s.max), "stat_has": s.has, "stat_nulls": s.nulls})
			}
			if !ok {
				ctx.Fail("L1", "page-stats-width "+col.kind, "page header statistics have the wrong width", d())
				pageBounds = nil
				break
			}
			if s.nulls != int64(p.nulls) {
				ctx.Fail("L1", "page-stats-null-count-wrong "+col.kind, "page header null_count differs from the nulls read", d())
			}
			if len(p.vals) == 0 {
				pageBounds = append(pageBounds, nil)
				continue
			}
			if key, what := c05BoundsOracle(k, p.vals, s.min, s.max, s.has, true); key != "" {
				ctx.Fail("L1", c05BoundKey("page-stats-", key, col.kind), "page header statistics: "+what, d())
			}
			if !s.has {
				pageBounds = nil
				break
			}
			pageBounds = append(pageBounds, &[2]c05Val{s.min, s.max})
			if k.drv != "" {
				got := "ok " + k.text(s.min) + " " + k.text(s.max)
				vals := k.texts(p.vals)
				b.ask("c05.bounds "+k.drv+" "+vals, func(ans string) {
					if ans != got {
						key := "file-bounds-mirror " + col.kind
						if k.size == 16 && c05Byte9Decides(p.vals) {
							key = c05KeyBE128
						}
						ctx.Fail("L2", key, "page header min/max differ from the Lean mirror of Bounds() on the values read back", detail(map[string]any{"page": i, "impl": got, "model": ans, "build": ctx.Variant}))
					}
				})
			}
		}
	}
	// ---- chunk statistics
	total, totalNulls := 0, 0
	var all []c05Val
	for _, p := range pages {
		total += p.numValues
		totalNulls += p.nulls
		all = append(all, p.vals...)
	}
	if md.NumValues != int64(total) {
		ctx.Fail("L1", "chunk-num-values-wrong "+col.kind, fmt.Sprintf("num_values=%d, %d values read", md.NumValues, total), detail(nil))
	}
	s, ok := c05DecodeStats(k, &md.Statistics, len(all) > 0)
	if skipped && len(md.Statistics.MinValue) == 0 && len(md.Statistics.MaxValue) == 0 {
		// SkipPageBounds: no chunk min/max (for BYTE_ARRAY an absent bound is not the empty string here)
		s, ok = c05Stats{nulls: md.Statistics.NullCount}, true
	}
	d := func() map[string]any {
		return detail(map[string]any{"chunk_min": k.text(s.min), "chunk_max": k.text(s.max), "chunk_has": s.has, "chunk_nulls": s.nulls})
	}
	if !ok {
		ctx.Fail("L1", "chunk-stats-width "+col.kind, "chunk statistics have the wrong width", d())
		return
	}
	if s.nulls != int64(totalNulls) {
		ctx.Fail("L1", "chunk-null-count-wrong "+col.kind, "chunk null_count differs from the nulls read", d())
	}
	if key, what := c05BoundsOracle(k, all, s.min, s.max, s.has, false); key != "" {
		if key == "bound-nan-with-non-nan-values" {
			ctx.Fail("L1", "chunk-stats-nan-sticky", "chunk min/max are NaN although the chunk holds non-NaN values: the first page with bounds was an all-NaN page and no later Compare against NaN ever replaces it", d())
		} else {
			ctx.Fail("L1", c05BoundKey("chunk-stats-", key, col.kind), "chunk statistics: "+what, d())
		}
	}
	if len(all) > 0 && !s.has && !skipped {
		ctx.Fail("L1", "chunk-stats-missing "+col.kind, "the chunk has values but no min/max", d())
	}
	// the same statistics through the reader API a pruning reader calls (FileColumnChunk.Bounds/NullCount/NumValues)
	if fcc, isFile := cc.(*parquet.FileColumnChunk); isFile && !skipped {
		var amn, amx c05Val
		var has bool
		if p := c05Recover(func() {
			mn, mx, ok := fcc.Bounds()
			has = ok
			if ok {
				amn, amx = k.fromValue(mn), k.fromValue(mx)
			}
		}); p != nil {
			ctx.Fail("L1", "filechunk-bounds-panic "+col.kind, fmt.Sprint(p), d())
		} else {
			da := func() map[string]any {
				return detail(map[string]any{"api_min": k.text(amn), "api_max": k.text(amx), "api_has": has, "api_nulls": fcc.NullCount(), "api_num_values": fcc.NumValues()})
			}
			if key, what := c05BoundsOracle(k, all, amn, amx, has, false); key != "" && key != "bound-nan-with-non-nan-values" {
				ctx.Fail("L1", c05BoundKey("filechunk-bounds-", key, col.kind), "FileColumnChunk.Bounds(): "+what, da())
			}
			if has != s.has || (has && !k.isNaN(amn) && !k.isNaN(s.min) && (k.cmp(amn, s.min) != 0 || k.cmp(amx, s.max) != 0)) {
				ctx.Fail("L1", "filechunk-bounds-differ-from-metadata "+col.kind, "FileColumnChunk.Bounds() does not return the min/max of the chunk's statistics", da())
			}
			if fcc.NullCount() != int64(totalNulls) || fcc.NumValues() != int64(total) {
				ctx.Fail("L1", "filechunk-counts-wrong "+col.kind, fmt.Sprintf("FileColumnChunk.NullCount()=%d NumValues()=%d, %d nulls and %d values read", fcc.NullCount(), fcc.NumValues(), totalNulls, total), da())
			}
		}
	}
	// L2: the chunk fold of recordPageStats over the exact page bounds
	if k.drv != "" && pageBounds != nil && len(pageBounds) == len(pages) && !skipped {
		got := "ok none"
		if s.has {
			got = "ok " + k.text(s.min) + " " + k.text(s.max)
		}
		b.ask("c05.fold "+k.drv+" "+c05PagesText(k, pageBounds), func(ans string) {
			if ans != got {
				ctx.Fail("L2", "chunk-fold-mirror "+col.kind, "chunk statistics differ from the Lean mirror of the recordPageStats fold over the page bounds", detail(map[string]any{"impl": got, "model": ans, "page_bounds": c05PagesText(k, pageBounds)}))
			}
		})
	}
	// L2: the whole record of the chunk (`writerRecord`, the object of `writerRecord_sound` /
	// `reencode_sound`): exact page bounds, per-page null counts, chunk min/max and chunk null count from
	// the values read back, in one model evaluation — every chunk of a copied file, a sample of the others
	if k.drv != "" && pageBounds != nil && len(pageBounds) == len(pages) && !skipped && len(pages) > 0 && (f.copied || f.recordSample()) {
		var sb strings.Builder
		nulls := make([]string, len(pages))
		for i, p := range pages {
			if i > 0 {
				sb.WriteByte(';')
			}
			first := true
			for j := 0; j < p.nulls; j++ {
				if !first {
					sb.WriteByte(',')
				}
				sb.WriteByte('n')
				first = false
			}
			for _, v := range p.vals {
				if !first {
					sb.WriteByte(',')
				}
				sb.WriteString(k.text(v))
				first = false
			}
			if first {
				sb.WriteByte('-')
			}
			nulls[i] = fmt.Sprint(p.nulls)
		}
		chunk := "none"
		if s.has {
			chunk = k.text(s.min) + ":" + k.text(s.max)
		}
		got := fmt.Sprintf("ok %s %s %s %d", c05PagesText(k, pageBounds), strings.Join(nulls, ","), chunk, s.nulls)
		pagesText := sb.String()
		ctx.Hist("record-mirror-asked", col.kind)
		b.ask("c05.record "+k.drv+" "+pagesText, func(ans string) {
			if ans != got {
				ctx.Fail("L2", "chunk-record-mirror "+col.kind, "page bounds, null counts and chunk statistics of the chunk differ from the Lean mirror of the writer's record over the values read back", detail(map[string]any{"impl": got, "model": ans, "values_read": pagesText, "build": ctx.Variant}))
			}
		})
	}
}

// the max of the page truncates to an all-0xFF prefix at this limit
func c05TruncAllFF(vals []c05Val, lim int) bool {
	var mx []byte
	for _, v := range vals {
		if bytes.Compare(v.b, mx) > 0 {
			mx = v.b
		}
	}
	return len(mx) > lim && c05AllFF(mx[:lim])
}

// ---------------------------------------------------------------- C06 on files

func c06CheckChunk(ctx *core.Ctx, k *c05Kind, col c05Col, f *c05File, cc parquet.ColumnChunk, short bool, pages []c05ReadPage,
	detail func(map[string]any) map[string]any, tag string) {
	ctx.Hist("chunk-kind"+tag, col.kind)
	ci, err := cc.ColumnIndex()
	if err != nil {
		if !f.skip[col.name] { // SkipPageBounds columns have no column index to search
			ctx.Fail("L1", "column-index-missing "+col.kind, err.Error(), detail(nil))
		}
		return
	}
	typ := cc.Type()
	hasNullPage := c05PagesHaveNull(pages)
	hasNaNPage := false
	for _, p := range pages {
		if len(p.vals) > 0 {
			all := true
			for _, v := range p.vals {
				all = all && k.isNaN(v)
			}
			hasNaNPage = hasNaNPage || all
		}
	}
	byte9 := false
	for _, p := range pages {
		byte9 = byte9 || (k.size == 16 && c05Byte9Decides(p.vals))
	}
	view := c05ViewIndex(k, ci)
	switch {
	case hasNullPage:
		ctx.Hist("index", "with-null-page")
	case hasNaNPage:
		ctx.Hist("index", "with-all-nan-page")
	default:
		ctx.Hist("index", "plain")
	}
	ctx.Hist("index-order", fmt.Sprint(view.order))
	// distinct non-NaN values with the first page that holds them
	type probe struct {
		v     c05Val
		first int
	}
	var probes []probe
	seen := map[string]bool{}
	for i, p := range pages {
		for _, v := range p.vals {
			if k.isNaN(v) {
				continue
			}
			t := k.text(v)
			if !seen[t] {
				seen[t] = true
				probes = append(probes, probe{v, i})
			}
		}
	}
	// absent probes: neighbours of present values
	for _, p := range append([]probe(nil), probes...) {
		for _, nb := range c06Neighbours(k, p.v) {
			if t := k.text(nb); !seen[t] {
				seen[t] = true
				probes = append(probes, probe{nb, -1})
			}
		}
		if len(probes) > 64 {
			break
		}
	}
	type probeNF struct {
		probe
		nullsFirst bool
	}
	var both []probeNF
	for _, pr := range probes {
		both = append(both, probeNF{pr, false}, probeNF{pr, true})
	}
	for _, prn := range both {
		pr := prn.probe
		got := -1
		// nulls last is what Search uses; nulls first is the example of Find's doc comment
		cmp := parquet.CompareNullsLast(typ.Compare)
		if prn.nullsFirst {
			cmp = parquet.CompareNullsFirst(typ.Compare)
		}
		pan := c05Recover(func() { got = parquet.Find(ci, k.value(pr.v), cmp) })
		d := detail(map[string]any{"probe": k.text(pr.v), "nulls_first": prn.nullsFirst, "returned": got, "num_pages": len(pages), "first_page_with_value": pr.first, "claimed_order": view.order})
		if pr.first >= 0 {
			ctx.Hist("probe", "present")
		} else {
			ctx.Hist("probe", "absent")
		}
		cause := tag
		if prn.nullsFirst {
			cause += " nulls-first"
		}
		switch {
		case f.skip[col.name]:
			cause += " skip-page-bounds-zero-index"
		case short:
			cause += " flba-null-page-index-short"
		case hasNaNPage:
			cause += " nan-page"
		case byte9:
			cause += " " + c05KeyBE128
		case k.isBytes() && pr.first >= 0 && c05TruncAllFF(pages[pr.first].vals, f.lim):
			cause += " truncmax-all-ff-prefix"
		}
		switch {
		case pan != nil:
			ctx.Fail("L1", "search-panic"+cause, fmt.Sprintf("parquet.Search panics: %v", pan), d)
		case got < 0 || got > len(pages):
			ctx.Fail("L1", "search-out-of-range"+cause, "Search returned an index outside 0..NumPages", d)
		case pr.first >= 0 && got > pr.first:
			ctx.Fail("L1", "missed-page"+cause, fmt.Sprintf("the value occurs in page %d but Find returned %d (NumPages=%d)", pr.first, got, len(pages)), d)
		case got < len(pages) && view.panicked == nil && got < len(view.min) && !short:
			// the returned page's recorded bounds must contain the probe (NaN bounds contain everything: Compare is 0)
			if view.nullPage[got] || (!k.isNaN(view.min[got]) && k.cmp(pr.v, view.min[got]) < 0) || (!k.isNaN(view.max[got]) && k.cmp(pr.v, view.max[got]) > 0) {
				ctx.Fail("L1", "search-bounds-exclude"+cause, "Search returned a page whose recorded bounds do not contain the probe", d)
			}
		}
	}
}

// values just below / above v in the column order
func c06Neighbours(k *c05Kind, v c05Val) []c05Val {
	switch {
	case k.name == "bool":
		return nil
	case k.float:
		if k.width == 32 {
			f := math.Float32frombits(uint32(v.bits))
			return []c05Val{{bits: uint64(math.Float32bits(f + 1))}, {bits: uint64(math.Float32bits(f - 1))}}
		}
		f := math.Float64frombits(v.bits)
		return []c05Val{{bits: math.Float64bits(f + 1)}, {bits: math.Float64bits(f - 1)}}
	case k.width == 32:
		return []c05Val{{bits: uint64(uint32(v.bits) + 1)}, {bits: uint64(uint32(v.bits) - 1)}}
	case k.width == 64:
		return []c05Val{{bits: v.bits + 1}, {bits: v.bits - 1}}
	case k.size > 0:
		up, dn := bytes.Clone(v.b), bytes.Clone(v.b)
		up[len(up)-1]++
		dn[len(dn)-1]--
		return []c05Val{{b: up}, {b: dn}}
	default:
		up := append(bytes.Clone(v.b), 0)
		var dn []byte
		if len(v.b) > 0 {
			dn = v.b[:len(v.b)-1]
		}
		return []c05Val{{b: up}, {b: dn}}
	}
}
