package props

import (
	"bytes"
	"encoding/hex"
	"fmt"
	"math/rand"
	"sort"
	"strings"

	"github.com/parquet-go/parquet-go"
	"github.com/parquet-go/parquet-go/format"

	"verifharness/core"
)

// C06/trunc: Find on column indexes whose bounds were TRUNCATED by the byte-array indexers (BYTE_ARRAY and
// FIXED_LEN_BYTE_ARRAY with a ColumnIndexSizeLimit below the value length). The index is built through the exported
// ColumnIndexer of the type, as the writer does; the page values are real byte strings.
//
// L1: the property on the values (a value of page p => Find <= p; the returned page's RECORDED bounds contain the
// probe; NumPages only when no recorded bounds contain it). L2: the recorded (truncated) bounds, the probe and the
// truncated null-page placeholders are mapped to their ranks in byte order and find.z2 = the Lean mirror of Find and of
// the boundary order the indexer computes must give the same page and the same order.
func init() { RegisterSub("C06", "trunc", RunC06Trunc) }

type c06TruncCase struct {
	kind  string // bytes | flba
	size  int    // flba: the fixed length
	lim   int    // size limit handed to NewColumnIndexer
	pages [][][]byte
}

func (c c06TruncCase) canon() string {
	var sb strings.Builder
	fmt.Fprintf(&sb, "trunc %s size=%d lim=%d", c.kind, c.size, c.lim)
	for _, p := range c.pages {
		sb.WriteString(" |")
		if p == nil {
			sb.WriteString(" null")
		}
		for _, v := range p {
			sb.WriteByte(' ')
			if len(v) == 0 {
				sb.WriteByte('-')
			}
			sb.WriteString(hex.EncodeToString(v))
		}
	}
	return sb.String()
}

func (c c06TruncCase) value(b []byte) parquet.Value {
	if c.kind == "flba" {
		return parquet.FixedLenByteArrayValue(b)
	}
	return parquet.ByteArrayValue(b)
}

// index builds the column index through the type's indexer and returns it with the raw stored lists
func (c c06TruncCase) index() (parquet.ColumnIndex, parquet.Type, *format.ColumnIndex) {
	typ, kind := parquet.Type(parquet.ByteArrayType), parquet.ByteArray
	if c.kind == "flba" {
		typ, kind = parquet.FixedLenByteArrayType(c.size), parquet.FixedLenByteArray
	}
	ix := typ.NewColumnIndexer(c.lim)
	for _, p := range c.pages {
		if p == nil {
			ix.IndexPage(3, 3, parquet.Value{}, parquet.Value{})
			continue
		}
		mn, mx := p[0], p[0]
		for _, v := range p {
			if bytes.Compare(v, mn) < 0 {
				mn = v
			}
			if bytes.Compare(v, mx) > 0 {
				mx = v
			}
		}
		ix.IndexPage(int64(len(p)), 0, c.value(bytes.Clone(mn)), c.value(bytes.Clone(mx)))
	}
	fi := ix.ColumnIndex()
	cp := &format.ColumnIndex{BoundaryOrder: fi.BoundaryOrder}
	cp.NullPages = append([]bool(nil), fi.NullPages...)
	cp.NullCounts = append([]int64(nil), fi.NullCounts...)
	for _, b := range fi.MinValues {
		cp.MinValues = append(cp.MinValues, bytes.Clone(b))
	}
	for _, b := range fi.MaxValues {
		cp.MaxValues = append(cp.MaxValues, bytes.Clone(b))
	}
	return parquet.NewColumnIndex(kind, cp), typ, cp
}

func c06TruncCheck(ctx *core.Ctx, c c06TruncCase, reqs *[]string, pend *[]func(string)) {
	ctx.Case(c.canon(), len(c.pages) >= 2)
	detail := func(extra map[string]any) map[string]any {
		m := map[string]any{"case": c.canon()}
		for k, v := range extra {
			m[k] = v
		}
		return m
	}
	var index parquet.ColumnIndex
	var typ parquet.Type
	var raw *format.ColumnIndex
	if pan := c05Recover(func() { index, typ, raw = c.index() }); pan != nil {
		ctx.Fail("L1", "indexer-panics trunc "+c.kind, fmt.Sprint(pan), detail(nil))
		return
	}
	n := index.NumPages()
	if n != len(c.pages) || len(raw.MinValues) != n || len(raw.MaxValues) != n {
		ctx.Fail("L1", "index-length trunc "+c.kind, fmt.Sprintf("%d pages indexed, NumPages=%d, %d/%d stored bounds", len(c.pages), n, len(raw.MinValues), len(raw.MaxValues)), detail(nil))
		return
	}
	order := 0
	if index.IsAscending() {
		order = 1
	} else if index.IsDescending() {
		order = 2
	}
	hasNull, truncated, allFF := false, false, false
	recMin, recMax := make([][]byte, n), make([][]byte, n)
	for i, p := range c.pages {
		if p == nil {
			hasNull = true
			continue
		}
		recMin[i], recMax[i] = bytes.Clone(index.MinValue(i).ByteArray()), bytes.Clone(index.MaxValue(i).ByteArray())
		for _, v := range p {
			if c.lim > 0 && len(v) > c.lim {
				truncated = true
				allFF = allFF || c05AllFF(v[:c.lim])
			}
		}
	}
	ctx.Hist("trunc-kind", c.kind)
	ctx.Hist("trunc-order", fmt.Sprint(order))
	ctx.Hist("trunc-limit", fmt.Sprint(c.lim))
	ctx.Hist("trunc-truncated", fmt.Sprint(truncated))
	ctx.Hist("trunc-all-ff-prefix", fmt.Sprint(allFF))
	ctx.Hist("trunc-nullpages", fmt.Sprint(hasNull))
	// probes: every value, neighbours just above / below, and (byte arrays) the recorded bounds themselves
	var probes [][]byte
	seen := map[string]bool{}
	add := func(b []byte) {
		if c.kind == "flba" && len(b) != c.size {
			return
		}
		if !seen[string(b)] && len(probes) < 14 {
			seen[string(b)] = true
			probes = append(probes, bytes.Clone(b))
		}
	}
	for _, p := range c.pages {
		for _, v := range p {
			add(v)
		}
	}
	for i, p := range c.pages {
		for _, v := range p {
			if c.kind == "flba" {
				up, dn := bytes.Clone(v), bytes.Clone(v)
				up[len(up)-1]++
				dn[len(dn)-1]--
				add(up)
				add(dn)
			} else {
				add(append(bytes.Clone(v), 0))
				if len(v) > 0 {
					add(v[:len(v)-1])
				}
			}
		}
		if p != nil {
			add(recMin[i])
			add(recMax[i])
		}
	}
	// ranks in byte order over everything the model sees
	uni := map[string]bool{}
	for i := range c.pages {
		uni[string(raw.MinValues[i])] = true
		uni[string(raw.MaxValues[i])] = true
	}
	for _, v := range probes {
		uni[string(v)] = true
	}
	var sorted []string
	for k := range uni {
		sorted = append(sorted, k)
	}
	sort.Strings(sorted)
	rank := map[string]int{}
	for i, k := range sorted {
		rank[k] = i
	}
	zn, zx := 0, 0
	mins, maxs := make([]string, n), make([]string, n)
	for i, p := range c.pages {
		if p == nil {
			mins[i], maxs[i] = "n", "n"
			zn, zx = rank[string(raw.MinValues[i])], rank[string(raw.MaxValues[i])] // the stored placeholders
		} else {
			mins[i], maxs[i] = fmt.Sprint(rank[string(recMin[i])]), fmt.Sprint(rank[string(recMax[i])])
		}
	}
	ms, xs := "-", "-"
	if n > 0 {
		ms, xs = strings.Join(mins, ","), strings.Join(maxs, ",")
	}
	asc := "0"
	if order == 1 {
		asc = "1"
	}
	for _, v := range probes {
		first, anyBound := -1, false
		for i, p := range c.pages {
			if p == nil {
				continue
			}
			if bytes.Compare(recMin[i], v) <= 0 && bytes.Compare(v, recMax[i]) <= 0 {
				anyBound = true
			}
			if first < 0 {
				for _, x := range p {
					if bytes.Equal(x, v) {
						first = i
						break
					}
				}
			}
		}
		if first >= 0 {
			ctx.Hist("probe", "present")
		} else {
			ctx.Hist("probe", "absent")
		}
		for _, nullsFirst := range []bool{false, true} {
			cmp, nfTag, nfArg := parquet.CompareNullsLast(typ.Compare), "", "0"
			if nullsFirst {
				cmp, nfTag, nfArg = parquet.CompareNullsFirst(typ.Compare), " nulls-first", "1"
			}
			got := -1
			pan := c05Recover(func() { got = parquet.Find(index, c.value(v), cmp) })
			sig := fmt.Sprintf("trunc %s order=%d nullpages=%v", c.kind, order, hasNull) + nfTag
			if first >= 0 && c.lim > 0 {
				var mx []byte
				for _, x := range c.pages[first] {
					if bytes.Compare(x, mx) > 0 {
						mx = x
					}
				}
				if len(mx) > c.lim && c05AllFF(mx[:c.lim]) {
					sig += " truncmax-all-ff-prefix"
				}
			}
			d := detail(map[string]any{"probe": hex.EncodeToString(v), "nulls_first": nullsFirst, "returned": got, "numPages": n, "first_page_with_value": first, "claimed_order": order})
			switch {
			case pan != nil:
				ctx.Fail("L1", "search-panic "+sig, fmt.Sprintf("Find panics: %v", pan), d)
			case got < 0 || got > n:
				ctx.Fail("L1", "out-of-range "+sig, "Find returned an index outside 0..NumPages", d)
			case first >= 0 && got > first:
				ctx.Fail("L1", "missed-page "+sig, fmt.Sprintf("value occurs in page %d but Find returned %d (NumPages=%d)", first, got, n), d)
			case got < n && (c.pages[got] == nil || bytes.Compare(v, recMin[got]) < 0 || bytes.Compare(v, recMax[got]) > 0):
				ctx.Fail("L1", "bounds-exclude "+sig, "Find returned a page whose recorded bounds do not contain the value", d)
			case got == n && anyBound:
				ctx.Fail("L1", "numpages-but-candidate "+sig, "Find returned NumPages although a page's recorded bounds contain the value", d)
			}
			want := fmt.Sprintf("ok %d %d", got, order)
			nf := nullsFirst
			vv := v
			*reqs = append(*reqs, fmt.Sprintf("find.z2 %s %s %d %d %s %s %d", nfArg, asc, zn, zx, ms, xs, rank[string(v)]))
			*pend = append(*pend, func(ans string) {
				if ans != want {
					ctx.Fail("L2", "find-mirror trunc "+c.kind, "Find / boundary order on truncated bounds differ from the Lean mirror", detail(map[string]any{
						"probe": hex.EncodeToString(vv), "nulls_first": nf, "impl": want, "model": ans, "rank_mins": ms, "rank_maxs": xs, "zero_ranks": []int{zn, zx}}))
				}
			})
		}
	}
}

func c06TruncRand(r *rand.Rand) c06TruncCase {
	c := c06TruncCase{kind: []string{"bytes", "flba"}[r.Intn(2)], lim: 1 + r.Intn(5)}
	if c.kind == "flba" {
		c.size = []int{2, 3, 5, 8}[r.Intn(4)]
		if r.Intn(8) == 0 {
			c.lim = c.size + r.Intn(2) // no truncation
		}
	}
	alpha := []byte{0x00, 0x01, 0x7f, 0xfe, 0xff, 0xff}
	// a shared prefix whose length sits around the limit, often 0xFF only
	prefix := make([]byte, max(0, c.lim-1+r.Intn(3)))
	ffPrefix := r.Intn(2) == 0
	for i := range prefix {
		if ffPrefix {
			prefix[i] = 0xff
		} else {
			prefix[i] = alpha[r.Intn(len(alpha))]
		}
	}
	gen := func() []byte {
		var b []byte
		if r.Intn(4) > 0 {
			b = append(b, prefix...)
		}
		for k := r.Intn(4); k > 0; k-- {
			b = append(b, alpha[r.Intn(len(alpha))])
		}
		if c.kind == "flba" {
			for len(b) < c.size {
				b = append(b, alpha[r.Intn(len(alpha))])
			}
			b = b[:c.size]
		}
		return b
	}
	pool := make([][]byte, 3+r.Intn(8))
	for i := range pool {
		pool[i] = gen()
	}
	sort.Slice(pool, func(i, j int) bool { return bytes.Compare(pool[i], pool[j]) < 0 })
	np := r.Intn(7)
	mode := r.Intn(3) // 0 ascending walk, 1 descending walk, 2 random
	nullP := []int{0, 0, 5}[r.Intn(3)]
	pos := 0
	if mode == 1 {
		pos = len(pool) - 1
	}
	for i := 0; i < np; i++ {
		if nullP > 0 && r.Intn(nullP) == 0 {
			c.pages = append(c.pages, nil)
			continue
		}
		switch mode {
		case 0:
			pos = min(len(pool)-1, pos+r.Intn(2))
		case 1:
			pos = max(0, pos-r.Intn(2))
		default:
			pos = r.Intn(len(pool))
		}
		k := 1 + r.Intn(3)
		page := make([][]byte, k)
		for j := range page {
			page[j] = pool[min(len(pool)-1, pos+r.Intn(2))]
		}
		c.pages = append(c.pages, page)
	}
	return c
}

func RunC06Trunc(ctx *core.Ctx) {
	ctx.SetRule("column indexes built through the BYTE_ARRAY and FIXED_LEN_BYTE_ARRAY(2,3,5,8) ColumnIndexers with size limits 1..5 (below, at and above the value lengths) over byte strings sharing prefixes around the limit, half of them 0xFF-only prefixes; ascending / descending / random page layouts, null pages; probes = every value, its neighbours, the recorded bounds; both null orderings; distinct by canonical text, non-trivial = at least 2 pages")
	d := ctx.Driver()
	var reqs []string
	var pend []func(string)
	// deterministic: the all-0xFF prefix at every limit, for both indexers (max cannot be shortened: kept whole)
	for lim := 1; lim <= 4; lim++ {
		ff := bytes.Repeat([]byte{0xff}, lim)
		c06TruncCheck(ctx, c06TruncCase{kind: "bytes", lim: lim, pages: [][][]byte{
			{append(bytes.Clone(ff), 0x00, 0x00), append(bytes.Clone(ff), 0x00, 0x09)}, {append(bytes.Clone(ff), 0x01), append(bytes.Clone(ff), 0xff, 0xff)}}}, &reqs, &pend)
		c06TruncCheck(ctx, c06TruncCase{kind: "flba", size: lim + 2, lim: lim, pages: [][][]byte{
			{append(bytes.Clone(ff), 0x00, 0x00), append(bytes.Clone(ff), 0x00, 0x02)}, nil, {append(bytes.Clone(ff), 0x00, 0x02), append(bytes.Clone(ff), 0xff, 0xff)}}}, &reqs, &pend)
	}
	r := ctx.Rand("c06trunc")
	n := ctx.Scale(8000, 200000)
	for i := 0; i < n; i++ {
		c := c06TruncRand(r)
		if i < 3 {
			ctx.Sample(map[string]any{"trunc": c.canon()})
		}
		c06TruncCheck(ctx, c, &reqs, &pend)
		if len(reqs) > 20000 {
			c06Flush(ctx, d, &reqs, &pend)
		}
	}
	c06Flush(ctx, d, &reqs, &pend)
}
