package props

import (
	"bytes"
	"fmt"
	"math"
	"math/rand"
	"sort"
	"strconv"
	"strings"
	"sync"

	"github.com/parquet-go/parquet-go"

	"verifharness/core"
)

// C06/pages: the property on the VALUES of the pages, for page sizes of every regime the bounds kernels
// distinguish. Files of integer and float columns are written with the typed writer, read back page by page, and
// every value read from page p is searched: Find must answer a page <= p whose recorded bounds contain it.
//
// Regimes (the writer computes the bounds of a page with `boundsXxx`, which picks a kernel by the page length):
//
//	small    PageBufferSize(1): one page per Write call, 1..20 pages of 1..32 values, all-null pages, all-NaN pages and NaN
//	         among the values of the float columns, several row groups
//	default  default options, one Write of 70000+ rows: full default-size pages (>= 32113 64-bit / >= 64225 32-bit values)
//	edge     PageBufferSize(8 MiB), one Write + Flush per row group: pages of exactly 32112..32114, 131071..131073 and
//	         262143..262145 values (the dispatch thresholds of page_bounds_amd64.go for 64-bit and 32-bit kinds)
//
// L1: oracle from the values read back (independent of any recorded statistics). L2 (integer kinds): the Lean model
// builds the column index from the same page VALUES (`indexOfPages`: bounds in the column's signed / unsigned
// order, null pages, boundary order) and runs `find`; NumPages, every MinValue/MaxValue, the boundary order and the
// page Find returns for every probe under both null orderings must agree (op pages.find).
func init() { RegisterSub("C06", "pages", RunC06Pages) }

type c06PRow struct {
	I32  int32   `parquet:"i32"`
	OI32 *int32  `parquet:"oi32,optional"`
	I64  int64   `parquet:"i64"`
	OI64 *int64  `parquet:"oi64,optional"`
	U32  uint32  `parquet:"u32"`
	OU32 *uint32 `parquet:"ou32,optional"`
	U64  uint64  `parquet:"u64"`
	OU64 *uint64 `parquet:"ou64,optional"`
	I32D int32   `parquet:"i32d,dict"`
	U64D uint64  `parquet:"u64d,dict"`
	F32  float32 `parquet:"f32"`
	F64  float64 `parquet:"f64"`
}

type c06PCol struct {
	name, kind string
	optional   bool
	set        func(r *c06PRow, v *c05Val)
}

var c06PCols = []c06PCol{
	{"i32", "i32", false, func(r *c06PRow, v *c05Val) { r.I32 = int32(uint32(v.bits)) }},
	{"oi32", "i32", true, func(r *c06PRow, v *c05Val) {
		if v != nil {
			x := int32(uint32(v.bits))
			r.OI32 = &x
		}
	}},
	{"i64", "i64", false, func(r *c06PRow, v *c05Val) { r.I64 = int64(v.bits) }},
	{"oi64", "i64", true, func(r *c06PRow, v *c05Val) {
		if v != nil {
			x := int64(v.bits)
			r.OI64 = &x
		}
	}},
	{"u32", "u32", false, func(r *c06PRow, v *c05Val) { r.U32 = uint32(v.bits) }},
	{"ou32", "u32", true, func(r *c06PRow, v *c05Val) {
		if v != nil {
			x := uint32(v.bits)
			r.OU32 = &x
		}
	}},
	{"u64", "u64", false, func(r *c06PRow, v *c05Val) { r.U64 = v.bits }},
	{"ou64", "u64", true, func(r *c06PRow, v *c05Val) {
		if v != nil {
			x := v.bits
			r.OU64 = &x
		}
	}},
	{"i32d", "i32", false, func(r *c06PRow, v *c05Val) { r.I32D = int32(uint32(v.bits)) }},
	{"u64d", "u64", false, func(r *c06PRow, v *c05Val) { r.U64D = v.bits }},
	{"f32", "f32", false, func(r *c06PRow, v *c05Val) { r.F32 = math.Float32frombits(uint32(v.bits)) }},
	{"f64", "f64", false, func(r *c06PRow, v *c05Val) { r.F64 = math.Float64frombits(v.bits) }},
}

// one file: batches of rows (one Write call each); cells[col][batch][row], nil = null
type c06PFile struct {
	id      string
	regime  string
	version int
	maxRows int                   // MaxRowsPerRowGroup (small regime), 0 = none
	sizes   []int                 // rows per batch
	flush   bool                  // Flush after every batch: one row group per batch
	cells   [][][]*c05Val         // small regime: the values of every batch, kept for the failure details
	rowsOf  func(b int) []c06PRow // big regimes: the rows of batch b, generated when it is written
	only32  bool                  // the 64-bit columns are left zero and not checked (pages beyond the last 64-bit threshold)
}

func (f *c06PFile) options() []parquet.WriterOption {
	opts := []parquet.WriterOption{parquet.DataPageStatistics(true), parquet.DataPageVersion(f.version)}
	switch f.regime {
	case "small":
		opts = append(opts, parquet.PageBufferSize(1))
	case "edge":
		opts = append(opts, parquet.PageBufferSize(8<<20))
	}
	if f.maxRows > 0 {
		opts = append(opts, parquet.MaxRowsPerRowGroup(int64(f.maxRows)))
	}
	return opts
}

func (f *c06PFile) write() (data []byte, pan any) {
	var buf bytes.Buffer
	pan = c05Recover(func() {
		w := parquet.NewGenericWriter[c06PRow](&buf, f.options()...)
		for b, n := range f.sizes {
			var rows []c06PRow
			if f.rowsOf != nil {
				rows = f.rowsOf(b)
			} else {
				rows = make([]c06PRow, n)
				for ci, col := range c06PCols {
					cells := f.cells[ci][b]
					for i := 0; i < n; i++ {
						col.set(&rows[i], cells[i])
					}
				}
			}
			if _, err := w.Write(rows); err != nil {
				panic(err)
			}
			if f.flush {
				if err := w.Flush(); err != nil {
					panic(err)
				}
			}
		}
		if err := w.Close(); err != nil {
			panic(err)
		}
	})
	return buf.Bytes(), pan
}

func (f *c06PFile) colText(ci int) string {
	k := c05KindByName(c06PCols[ci].kind)
	var sb strings.Builder
	for b, batch := range f.cells[ci] {
		if b > 0 {
			sb.WriteByte('|')
		}
		for i, v := range batch {
			if i > 0 {
				sb.WriteByte(',')
			}
			if v == nil {
				sb.WriteString("n")
			} else {
				sb.WriteString(k.text(*v))
			}
		}
	}
	return sb.String()
}

// small regime: a sorted pool per column, pages walking it ascending / descending / randomly / staying put
func c06PGenSmall(r *rand.Rand, id string) *c06PFile {
	f := &c06PFile{id: id, regime: "small", version: 1 + r.Intn(2)}
	np := 1 + r.Intn(8)
	if r.Intn(10) == 0 {
		np = 9 + r.Intn(12)
	}
	total := 0
	for p := 0; p < np; p++ {
		n := 1 + r.Intn(4)
		if r.Intn(8) == 0 {
			n = 5 + r.Intn(28)
		}
		f.sizes = append(f.sizes, n)
		total += n
	}
	if r.Intn(3) == 0 {
		f.maxRows = 1 + r.Intn(max(1, total/2))
	}
	f.cells = make([][][]*c05Val, len(c06PCols))
	for ci, col := range c06PCols {
		k := c05KindByName(col.kind)
		pool, _ := k.genList(r, 3+r.Intn(8))
		var ok []c05Val
		for _, v := range pool {
			if !k.isNaN(v) {
				ok = append(ok, v)
			}
		}
		if len(ok) == 0 {
			ok = []c05Val{k.gen(r, 0)}
		}
		sort.SliceStable(ok, func(i, j int) bool { return k.cmp(ok[i], ok[j]) < 0 })
		mode := r.Intn(4)
		pos := 0
		if mode == 1 {
			pos = len(ok) - 1
		}
		nullPageP := []int{0, 3, 6}[r.Intn(3)]
		nanPageP := 0
		if k.float {
			nanPageP = []int{0, 2, 4}[r.Intn(3)]
		}
		for p := 0; p < np; p++ {
			page := make([]*c05Val, f.sizes[p])
			if col.optional && r.Intn(16) < nullPageP {
				f.cells[ci] = append(f.cells[ci], page) // all-null page
				continue
			}
			if r.Intn(16) < nanPageP { // a page of NaN values only
				for i := range page {
					v := k.gen(r, 16)
					page[i] = &v
				}
				f.cells[ci] = append(f.cells[ci], page)
				continue
			}
			switch mode {
			case 0:
				pos = min(len(ok)-1, pos+r.Intn(2))
			case 1:
				pos = max(0, pos-r.Intn(2))
			case 2:
				pos = r.Intn(len(ok))
			}
			for i := range page {
				if col.optional && r.Intn(4) == 0 {
					continue
				}
				v := ok[min(len(ok)-1, pos+r.Intn(2))]
				if nanPageP > 0 && r.Intn(6) == 0 {
					v = k.gen(r, 16) // NaN among the values
				}
				page[i] = &v
			}
			f.cells[ci] = append(f.cells[ci], page)
		}
	}
	return f
}

// c06PLess: the column order on bit patterns, NaN after everything (generator only; the oracle uses Type.Compare)
func c06PLess(k *c05Kind, a, b uint64) bool {
	switch {
	case k.float && k.width == 32:
		x, y := math.Float32frombits(uint32(a)), math.Float32frombits(uint32(b))
		return x < y || (x == x && y != y)
	case k.float:
		x, y := math.Float64frombits(a), math.Float64frombits(b)
		return x < y || (x == x && y != y)
	case k.name == "i32":
		return int32(uint32(a)) < int32(uint32(b))
	case k.name == "i64":
		return int64(a) < int64(b)
	default:
		return a < b
	}
}

// c06PGenList: n values of one column batch: boundary values of the width on both sides of the sign bit, small
// integers of both signs and random bit patterns (c05Kind.gen), or a small alphabet; random / ascending / descending
// in the column order, optionally with one violation; float kinds with NaN sprinkled in one batch out of four
func c06PGenList(r *rand.Rand, k *c05Kind, n int) []c05Val {
	nan := 0
	if k.float && r.Intn(4) == 0 {
		nan = 2
	}
	vs := make([]c05Val, n)
	if r.Intn(3) == 0 {
		alpha := make([]c05Val, 1+r.Intn(3))
		for i := range alpha {
			alpha[i] = k.gen(r, nan)
		}
		for i := range vs {
			vs[i] = alpha[r.Intn(len(alpha))]
		}
	} else {
		for i := range vs {
			vs[i] = k.gen(r, nan)
		}
	}
	switch arr := r.Intn(6); arr {
	case 2, 4:
		sort.Slice(vs, func(i, j int) bool { return c06PLess(k, vs[i].bits, vs[j].bits) })
		if arr == 4 && n > 1 {
			vs[r.Intn(n)] = k.gen(r, 0)
		}
	case 3, 5:
		sort.Slice(vs, func(i, j int) bool { return c06PLess(k, vs[j].bits, vs[i].bits) })
		if arr == 5 && n > 1 {
			vs[r.Intn(n)] = k.gen(r, 0)
		}
	}
	return vs
}

// big regimes: every batch of every column is one c06PGenList; optional columns get nulls sprinkled
func c06PGenBig(r *rand.Rand, id, regime string, sizes []int, flush, only32 bool) *c06PFile {
	f := &c06PFile{id: id, regime: regime, version: 1 + r.Intn(2), sizes: sizes, flush: flush, only32: only32}
	nullP := make([]int, len(c06PCols))
	for ci, col := range c06PCols {
		if col.optional {
			nullP[ci] = []int{0, 1, 4}[r.Intn(3)]
		}
	}
	f.rowsOf = func(b int) []c06PRow {
		n := sizes[b]
		rows := make([]c06PRow, n)
		for ci, col := range c06PCols {
			k := c05KindByName(col.kind)
			if only32 && k.width != 32 {
				continue
			}
			vs := c06PGenList(r, k, n)
			for i := range vs {
				if nullP[ci] > 0 && r.Intn(16) < nullP[ci] {
					continue
				}
				col.set(&rows[i], &vs[i])
			}
		}
		return rows
	}
	return f
}

func c06PBucket(n int) string {
	switch {
	case n < 32113:
		return "<32113"
	case n < 131072:
		return "32113+"
	case n < 262144:
		return "131072+"
	default:
		return "262144+"
	}
}

// the rank Type.Compare sorts an integer column by, as the Lean model prints it
func c06PKey(kind string, v c05Val) string {
	switch kind {
	case "i32":
		return strconv.FormatInt(int64(int32(uint32(v.bits))), 10)
	case "i64":
		return strconv.FormatInt(int64(v.bits), 10)
	case "u32":
		return strconv.FormatUint(uint64(uint32(v.bits)), 10)
	case "f32", "f64":
		// sign-magnitude rank of a float bit pattern (Stats.fKey): -0.0 and +0.0 both rank 0; NaN is not ranked
		w := uint(32)
		if kind == "f64" {
			w = 64
		}
		if (kind == "f32" && math.Float32frombits(uint32(v.bits)) != math.Float32frombits(uint32(v.bits))) ||
			(kind == "f64" && math.IsNaN(math.Float64frombits(v.bits))) {
			return "nan"
		}
		mag := v.bits &^ (1 << (w - 1))
		if v.bits>>(w-1)&1 == 1 && mag != 0 {
			return "-" + strconv.FormatUint(mag, 10)
		}
		return strconv.FormatUint(mag, 10)
	default:
		return strconv.FormatUint(v.bits, 10)
	}
}

type c06PProbe struct {
	v     c05Val
	first int // first page holding the value, -1 = absent
	size  int // number of values of that page
}

// probes of one chunk: every distinct value of pages up to 2048 values; of larger pages the extremes in the
// column's order and in the signed and unsigned bit orders, the first and last value and 128 picks; plus absent
// neighbours of the extremes
func c06PProbes(r *rand.Rand, k *c05Kind, pages []c05ReadPage) []c06PProbe {
	var probes []c06PProbe
	seen := map[uint64]bool{}
	add := func(v c05Val, first, size int) {
		if k.isNaN(v) || seen[v.bits] {
			return
		}
		seen[v.bits] = true
		probes = append(probes, c06PProbe{v, first, size})
	}
	for i, p := range pages {
		n := len(p.vals)
		if n <= 2048 {
			for _, v := range p.vals {
				add(v, i, n)
			}
			continue
		}
		tmn, tmx, ok, _ := c05PageBoundsPortable(k, p.vals)
		if ok {
			add(tmn, i, n)
			add(tmx, i, n)
		}
		umin, umax, smin, smax := p.vals[0], p.vals[0], p.vals[0], p.vals[0]
		shift := uint(64 - k.width)
		for _, v := range p.vals {
			if v.bits < umin.bits {
				umin = v
			}
			if v.bits > umax.bits {
				umax = v
			}
			if int64(v.bits<<shift) < int64(smin.bits<<shift) {
				smin = v
			}
			if int64(v.bits<<shift) > int64(smax.bits<<shift) {
				smax = v
			}
		}
		for _, v := range []c05Val{umin, umax, smin, smax, p.vals[0], p.vals[n-1]} {
			add(v, i, n)
		}
		for j := 0; j < 128; j++ {
			add(p.vals[r.Intn(n)], i, n)
		}
	}
	// a value may occur earlier than the page it was picked from
	if len(probes) > 0 {
		firstOf := map[uint64]int{}
		for i, p := range pages {
			for _, v := range p.vals {
				if _, ok := firstOf[v.bits]; !ok && seen[v.bits] {
					firstOf[v.bits] = i
				}
			}
		}
		for j := range probes {
			if fi, ok := firstOf[probes[j].v.bits]; ok && fi < probes[j].first {
				probes[j].first, probes[j].size = fi, len(pages[fi].vals)
			}
		}
	}
	present := len(probes)
	for j := 0; j < present && len(probes) < present+64; j++ {
		for _, nb := range c06Neighbours(k, probes[j].v) {
			if !k.isNaN(nb) && !seen[nb.bits] {
				seen[nb.bits] = true
				probes = append(probes, c06PProbe{nb, -1, 0})
			}
		}
	}
	return probes
}

func c06PCheckChunk(ctx *core.Ctx, b *c05Batch, r *rand.Rand, f *c06PFile, ci int, cc parquet.ColumnChunk, pages []c05ReadPage,
	detail func(map[string]any) map[string]any, tag string, l2 bool) {
	col := c06PCols[ci]
	kk := *c05KindByName(col.kind)
	kk.typ = cc.Type()
	k := &kk
	index, err := cc.ColumnIndex()
	if err != nil {
		ctx.Fail("L1", "column-index-missing pages "+col.name, err.Error(), detail(nil))
		return
	}
	typ := cc.Type()
	view := c05ViewIndex(k, index)
	if view.panicked != nil || view.n != len(pages) {
		ctx.Fail("L1", "index-numpages pages "+col.name, fmt.Sprintf("NumPages()=%d, %d pages read, panic=%v", view.n, len(pages), view.panicked), detail(nil))
		return
	}
	for _, p := range pages {
		ctx.Hist("pages: values per page ("+col.kind+")", c06PBucket(len(p.vals)))
		if k.float && len(p.vals) > 0 {
			nn := 0
			for _, v := range p.vals {
				if k.isNaN(v) {
					nn++
				}
			}
			switch {
			case nn == len(p.vals):
				ctx.Hist("pages: float pages", "all-NaN")
			case nn > 0:
				ctx.Hist("pages: float pages", "some-NaN")
			default:
				ctx.Hist("pages: float pages", "no-NaN")
			}
		}
	}
	ctx.Hist("pages: index order", fmt.Sprint(view.order))
	probes := c06PProbes(r, k, pages)
	finds := [2][]int{}
	for nf := 0; nf < 2; nf++ {
		cmp := parquet.CompareNullsLast(typ.Compare)
		nfTag := ""
		if nf == 1 {
			cmp = parquet.CompareNullsFirst(typ.Compare)
			nfTag = " nulls-first"
		}
		for _, pr := range probes {
			got := -1
			pan := c05Recover(func() { got = parquet.Find(index, k.value(pr.v), cmp) })
			finds[nf] = append(finds[nf], got)
			if pr.first >= 0 {
				ctx.Hist("pages: probe", "present")
			} else {
				ctx.Hist("pages: probe", "absent")
			}
			sig := " pages " + col.name + tag + nfTag
			if pr.first >= 0 {
				sig = " pages " + col.name + " page" + c06PBucket(pr.size) + tag + nfTag
			}
			d := func() map[string]any {
				m := map[string]any{"probe": k.text(pr.v), "nulls_first": nf == 1, "returned": got, "num_pages": len(pages),
					"first_page_with_value": pr.first, "claimed_order": view.order}
				if pr.first >= 0 {
					tmn, tmx, _, _ := c05PageBoundsPortable(k, pages[pr.first].vals)
					m["page_values"] = len(pages[pr.first].vals)
					m["page_true_min"], m["page_true_max"] = k.text(tmn), k.text(tmx)
					if !view.nullPage[pr.first] {
						m["page_recorded_min"], m["page_recorded_max"] = k.text(view.min[pr.first]), k.text(view.max[pr.first])
					} else {
						m["page_recorded_min"], m["page_recorded_max"] = "null page", "null page"
					}
				}
				return detail(m)
			}
			switch {
			case pan != nil:
				ctx.Fail("L1", "search-panic"+sig, fmt.Sprintf("parquet.Find panics: %v", pan), d())
			case got < 0 || got > len(pages):
				ctx.Fail("L1", "search-out-of-range"+sig, "Find returned an index outside 0..NumPages", d())
			case pr.first >= 0 && got > pr.first:
				ctx.Fail("L1", "missed-page"+sig, fmt.Sprintf("the value occurs in page %d (%d values) but Find returned %d (NumPages=%d)", pr.first, pr.size, got, len(pages)), d())
			case got < len(pages):
				if view.nullPage[got] || (!k.isNaN(view.min[got]) && k.cmp(pr.v, view.min[got]) < 0) || (!k.isNaN(view.max[got]) && k.cmp(pr.v, view.max[got]) > 0) {
					ctx.Fail("L1", "search-bounds-exclude"+sig, "Find returned a page whose recorded bounds do not contain the probe", d())
				}
			}
		}
	}
	if !l2 || b.d == nil {
		return
	}
	// ---- L2: the index and the searches recomputed by the Lean model from the page VALUES
	var sb strings.Builder
	if k.float {
		sb.WriteString("pages.findf ")
	} else {
		sb.WriteString("pages.find ")
	}
	sb.WriteString(col.kind)
	sb.WriteByte(' ')
	if len(pages) == 0 {
		sb.WriteByte('-')
	}
	var mins, maxs []string
	for i, p := range pages {
		if i > 0 {
			sb.WriteByte('|')
		}
		for j, v := range p.vals {
			if j > 0 {
				sb.WriteByte(',')
			}
			sb.WriteString(strconv.FormatUint(v.bits, 10))
		}
		for j := 0; j < p.nulls; j++ { // the null values of the page (their positions do not matter to the bounds)
			if j > 0 || len(p.vals) > 0 {
				sb.WriteByte(',')
			}
			sb.WriteByte('n')
		}
		if view.nullPage[i] {
			mins, maxs = append(mins, "n"), append(maxs, "n")
		} else {
			mins, maxs = append(mins, c06PKey(col.kind, view.min[i])), append(maxs, c06PKey(col.kind, view.max[i]))
		}
	}
	sb.WriteByte(' ')
	if len(probes) == 0 {
		sb.WriteByte('-')
	}
	for j, pr := range probes {
		if j > 0 {
			sb.WriteByte(',')
		}
		sb.WriteString(strconv.FormatUint(pr.v.bits, 10))
	}
	list := func(xs []int) string {
		if len(xs) == 0 {
			return "-"
		}
		ss := make([]string, len(xs))
		for i, x := range xs {
			ss[i] = strconv.Itoa(x)
		}
		return strings.Join(ss, ",")
	}
	slist := func(xs []string) string {
		if len(xs) == 0 {
			return "-"
		}
		return strings.Join(xs, ",")
	}
	want := fmt.Sprintf("ok %s %s %d %s %s", list(finds[0]), list(finds[1]), view.order, slist(mins), slist(maxs))
	size := "small-pages"
	for _, p := range pages {
		if len(p.vals) >= 32113 {
			size = "big-pages"
		}
	}
	ctx.Hist("pages: L2 chunks", col.kind+" "+size)
	b.ask(sb.String(), func(ans string) {
		if ans == want {
			return
		}
		what := "Find / the column index of the written pages differ from the Lean model built from the page values"
		w, a := strings.Fields(want), strings.Fields(ans)
		part := "answer"
		d := map[string]any{"build": ctx.Variant}
		if len(w) == 6 && len(a) == 6 {
			switch {
			case w[4] != a[4] || w[5] != a[5]:
				part = "bounds"
				d["impl_mins"], d["impl_maxs"], d["model_mins"], d["model_maxs"] = w[4], w[5], a[4], a[5]
			case w[3] != a[3]:
				part = "boundary-order"
				d["impl_order"], d["model_order"], d["mins"], d["maxs"] = w[3], a[3], w[4], w[5]
			default:
				part = "find"
				d["order"], d["mins"], d["maxs"] = w[3], w[4], w[5]
				for nf := 0; nf < 2; nf++ {
					wi, ai := strings.Split(w[1+nf], ","), strings.Split(a[1+nf], ",")
					for j := range wi {
						if j < len(ai) && j < len(probes) && wi[j] != ai[j] {
							d["probe"], d["nulls_first"], d["impl_page"], d["model_page"] = k.text(probes[j].v), nf == 1, wi[j], ai[j]
							break
						}
					}
				}
			}
		} else {
			d["impl"], d["model"] = want[:min(len(want), 300)], ans[:min(len(ans), 300)]
		}
		ctx.Fail("L2", "pages-mirror "+part+" "+col.name+" "+size+tag, what, detail(d))
	})
	if size == "big-pages" {
		b.flush()
	}
}

func c06PCheckFile(ctx *core.Ctx, b *c05Batch, r *rand.Rand, f *c06PFile) {
	total := 0
	for _, n := range f.sizes {
		total += n
	}
	base := map[string]any{"op": "c06pages", "file": f.id, "regime": f.regime, "page_version": f.version,
		"rows_per_write": f.sizes, "flush_per_write": f.flush, "max_rows_per_row_group": f.maxRows, "only_32bit_columns": f.only32}
	if f.regime == "small" {
		var sb strings.Builder
		for ci := range c06PCols {
			sb.WriteString(f.colText(ci))
			sb.WriteByte(';')
		}
		ctx.Case(fmt.Sprintf("pages small v=%d maxrows=%d %s", f.version, f.maxRows, sb.String()), len(f.sizes) >= 2)
	} else {
		base["note"] = "values are regenerated from the run seed (stream = file id)"
		ctx.Case(fmt.Sprintf("pages %s %s %v", f.regime, f.id, f.sizes), true)
	}
	ctx.Hist("pages: regime", f.regime)
	data, pan := f.write()
	if pan != nil {
		ctx.Fail("L1", "writer-panic pages", fmt.Sprint(pan), base)
		return
	}
	var pf *parquet.File
	if p := c05Recover(func() {
		var err error
		if pf, err = parquet.OpenFile(bytes.NewReader(data), int64(len(data))); err != nil {
			panic(err)
		}
	}); p != nil {
		ctx.Fail("L1", "open-file-failed pages", fmt.Sprint(p), base)
		return
	}
	rgs := pf.RowGroups()
	ctx.Hist("pages: row groups", c05Bucket(len(rgs)))
	all := make([][]c05ReadPage, len(c06PCols))
	read := make([]int, len(c06PCols))
	rows := 0
	for g, rg := range rgs {
		rows += int(rg.NumRows())
		chunks := rg.ColumnChunks()
		for ci, col := range c06PCols {
			kk := *c05KindByName(col.kind)
			if f.only32 && kk.width != 32 {
				continue
			}
			kk.typ = chunks[ci].Type()
			detail := func(extra map[string]any) map[string]any {
				m := map[string]any{"column": col.name, "kind": col.kind, "row_group": g, "row_groups": len(rgs)}
				if f.regime == "small" {
					m["pages"] = f.colText(ci)
				}
				for k, v := range base {
					m[k] = v
				}
				for k, v := range extra {
					m[k] = v
				}
				return m
			}
			var pages []c05ReadPage
			var rerr error
			if p := c05Recover(func() { pages, rerr = c05ReadPages(&kk, chunks[ci]) }); p != nil || rerr != nil {
				ctx.Fail("L1", "read-pages-failed pages "+col.name, fmt.Sprint(p, rerr), detail(nil))
				continue
			}
			nvals := 0
			for _, p := range pages {
				nvals += len(p.vals)
			}
			// the model is sent whole pages: chunks of up to 80000 values in quick (default-size pages of every kind and
			// the 32113-value edge pages), up to 150000 in thorough (the 131072-value edge pages too)
			c06PCheckChunk(ctx, b, r, f, ci, chunks[ci], pages, detail, "", nvals <= ctx.Scale(80000, 150000))
			if f.regime == "small" {
				all[ci] = append(all[ci], pages...)
			}
			read[ci]++
		}
	}
	if rows != total {
		ctx.Fail("L1", "row-groups-lose-rows pages", fmt.Sprintf("%d rows written, %d rows in %d row groups", total, rows, len(rgs)), base)
	}
	if len(rgs) > 1 && f.regime == "small" {
		var mchunks []parquet.ColumnChunk
		if p := c05Recover(func() { mchunks = parquet.MultiRowGroup(rgs...).ColumnChunks() }); p != nil || len(mchunks) != len(c06PCols) {
			ctx.Fail("L1", "multi-row-group-failed pages", fmt.Sprint(p), base)
			return
		}
		for ci, col := range c06PCols {
			if read[ci] != len(rgs) {
				continue
			}
			detail := func(extra map[string]any) map[string]any {
				m := map[string]any{"column": col.name, "kind": col.kind, "multi_row_group": true, "row_groups": len(rgs), "pages": f.colText(ci)}
				for k, v := range base {
					m[k] = v
				}
				for k, v := range extra {
					m[k] = v
				}
				return m
			}
			c06PCheckChunk(ctx, b, r, f, ci, mchunks[ci], all[ci], detail, " multi-row-group", false)
		}
	}
}

func RunC06Pages(ctx *core.Ctx) {
	ctx.SetRule("files of required / optional / dictionary-encoded INT32, INT64, UINT32, UINT64 and FLOAT, DOUBLE columns written with the typed writer in three page-size regimes (small: one page per Write call, all-null pages, several row groups; default: full default-size pages of a 70000+ row Write; edge: pages of exactly 32112..32114, 131071..131073, 262143..262145 values = the kernel dispatch thresholds of the bounds functions), values on both sides of the sign bit, sorted / random / small alphabets; read back page by page; every value read from page p (large pages: the extremes in the column order and in both bit orders, first, last, 128 picks) and absent neighbours searched with Find under both null orderings (L1), and the column index + searches recomputed by the Lean model from the page values (L2, integer kinds); distinct by file content, non-trivial = at least 2 pages")
	if ctx.Replay != "" {
		return
	}
	type job struct {
		id  string
		gen func(r *rand.Rand, id string) *c06PFile
	}
	var jobs []job
	edgeSizes := [][]int{{32112, 32113, 32114}, {131071, 131072, 131073}, {262143, 262144, 262145}}
	for i := 0; i < ctx.Scale(1, 1); i++ {
		for e, sz := range edgeSizes {
			sz := sz
			jobs = append(jobs, job{fmt.Sprintf("pagesedge#%d.%d", i, e), func(r *rand.Rand, id string) *c06PFile {
				return c06PGenBig(r, id, "edge", sz, true, sz[0] > 200000)
			}})
		}
	}
	for i := 0; i < ctx.Scale(4, 12); i++ {
		jobs = append(jobs, job{fmt.Sprintf("pagesdefault#%d", i), func(r *rand.Rand, id string) *c06PFile {
			return c06PGenBig(r, id, "default", []int{70000 + r.Intn(4000)}, false, false)
		}})
	}
	nsmall := ctx.Scale(800, 5000)
	const chunk = 50
	for i := 0; i < nsmall; i += chunk {
		i := i
		jobs = append(jobs, job{fmt.Sprintf("pagessmall#%d", i), func(r *rand.Rand, id string) *c06PFile { return nil }})
	}
	workers := 12
	var wg sync.WaitGroup
	next := make(chan job)
	for w := 0; w < workers; w++ {
		wg.Add(1)
		go func() {
			defer wg.Done()
			b := &c05Batch{ctx: ctx, d: ctx.Driver()}
			for j := range next {
				r := ctx.Rand(j.id)
				if strings.HasPrefix(j.id, "pagessmall#") {
					for i := 0; i < chunk; i++ {
						f := c06PGenSmall(r, fmt.Sprintf("%s.%d", j.id, i))
						if i == 0 && j.id == "pagessmall#0" {
							ctx.Sample(map[string]any{"file": f.id, "regime": f.regime, "rows_per_write": f.sizes, "u64": f.colText(6), "oi32": f.colText(1)})
						}
						c06PCheckFile(ctx, b, r, f)
					}
					continue
				}
				c06PCheckFile(ctx, b, r, j.gen(r, j.id))
			}
			b.flush()
		}()
	}
	for _, j := range jobs {
		next <- j
	}
	close(next)
	wg.Wait()
}
