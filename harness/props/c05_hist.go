package props

import (
	"bytes"
	"fmt"
	"math/rand"
	"strconv"
	"strings"

	"github.com/parquet-go/parquet-go"
	"github.com/parquet-go/parquet-go/format"

	"verifharness/core"
)

// Level histograms and size statistics (C05, files sub-check): files with optional, repeated and nested
// columns (max definition level up to 3, max repetition level 1), plain and dictionary-encoded byte arrays,
// several pages and row groups. From the levels and values READ BACK per page the true histograms are
// recomputed and compared with
//   - ColumnIndex.{definition,repetition}_level_histogram (flat, maxLevel+1 entries per page),
//   - SizeStatistics.{definition,repetition}_level_histogram of the chunk (pointwise sum, sums = num_values),
//   - SizeStatistics.unencoded_byte_array_data_bytes (total length of the non-null BYTE_ARRAY values),
// (L1) and with the Lean mirror of the writer's accumulation, `c05.hist` (L2).

type c05HistInner struct {
	X []string `parquet:"x"`
	Y *int64   `parquet:"y,optional"`
}

type c05HistRow struct {
	A  *int32        `parquet:"a,optional"`
	S  *string       `parquet:"s,optional"`
	D  *string       `parquet:"d,optional,dict"`
	R  string        `parquet:"r,dict"`
	L  []int32       `parquet:"l"`
	LS []string      `parquet:"ls"`
	LD []string      `parquet:"ld,dict"`
	G  *c05HistInner `parquet:"g,optional"`
}

func c05HistGenRow(r *rand.Rand, words []string) c05HistRow {
	var row c05HistRow
	word := func() string { return words[r.Intn(len(words))] }
	if r.Intn(3) > 0 {
		v := int32(r.Intn(100))
		row.A = &v
	}
	if r.Intn(3) > 0 {
		v := word()
		row.S = &v
	}
	if r.Intn(3) > 0 {
		v := word()
		row.D = &v
	}
	row.R = word()
	for i := r.Intn(4); i > 0; i-- {
		row.L = append(row.L, int32(r.Intn(9)))
	}
	for i := r.Intn(4); i > 0; i-- {
		row.LS = append(row.LS, word())
	}
	for i := r.Intn(4); i > 0; i-- {
		row.LD = append(row.LD, word())
	}
	if r.Intn(4) > 0 {
		g := &c05HistInner{}
		for i := r.Intn(3); i > 0; i-- {
			g.X = append(g.X, word())
		}
		if r.Intn(2) == 0 {
			y := r.Int63n(50)
			g.Y = &y
		}
		row.G = g
	}
	return row
}

func c05Levels(lv []byte) string {
	if len(lv) == 0 {
		return "-"
	}
	ss := make([]string, len(lv))
	for i, l := range lv {
		ss[i] = fmt.Sprint(l)
	}
	return strings.Join(ss, ",")
}

func c05Ints(xs []int64) string {
	if len(xs) == 0 {
		return "-"
	}
	ss := make([]string, len(xs))
	for i, x := range xs {
		ss[i] = fmt.Sprint(x)
	}
	return strings.Join(ss, ",")
}

func c05HistFile(ctx *core.Ctx, b *c05Batch, id string) {
	r := ctx.Rand(id)
	words := []string{"", "a", "bc", "cde", "\xff\xff\xff\xff\xff", strings.Repeat("x", 1+r.Intn(40))}
	npages := 1 + r.Intn(6)
	var writes [][]c05HistRow
	total := 0
	for p := 0; p < npages; p++ {
		n := 1 + r.Intn(5)
		if r.Intn(8) == 0 {
			n = 6 + r.Intn(30)
		}
		rows := make([]c05HistRow, n)
		nullPage := r.Intn(6) == 0
		for i := range rows {
			if nullPage {
				rows[i] = c05HistRow{R: words[r.Intn(len(words))]}
			} else {
				rows[i] = c05HistGenRow(r, words)
			}
		}
		writes = append(writes, rows)
		total += n
	}
	opts := []parquet.WriterOption{parquet.PageBufferSize(1), parquet.DataPageVersion(1 + r.Intn(2))}
	maxRows := 0
	if r.Intn(3) == 0 {
		maxRows = 1 + r.Intn(max(1, total/2))
		opts = append(opts, parquet.MaxRowsPerRowGroup(int64(maxRows)))
	}
	canon := fmt.Sprintf("histfile %s %v", id, writes)
	ctx.Case(canon, npages >= 2)
	ctx.Hist("file-pages", "hist")
	base := map[string]any{"op": "histfile", "file": id, "pages": npages, "max_rows_per_row_group": maxRows, "note": "rows are regenerated from the run seed (stream = file id)"}
	var buf bytes.Buffer
	var pf *parquet.File
	if p := c05Recover(func() {
		w := parquet.NewGenericWriter[c05HistRow](&buf, opts...)
		for _, rows := range writes {
			if _, err := w.Write(rows); err != nil {
				panic(err)
			}
		}
		if err := w.Close(); err != nil {
			panic(err)
		}
		var err error
		if pf, err = parquet.OpenFile(bytes.NewReader(buf.Bytes()), int64(buf.Len())); err != nil {
			panic(err)
		}
	}); p != nil {
		ctx.Fail("L1", "histfile-write-or-open-failed", fmt.Sprint(p), base)
		return
	}
	leaves := pf.Schema().Columns()
	rawIdx := pf.ColumnIndexes()
	rgs := pf.RowGroups()
	for g, rg := range rgs {
		for ci, cc := range rg.ColumnChunks() {
			leaf, _ := pf.Schema().Lookup(leaves[ci]...)
			maxDef, maxRep := leaf.MaxDefinitionLevel, leaf.MaxRepetitionLevel
			colName := strings.Join(leaves[ci], ".")
			ctx.Hist("hist-column", fmt.Sprintf("%s def<=%d rep<=%d", colName, maxDef, maxRep))
			detail := func(extra map[string]any) map[string]any {
				m := map[string]any{"column": colName, "row_group": g, "row_groups": len(rgs), "max_definition_level": maxDef, "max_repetition_level": maxRep}
				for k, v := range base {
					m[k] = v
				}
				for k, v := range extra {
					m[k] = v
				}
				return m
			}
			// ---- read back levels and values page by page
			var defPages, repPages [][]byte
			var entryPages []string   // per page: the level stream `def:rep:hex|n` for the Lean level model
			var pageCounts [][3]int64 // per page: NumValues, NumNulls, NumRows as the page reports them
			var numValues, byteLen int64
			isBytes := cc.Type().Kind() == parquet.ByteArray
			perr := c05Recover(func() {
				pages := cc.Pages()
				defer pages.Close()
				for {
					p, err := pages.ReadPage()
					if err != nil {
						break
					}
					defPages = append(defPages, bytes.Clone(p.DefinitionLevels()))
					repPages = append(repPages, bytes.Clone(p.RepetitionLevels()))
					numValues += p.NumValues()
					pageCounts = append(pageCounts, [3]int64{p.NumValues(), p.NumNulls(), p.NumRows()})
					var es []string
					vr := p.Values()
					vb := make([]parquet.Value, 64)
					for {
						n, err := vr.ReadValues(vb)
						for _, v := range vb[:n] {
							if !v.IsNull() && isBytes {
								byteLen += int64(len(v.ByteArray()))
							}
							val := "n"
							if !v.IsNull() {
								val = "e" // fixed-width columns: presence only
								if isBytes {
									val = c05Hex(v.ByteArray())
								}
							}
							es = append(es, fmt.Sprintf("%d:%d:%s", v.DefinitionLevel(), v.RepetitionLevel(), val))
						}
						if err != nil || n == 0 {
							break
						}
					}
					entryPages = append(entryPages, strings.Join(es, ","))
					parquet.Release(p)
				}
			})
			if perr != nil {
				ctx.Fail("L1", "read-pages-failed hist", fmt.Sprint(perr), detail(nil))
				continue
			}
			md := &pf.Metadata().RowGroups[g].Columns[ci].MetaData
			var raw *format.ColumnIndex
			if len(rawIdx) == len(leaves)*len(rgs) {
				raw = &rawIdx[g*len(leaves)+ci]
			}
			check := func(which string, maxLevel int, levelPages [][]byte, chunkHist, flat []int64) {
				d := func() map[string]any {
					lp := make([]string, len(levelPages))
					for i, lv := range levelPages {
						lp[i] = c05Levels(lv)
					}
					return detail(map[string]any{"which": which, "levels_per_page": strings.Join(lp, ";"), "chunk_histogram": c05Ints(chunkHist), "page_histograms": c05Ints(flat)})
				}
				if maxLevel == 0 {
					// the format allows omitting the histogram when the max level is 0
					if len(chunkHist) != 0 && !(len(chunkHist) == 1 && chunkHist[0] == numValues) {
						ctx.Fail("L1", "level-histogram-wrong "+which, "histogram of a column whose max level is 0 is neither absent nor [num_values]", d())
					}
					return
				}
				// the true histograms
				trueChunk := make([]int64, maxLevel+1)
				var trueFlat []int64
				bad := false
				for _, lv := range levelPages {
					h := make([]int64, maxLevel+1)
					for _, l := range lv {
						if int(l) > maxLevel {
							bad = true
							continue
						}
						h[l]++
						trueChunk[l]++
					}
					trueFlat = append(trueFlat, h...)
				}
				if bad {
					ctx.Fail("L1", "level-above-max "+which, "a level read back exceeds the column's max level", d())
					return
				}
				if c05Ints(chunkHist) != c05Ints(trueChunk) {
					ctx.Fail("L1", "chunk-level-histogram-wrong "+which, "SizeStatistics level histogram differs from the counts of the levels read back: want "+c05Ints(trueChunk), d())
				}
				sum := int64(0)
				for _, x := range chunkHist {
					sum += x
				}
				if sum != md.NumValues || sum != numValues {
					ctx.Fail("L1", "level-histogram-sum "+which, fmt.Sprintf("histogram buckets sum to %d, num_values=%d, %d values read", sum, md.NumValues, numValues), d())
				}
				if raw != nil && len(raw.NullPages) > 0 && c05Ints(flat) != c05Ints(trueFlat) {
					ctx.Fail("L1", "page-level-histogram-wrong "+which, "column index level histograms differ from the per-page counts of the levels read back: want "+c05Ints(trueFlat), d())
				}
				// L2: the Lean mirror of accumulateAndAppendPageLevelHistogram over the pages
				lp := make([]string, len(levelPages))
				for i, lv := range levelPages {
					lp[i] = c05Levels(lv)
				}
				if len(lp) > 0 && raw != nil && len(raw.NullPages) > 0 {
					want := "ok " + c05Ints(chunkHist) + " " + c05Ints(flat)
					b.ask(fmt.Sprintf("c05.hist %d %s", maxLevel, strings.Join(lp, ";")), func(ans string) {
						if ans != want {
							m := d()
							m["impl"], m["model"] = want, ans
							ctx.Fail("L2", "level-histogram-mirror "+which, "level histograms differ from the Lean mirror of the writer's accumulation", m)
						}
					})
				}
			}
			var flatDef, flatRep []int64
			if raw != nil {
				flatDef, flatRep = raw.DefinitionLevelHistogram, raw.RepetitionLevelHistogram
			}
			check("definition", maxDef, defPages, md.SizeStatistics.DefinitionLevelHistogram, flatDef)
			check("repetition", maxRep, repPages, md.SizeStatistics.RepetitionLevelHistogram, flatRep)
			// L2: the level model of one page (`pageLevelStats`, the object of `levelStats_exact`): value count,
			// null count, row count, both histograms and the unencoded byte-array size from ONE level stream,
			// against what the page, the column index and the size statistics say
			if raw != nil && len(raw.NullCounts) == len(entryPages) {
				unencoded := new(int64)
				for i, es := range entryPages {
					if es == "" {
						continue
					}
					i, last := i, i == len(entryPages)-1
					slice := func(flat []int64, maxLevel int) string {
						if maxLevel == 0 || len(flat) != len(entryPages)*(maxLevel+1) {
							return "" // omitted for max level 0
						}
						return c05Ints(flat[i*(maxLevel+1) : (i+1)*(maxLevel+1)])
					}
					wantDef, wantRep := slice(flatDef, maxDef), slice(flatRep, maxRep)
					ctx.Hist("level-model-asked", fmt.Sprintf("def<=%d rep<=%d", maxDef, maxRep))
					b.ask(fmt.Sprintf("c05.levels %d %d %s", maxDef, maxRep, es), func(ans string) {
						f := strings.Fields(ans)
						ok := len(f) == 7 && f[0] == "ok" &&
							f[1] == fmt.Sprint(pageCounts[i][0]) && f[2] == fmt.Sprint(pageCounts[i][1]) && f[2] == fmt.Sprint(raw.NullCounts[i]) &&
							f[3] == fmt.Sprint(pageCounts[i][2]) && (wantDef == "" || f[4] == wantDef) && (wantRep == "" || f[5] == wantRep)
						if !ok {
							ctx.Fail("L2", "level-model-mirror", "value count / null count / row count / level histograms of a page differ from the Lean level model of the page", detail(map[string]any{"page": i, "entries": es, "model": ans,
								"impl": fmt.Sprintf("num_values=%d page_nulls=%d index_null_count=%d num_rows=%d def_hist=%s rep_hist=%s", pageCounts[i][0], pageCounts[i][1], raw.NullCounts[i], pageCounts[i][2], wantDef, wantRep)}))
							return
						}
						n, _ := strconv.ParseInt(f[6], 10, 64)
						*unencoded += n
						if last && isBytes && *unencoded != md.SizeStatistics.UnencodedByteArrayDataBytes {
							ctx.Fail("L2", "level-model-mirror unencoded-bytes", fmt.Sprintf("unencoded_byte_array_data_bytes=%d, the Lean level model sums %d over the pages", md.SizeStatistics.UnencodedByteArrayDataBytes, *unencoded), detail(nil))
						}
					})
				}
			}
			if isBytes {
				ctx.Hist("unencoded-bytes-column", colName)
				if md.SizeStatistics.UnencodedByteArrayDataBytes != byteLen {
					key := "unencoded-byte-array-bytes-wrong"
					for _, e := range md.Encoding {
						if e == format.RLEDictionary || e == format.PlainDictionary {
							key = "unencoded-byte-array-bytes-dict"
						}
					}
					ctx.Fail("L1", key, fmt.Sprintf("SizeStatistics.unencoded_byte_array_data_bytes=%d, the non-null values read back have %d bytes", md.SizeStatistics.UnencodedByteArrayDataBytes, byteLen), detail(nil))
				}
			} else if md.SizeStatistics.UnencodedByteArrayDataBytes != 0 {
				ctx.Fail("L1", "unencoded-byte-array-bytes-on-fixed-width", "unencoded_byte_array_data_bytes set on a column that is not BYTE_ARRAY", detail(nil))
			}
		}
	}
}
