package props

import (
	"bytes"
	"errors"
	"fmt"
	"math/rand"
	"strings"
	"sync"

	"github.com/parquet-go/parquet-go"

	"verifharness/core"
)

// Sub-check modules: the reader-side differential for the modules opened OUTSIDE the page reader
// (footer, column metadata, column index, offset index, bloom filter). Histories of OpenFile (with
// or without SkipPageIndex), ColumnIndex(), OffsetIndex() and BloomFilter() calls on real files,
// against the Lean mirror AadFile.frun (op aad.frun), which routes every opening through the
// call-site table re-extracted from the source: on the file as written no call may fail (L1); with
// ONE module damaged the history must fail at exactly the call at which the mirror opens that
// module — the eager path at OpenFile, the lazy paths at the chunk's own call, a cached index never
// again — and nowhere else (L2).

func init() { RegisterSub("C18", "modules", RunC18Modules) }

type c18MHist struct {
	File    *c18RFile
	Spec    string
	Ops     []string
	Damaged string // slot text, "none"
	FlipAt  int
}

func c18MSpec(lay *c18Layout) (string, [][2]int) {
	var rgs []string
	var pos [][2]int
	bit := func(b bool) string {
		if b {
			return "1"
		}
		return "0"
	}
	for gi, rg := range lay.Meta.RowGroups {
		var chunks []string
		for ci, cc := range rg.Columns {
			bloom := false
			for _, m := range lay.Mods {
				if m.Kind == "bloomHeader" && m.RG == gi && m.Col == ci {
					bloom = true
				}
			}
			chunks = append(chunks, bit(len(cc.EncryptedColumnMetadata) > 0)+bit(cc.ColumnIndexOffset != 0)+bit(cc.OffsetIndexOffset != 0)+bit(bloom))
			pos = append(pos, [2]int{gi, ci})
		}
		rgs = append(rgs, strings.Join(chunks, ","))
	}
	return strings.Join(rgs, "/"), pos
}

func c18MRun(h *c18MHist) (out []string, errs []error) {
	defer func() {
		if p := recover(); p != nil {
			out = append(out, "panic")
			errs = append(errs, fmt.Errorf("PANIC: %v", p))
		}
	}()
	data := h.File.Data
	if h.Damaged != "none" {
		data = append([]byte{}, data...)
		data[h.FlipAt] ^= 0x04
	}
	var f *parquet.File
	for _, op := range h.Ops {
		var kind string
		var a, b int
		parts := strings.Split(op, ":")
		kind = parts[0]
		fmt.Sscan(parts[1], &a)
		if len(parts) > 2 {
			fmt.Sscan(parts[2], &b)
		}
		var err error
		switch kind {
		case "o":
			f, err = parquet.OpenFile(bytes.NewReader(data), int64(len(data)), parquet.WithDecryption(h.File.Enc.Keys()), parquet.SkipPageIndex(a != 0))
		case "ci":
			_, err = f.RowGroups()[a].ColumnChunks()[b].ColumnIndex()
			if errors.Is(err, parquet.ErrMissingColumnIndex) {
				err = nil
			}
		case "oi":
			_, err = f.RowGroups()[a].ColumnChunks()[b].OffsetIndex()
			if errors.Is(err, parquet.ErrMissingOffsetIndex) {
				err = nil
			}
		case "bf":
			if bf := f.RowGroups()[a].ColumnChunks()[b].BloomFilter(); bf != nil {
				_, err = bf.Check(parquet.Int64Value(0))
			}
		}
		if err != nil {
			return append(out, "error"), []error{err}
		}
		out = append(out, "done")
	}
	return out, nil
}

func RunC18Modules(ctx *core.Ctx) {
	ctx.SetRule(c18Rule)
	d := ctx.Driver()
	if d == nil {
		return
	}
	r := ctx.Rand("c18/modules")
	var hists []*c18MHist
	for fi, nf := 0, ctx.Scale(60, 600); fi < nf; fi++ {
		f := c18RWrite(r)
		if f.WriteErr != nil || f.Lay == nil || len(f.Lay.Meta.RowGroups) == 0 {
			ctx.Hist("modules_outcome", "no-file")
			continue
		}
		spec, pos := c18MSpec(f.Lay)
		for k := 0; k < 10; k++ {
			h := &c18MHist{File: f, Spec: spec, Damaged: "none", Ops: []string{fmt.Sprintf("o:%d", r.Intn(2))}}
			for n := r.Intn(7); n > 0; n-- {
				p := pos[r.Intn(len(pos))]
				if len(h.Ops) > 1 && r.Intn(3) == 0 { // the same call again: caches
					h.Ops = append(h.Ops, h.Ops[1+r.Intn(len(h.Ops)-1)])
					continue
				}
				h.Ops = append(h.Ops, fmt.Sprintf("%s:%d:%d", []string{"ci", "oi", "bf"}[r.Intn(3)], p[0], p[1]))
			}
			if k%5 != 0 {
				// damage one module: any envelope of the file, or the signature of a plaintext footer
				if !f.Lay.EncFooter && r.Intn(8) == 0 {
					h.Damaged, h.FlipAt = "footer:0:0:0", f.Lay.SigOff+r.Intn(28)
				} else {
					m := f.Lay.Mods[r.Intn(len(f.Lay.Mods))]
					if k%2 == 0 { // prefer the modules these calls open
						for try := 0; try < 20 && (m.Kind == "dataPage" || m.Kind == "dataPageHeader" || m.Kind == "dictPage" || m.Kind == "dictPageHeader"); try++ {
							m = f.Lay.Mods[r.Intn(len(f.Lay.Mods))]
						}
					}
					h.Damaged = fmt.Sprintf("%s:%d:%d:%d", m.Kind, m.RG, m.Col, m.Page)
					h.FlipAt = m.Off + 4 + r.Intn(m.Len-4)
				}
			}
			hists = append(hists, h)
		}
	}
	reqs := make([]string, len(hists))
	for i, h := range hists {
		reqs[i] = "aad.frun " + h.Spec + " " + strings.Join(h.Ops, " ")
	}
	ans, err := d.AskMany(reqs)
	if err != nil {
		ctx.Fail("L2", "driver-error", err.Error(), nil)
		return
	}
	var wg sync.WaitGroup
	sem := make(chan struct{}, 16)
	for i, h := range hists {
		wg.Add(1)
		sem <- struct{}{}
		go func(h *c18MHist, req, a string) {
			defer wg.Done()
			defer func() { <-sem }()
			c18MCompare(ctx, h, req, a)
		}(h, reqs[i], ans[i])
	}
	wg.Wait()
}

func c18MCompare(ctx *core.Ctx, h *c18MHist, req, a string) {
	detail := map[string]any{"file": h.File.desc(), "chunks": h.Spec + "   (row groups separated by /, chunks by , ; per chunk: sealed column metadata, column index, offset index, bloom filter present)",
		"calls": strings.Join(h.Ops, " ") + "   (o:<n> = OpenFile with SkipPageIndex(n != 0), ci/oi/bf:<rg>:<col> = ColumnIndex()/OffsetIndex()/BloomFilter().Check of that chunk)",
		"damaged_module": h.Damaged, "flipped_byte_offset": h.FlipAt, "model_request": req, "model_answer": a}
	ctx.Case(fmt.Sprintf("modules|%s|%v|damage=%s@%d", h.File.desc(), h.Ops, h.Damaged, h.FlipAt), len(h.Ops) >= 3 && strings.Contains(h.Spec, "/"))
	parts := strings.Fields(a)
	if len(parts) != 4 || parts[0] != "ok" {
		ctx.Fail("L2", "driver-answer", "the model refused an aad.frun request", detail)
		return
	}
	if parts[3] != "1" {
		ctx.Fail("L2", "file-reader-model-opens-with-other-arguments", "the mirror opens a module with other AAD arguments than its slot's (contradicts file_reader_ordinals_agree)", detail)
	}
	var upto []int
	for _, t := range strings.Split(parts[1], ",") {
		var n int
		fmt.Sscan(t, &n)
		upto = append(upto, n)
	}
	var slots []string
	if parts[2] != "-" {
		slots = strings.Split(parts[2], ",")
	}
	failAt := -1
	for si, s := range slots {
		if s == h.Damaged {
			for ci, n := range upto {
				if si < n {
					failAt = ci
					break
				}
			}
			break
		}
	}
	var want []string
	for ci := range upto {
		if ci == failAt {
			want = append(want, "error")
			break
		}
		want = append(want, "done")
	}
	got, errs := c18MRun(h)
	detail["real"], detail["expected_from_model"] = strings.Join(got, " "), strings.Join(want, " ")
	if len(errs) > 0 {
		detail["error"] = errs[0].Error()
	}
	for _, s := range slots {
		ctx.Hist("modules_opens", strings.SplitN(s, ":", 2)[0])
	}
	kind := strings.SplitN(h.Damaged, ":", 2)[0]
	switch {
	case h.Damaged == "none":
		ctx.Hist("modules_outcome", "intact")
	case failAt >= 0:
		ctx.Hist("modules_outcome", "damaged "+kind+": opened by "+strings.SplitN(h.Ops[failAt], ":", 2)[0])
	default:
		ctx.Hist("modules_outcome", "damaged "+kind+": not touched")
	}
	if len(errs) > 0 && h.Damaged == "none" {
		ctx.Fail("L1", "module-call-error call="+strings.SplitN(h.Ops[len(got)-1], ":", 2)[0]+" "+c18ErrKind(errs[0]), "a call fails although file and keys are right: "+errs[0].Error(), detail)
		return
	}
	if len(errs) > 0 && c18ErrKind(errs[0]) == "panic" {
		ctx.Fail("L1", "module-call-panic", "the reader panics: "+errs[0].Error(), detail)
		return
	}
	if strings.Join(got, " ") != strings.Join(want, " ") {
		ctx.Fail("L2", "damaged-module-differs module="+kind, "with one module of the file damaged, the calls fail at another place than the one at which the Lean mirror (AadFile.frun, through the call-site table) opens that module, or do not fail, or fail without cause", detail)
	}
}

var _ = rand.Int
