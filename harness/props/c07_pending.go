package props

// C07 sub-check "pending": ONE writer driven through a mixed history of write entry points.
//
// The "files" sub-check produces every file through a single entry point (Write only, WriteRowGroup
// only, CopyRows only, ...): a WriteRowGroup there always meets a writer without pending rows. Here a
// case is a HISTORY of operations on the same writer:
//
//	write      WriteRows in batches, rows left pending in the writer (one or many pages per column)
//	flush      Flush
//	wrg-buffer WriteRowGroup(parquet.Buffer)        (generic path, pre-sizes the filters)
//	wrg-file   WriteRowGroup(row groups of a file)  (verbatim copy or column re-encode, per C11)
//	copyrows   CopyRows(writer, rows of a file)     (rows end up pending, like write)
//	rowgroup   BeginRowGroup, WriteRows, Commit     (its own column writers; Commit flushes the pending rows)
//
// then Close. Operations that write a row group flush the rows pending from the earlier operations as
// a row group of their own first: that implicitly flushed group's filter is the subject.
//
// L1 (the property itself, no model): the rows are written in order, so output row group k holds the
// next NumRows(k) rows of the case; every non-null value of those rows must give
// BloomFilter().Check(value) == (true, nil) on the filter of ITS row group, read back from the file.
// L2: the filter bytes stored in the file equal the model's filter (Lean `bloom.file`) of the same
// distinct values and number of blocks (not for booleans: padding bits, see the files sub-check).

import (
	"bytes"
	"crypto/sha256"
	"encoding/json"
	"fmt"
	"io"
	"os"
	"strings"
	"sync"
	"time"

	"github.com/parquet-go/parquet-go"

	"verifharness/core"
)

func init() { RegisterSub("C07", "pending", RunC07Pending) }

const c07PendingRule = "pending: the checked column chunk holds at least one non-null value and a filter (same as files)"

type c07PendOp struct {
	Kind  string `json:"op"`
	N     int    `json:"rows"`
	Batch int    `json:"batch,omitempty"` // rows per WriteRows call (write, rowgroup)
}

type c07PendCase struct {
	c07Case
	Generic bool        `json:"generic_writer"` // NewGenericWriter[any] instead of NewWriter
	Ops     []c07PendOp `json:"ops"`
}

type c07PendWriter interface {
	WriteRows([]parquet.Row) (int, error)
	WriteRowGroup(parquet.RowGroup) (int64, error)
	Flush() error
	Close() error
	BeginRowGroup() *parquet.ConcurrentRowGroupWriter
}

// operations after which nothing is left pending in the writer
func c07PendFlushes(kind string) bool { return kind != "write" && kind != "copyrows" }

func c07GenPending(ctx *core.Ctx, index int) *c07PendCase {
	r := ctx.Rand(fmt.Sprintf("pending/%d", index))
	pc := &c07PendCase{}
	cs := &pc.c07Case
	cs.Index, cs.Path = index, "pending"
	nc := 1 + r.Intn(3)
	for i := 0; i < nc; i++ {
		cs.Cols = append(cs.Cols, c07GenCol(r, i))
	}
	o := &cs.Opts
	o.MaxRows = []int64{0, 0, 0, 0, 100, 1000}[r.Intn(6)]
	o.PageBuf = []int{0, 64, 64, 256, 1024}[r.Intn(5)]
	o.PageV = 1 + r.Intn(2)
	o.Codec = []string{"", "", "snappy", "gzip", "zstd"}[r.Intn(5)]
	o.DictMax = []int64{0, 0, 0, 64, 4096}[r.Intn(5)]
	o.BloomComp = []string{"", "", "", "gzip", "uncompressed"}[r.Intn(5)]
	o.Deferred = r.Intn(5) == 0
	o.OpenMode = []string{"default", "default", "skip", "prefetch"}[r.Intn(4)]
	o.Encrypt = []string{"", "", "", "", "", "footer", "plain-footer", "column-keys"}[r.Intn(8)]
	o.Batch = 1 << 20
	// source files of wrg-file / copyrows: same configuration (verbatim copy when C11 allows it) or a
	// different one (re-encode / generic path)
	o.SrcCodec, o.SrcPageV, o.SrcBloom = o.Codec, o.PageV, "same"
	switch r.Intn(5) {
	case 0:
		o.SrcCodec = []string{"", "snappy", "gzip"}[r.Intn(3)]
	case 1:
		o.SrcPageV = 3 - o.PageV
	case 2:
		o.SrcBloom = "none"
	case 3:
		o.SrcBloom = "otherbits"
	}
	pc.Generic = r.Intn(4) == 0
	nops := 2 + r.Intn(5)
	kinds := []string{"write", "write", "write", "write", "flush", "wrg-buffer", "wrg-buffer", "wrg-file", "wrg-file", "copyrows", "rowgroup"}
	for i := 0; i < nops; i++ {
		op := c07PendOp{Kind: kinds[r.Intn(len(kinds))]}
		if op.Kind != "flush" {
			op.N = []int{0, 1, 7, 64, 65, 129, 300, 300, 700}[r.Intn(9)]
			op.Batch = []int{1, 8, 64, 1 << 20}[r.Intn(4)]
			if op.Batch == 1 && op.N > 129 {
				op.Batch = 8
			}
		}
		if op.Kind == "rowgroup" {
			if o.Encrypt != "" {
				op.Kind = "write" // the column-oriented API under encryption is C18's subject
			} else if o.MaxRows > 0 {
				op.N = min(op.N, int(o.MaxRows)) // a ConcurrentRowGroupWriter holds one row group
			}
		}
		pc.Ops = append(pc.Ops, op)
		cs.N += op.N
	}
	cs.rows = c07GenRows(r, cs.Cols, cs.N)
	return pc
}

func (pc *c07PendCase) describe(seed int64) map[string]any {
	return map[string]any{"seed": seed, "pending_case": pc,
		"regenerate": fmt.Sprintf("rows derive from ctx.Rand(\"pending/%d\"); operation k takes the next ops[k].rows rows", pc.Index)}
}

// sourceFile writes rows to a file of its own (one writer, source options) and opens it
func (pc *c07PendCase) sourceFile(schema *parquet.Schema, rows []parquet.Row) (*parquet.File, error) {
	var src bytes.Buffer
	sw := parquet.NewWriter(&src, append([]parquet.WriterOption{schema}, pc.options(true)...)...)
	if _, err := sw.WriteRows(rows); err != nil {
		return nil, fmt.Errorf("source: %w", err)
	}
	if err := sw.Close(); err != nil {
		return nil, fmt.Errorf("source: %w", err)
	}
	b := append([]byte(nil), src.Bytes()...)
	return parquet.OpenFile(bytes.NewReader(b), int64(len(b)))
}

func c07PendWriteBatches(write func([]parquet.Row) (int, error), rows []parquet.Row, batch int) error {
	for i := 0; i < len(rows); i += max(batch, 1) {
		j := min(len(rows), i+max(batch, 1))
		if _, err := write(rows[i:j]); err != nil {
			return err
		}
	}
	return nil
}

// write runs the history on one writer
func (pc *c07PendCase) write() ([]byte, error) {
	schema := pc.schema()
	leaves, err := pc.columnIndexes(schema)
	if err != nil {
		return nil, err
	}
	rows := pc.parquetRows(leaves)
	var out bytes.Buffer
	var w c07PendWriter
	if pc.Generic {
		w = parquet.NewGenericWriter[any](&out, append([]parquet.WriterOption{schema}, pc.options(false)...)...)
	} else {
		w = parquet.NewWriter(&out, append([]parquet.WriterOption{schema}, pc.options(false)...)...)
	}
	off := 0
	for k, op := range pc.Ops {
		part := rows[off : off+op.N]
		off += op.N
		var err error
		switch op.Kind {
		case "write":
			err = c07PendWriteBatches(w.WriteRows, part, op.Batch)
		case "flush":
			err = w.Flush()
		case "wrg-buffer":
			buf := parquet.NewBuffer(schema)
			if _, err = buf.WriteRows(part); err == nil {
				_, err = w.WriteRowGroup(buf)
			}
		case "wrg-file", "copyrows":
			var sf *parquet.File
			if sf, err = pc.sourceFile(schema, part); err != nil {
				break
			}
			for _, rg := range sf.RowGroups() {
				if op.Kind == "wrg-file" {
					_, err = w.WriteRowGroup(rg)
				} else {
					rr := rg.Rows()
					_, err = parquet.CopyRows(w, rr)
					rr.Close()
				}
				if err != nil {
					break
				}
			}
		case "rowgroup":
			rg := w.BeginRowGroup()
			if err = c07PendWriteBatches(rg.WriteRows, part, op.Batch); err == nil {
				_, err = rg.Commit()
			}
		}
		if err != nil {
			return nil, fmt.Errorf("op %d (%s): %w", k, op.Kind, err)
		}
	}
	if err := w.Close(); err != nil {
		return nil, fmt.Errorf("close: %w", err)
	}
	return out.Bytes(), nil
}

// provenance of the output row group holding rows [a, b): the kinds of the operations that wrote its
// rows and what made the writer flush it
func (pc *c07PendCase) provenance(a, b int) string {
	var kinds []string
	seen := map[string]bool{}
	off, last := 0, -1
	for k, op := range pc.Ops {
		lo, hi := off, off+op.N
		off = hi
		if op.N > 0 && lo < b && hi > a {
			kind := op.Kind
			if !c07PendFlushes(kind) {
				kind = "rows" // Write and CopyRows both leave rows pending in the writer
			}
			if !seen[kind] {
				seen[kind] = true
				kinds = append(kinds, kind)
			}
			last = k
		}
	}
	if last < 0 {
		return "none"
	}
	end := 0
	for _, op := range pc.Ops[:last+1] {
		end += op.N
	}
	by := "maxrows"
	if b == end {
		switch {
		case c07PendFlushes(pc.Ops[last].Kind):
			by = "self"
		default:
			by = "close"
			for _, op := range pc.Ops[last+1:] {
				if c07PendFlushes(op.Kind) {
					by = op.Kind
					break
				}
			}
		}
	}
	return strings.Join(kinds, "+") + "-flushed-by-" + by
}

func c07RunPending(ctx *core.Ctx, b *c07Batch, pc *c07PendCase) {
	cs := &pc.c07Case
	for i, op := range pc.Ops {
		ctx.Hist("pending.op", op.Kind)
		if i > 0 {
			ctx.Hist("pending.transition", pc.Ops[i-1].Kind+" -> "+op.Kind)
		}
	}
	data, err := pc.write()
	if err != nil {
		ctx.Hist("pending.write-error", c07ErrClass(err))
		ctx.Sample(map[string]any{"write_error": err.Error(), "pending_case": pc})
		return
	}
	var fopts []parquet.FileOption
	switch cs.Opts.OpenMode {
	case "skip":
		fopts = append(fopts, parquet.SkipBloomFilters(true))
	case "prefetch":
		fopts = append(fopts, parquet.PrefetchBloomFilters(true))
	}
	if cs.Opts.Encrypt != "" {
		fopts = append(fopts, parquet.WithDecryption(c07Keys{}))
	}
	f, err := parquet.OpenFile(bytes.NewReader(data), int64(len(data)), fopts...)
	if err != nil {
		ctx.Fail("L1", "written-file-does-not-open-pending", "OpenFile fails on a file the writer produced: "+err.Error(), pc.describe(ctx.Seed))
		return
	}
	leaves, err := cs.columnIndexes(f.Schema())
	if err != nil {
		ctx.Fail("L2", "harness-schema", err.Error(), pc.describe(ctx.Seed))
		return
	}
	total := int64(0)
	for _, rg := range f.RowGroups() {
		total += rg.NumRows()
	}
	if total != int64(cs.N) {
		ctx.Fail("L1", "row-count-differs-pending", fmt.Sprintf("file holds %d rows, %d were written", total, cs.N), pc.describe(ctx.Seed))
		return
	}
	ctx.Hist("pending.rowgroups", c07Bucket(len(f.RowGroups())))
	if cs.Index < 4 {
		ctx.Sample(pc)
	}
	off := 0
	for rgi, rg := range f.RowGroups() {
		n := int(rg.NumRows())
		rgRows := cs.rows[off : off+n]
		prov := pc.provenance(off, off+n)
		off += n
		ctx.Hist("pending.rowgroup-provenance", prov)
		chunks := rg.ColumnChunks()
		for ci, col := range cs.Cols {
			c07PendCheckChunk(ctx, b, pc, f, rgi, ci, leaves[ci], col, chunks[leaves[ci]], rgRows, prov)
		}
	}
}

func c07PendCheckChunk(ctx *core.Ctx, b *c07Batch, pc *c07PendCase, f *parquet.File, rgi, ci, leaf int, col c07Col, cc parquet.ColumnChunk, rgRows [][][]c07Val, prov string) {
	cs := &pc.c07Case
	seen := map[string]bool{}
	var vals []c07Val
	var toks []string
	for _, row := range rgRows {
		for _, v := range row[ci] {
			t := col.token(v)
			if !seen[t] {
				seen[t] = true
				vals = append(vals, v)
				toks = append(toks, t)
			}
		}
	}
	bf := cc.BloomFilter()
	h := sha256.Sum256([]byte(strings.Join(toks, ",")))
	ctx.Case(fmt.Sprintf("pending/%d/rg%d/%s/%s/bits%d/%x", cs.Index, rgi, col.Name, col.modelKind(), col.Bits, h[:8]), len(vals) > 0 && bf != nil)
	ctx.Hist("pending.kind", col.Kind+"/"+col.Enc)
	where := func() map[string]any {
		d := pc.describe(ctx.Seed)
		d["row_group"], d["column"], d["kind"], d["distinct_values"], d["provenance"] = rgi, col.Name, col.modelKind(), len(vals), prov
		return d
	}
	if bf == nil {
		if len(vals) > 0 {
			ctx.Fail("L1", "configured-filter-missing-pending-"+prov, "a column configured with a bloom filter has none in the file although non-null values were written", where())
		}
		return
	}
	pages := 0
	if oi, err := cc.OffsetIndex(); err == nil && oi != nil {
		pages = oi.NumPages()
	}
	if strings.HasPrefix(prov, "rows-") {
		ctx.Hist("pending.pages-of-chunk/"+prov[strings.Index(prov, "-flushed-by-")+1:], c07Bucket(pages))
	}
	size := bf.Size()
	// ---- L1: every value written to this row group is reported present by this row group's filter
	missing, first := 0, -1
	var firstErr error
	for i, v := range vals {
		ok, err := bf.Check(col.value(v))
		if err == nil && ok {
			continue
		}
		missing++
		if first < 0 {
			first, firstErr = i, err
		}
	}
	if first >= 0 {
		d := where()
		d["value"], d["filter_bytes"], d["values_reported_absent"], d["pages_of_chunk"] = toks[first], size, missing, pages
		if firstErr != nil {
			ctx.Fail("L1", "check-error-"+col.phys()+"-pending-"+prov, "BloomFilter.Check returns an error for a written value: "+firstErr.Error(), d)
		} else {
			ctx.Fail("L1", "false-negative-"+col.phys()+"-pending-"+prov,
				fmt.Sprintf("BloomFilter.Check(%s) = false for a %s value written to row group %d column %s (%d of %d distinct values of the chunk reported absent)",
					toks[first], col.Kind, rgi, col.Name, missing, len(vals)), d)
		}
	}
	// ---- L2: stored filter bytes vs the model filter of the same values and size
	if len(vals) == 0 || size == 0 || col.phys() == "boolean" {
		return
	}
	raw := make([]byte, size)
	if _, err := bf.ReadAt(raw, 0); err != nil && err != io.EOF {
		ctx.Fail("L2", "filter-readat-error-pending", "BloomFilter.ReadAt: "+err.Error(), where())
		return
	}
	if cs.Opts.BloomComp == "gzip" && cs.Opts.Encrypt == "" {
		if un, err := c07Gunzip(raw); err == nil {
			raw = un
		}
	}
	if len(raw)%32 != 0 {
		ctx.Fail("L2", "filter-size-not-multiple-of-block-pending", fmt.Sprintf("stored filter is %d bytes", len(raw)), where())
		return
	}
	if strings.HasPrefix(prov, "rows-") {
		// rows left pending by Write/CopyRows are never pre-sized (Lean `pendingFilter`, in-order variant =
		// `flushFilter` with presized = 0): size from the footer's NumValues, bytes by re-reading the pages
		// found in the file (`bloom.flush`)
		asRows := *cs
		asRows.Path = "rows"
		c07StrategyL2(ctx, b, &asRows, f, rgi, ci, leaf, col, cc, raw, where)
	}
	req := fmt.Sprintf("bloom.file %s %d %s", col.modelKind(), len(raw)/32, strings.Join(toks, ","))
	got := "ok " + core.Hex(raw)
	d := where()
	b.add(req, func(resp string) {
		if resp == got {
			return
		}
		d["request"], d["go"], d["lean"] = req, got, resp
		ctx.Fail("L2", "file-filter-bytes-vs-model-"+col.phys()+"-pending-"+prov, "filter bytes in the file differ from the model's filter of the same values and size", d)
	})
}

type c07PendReplay struct {
	Seed   int64  `json:"seed"`
	Tier   string `json:"tier"`
	Detail struct {
		PendingCase *struct {
			Index int `json:"index"`
		} `json:"pending_case"`
	} `json:"detail"`
}

func RunC07Pending(ctx *core.Ctx) {
	ctx.SetRule(c07Rule + "; " + c07PendingRule)
	run := func(b *c07Batch, pc *c07PendCase) bool {
		done := make(chan struct{})
		go func() {
			defer close(done)
			defer func() {
				if p := recover(); p != nil {
					ctx.Fail("L1", "panic-pending", fmt.Sprintf("panic while writing/checking a file through a mixed write history: %v", p), pc.describe(ctx.Seed))
				}
			}()
			c07RunPending(ctx, b, pc)
		}()
		select {
		case <-done:
			return true
		case <-time.After(180 * time.Second):
			ctx.Fail("L1", "hang-pending", "writing/checking did not finish within 180 s", pc.describe(ctx.Seed))
			return false
		}
	}
	if ctx.Replay != "" {
		raw, err := os.ReadFile(ctx.Replay)
		if err != nil {
			return
		}
		var rf c07PendReplay
		if json.Unmarshal(raw, &rf) != nil || rf.Detail.PendingCase == nil {
			return // not a case of this sub-check
		}
		ctx.Seed = rf.Seed
		if rf.Tier != "" {
			ctx.Tier = rf.Tier
		}
		if d := ctx.Driver(); d != nil {
			b := &c07Batch{ctx: ctx, d: d}
			run(b, c07GenPending(ctx, rf.Detail.PendingCase.Index))
			b.flush()
		}
		return
	}
	total := ctx.Scale(4000, 30000)
	workers := 14
	jobs := make(chan int, total)
	for i := 0; i < total; i++ {
		jobs <- i
	}
	close(jobs)
	var wg sync.WaitGroup
	for wi := 0; wi < workers; wi++ {
		wg.Add(1)
		go func() {
			defer wg.Done()
			d := ctx.Driver()
			if d == nil {
				return
			}
			b := &c07Batch{ctx: ctx, d: d}
			for i := range jobs {
				if !run(b, c07GenPending(ctx, i)) {
					return
				}
			}
			b.flush()
		}()
	}
	wg.Wait()
}
