package props

import (
	"bytes"
	"crypto/sha256"
	"encoding/binary"
	"fmt"
	"io"
	"math/rand"
	"runtime"
	"sort"
	"strings"
	"sync"

	"github.com/parquet-go/parquet-go"

	"verifharness/core"
	"verifharness/gen"
)

func init() { RegisterSub("C18", "tamper", RunC18Tamper) }

// Rows with fixed-size values: modules of the same kind get the same length, so that they can be
// exchanged without disturbing the layout.
type c18TRow struct {
	A int64  `parquet:"a,plain"`
	B string `parquet:"b,dict"`
	C int64  `parquet:"c,plain"`
	D string `parquet:"d,plain"`
}

func c18TRows(r *rand.Rand, n int) []c18TRow {
	dict := []string{"alpha-00", "bravo-11", "charl-22", "delta-33"}
	rows := make([]c18TRow, n)
	for i := range rows {
		rows[i] = c18TRow{A: c18MarkerInt(r), B: dict[r.Intn(4)], C: c18MarkerInt(r), D: c18MarkerString(r)[:12]}
	}
	return rows
}

type c18TCfg struct {
	EncFooter bool
	PerColumn bool
	Version   int
	Prefix    bool
}

func (c c18TCfg) String() string {
	return fmt.Sprintf("encfooter=%v percolumnkeys=%v v%d prefix=%v", c.EncFooter, c.PerColumn, c.Version, c.Prefix)
}

func c18TWrite(rows []c18TRow, enc *c18Enc, version int) ([]byte, error) {
	var buf bytes.Buffer
	w := parquet.NewGenericWriter[c18TRow](&buf, parquet.WithEncryption(enc.Config()), parquet.DataPageVersion(version),
		parquet.MaxRowsPerRowGroup(8), parquet.PageBufferSize(32), parquet.DataPageStatistics(true),
		parquet.BloomFilters(parquet.SplitBlockFilter(10, "c")))
	// two rows per call: the page buffer is checked after every call, which gives several pages of
	// equal size per column chunk
	for i := 0; i < len(rows); i += 2 {
		if _, err := w.Write(rows[i:min(i+2, len(rows))]); err != nil {
			return nil, err
		}
	}
	err := w.Close()
	return buf.Bytes(), err
}

// ---------------------------------------------------------------- probes

type c18Outcome struct {
	Name string
	Out  string // "err:<kind>" | "ok:<digest>" | "panic:..."
}

func c18Digest(parts ...string) string {
	h := sha256.New()
	for _, p := range parts {
		io.WriteString(h, p)
		h.Write([]byte{0})
	}
	return fmt.Sprintf("ok:%x", h.Sum(nil)[:8])
}

func c18Guard(name string, out *[]c18Outcome, f func() (string, error)) {
	defer func() {
		if p := recover(); p != nil {
			*out = append(*out, c18Outcome{name, fmt.Sprintf("panic:%v", p)})
		}
	}()
	s, err := f()
	if err != nil {
		*out = append(*out, c18Outcome{name, "err:" + c18ErrKind(err)})
		return
	}
	*out = append(*out, c18Outcome{name, s})
}

// c18Probe reads everything a reader can ask of the file, each access on its own, and returns the
// list of outcomes. nrg/ncol fix the probe list so that outcomes of different files line up.
func c18Probe(file []byte, keys parquet.KeyRetriever, nrg, ncol int, bloomVals map[[2]int]parquet.Value) []c18Outcome {
	var out []c18Outcome
	var f *parquet.File
	c18Guard("open", &out, func() (string, error) {
		var err error
		f, err = parquet.OpenFile(bytes.NewReader(file), int64(len(file)), parquet.WithDecryption(keys))
		if err != nil {
			return "", err
		}
		return fmt.Sprintf("ok:rows=%d,rgs=%d", f.NumRows(), len(f.RowGroups())), nil
	})
	openFailed := f == nil
	probe := func(name string, fn func() (string, error)) {
		if openFailed {
			out = append(out, c18Outcome{name, "err:open"})
			return
		}
		c18Guard(name, &out, fn)
	}
	for gi := 0; gi < nrg; gi++ {
		gi := gi
		rgOK := !openFailed && gi < len(f.RowGroups())
		for ci := 0; ci < ncol; ci++ {
			ci := ci
			chunk := func() (parquet.ColumnChunk, error) {
				if !rgOK || ci >= len(f.RowGroups()[gi].ColumnChunks()) {
					return nil, fmt.Errorf("row group or column missing")
				}
				return f.RowGroups()[gi].ColumnChunks()[ci], nil
			}
			probe(fmt.Sprintf("pages rg%d col%d", gi, ci), func() (string, error) {
				cc, err := chunk()
				if err != nil {
					return "", err
				}
				vals, err := c18ChunkValues(cc)
				if err != nil {
					return "", err
				}
				return c18Digest(vals...), nil
			})
			probe(fmt.Sprintf("index rg%d col%d", gi, ci), func() (string, error) {
				cc, err := chunk()
				if err != nil {
					return "", err
				}
				return c18IndexDigest(cc)
			})
			if v, ok := bloomVals[[2]int{gi, ci}]; ok {
				probe(fmt.Sprintf("bloom rg%d col%d", gi, ci), func() (string, error) {
					cc, err := chunk()
					if err != nil {
						return "", err
					}
					bf := cc.BloomFilter()
					if bf == nil {
						return "ok:nil", nil
					}
					ok, err := bf.Check(v)
					if err != nil {
						return "", err
					}
					return fmt.Sprintf("ok:check=%v,size=%d", ok, bf.Size()), nil
				})
			}
		}
		readRows := func(seek int64) (string, error) {
			if !rgOK {
				return "", fmt.Errorf("row group missing")
			}
			rows := f.RowGroups()[gi].Rows()
			defer rows.Close()
			if seek >= 0 {
				if err := rows.SeekToRow(seek); err != nil {
					return "", err
				}
			}
			var parts []string
			buf := make([]parquet.Row, 5)
			for {
				n, err := rows.ReadRows(buf)
				for _, row := range buf[:n] {
					for _, v := range row {
						parts = append(parts, fmt.Sprint(v.Column(), gen.TripleOf(v)))
					}
				}
				if err == io.EOF {
					return c18Digest(parts...), nil
				}
				if err != nil {
					return "", err
				}
				if n == 0 {
					return "", fmt.Errorf("ReadRows returned 0 rows and no error")
				}
			}
		}
		probe(fmt.Sprintf("rows rg%d", gi), func() (string, error) { return readRows(-1) })
		probe(fmt.Sprintf("seek rg%d", gi), func() (string, error) { return readRows(5) })
	}
	// a second handle that skips the page index at open: the indexes are then opened lazily, one
	// chunk at a time (file.go:946-1023), and a damaged index must only fail its own chunk's lookup
	var lf *parquet.File
	c18Guard("lazyopen", &out, func() (string, error) {
		var err error
		lf, err = parquet.OpenFile(bytes.NewReader(file), int64(len(file)), parquet.WithDecryption(keys), parquet.SkipPageIndex(true))
		if err != nil {
			return "", err
		}
		return "ok:open", nil
	})
	for gi := 0; gi < nrg; gi++ {
		for ci := 0; ci < ncol; ci++ {
			name := fmt.Sprintf("lazyindex rg%d col%d", gi, ci)
			if lf == nil {
				out = append(out, c18Outcome{name, "err:open"})
				continue
			}
			gi, ci := gi, ci
			c18Guard(name, &out, func() (string, error) {
				if gi >= len(lf.RowGroups()) || ci >= len(lf.RowGroups()[gi].ColumnChunks()) {
					return "", fmt.Errorf("row group or column missing")
				}
				return c18IndexDigest(lf.RowGroups()[gi].ColumnChunks()[ci])
			})
		}
	}
	return out
}

// c18IndexDigest reads the column index and the offset index of a chunk.
func c18IndexDigest(cc parquet.ColumnChunk) (string, error) {
	ix, err := cc.ColumnIndex()
	if err != nil {
		return "", err
	}
	ox, err := cc.OffsetIndex()
	if err != nil {
		return "", err
	}
	var parts []string
	if ix != nil {
		for p := 0; p < ix.NumPages(); p++ {
			parts = append(parts, gen.ValueKey(ix.MinValue(p)), gen.ValueKey(ix.MaxValue(p)), fmt.Sprint(ix.NullCount(p), ix.NullPage(p)))
		}
	}
	if ox != nil {
		for p := 0; p < ox.NumPages(); p++ {
			parts = append(parts, fmt.Sprint(ox.Offset(p), ox.CompressedPageSize(p), ox.FirstRowIndex(p)))
		}
	}
	return c18Digest(parts...), nil
}

// ---------------------------------------------------------------- faults

type c18Fault struct {
	Kind    string   // flip | truncate | swap | crossfile | plain-region
	Desc    string   // replayable description
	Key     string   // what the failure key says about the fault
	Mods    []c18Mod // modules the fault touches (empty: outside every module)
	Apply   func(data []byte) []byte
	Keys    parquet.KeyRetriever // nil: the right keys
	AllFail bool                 // every probe must fail (wrong footer key, damaged footer)
	Big     bool                 // the reader will allocate what a damaged length prefix says
}

func c18Part(m c18Mod, pos int) string {
	switch {
	case pos < 4:
		return "length"
	case pos < 16:
		return "nonce"
	case pos >= m.Len-16:
		return "tag"
	default:
		return "ciphertext"
	}
}

// mustFail: the probes that read module m (by name prefix); "*" = all
func c18Touches(m c18Mod) []string {
	switch m.Kind {
	case "envelope":
		return nil // kind unknown (blind layout)
	case "footer", "columnMeta":
		return []string{"*", "lazy*"} // read (and opened) by OpenFile
	case "columnIndex", "offsetIndex":
		// opened by OpenFile unless the page index is skipped, then by the chunk's lazy lookup
		return []string{"*", fmt.Sprintf("lazyindex rg%d col%d", m.RG, m.Col)}
	case "bloomHeader", "bloomBits":
		return []string{fmt.Sprintf("bloom rg%d col%d", m.RG, m.Col)}
	default:
		return []string{fmt.Sprintf("pages rg%d col%d", m.RG, m.Col), fmt.Sprintf("rows rg%d", m.RG)}
	}
}

func c18Scope(a, b c18Mod) string {
	switch {
	case a.RG != b.RG && a.Col != b.Col:
		return "other-rowgroup-and-column"
	case a.RG != b.RG:
		return "other-rowgroup"
	case a.Col != b.Col:
		return "other-column"
	default:
		return "other-page"
	}
}

func c18Faults(ctx *core.Ctx, r *rand.Rand, data, other []byte, lay, olay *c18Layout, enc *c18Enc) []c18Fault {
	var fs []c18Fault
	thorough := ctx.Thorough()
	flipAt := func(off int, mask byte) func([]byte) []byte {
		return func(d []byte) []byte { d[off] ^= mask; return d }
	}
	// 1. byte flips inside every module
	seenKind := map[string]bool{}
	for _, m := range lay.Mods {
		first := !seenKind[m.Kind]
		seenKind[m.Kind] = true
		var positions []int
		if thorough {
			for p := 0; p < m.Len; p++ {
				positions = append(positions, p)
			}
		} else {
			positions = []int{0, 1, 2, 3, 4, 4 + r.Intn(12), 16, 16 + r.Intn(m.Len-32+1), m.Len - 17, m.Len - 16, m.Len - 16 + r.Intn(16), m.Len - 1}
		}
		for _, p := range positions {
			if p < 4 || p >= m.Len {
				if p < 0 || p >= m.Len {
					continue
				}
			}
			mask := byte(1) << uint(r.Intn(8))
			if p == 2 || p == 3 {
				// the high bytes of the length prefix: the reader allocates what the prefix says before it
				// reads (file.go:1488), up to 4 GiB; keep it at 64 KiB / 16 MiB, and in the quick tier do it
				// for one module of each kind only (the allocations serialise the whole process)
				mask = 1
				if !thorough && !first {
					continue
				}
			}
			m := m
			fs = append(fs, c18Fault{Kind: "flip", Key: "kind=" + m.Kind + " part=" + c18Part(m, p), Mods: []c18Mod{m}, Big: p == 2 || p == 3,
				Desc: fmt.Sprintf("xor byte %d (file offset %d) of %v with 0x%02x", p, m.Off+p, m, mask), Apply: flipAt(m.Off+p, mask)})
		}
	}
	// 2. bytes outside the modules: magic, crypto metadata / plaintext footer, signature, footer length
	var outside []int
	n := len(data)
	for i := 0; i < 4; i++ {
		outside = append(outside, i)
	}
	inMod := func(off int) bool {
		for _, m := range lay.Mods {
			if (m.Inline || m.Kind == "footer") && off >= m.Off && off < m.Off+m.Len {
				return true
			}
		}
		return false
	}
	for i := lay.FooterStart; i < n; i++ {
		if !inMod(i) {
			outside = append(outside, i)
		}
	}
	if !thorough {
		r.Shuffle(len(outside), func(i, j int) { outside[i], outside[j] = outside[j], outside[i] })
		keep := outside[:min(len(outside), 60)]
		// always: a byte of the stored AAD prefix and of the file identifier, the signature, the footer length
		for _, pat := range [][]byte{lay.Prefix, lay.FU} {
			if len(pat) > 0 {
				if at := bytes.Index(data[lay.FooterStart:], pat); at >= 0 {
					keep = append(keep, lay.FooterStart+at+r.Intn(len(pat)))
				}
			}
		}
		if lay.SigOff > 0 {
			keep = append(keep, lay.SigOff, lay.SigOff+12, lay.SigOff+27)
		}
		keep = append(keep, n-8, n-5, n-1)
		outside = keep
	}
	for _, off := range outside {
		region := "footer-region"
		switch {
		case off < 4:
			region = "magic"
		case off >= n-8:
			region = "tail"
		case lay.SigOff > 0 && off >= lay.SigOff:
			region = "footer-signature"
		}
		mask := byte(1) << uint(r.Intn(8))
		if off >= n-6 && off < n-4 {
			mask = 1 // high bytes of the footer length: OpenFile allocates the footer before reading it
		}
		fs = append(fs, c18Fault{Kind: "plain-region", Key: "region=" + region, Desc: fmt.Sprintf("xor file offset %d (%s) with 0x%02x", off, region, mask), Apply: flipAt(off, mask)})
	}
	// 2b. wrong AAD prefix / file identifier: the reader takes both from the file (there is no
	// reader-supplied prefix in this API), so the fault is a changed byte of the stored value
	for name, pat := range map[string][]byte{"aad-prefix": lay.Prefix, "file-identifier": lay.FU} {
		if len(pat) == 0 {
			continue
		}
		at := bytes.Index(data[lay.FooterStart:], pat)
		if at < 0 {
			continue
		}
		for k := 0; k < len(pat); k++ {
			if !thorough && k != 0 && k != len(pat)-1 {
				continue
			}
			fs = append(fs, c18Fault{Kind: "wrong-aad", Key: "field=" + name, Desc: fmt.Sprintf("xor byte %d of the stored %s (file offset %d) with 0x01", k, name, lay.FooterStart+at+k),
				Apply: flipAt(lay.FooterStart+at+k, 1), AllFail: true})
		}
	}
	// 2c. plaintext footer: the signature removed and the footer length adjusted
	if lay.SigOff > 0 {
		fs = append(fs, c18Fault{Kind: "strip-signature", Key: "region=footer-signature", Desc: "remove the 28-byte footer signature and shorten the footer length by 28", AllFail: true,
			Apply: func(d []byte) []byte {
				out := append([]byte{}, d[:lay.SigOff]...)
				var l [4]byte
				binary.LittleEndian.PutUint32(l[:], uint32(lay.SigOff-lay.FooterStart))
				out = append(out, l[:]...)
				return append(out, d[len(d)-4:]...)
			}})
	}
	// 3. truncated modules: a shorter length prefix
	for _, m := range lay.Mods {
		l := m.Len - 4
		for _, nl := range []int{l - 1, l - 16, 28, 27, 0} {
			if nl < 0 || nl == l {
				continue
			}
			m, nl := m, nl
			fs = append(fs, c18Fault{Kind: "truncate", Key: "kind=" + m.Kind, Mods: []c18Mod{m}, Desc: fmt.Sprintf("length prefix of %v set to %d", m, nl),
				Apply: func(d []byte) []byte { binary.LittleEndian.PutUint32(d[m.Off:], uint32(nl)); return d }})
		}
	}
	// 4. swaps of two modules of the same length (same kind; and a sample of different kinds)
	var pairs [][2]int
	for i := range lay.Mods {
		for j := i + 1; j < len(lay.Mods); j++ {
			a, b := lay.Mods[i], lay.Mods[j]
			if a.Len != b.Len || a.Kind == "footer" {
				continue
			}
			if a.Kind == b.Kind || r.Intn(4) == 0 {
				pairs = append(pairs, [2]int{i, j})
			}
		}
	}
	if !thorough && len(pairs) > 500 {
		// keep every scope represented
		r.Shuffle(len(pairs), func(i, j int) { pairs[i], pairs[j] = pairs[j], pairs[i] })
		sort.SliceStable(pairs, func(i, j int) bool {
			return c18Scope(lay.Mods[pairs[i][0]], lay.Mods[pairs[i][1]]) < c18Scope(lay.Mods[pairs[j][0]], lay.Mods[pairs[j][1]])
		})
		var keep [][2]int
		for i, p := range pairs {
			if i%(len(pairs)/500+1) == 0 {
				keep = append(keep, p)
			}
		}
		pairs = keep
	}
	for _, p := range pairs {
		a, b := lay.Mods[p[0]], lay.Mods[p[1]]
		kinds := a.Kind
		if a.Kind != b.Kind {
			kinds = a.Kind + "/" + b.Kind
		}
		fs = append(fs, c18Fault{Kind: "swap", Key: "kind=" + kinds + " scope=" + c18Scope(a, b), Mods: []c18Mod{a, b}, Desc: fmt.Sprintf("swap %v and %v", a, b),
			Apply: func(d []byte) []byte {
				tmp := append([]byte{}, d[a.Off:a.Off+a.Len]...)
				copy(d[a.Off:a.Off+a.Len], d[b.Off:b.Off+b.Len])
				copy(d[b.Off:b.Off+b.Len], tmp)
				return d
			}})
	}
	// 5. the module of the same slot (and of other slots) taken from another file written with the same keys
	if olay != nil {
		for _, a := range lay.Mods {
			for _, b := range olay.Mods {
				if a.Kind != b.Kind || a.Len != b.Len || a.Kind == "footer" {
					continue
				}
				same := a.RG == b.RG && a.Col == b.Col && a.Page == b.Page
				if !same && (!thorough && r.Intn(20) != 0) {
					continue
				}
				a, b := a, b
				scope := "same-slot-other-file"
				if !same {
					scope = "other-slot-other-file"
				}
				fs = append(fs, c18Fault{Kind: "crossfile", Key: "kind=" + a.Kind + " scope=" + scope, Mods: []c18Mod{a},
					Desc:  fmt.Sprintf("replace %v by %v of a second file written with the same keys and configuration", a, b),
					Apply: func(d []byte) []byte { copy(d[a.Off:a.Off+a.Len], other[b.Off:b.Off+b.Len]); return d }})
			}
		}
	}
	// 6. wrong keys
	wrong := &c18Keys{footer: c18RandKey(r), cols: enc.ColKeys}
	for len(wrong.footer) != len(enc.FooterKey) {
		wrong.footer = c18RandKey(r)
	}
	fs = append(fs, c18Fault{Kind: "wrong-key", Key: "key=footer", Desc: "read with a different footer key", Apply: func(d []byte) []byte { return d }, Keys: wrong, AllFail: true})
	for path := range enc.ColKeys {
		k2 := &c18Keys{footer: enc.FooterKey, cols: map[string][]byte{}}
		for p, k := range enc.ColKeys {
			k2.cols[p] = k
		}
		nk := c18RandKey(r)
		for len(nk) != len(enc.ColKeys[path]) {
			nk = c18RandKey(r)
		}
		k2.cols[path] = nk
		var mods []c18Mod
		for _, m := range lay.Mods {
			if m.Kind != "footer" && bytes.Equal(m.Key, enc.ColKeys[path]) {
				mods = append(mods, m)
			}
		}
		fs = append(fs, c18Fault{Kind: "wrong-key", Key: "key=column", Desc: "read with a different key for column " + path, Apply: func(d []byte) []byte { return d }, Keys: k2, Mods: mods})
	}
	return fs
}

// c18BlindLayout finds the envelopes of the data region without keys: between the magic and the
// footer the file is a chain of length-prefixed modules.
func c18BlindLayout(data []byte) *c18Layout {
	n := len(data)
	lay := &c18Layout{FooterStart: n - 8 - int(binary.LittleEndian.Uint32(data[n-8:]))}
	lay.EncFooter = string(data[:4]) == "PARE"
	at := 4
	for at+4 <= lay.FooterStart {
		l := int(binary.LittleEndian.Uint32(data[at:]))
		if l < 28 || at+4+l > lay.FooterStart {
			break
		}
		lay.Mods = append(lay.Mods, c18Mod{Kind: "envelope", RG: -1, Col: -1, Page: len(lay.Mods), Off: at, Len: 4 + l})
		at += 4 + l
	}
	return lay
}

// ---------------------------------------------------------------- the check

func RunC18Tamper(ctx *core.Ctx) {
	ctx.SetRule(c18Rule)
	var cfgs []c18TCfg
	for _, ef := range []bool{true, false} {
		for _, pc := range []bool{false, true} {
			for _, v := range []int{1, 2} {
				cfgs = append(cfgs, c18TCfg{EncFooter: ef, PerColumn: pc, Version: v, Prefix: (v == 2) != pc})
			}
		}
	}
	big := make(chan struct{}, 2) // faults that make the reader allocate what a length prefix says
	var cwg sync.WaitGroup
	for ci, cfg := range cfgs {
		cwg.Add(1)
		go c18TamperConfig(ctx, ci, cfg, big, &cwg)
	}
	cwg.Wait()
}

func c18TamperConfig(ctx *core.Ctx, ci int, cfg c18TCfg, big chan struct{}, cwg *sync.WaitGroup) {
	defer cwg.Done()
	for once := true; once; once = false {
		r := ctx.Rand(fmt.Sprintf("c18/tamper/%d", ci))
		enc := &c18Enc{EncFooter: cfg.EncFooter, FooterKey: c18RandKey(r), KeyMode: "footer-only"}
		if cfg.PerColumn {
			enc.KeyMode = "some-columns"
			enc.ColKeys = map[string][]byte{"c": c18RandKey(r), "d": c18RandKey(r)}
		}
		if cfg.Prefix {
			enc.Prefix = []byte("tenant-7/")
		}
		nrows := 24
		rows, rows2 := c18TRows(r, nrows), c18TRows(r, nrows)
		detail0 := map[string]any{"config": cfg.String(), "encryption": enc.Desc(), "rand_stream": fmt.Sprintf("c18/tamper/%d", ci),
			"file": "24 rows of c18TRow (harness/props/c18_tamper.go) written 2 rows per Write call, MaxRowsPerRowGroup(8), PageBufferSize(32), page statistics, bloom filter on c"}
		data, err := c18TWrite(rows, enc, cfg.Version)
		other, err2 := c18TWrite(rows2, enc, cfg.Version)
		if err != nil || err2 != nil {
			ctx.Fail("L1", "write-error path=tamper-files", fmt.Sprintf("writing the files to tamper with failed: %v %v", err, err2), detail0)
			continue
		}
		lay, lerr := c18Parse(data, enc.Keys(), c18AAD)
		olay, lerr2 := c18Parse(other, enc.Keys(), c18AAD)
		blind := false
		if lerr != nil || lerr2 != nil {
			// The walker follows the model's AAD layout. If the library still reads its own file, the code
			// has moved away from the model (L2); the search for a failing input goes on without module
			// kinds: the data region is a chain of length-prefixed envelopes whatever they contain.
			probe := c18Probe(data, enc.Keys(), 3, 4, nil)
			libOK := true
			for _, o := range probe {
				libOK = libOK && strings.HasPrefix(o.Out, "ok:")
			}
			if !libOK {
				ctx.Fail("L1", "unreadable-file path=tamper-files", fmt.Sprintf("a freshly written file can be read neither by the walker (%v %v) nor by the library", lerr, lerr2), detail0)
				continue
			}
			ctx.Fail("L2", "walker-disagrees-with-writer", fmt.Sprintf("the library reads its file but the modules do not open under the model's AAD layout: %v %v", lerr, lerr2), detail0)
			lay, olay, blind = c18BlindLayout(data), nil, true
		}
		nrg, ncol := 3, 4
		if !blind {
			nrg = len(lay.Meta.RowGroups)
		}
		bloomVals := map[[2]int]parquet.Value{}
		for gi := 0; gi < nrg; gi++ {
			bloomVals[[2]int{gi, 2}] = parquet.Int64Value(rows[gi*8].C)
		}
		base := c18Probe(data, enc.Keys(), nrg, ncol, bloomVals)
		obase := c18Probe(other, enc.Keys(), nrg, ncol, bloomVals)
		for _, o := range base {
			if !strings.HasPrefix(o.Out, "ok:") || o.Out == "ok:nil" || strings.Contains(o.Out, "check=false") {
				ctx.Fail("L1", "baseline-probe-fails probe="+strings.Fields(o.Name)[0], "a probe of the untouched file does not succeed: "+o.Name+" -> "+o.Out, detail0)
			}
		}
		otherOut := map[string]bool{}
		for _, o := range obase {
			otherOut[o.Out] = true
		}
		faults := c18Faults(ctx, r, data, other, lay, olay, enc)
		ctx.HistN("modules", cfg.String(), int64(len(lay.Mods)))
		var wg sync.WaitGroup
		sem := make(chan struct{}, 4)
		for fi := range faults {
			wg.Add(1)
			sem <- struct{}{}
			go func(ft c18Fault) {
				defer wg.Done()
				defer func() { <-sem }()
				if ft.Big {
					big <- struct{}{}
					defer func() { <-big }()
				}
				keys := ft.Keys
				if keys == nil {
					keys = enc.Keys()
				}
				mutated := ft.Apply(append([]byte{}, data...))
				var m0 runtime.MemStats
				if ft.Big {
					runtime.ReadMemStats(&m0)
				}
				got := c18Probe(mutated, keys, nrg, ncol, bloomVals)
				if ft.Big {
					var m1 runtime.MemStats
					runtime.ReadMemStats(&m1)
					if d := m1.TotalAlloc - m0.TotalAlloc; d >= 8<<20 {
						ctx.Observe("length-prefix-drives-allocation", "readDecryptedEnvelopeFrom allocates 4+moduleLen bytes from the 4-byte length prefix before it reads or authenticates anything (file.go:1488): one flipped bit of the top prefix byte costs 16 MiB here, up to 4 GiB for other bits; the read then fails with an error",
							map[string]any{"fault": ft.Desc, "bytes_allocated_during_probe": d, "config": cfg.String()})
					}
				}
				ctx.Case("tamper|"+cfg.String()+"|"+ft.Desc, true)
				ctx.Hist("fault", ft.Kind)
				if ft.Kind == "swap" || ft.Kind == "crossfile" {
					ctx.Hist("transplant", ft.Key)
				}
				must := map[string]bool{}
				for _, m := range ft.Mods {
					for _, t := range c18Touches(m) {
						must[t] = true
					}
				}
				d := func(o c18Outcome, baseOut string) map[string]any {
					m := map[string]any{"fault": ft.Desc, "probe": o.Name, "outcome": o.Out, "untouched_outcome": baseOut}
					for k, v := range detail0 {
						m[k] = v
					}
					return m
				}
				nerr := 0
				for i, o := range got {
					b := base[i]
					switch {
					case strings.HasPrefix(o.Out, "panic:"):
						ctx.Fail("L1", "panic fault="+ft.Kind+" "+ft.Key+" probe="+strings.Fields(o.Name)[0], "reading a tampered file panics: "+o.Out, d(o, b.Out))
					case strings.HasPrefix(o.Out, "err:"):
						nerr++
					case o.Out != b.Out:
						key := "altered-data-returned"
						if (ft.Kind == "swap" || ft.Kind == "crossfile") && (otherOut[o.Out] || true) {
							key = "transplanted-module-accepted"
						}
						ctx.Fail("L1", key+" fault="+ft.Kind+" "+ft.Key+" probe="+strings.Fields(o.Name)[0],
							"a read of the tampered file returns, without error, something else than the untouched file: "+o.Name, d(o, b.Out))
					case ft.Kind == "strip-signature" && (o.Name == "open" || o.Name == "lazyopen"):
						// Opening an unsigned footer is not refused (file.go:178: "Plain, unsigned footer —
						// nothing to do"); what matters here is that no read returns data afterwards.
						ctx.Hist("signature_stripped", o.Name+" succeeds")
						ctx.Observe("unsigned-footer-accepted", "OpenFile with WithDecryption accepts a plaintext-footer file whose 28-byte signature was removed (file.go: \"Plain, unsigned footer — nothing to do\"); no read returns data afterwards, but a reader holding keys does not insist on a signed or encrypted footer (parquet-java refuses plaintext files by default when decryption is configured)",
							map[string]any{"fault": ft.Desc, "probe": o.Name, "config": cfg.String()})
					case ft.AllFail || (must["*"] && !strings.HasPrefix(o.Name, "lazy")) || (must["lazy*"] && strings.HasPrefix(o.Name, "lazy")) || must[o.Name]:
						key := "tampered-module-accepted"
						if ft.Kind == "swap" || ft.Kind == "crossfile" {
							key = "transplanted-module-accepted"
						} else if ft.Kind == "wrong-key" {
							key = "wrong-key-accepted"
						}
						ctx.Fail("L1", key+" fault="+ft.Kind+" "+ft.Key+" probe="+strings.Fields(o.Name)[0],
							"a read that goes through the damaged module succeeds as if nothing had happened: "+o.Name, d(o, b.Out))
					}
				}
				if blind && nerr == 0 && (ft.Kind == "swap" || ft.Kind == "flip" || ft.Kind == "truncate") {
					ctx.Fail("L1", "tampered-module-accepted fault="+ft.Kind+" blind", "no read of the tampered file fails", map[string]any{"fault": ft.Desc, "config": cfg.String(), "encryption": enc.Desc(), "rand_stream": detail0["rand_stream"], "file": detail0["file"]})
				}
				if nerr == len(got) {
					ctx.Hist("fault_effect", "every-read-fails")
				} else if nerr == 0 {
					ctx.Hist("fault_effect", "no-read-fails")
					ctx.Hist("unnoticed_fault", ft.Kind+" "+ft.Key)
					ctx.Sample(map[string]any{"unnoticed_fault": ft.Desc, "config": cfg.String()})
				} else {
					ctx.Hist("fault_effect", "affected-reads-fail")
				}
			}(faults[fi])
		}
		wg.Wait()
	}
}
