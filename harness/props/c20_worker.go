package props

// C20 worker: executes codec histories on the REAL codecs inside an isolated subprocess
// (`pqcheck -worker c20 <scenarios.json> <memMB>`), address-space limited, one JSON line of
// progress per op so that the parent can attribute a crash / OOM / hang to one op.

import (
	"bufio"
	"bytes"
	stdgzip "compress/gzip"
	"encoding/hex"
	"encoding/json"
	"fmt"
	"io"
	"math/rand"
	"os"
	"runtime"
	"runtime/debug"
	"strconv"
	"strings"
	"sync"
	"syscall"

	"github.com/parquet-go/parquet-go"
	"github.com/parquet-go/parquet-go/compress"
	"github.com/parquet-go/parquet-go/compress/brotli"
	"github.com/parquet-go/parquet-go/compress/gzip"
	"github.com/parquet-go/parquet-go/compress/lz4"
	"github.com/parquet-go/parquet-go/compress/snappy"
	"github.com/parquet-go/parquet-go/compress/uncompressed"
	"github.com/parquet-go/parquet-go/compress/zstd"
	"github.com/parquet-go/parquet-go/format"
)

func init() { workers["c20"] = c20Worker }

// c20Input describes a byte string by generator, so that scenarios stay small and replayable.
type c20Input struct {
	Kind string `json:"kind"` // rand | zero | text | alpha4 | runs
	Len  int    `json:"len"`
	Seed int64  `json:"seed"`
}

func (in c20Input) String() string { return fmt.Sprintf("%s/%d/%d", in.Kind, in.Len, in.Seed) }

func (in c20Input) Bytes() []byte {
	b := make([]byte, in.Len)
	r := rand.New(rand.NewSource(in.Seed))
	switch in.Kind {
	case "rand":
		r.Read(b)
	case "zero":
	case "text":
		words := []string{"parquet ", "column ", "page ", "row group ", "dictionary ", "the ", "0123456789 ", "\n"}
		for i := 0; i < len(b); {
			i += copy(b[i:], words[r.Intn(len(words))])
		}
	case "alpha4":
		for i := range b {
			b[i] = "ACGT"[r.Intn(4)]
		}
	case "runs":
		for i := 0; i < len(b); {
			v, n := byte(r.Intn(256)), 1+r.Intn(300)
			for ; n > 0 && i < len(b); n-- {
				b[i] = v
				i++
			}
		}
	default:
		panic("unknown input kind " + in.Kind)
	}
	return b
}

type c20Corrupt struct {
	Kind string `json:"kind"` // truncate | trailing | flip | garbage | empty
	Pos  int64  `json:"pos"`
	N    int    `json:"n"`
	Seed int64  `json:"seed"`
}

func (c c20Corrupt) apply(enc []byte) []byte {
	r := rand.New(rand.NewSource(c.Seed))
	out := append([]byte{}, enc...)
	switch c.Kind {
	case "truncate":
		if len(out) > 0 {
			out = out[:int(c.Pos%int64(len(out)))]
		}
	case "trailing":
		t := make([]byte, c.N)
		r.Read(t)
		out = append(out, t...)
	case "flip":
		if len(out) > 0 {
			out[int(c.Pos%int64(len(out)))] ^= 1 << uint(c.N%8)
		}
	case "garbage":
		out = make([]byte, c.N)
		r.Read(out)
	case "empty":
		out = []byte{}
	}
	return out
}

type c20Op struct {
	// rt: Decode(Encode(x)) == x | bad: decode a corrupted encoding of x |
	// ext: Decode(src) == x for a stream `Src` made by the Lean reference encoder
	K    string     `json:"k"`
	Src  string     `json:"src,omitempty"`
	In   c20Input   `json:"in"`
	EDst string     `json:"edst"`
	DDst string     `json:"ddst"`
	Bad  c20Corrupt `json:"bad,omitempty"`
}

type c20Scenario struct {
	ID    int     `json:"id"`
	Codec string  `json:"codec"` // snappy gzip brotli zstd lz4 uncompressed
	Level int     `json:"level"` // codec specific option index
	Ops   []c20Op `json:"ops"`
	// Conc > 0: the ops are dealt round-robin to Conc goroutines that share the codec value and
	// start together
	Conc int `json:"conc,omitempty"`
	// TimeoutMs: no progress for this long = hang (0: the tier's default)
	TimeoutMs int `json:"timeout_ms,omitempty"`
}

type c20Finding struct {
	Op   int    `json:"op"`
	Kind string `json:"kind"` // panic | rt-error | rt-mismatch | cross-mismatch | earlier-output-modified | result-aliases-src | lz4-cap
	Msg  string `json:"msg"`
}

type c20OpResult struct {
	Status string `json:"s"` // ok | err | panic | ok-same | ok-diff
	Err    string `json:"e,omitempty"`
	EncLen int    `json:"el,omitempty"`
	// snappy / lz4 / gzip: the encoder's output (hex), for the Lean spec decoders
	Enc string `json:"x,omitempty"`
	// lz4 grow loop (L2): cap of the dst handed to Decode, cap of the slice it returned
	DstCap int `json:"dc,omitempty"`
	OutCap int `json:"oc,omitempty"`
	// lz4 Encode (L2): cap of the dst handed to Encode, cap of the slice it returned (+1, so
	// that 0 means "not recorded")
	EncDstCap int `json:"edc,omitempty"`
	EncOutCap int `json:"eoc,omitempty"`
}

type c20Line struct {
	ID       int           `json:"id"`
	Op       int           `json:"op"`             // progress: about to run op
	Done     bool          `json:"done,omitempty"` // scenario finished
	Findings []c20Finding  `json:"findings,omitempty"`
	Results  []c20OpResult `json:"results,omitempty"`
}

func c20NewCodec(name string, level int) compress.Codec {
	switch name {
	case "snappy":
		if level%2 == 1 {
			return &parquet.Snappy
		}
		return &snappy.Codec{}
	case "uncompressed":
		if level%2 == 1 {
			return parquet.LookupCompressionCodec(format.Uncompressed)
		}
		return &uncompressed.Codec{}
	case "gzip":
		if level >= 1000 {
			return &gzip.Codec{Level: 10} // configuration probe: not a gzip level
		}
		lv := []int{gzip.DefaultCompression, gzip.BestSpeed, gzip.BestCompression, gzip.NoCompression, gzip.HuffmanOnly, 5}
		return &gzip.Codec{Level: lv[level%len(lv)]}
	case "brotli":
		q := []int{0, 1, 4, 9, 11}
		lg := []int{0, 0, 18, 0, 22}
		return &brotli.Codec{Quality: q[level%len(q)], LGWin: lg[level%len(lg)]}
	case "zstd":
		if level >= 1000 {
			return &zstd.Codec{Level: 99} // configuration probe: not a zstd level
		}
		lv := []zstd.Level{0, zstd.SpeedFastest, zstd.SpeedDefault, zstd.SpeedBetterCompression, zstd.SpeedBestCompression}
		return &zstd.Codec{Level: lv[level%len(lv)], Concurrency: uint(level % 3)}
	case "lz4":
		lv := []lz4.Level{lz4.DefaultLevel, lz4.Fastest, lz4.Level1, lz4.Level5, lz4.Level9}
		return &lz4.Codec{Level: lv[level%len(lv)]}
	}
	panic("unknown codec " + name)
}

// c20Dst builds a dirty destination buffer; n is the size the result will need (Decode: exact,
// Encode: a generous hint), src the length of the source handed to the same call. The `src…`
// kinds put the capacity around len(src), the `…bound…` kinds around the worst-case size of the
// block formats (LZ4: n + n/255 + 16, Snappy: 32 + n + n/6): the region where "the buffer can
// hold the input" and "the buffer can hold the output" differ.
func c20Dst(kind string, n, src int, prev *[][]byte) []byte {
	dirty := func(l, c int) []byte {
		b := make([]byte, c)
		for i := range b {
			b[i] = 0xFF
		}
		return b[:l]
	}
	switch kind {
	case "nil":
		return nil
	case "zero":
		return make([]byte, 0)
	case "smallcap":
		return dirty(0, 3)
	case "smalllen":
		return dirty(3, 3)
	case "exactcap":
		return dirty(0, n)
	case "exactlen":
		return dirty(n, n)
	case "exactm1":
		if n == 0 {
			return dirty(0, 1)
		}
		return dirty(0, n-1)
	case "exactp1":
		return dirty(n+1, n+1)
	case "srccap":
		return dirty(0, src)
	case "srclen":
		return dirty(src, src)
	case "srcm1":
		if src == 0 {
			return dirty(0, 1)
		}
		return dirty(0, src-1)
	case "srcp1":
		return dirty(0, src+1)
	case "srcp15":
		return dirty(src/2, src+15)
	case "srchalf":
		return dirty(0, src/2+1)
	case "lz4boundm1":
		return dirty(0, src+src/255+15)
	case "lz4bound":
		return dirty(0, src+src/255+16)
	case "snapboundm1":
		return dirty(0, 31+src+src/6)
	case "snapbound":
		return dirty(1, 32+src+src/6)
	case "large":
		return dirty(0, 2*n+17)
	case "largelen":
		return dirty(2*n+17, 2*n+17)
	case "prev":
		if len(*prev) == 0 {
			return dirty(0, n/2)
		}
		b := (*prev)[len(*prev)-1]
		*prev = (*prev)[:len(*prev)-1]
		return b
	}
	panic("unknown dst kind " + kind)
}

func c20Safe(f func() ([]byte, error)) (out []byte, err error, pan string) {
	defer func() {
		if r := recover(); r != nil {
			pan = fmt.Sprint(r)
			if len(pan) > 200 {
				pan = pan[:200]
			}
		}
	}()
	out, err = f()
	return
}

type c20Kept struct {
	live []byte // as returned by the codec
	copy []byte
	what string
	enc  bool // an Encode output (else: a Decode output)
}

// c20Scribble overwrites a buffer the CALLER owns (the src of a call that has returned) and puts
// it back: "writes the (un)compressed version of src to dst and returns it" — the result lives
// in dst or in a new buffer, never in src, so it must not change when src does.
func c20Scribble(b []byte) {
	for i := range b {
		b[i] ^= 0xFF
	}
}

// srcIndependent: does `result` (equal to `want` right now) survive the caller overwriting `src`?
func (e *c20Exec) srcIndependent(op int, call string, result, want, src []byte) {
	if len(src) == 0 || len(result) == 0 {
		return
	}
	c20Scribble(src)
	same := bytes.Equal(result, want)
	c20Scribble(src)
	if !same {
		e.find(op, "result-aliases-src", call+" returned a slice that shares memory with its src: the result changes when the caller overwrites src ("+c20FirstDiff(result, want)+" while src was overwritten)")
	}
}

// c20Recycle implements the dst kinds `lastenc` / `lastdec`: the caller gives up ONE buffer it
// got from the codec — the most recent Encode (Decode) output it still holds — as the next dst
// and keeps everything else, in particular the other half of the same round trip.
func c20Recycle(kind string, n int, kept *[]c20Kept) ([]byte, bool) {
	if kind != "lastenc" && kind != "lastdec" {
		return nil, false
	}
	k := *kept
	for j := len(k) - 1; j >= 0; j-- {
		if k[j].enc == (kind == "lastenc") {
			b := k[j].live
			*kept = append(k[:j:j], k[j+1:]...)
			return b[:0], true
		}
	}
	b := make([]byte, n/2)
	for i := range b {
		b[i] = 0xFF
	}
	return b[:0], true
}

type c20Exec struct {
	sc    *c20Scenario
	codec compress.Codec
	mu    sync.Mutex
	finds []c20Finding
	res   []c20OpResult
	out   *bufio.Writer
}

func (e *c20Exec) find(op int, kind, msg string) {
	e.mu.Lock()
	e.finds = append(e.finds, c20Finding{op, kind, msg})
	e.mu.Unlock()
}

func (e *c20Exec) progress(op int) {
	e.mu.Lock()
	b, _ := json.Marshal(c20Line{ID: e.sc.ID, Op: op})
	e.out.Write(b)
	e.out.WriteByte('\n')
	e.out.Flush()
	e.mu.Unlock()
}

func c20FirstDiff(a, b []byte) string {
	n := len(a)
	if len(b) < n {
		n = len(b)
	}
	for i := 0; i < n; i++ {
		if a[i] != b[i] {
			return fmt.Sprintf("len %d vs %d, first difference at byte %d", len(a), len(b), i)
		}
	}
	return fmt.Sprintf("len %d vs %d, common prefix equal", len(a), len(b))
}

// crossDecode checks an encoder output with a decoder that shares no code with the codec.
func (e *c20Exec) crossDecode(op int, enc, x []byte) {
	var got []byte
	var err error
	switch e.sc.Codec {
	case "gzip":
		var zr *stdgzip.Reader
		if zr, err = stdgzip.NewReader(bytes.NewReader(enc)); err == nil {
			got, err = io.ReadAll(zr)
		}
	case "snappy":
		got, err = refSnappyDecode(enc)
	case "lz4":
		got, err = refLz4Decode(enc, len(x)+64)
	case "uncompressed":
		got = enc
	default:
		return
	}
	if err != nil {
		e.find(op, "cross-mismatch", "independent decoder rejects the codec's output: "+err.Error())
	} else if !bytes.Equal(got, x) {
		e.find(op, "cross-mismatch", "independent decoder reads something else: "+c20FirstDiff(got, x))
	}
}

// crossEncode feeds the codec's Decode with a stream produced without the codec's encoder.
func (e *c20Exec) crossEncode(op int, x []byte) {
	var enc []byte
	switch e.sc.Codec {
	case "gzip":
		var buf bytes.Buffer
		zw := stdgzip.NewWriter(&buf)
		zw.Write(x)
		zw.Close()
		enc = buf.Bytes()
	case "snappy":
		enc = refSnappyEncodeLiteral(x)
	case "lz4":
		enc = refLz4EncodeLiteral(x)
	default:
		return
	}
	got, err, pan := c20Safe(func() ([]byte, error) { return e.codec.Decode(nil, enc) })
	switch {
	case pan != "":
		e.find(op, "panic", "Decode of a spec-conformant stream from an independent encoder panics: "+pan)
	case err != nil:
		e.find(op, "cross-mismatch", "Decode rejects a spec-conformant stream from an independent encoder: "+err.Error())
	case !bytes.Equal(got, x):
		e.find(op, "cross-mismatch", "Decode of a spec-conformant stream from an independent encoder: "+c20FirstDiff(got, x))
	}
}

func (e *c20Exec) checkKept(op int, kept []c20Kept) {
	for _, k := range kept {
		if !bytes.Equal(k.live, k.copy) {
			e.find(op, "earlier-output-modified", "a slice returned earlier ("+k.what+") changed: "+c20FirstDiff(k.live, k.copy))
		}
	}
}

// runOps executes ops[idx...] (the indexes in `which`) sequentially on the shared codec value.
func (e *c20Exec) runOps(which []int) {
	var prev [][]byte // outputs given up for reuse as dst
	var kept []c20Kept
	for _, i := range which {
		op := e.sc.Ops[i]
		e.progress(i)
		x := op.In.Bytes()
		r := &e.res[i]
		if op.K == "ext" {
			src, _ := hex.DecodeString(op.Src)
			ddst, ok := c20Recycle(op.DDst, len(x), &kept)
			if !ok {
				ddst = c20Dst(op.DDst, len(x), len(src), &prev)
			}
			got, err, pan := c20Safe(func() ([]byte, error) { return e.codec.Decode(ddst, src) })
			switch {
			case pan != "":
				r.Status, r.Err = "panic", pan
				e.find(i, "panic", "Decode of a stream from the Lean reference encoder panics: "+pan)
			case err != nil:
				r.Status, r.Err = "err", err.Error()
				e.find(i, "refenc-mismatch", "Decode rejects a stream from the Lean reference encoder (proved decodable by the spec decoder): "+err.Error())
			case !bytes.Equal(got, x):
				r.Status = "mismatch"
				e.find(i, "refenc-mismatch", "Decode of a stream from the Lean reference encoder: "+c20FirstDiff(got, x))
			default:
				r.Status = "ok"
				e.srcIndependent(i, "Decode", got, x, src)
			}
			e.checkKept(i, kept)
			continue
		}
		// ---- Encode
		encHint := len(x) + len(x)/8 + 64
		var edst []byte
		if strings.HasPrefix(op.EDst, "out") {
			// capacity around the size this very output needs: learn it with a probing call
			// (one more call in the history of the codec value)
			size := encHint
			if probe, perr, ppan := c20Safe(func() ([]byte, error) { return e.codec.Encode(nil, x) }); perr == nil && ppan == "" {
				size = len(probe)
			}
			edst = c20Dst(map[string]string{"outm1": "exactm1", "outcap": "exactcap", "outp1": "exactp1"}[op.EDst], size, len(x), &prev)
		} else if b, ok := c20Recycle(op.EDst, encHint, &kept); ok {
			edst = b
		} else {
			edst = c20Dst(op.EDst, encHint, len(x), &prev)
		}
		enc, err, pan := c20Safe(func() ([]byte, error) { return e.codec.Encode(edst, x) })
		if pan != "" {
			r.Status = "panic"
			e.find(i, "panic", "Encode panics: "+pan)
			continue
		}
		if err != nil {
			r.Status, r.Err = "err", err.Error()
			e.find(i, "rt-error", "Encode returns an error: "+err.Error())
			continue
		}
		r.EncLen = len(enc)
		r.EncDstCap, r.EncOutCap = cap(edst)+1, cap(enc)+1
		encCopy := append([]byte{}, enc...)
		e.srcIndependent(i, "Encode", enc, encCopy, x)
		if op.K == "bad" {
			bad := op.Bad.apply(enc)
			ddst, ok := c20Recycle(op.DDst, len(x), &kept)
			if !ok {
				ddst = c20Dst(op.DDst, len(x), len(bad), &prev)
			}
			got, err, pan := c20Safe(func() ([]byte, error) { return e.codec.Decode(ddst, bad) })
			switch {
			case pan != "":
				r.Status, r.Err = "panic", pan
				e.find(i, "panic", "Decode of a corrupted input panics: "+pan)
			case err != nil:
				r.Status, r.Err = "err", err.Error()
			case bytes.Equal(got, x):
				r.Status = "ok-same"
			default:
				r.Status = "ok-diff"
			}
			if pan == "" && err == nil {
				e.srcIndependent(i, "Decode", got, append([]byte{}, got...), bad)
			}
			e.checkKept(i, kept)
			kept = append(kept, c20Kept{enc, encCopy, fmt.Sprintf("Encode output of op %d", i), true})
			continue
		}
		// ---- Decode(Encode(x))
		ddst, ok := c20Recycle(op.DDst, len(x), &kept)
		if !ok {
			ddst = c20Dst(op.DDst, len(x), len(enc), &prev)
		}
		r.DstCap = cap(ddst)
		dec, err, pan := c20Safe(func() ([]byte, error) { return e.codec.Decode(ddst, enc) })
		switch {
		case pan != "":
			r.Status, r.Err = "panic", pan
			e.find(i, "panic", "Decode(Encode(x)) panics: "+pan)
		case err != nil:
			r.Status, r.Err = "err", err.Error()
			e.find(i, "rt-error", "Decode(Encode(x)) returns an error: "+err.Error())
		case !bytes.Equal(dec, x):
			r.Status = "mismatch"
			e.find(i, "rt-mismatch", "Decode(Encode(x)) != x: "+c20FirstDiff(dec, x))
		default:
			r.Status = "ok"
			r.OutCap = cap(dec)
			if (e.sc.Codec == "snappy" || e.sc.Codec == "lz4" || e.sc.Codec == "gzip") && len(enc) <= 70000 {
				r.Enc = hex.EncodeToString(enc)
			}
		}
		if !bytes.Equal(enc, encCopy) {
			e.find(i, "earlier-output-modified", "Decode changed its src")
		} else if r.Status == "ok" {
			e.srcIndependent(i, "Decode", dec, x, enc)
		}
		e.crossDecode(i, enc, x)
		if len(x) <= 1<<16 && i%3 == 0 {
			e.crossEncode(i, x)
		}
		e.checkKept(i, kept)
		if r.Status == "ok" {
			kept = append(kept, c20Kept{enc, encCopy, fmt.Sprintf("Encode output of op %d", i), true},
				c20Kept{dec, append([]byte{}, dec...), fmt.Sprintf("Decode output of op %d", i), false})
		}
		// give up the oldest kept outputs so that later ops can alias them as dst
		if len(kept) > 4 {
			prev = append(prev, kept[0].live[:0], kept[1].live)
			kept = kept[2:]
		}
	}
	e.checkKept(len(e.sc.Ops)-1, kept)
}

func (e *c20Exec) run() {
	// Deterministic pools: sync.Pool forgets objects at GC and keeps them per P, which would make
	// "the pooled stream of the previous call is reused" a matter of timing. No GC inside a
	// scenario (the memory limit still forces one when needed) and a single P for sequential
	// histories give the most adversarial and reproducible history: the pool always remembers.
	runtime.GC()
	old := debug.SetGCPercent(-1)
	defer debug.SetGCPercent(old)
	if e.sc.Conc <= 1 {
		defer runtime.GOMAXPROCS(runtime.GOMAXPROCS(1))
	}
	e.codec = c20NewCodec(e.sc.Codec, e.sc.Level)
	e.res = make([]c20OpResult, len(e.sc.Ops))
	if e.sc.Conc <= 1 {
		all := make([]int, len(e.sc.Ops))
		for i := range all {
			all[i] = i
		}
		e.runOps(all)
	} else {
		parts := make([][]int, e.sc.Conc)
		for i := range e.sc.Ops {
			parts[i%e.sc.Conc] = append(parts[i%e.sc.Conc], i)
		}
		start := make(chan struct{})
		var wg sync.WaitGroup
		for _, p := range parts {
			wg.Add(1)
			go func(p []int) {
				defer wg.Done()
				<-start
				e.runOps(p)
			}(p)
		}
		close(start)
		wg.Wait()
	}
	b, _ := json.Marshal(c20Line{ID: e.sc.ID, Done: true, Findings: e.finds, Results: e.res})
	e.out.Write(b)
	e.out.WriteByte('\n')
	e.out.Flush()
}

func c20Worker(args []string) int {
	if len(args) < 2 {
		fmt.Fprintln(os.Stderr, "usage: -worker c20 <scenarios.json> <memMB>")
		return 2
	}
	mb, _ := strconv.Atoi(args[1])
	if mb > 0 {
		lim := uint64(mb) << 20
		// address-space limit: an allocation storm ends in "fatal error: out of memory" of this
		// process only; GOMEMLIMIT makes the collector work hard before that
		syscall.Setrlimit(syscall.RLIMIT_AS, &syscall.Rlimit{Cur: lim, Max: lim})
		debug.SetMemoryLimit(int64(lim / 2))
	}
	blob, err := os.ReadFile(args[0])
	if err != nil {
		fmt.Fprintln(os.Stderr, err)
		return 2
	}
	var scs []c20Scenario
	if err := json.Unmarshal(blob, &scs); err != nil {
		fmt.Fprintln(os.Stderr, err)
		return 2
	}
	out := bufio.NewWriter(os.Stdout)
	for i := range scs {
		e := &c20Exec{sc: &scs[i], out: out}
		e.run()
	}
	return 0
}
