package props

import (
	"bytes"
	"fmt"
	"io"
	"math/rand"
	"slices"
	"strings"

	"github.com/google/uuid"
	"github.com/parquet-go/parquet-go"
	"github.com/parquet-go/parquet-go/format"
	"github.com/parquet-go/parquet-go/variant"

	"verifharness/core"
)

// Property C19, shredding: two more read paths.
//
//   - "cursor": the columnar VariantReader (NewVariantReader): every row is rebuilt from the cursor
//     vectors (Locs, typed vectors, Residual, ListOffsets) through the public API only, for several
//     window sizes. A dedicated stream writes larger files with dictionary-encoded typed_value leaves,
//     a small DictionaryMaxBytes (so that a column chunk mixes dictionary and PLAIN pages), a small
//     PageBufferSize, several row groups, data page v1/v2.
//   - "convert-evolved": conversion to the unshredded form through a reader schema whose sibling
//     columns differ from the file's (columns added before / between / after the variant column,
//     the id column dropped).
//
// Same L1 oracle as everywhere: the value read is the value written.

// ---------------------------------------------------------------- cursor reconstruction

func c19MaterializeCursors(c *parquet.VariantCursor) {
	switch c.Kind() {
	case parquet.VariantCursorObject:
		for _, name := range c.Fields() {
			c19MaterializeCursors(c.Field(name))
		}
	case parquet.VariantCursorList:
		c19MaterializeCursors(c.Elements())
	}
}

func c19FillTypedIndexes(c *parquet.VariantCursor, into map[*parquet.VariantCursor][]int32) {
	idx := make([]int32, len(c.Locs()))
	for i := range idx {
		idx[i] = -1
	}
	for d, e := range c.TypedRows() {
		if int(e) < len(idx) {
			idx[e] = int32(d)
		}
	}
	into[c] = idx
	switch c.Kind() {
	case parquet.VariantCursorObject:
		for _, name := range c.Fields() {
			c19FillTypedIndexes(c.Field(name), into)
		}
	case parquet.VariantCursorList:
		c19FillTypedIndexes(c.Elements(), into)
	}
}

func c19BigEndianDecimal16(b []byte) (out [16]byte) {
	for i := range b {
		out[i] = b[len(b)-1-i]
	}
	if len(b) > 0 && b[0]&0x80 != 0 {
		for i := len(b); i < 16; i++ {
			out[i] = 0xFF
		}
	}
	return
}

// the d-th dense typed value of a leaf cursor, by the leaf's parquet type (shredded types table)
func c19CursorTyped(c *parquet.VariantCursor, d int) (variant.Value, error) {
	typ := c.LeafType()
	var lv format.LogicalTypeValue
	if lt := typ.LogicalType(); lt != nil {
		lv = lt.Value
	}
	bytesAt := func() []byte {
		if typ.Kind() == parquet.FixedLenByteArray {
			slab, size := c.FixedLenByteArrays()
			return slab[d*size : (d+1)*size]
		}
		slab, offs := c.ByteArrays()
		return slab[offs[d]:offs[d+1]]
	}
	switch x := lv.(type) {
	case nil:
		switch typ.Kind() {
		case parquet.Boolean:
			return variant.Bool(c.Booleans()[d]), nil
		case parquet.Int32:
			return variant.Int32(c.Int32s()[d]), nil
		case parquet.Int64:
			return variant.Int64(c.Int64s()[d]), nil
		case parquet.Float:
			return variant.Float(c.Floats()[d]), nil
		case parquet.Double:
			return variant.Double(c.Doubles()[d]), nil
		case parquet.ByteArray:
			return variant.Binary(bytes.Clone(bytesAt())), nil
		}
	case *format.StringType:
		return variant.String(string(bytesAt())), nil
	case *format.IntType:
		switch x.BitWidth {
		case 8:
			return variant.Int8(int8(c.Int32s()[d])), nil
		case 16:
			return variant.Int16(int16(c.Int32s()[d])), nil
		case 32:
			return variant.Int32(c.Int32s()[d]), nil
		case 64:
			return variant.Int64(c.Int64s()[d]), nil
		}
	case *format.DateType:
		return variant.Date(c.Int32s()[d]), nil
	case *format.TimeType:
		return variant.Time(c.Int64s()[d]), nil
	case *format.TimestampType:
		v := c.Int64s()[d]
		switch x.Unit.Value.(type) {
		case *format.MicroSeconds:
			if x.IsAdjustedToUTC {
				return variant.Timestamp(v), nil
			}
			return variant.TimestampNTZ(v), nil
		case *format.NanoSeconds:
			if x.IsAdjustedToUTC {
				return variant.TimestampNanos(v), nil
			}
			return variant.TimestampNTZNanos(v), nil
		}
	case *format.DecimalType:
		scale := byte(x.Scale)
		switch typ.Kind() {
		case parquet.Int32:
			return variant.Decimal4(c.Int32s()[d], scale), nil
		case parquet.Int64:
			return variant.Decimal8(c.Int64s()[d], scale), nil
		case parquet.FixedLenByteArray, parquet.ByteArray:
			return variant.Decimal16(c19BigEndianDecimal16(bytesAt()), scale), nil
		}
	case *format.UUIDType:
		b := bytesAt()
		if len(b) != 16 {
			return variant.Null(), fmt.Errorf("uuid leaf value of %d bytes", len(b))
		}
		return variant.UUID(uuid.UUID(b)), nil
	}
	return variant.Null(), fmt.Errorf("unsupported leaf type %s", typ)
}

func c19CursorEntry(c *parquet.VariantCursor, e int, typedIdx map[*parquet.VariantCursor][]int32) (variant.Value, bool, error) {
	if e >= len(c.Locs()) {
		return variant.Null(), false, fmt.Errorf("entry %d beyond the %d locs of the window", e, len(c.Locs()))
	}
	switch c.Locs()[e] {
	case variant.LocMissing:
		return variant.Null(), false, nil
	case variant.LocNull:
		return variant.Null(), true, nil
	case variant.LocResidual:
		v, ok, err := c.Residual(e)
		if err != nil {
			return variant.Null(), false, err
		}
		if !ok {
			return variant.Null(), false, fmt.Errorf("residual entry %d has no residual value", e)
		}
		return v, true, nil
	case variant.LocTyped:
		d := typedIdx[c][e]
		if d < 0 {
			return variant.Null(), false, fmt.Errorf("typed entry %d not in TypedRows", e)
		}
		v, err := c19CursorTyped(c, int(d))
		return v, true, err
	case variant.LocTypedObject:
		shredded := c.Fields()
		var fields []variant.Field
		for _, name := range shredded {
			fv, present, err := c19CursorEntry(c.Field(name), e, typedIdx)
			if err != nil {
				return variant.Null(), false, err
			}
			if present {
				fields = append(fields, variant.Field{Name: name, Value: fv})
			}
		}
		if r, ok, err := c.Residual(e); err != nil {
			return variant.Null(), false, err
		} else if ok {
			if r.Basic() != variant.BasicObject {
				return variant.Null(), false, fmt.Errorf("partial object residual is not an object")
			}
			for _, f := range r.ObjectValue().Fields {
				if !slices.Contains(shredded, f.Name) {
					fields = append(fields, f)
				}
			}
		}
		return variant.MakeObject(fields), true, nil
	case variant.LocTypedList:
		offsets := c.ListOffsets()
		if e+1 >= len(offsets) {
			return variant.Null(), false, fmt.Errorf("list entry %d beyond the %d list offsets", e, len(offsets))
		}
		el := c.Elements()
		elems := []variant.Value{}
		for i := offsets[e]; i < offsets[e+1]; i++ {
			ev, present, err := c19CursorEntry(el, int(i), typedIdx)
			if err != nil {
				return variant.Null(), false, err
			}
			if !present {
				ev = variant.Null()
			}
			elems = append(elems, ev)
		}
		return variant.MakeArray(elems), true, nil
	}
	return variant.Null(), false, fmt.Errorf("unknown loc %v", c.Locs()[e])
}

// c19ReadCursor reads the whole "var" column through the columnar reader, row group by row group,
// `window` rows at a time, and returns the sorted value text of every row ("<missing>" = null row).
func c19ReadCursor(data []byte, window int) (texts []string, err error) {
	err = c19Guard(func() error {
		f, err := parquet.OpenFile(bytes.NewReader(data), int64(len(data)))
		if err != nil {
			return err
		}
		for _, rg := range f.RowGroups() {
			r, err := parquet.NewVariantReader(rg, "var")
			if err != nil {
				return err
			}
			root := r.Root()
			c19MaterializeCursors(root)
			typedIdx := map[*parquet.VariantCursor][]int32{}
			for {
				n, err := r.Next(window)
				if err == io.EOF {
					break
				}
				if err != nil {
					r.Close()
					return err
				}
				c19FillTypedIndexes(root, typedIdx)
				for e := 0; e < n; e++ {
					v, ok, err := c19CursorEntry(root, e, typedIdx)
					switch {
					case err != nil:
						r.Close()
						return fmt.Errorf("row %d: %w", len(texts), err)
					case !ok:
						texts = append(texts, "<missing>")
					default:
						texts = append(texts, c19VText(v, true))
					}
				}
				if n == 0 {
					break
				}
			}
			if err := r.Close(); err != nil {
				return err
			}
		}
		return nil
	})
	return
}

// c19CheckCursor: the cursor read path of one written file against the rows written.
func c19CheckCursor(ctx *core.Ctx, data []byte, want []string, window int, sig string, detail func(map[string]any) map[string]any, l2 ...*c19NavL2) {
	ctx.Hist("shred.read", "cursor")
	got, err := c19ReadCursor(data, window)
	if err != nil {
		key := "read-fails "
		if strings.HasPrefix(err.Error(), "PANIC") {
			key = "read-panics "
		}
		ctx.Fail("L1", key+sig, "reading the variant column through VariantReader fails: "+err.Error(), detail(map[string]any{"read": "cursor", "window": window}))
		return
	}
	if len(got) != len(want) {
		ctx.Fail("L1", "row-count "+sig, fmt.Sprintf("VariantReader returned %d rows, wrote %d", len(got), len(want)), detail(map[string]any{"read": "cursor", "window": window}))
		return
	}
	for i := range want {
		if got[i] != want[i] {
			ctx.Fail("L1", "value-changed "+sig, "the value rebuilt from the VariantReader cursors is not the value written",
				detail(map[string]any{"read": "cursor", "window": window, "row": i, "got": got[i], "want": want[i]}))
			return
		}
	}
	// any path, shredded or not, navigated through the same reader (c19_nav.go)
	var tie *c19NavL2
	if len(l2) > 0 {
		tie = l2[0]
	}
	c19CheckCursorPaths(ctx, data, want, window, sig, detail, tie)
}

// ---------------------------------------------------------------- dictionary / page layout stream

// wrap the primitive leaves of a typed_value schema in a dictionary encoding (booleans excepted)
func (s *c19Schema) withDictionary() *c19Schema {
	c := *s
	switch s.kind {
	case "prim":
		if s.tag != "bool" {
			inner := s.node
			c.node = func() parquet.Node { return parquet.Encoded(inner(), &parquet.RLEDictionary) }
		}
	case "list":
		c.elem = s.elem.withDictionary()
	case "obj":
		c.fields = make([]*c19Schema, len(s.fields))
		for i, f := range s.fields {
			c.fields[i] = f.withDictionary()
		}
	}
	return &c
}

// does some column chunk mix dictionary-encoded and PLAIN data pages?
func c19MixedChunks(data []byte) (mixed int) {
	_ = c19Guard(func() error {
		f, err := parquet.OpenFile(bytes.NewReader(data), int64(len(data)))
		if err != nil {
			return err
		}
		for _, rg := range f.Metadata().RowGroups {
			for _, cc := range rg.Columns {
				dict, plain := false, false
				for _, st := range cc.MetaData.EncodingStats {
					if pt := st.PageType.String(); pt != "DATA_PAGE" && pt != "DATA_PAGE_V2" {
						continue
					}
					switch st.Encoding.String() {
					case "RLE_DICTIONARY", "PLAIN_DICTIONARY":
						dict = true
					case "PLAIN":
						plain = true
					}
				}
				if dict && plain {
					mixed++
				}
			}
		}
		return nil
	})
	return
}

func c19LayoutCase(ctx *core.Ctx, r *rand.Rand) {
	var s *c19Schema
	switch r.Intn(4) {
	case 0:
		l := c19RandLeaf(r)
		s = &c19Schema{kind: "prim", tag: l.tag, node: l.node}
	case 1:
		s = c19NestedSchema(r)
	default:
		s = c19RandSchema(r, 1)
	}
	if s.kind == "none" {
		s = &c19Schema{kind: "prim", tag: "str", node: func() parquet.Node { return parquet.String() }}
	}
	s = s.withDictionary()
	stxt := s.String()
	var variantNode parquet.Node
	if err := c19Guard(func() error { var e error; variantNode, e = parquet.ShreddedVariant(s.parquetNode()); return e }); err != nil {
		ctx.Fail("L1", "shredded-schema-rejected "+s.kind, "ShreddedVariant rejects a valid shredding schema with dictionary-encoded leaves: "+err.Error(), map[string]any{"schema": stxt})
		return
	}
	schema := parquet.NewSchema("table", parquet.Group{"id": parquet.Int(32), "var": variantNode})
	nrows := 80 + r.Intn(240)
	opts := []parquet.WriterOption{schema,
		parquet.PageBufferSize([]int{64, 128, 256, 1024}[r.Intn(4)]),
		parquet.DictionaryMaxBytes(int64([]int{32, 128, 512, 2048}[r.Intn(4)])),
		parquet.DataPageVersion(1 + r.Intn(2)),
	}
	groups := "one row group"
	if r.Intn(2) == 0 {
		opts = append(opts, parquet.MaxRowsPerRowGroup(int64(17+r.Intn(60))))
		groups = "several row groups"
	}
	rows := make([]c19RowAny, nrows)
	want := make([]string, nrows)
	var canon strings.Builder
	canon.WriteString("layout " + stxt)
	for i := range rows {
		n := c19ShredValue(r, s, 0, false)
		want[i] = n.SortedString()
		canon.WriteString(" " + n.String())
		m, v := c19Encode(n.toVariant())
		rows[i] = c19RowAny{ID: int32(i), Var: c19Raw{Metadata: m, Value: v}}
	}
	ctx.Case(canon.String(), true)
	buf := new(bytes.Buffer)
	err := c19Guard(func() error {
		w := parquet.NewGenericWriter[c19RowAny](buf, opts...)
		step := 1 + r.Intn(3) // row by row (or nearly), so that pages are cut at the page buffer size
		for i := 0; i < nrows; i += step {
			if _, err := w.Write(rows[i:min(i+step, nrows)]); err != nil {
				return err
			}
		}
		return w.Close()
	})
	detail := func(extra map[string]any) map[string]any {
		m := map[string]any{"schema": stxt, "parquet_schema": schema.String(), "rows": nrows, "layout": groups, "first_values": want[:min(8, len(want))]}
		for k, x := range extra {
			m[k] = x
		}
		return m
	}
	if err != nil {
		ctx.Fail("L1", "write-fails layout schema="+s.kind, "writing a shredded variant column with small pages/dictionaries fails: "+err.Error(), detail(nil))
		return
	}
	data := buf.Bytes()
	if c19MixedChunks(data) > 0 {
		ctx.Hist("shred.layout", "some chunk mixes dictionary and PLAIN pages, "+groups)
	} else {
		ctx.Hist("shred.layout", "no mixed chunk, "+groups)
	}
	// reference: row-based raw read through the file's schema
	got, err := c19ReadPath("raw-direct", data, schema, nrows)
	sig := "layout->raw-direct schema=" + s.kind
	if err != nil || len(got) != nrows {
		ctx.Fail("L1", "read-fails "+sig, fmt.Sprintf("reading back fails: %v (%d of %d rows)", err, len(got), nrows), detail(map[string]any{"read": "raw-direct"}))
	} else {
		for i, g := range got {
			v, err := c19Decode(g.raw.Metadata, g.raw.Value)
			if err != nil || c19VText(v, true) != want[i] {
				ctx.Fail("L1", "value-changed "+sig, "the value read back is not the value written", detail(map[string]any{"read": "raw-direct", "row": i, "want": want[i], "error": fmt.Sprint(err)}))
				break
			}
		}
	}
	for _, window := range []int{1 + r.Intn(9), 50, 1000} {
		c19CheckCursor(ctx, data, want, window, "layout->cursor schema="+s.kind, detail)
	}
}

// ---------------------------------------------------------------- conversion through an evolved reader schema

type c19EvoBefore struct {
	Added *int64 `parquet:"added"` // not in the file, sorts before id and var
	ID    int32  `parquet:"id"`
	Var   c19Raw `parquet:"var,variant"`
}

type c19EvoBetween struct {
	ID  int32   `parquet:"id"`
	Mid *string `parquet:"k"` // not in the file, sorts between id and var
	Var c19Raw  `parquet:"var,variant"`
}

type c19EvoDropAfter struct { // id dropped, one column added after the variant
	Var c19Raw   `parquet:"var,variant"`
	Zed *float64 `parquet:"zed"`
}

type c19EvoAll struct {
	Added *int64   `parquet:"added"`
	Extra *c19EvoG `parquet:"extra"` // an added optional group with two leaves
	ID    int32    `parquet:"id"`
	Mid   *string  `parquet:"k"`
	Var   c19Raw   `parquet:"var,variant"`
	Zed   *float64 `parquet:"zed"`
}

type c19EvoG struct {
	X *int32  `parquet:"x"`
	Y *string `parquet:"y"`
}

func c19ReadEvolved(name string, data []byte) (rows []c19ReadRow, ids []int32, extras string, err error) {
	add := func(v c19Raw, id int32, extra bool) {
		vv := v
		rows = append(rows, c19ReadRow{raw: &vv})
		ids = append(ids, id)
		if extra {
			extras = "an added column is not null"
		}
	}
	err = c19Guard(func() error {
		switch name {
		case "added-before":
			out, err := parquet.Read[c19EvoBefore](bytes.NewReader(data), int64(len(data)))
			for _, o := range out {
				add(o.Var, o.ID, o.Added != nil)
			}
			return err
		case "added-between":
			out, err := parquet.Read[c19EvoBetween](bytes.NewReader(data), int64(len(data)))
			for _, o := range out {
				add(o.Var, o.ID, o.Mid != nil)
			}
			return err
		case "dropped-and-added-after":
			out, err := parquet.Read[c19EvoDropAfter](bytes.NewReader(data), int64(len(data)))
			for i, o := range out {
				add(o.Var, int32(i), o.Zed != nil)
			}
			return err
		default:
			out, err := parquet.Read[c19EvoAll](bytes.NewReader(data), int64(len(data)))
			for _, o := range out {
				add(o.Var, o.ID, o.Added != nil || o.Extra != nil || o.Mid != nil || o.Zed != nil)
			}
			return err
		}
	})
	return
}

var c19EvolvedPaths = []string{"added-before", "added-between", "dropped-and-added-after", "added-everywhere"}

// c19CheckEvolved: read a written file converted to the unshredded form through reader schemas
// whose sibling columns differ from the file's.
func c19CheckEvolved(ctx *core.Ctx, data []byte, want []string, sigBase string, detail func(map[string]any) map[string]any) {
	for _, name := range c19EvolvedPaths {
		rp := "convert-evolved:" + name
		ctx.Hist("shred.read", rp)
		sig := sigBase + "->" + rp
		got, ids, extras, err := c19ReadEvolved(name, data)
		if err != nil {
			ctx.Fail("L1", "read-fails "+sig, "reading the variant column through an evolved reader schema fails: "+err.Error(), detail(map[string]any{"read": rp}))
			continue
		}
		if len(got) != len(want) {
			ctx.Fail("L1", "row-count "+sig, fmt.Sprintf("read %d rows, wrote %d", len(got), len(want)), detail(map[string]any{"read": rp}))
			continue
		}
		if extras != "" {
			ctx.Fail("L1", "added-column-not-null "+sig, "a column absent from the file does not read as null", detail(map[string]any{"read": rp}))
		}
		for i, g := range got {
			if ids[i] != int32(i) {
				ctx.Fail("L1", "sibling-changed "+sig, "the id column next to the variant reads back changed", detail(map[string]any{"read": rp, "row": i, "id": ids[i]}))
				break
			}
			v, err := c19Decode(g.raw.Metadata, g.raw.Value)
			if err != nil {
				ctx.Fail("L1", "readback-undecodable "+sig, "the variant bytes read back do not decode: "+err.Error(), detail(map[string]any{"read": rp, "row": i,
					"metadata_hex": core.Hex(g.raw.Metadata), "value_hex": core.Hex(g.raw.Value)}))
				break
			}
			if t := c19VText(v, true); t != want[i] {
				ctx.Fail("L1", "value-changed "+sig, "the value read back is not the value written", detail(map[string]any{"read": rp, "row": i, "got": t, "want": want[i]}))
				break
			}
		}
	}
}
