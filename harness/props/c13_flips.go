package props

// C13 "flips" worker: writes one small file with the library, locates every page body by walking
// the column chunks and decoding the page headers with the thrift/format packages, then for each
// page applies xor masks (single bits, bursts of 2..32 bits) inside the body and reads the altered
// file through every access path that touches the page. The oracle is the property statement:
// the read must fail with an error satisfying errors.Is(err, parquet.ErrCorrupted); it must not
// return rows (equal to the pristine ones or not), fail with another error, or panic.
// Runs as a subprocess (`pqcheck -worker c13flips <job json>`): a panic in a library goroutine, an
// out-of-memory allocation or a hang then costs one worker, which the parent reports.

import (
	"bytes"
	"encoding/binary"
	"encoding/json"
	"errors"
	"fmt"
	"hash/crc32"
	"io"
	"math/rand"
	"os"
	"reflect"
	"sort"
	"strings"
	"sync"

	"github.com/parquet-go/parquet-go"
	"github.com/parquet-go/parquet-go/compress"
	"github.com/parquet-go/parquet-go/encoding/thrift"
	"github.com/parquet-go/parquet-go/format"

	"verifharness/core"
	"verifharness/drv"
)

type c13Config struct {
	Schema    string  `json:"schema"` // flat | nested | crczero32 | crczero64
	Version   int     `json:"version"`
	Codec     string  `json:"codec"`
	Rows      int     `json:"rows"`
	PageRows  int     `json:"page_rows"`           // rows per Write call; PageBufferSize(1) makes each call a page
	RowGroup  int     `json:"row_group,omitempty"` // MaxRowsPerRowGroup (0: one row group)
	SmallDict bool    `json:"small_dict,omitempty"`
	Seed      int64   `json:"seed"`
	Values    []int64 `json:"values,omitempty"` // crczero*: explicit column values (otherwise generated and solved)
}

func (c c13Config) canon() string {
	s := fmt.Sprintf("%s v%d %s rows=%d/%d rg=%d sd=%v seed=%d", c.Schema, c.Version, c.Codec, c.Rows, c.PageRows, c.RowGroup, c.SmallDict, c.Seed)
	if len(c.Values) > 0 {
		s += " values=" + core.JoinInts(c.Values)
	}
	return s
}

// c13Fault: xor `Mask` (hex) into the file at byte offset BodyOff+Byte of page (RG, Col, Page).
type c13Fault struct {
	RG    int      `json:"rg"`
	Col   int      `json:"col"`
	Page  int      `json:"page"` // index among all pages of the chunk, dictionary page included
	Bit   int      `json:"bit"`  // first flipped bit (byte*8 + bit from the least significant)
	Width int      `json:"width"`
	Mask  string   `json:"mask"` // hex, starts at byte Bit/8
	Paths []string `json:"paths,omitempty"`
}

type c13Flat struct {
	ID   int64   `parquet:"id,plain"`
	Name string  `parquet:"name,dict"`
	Opt  *int32  `parquet:"opt,plain"`
	OptS *string `parquet:"opts,dict"`
	F    float64 `parquet:"f,split"`
	D    int32   `parquet:"d,delta"`
	B    bool    `parquet:"b"`
}

type c13Inner struct {
	A *int64   `parquet:"a,plain"`
	B []string `parquet:"b,dict"`
}

type c13Nested struct {
	ID   int64     `parquet:"id,delta"`
	Tags []string  `parquet:"tags,dict"`
	Nums []int32   `parquet:"nums,plain"`
	In   *c13Inner `parquet:"in"`
	L    []int64   `parquet:"l,list"`
}

type c13Z32 struct {
	V int32 `parquet:"v,plain"`
}
type c13Z64 struct {
	V int64 `parquet:"v,plain"`
}

var c13Words = []string{"alpha", "beta", "gamma", "delta", "", "epsilon-epsilon-epsilon", "z", "\xff\xff", "eta"}

func c13GenFlat(r *rand.Rand, i int) c13Flat {
	row := c13Flat{ID: int64(i)*3 - 7, Name: c13Words[r.Intn(len(c13Words))], F: float64(r.Intn(2000)-1000) / 8, D: int32(i*5 - r.Intn(4)), B: r.Intn(3) == 0}
	if r.Intn(3) != 0 {
		v := int32(r.Uint32())
		row.Opt = &v
	}
	if r.Intn(4) != 0 {
		s := c13Words[r.Intn(4)]
		row.OptS = &s
	}
	return row
}

func c13GenNested(r *rand.Rand, i int) c13Nested {
	row := c13Nested{ID: int64(i)}
	for k := r.Intn(4); k > 0; k-- {
		row.Tags = append(row.Tags, c13Words[r.Intn(len(c13Words))])
	}
	for k := r.Intn(3); k > 0; k-- {
		row.Nums = append(row.Nums, int32(r.Intn(1000)-500))
	}
	if r.Intn(4) != 0 {
		in := &c13Inner{}
		if r.Intn(2) == 0 {
			v := r.Int63() - (1 << 62)
			in.A = &v
		}
		for k := r.Intn(3); k > 0; k-- {
			in.B = append(in.B, c13Words[r.Intn(5)])
		}
		row.In = in
	}
	for k := r.Intn(3); k > 0; k-- {
		row.L = append(row.L, int64(r.Intn(9)))
	}
	return row
}

// c13Forge returns the 4 bytes x with crc32.ChecksumIEEE(prefix ‖ x) == target (the CRC register is
// a bijection of the last 4 message bytes).
func c13Forge(prefix []byte, target uint32) [4]byte {
	tab := crc32.IEEETable
	var rev [256]byte
	for i := 0; i < 256; i++ {
		rev[tab[i]>>24] = byte(i)
	}
	s := ^crc32.ChecksumIEEE(prefix)
	t := ^target
	for i := 0; i < 4; i++ {
		idx := rev[t>>24]
		t = (t^tab[idx])<<8 | uint32(idx)
	}
	var out [4]byte
	binary.LittleEndian.PutUint32(out[:], t^s)
	return out
}

// c13ZeroValues: column values whose PLAIN encoding has CRC-32 zero
func c13ZeroValues(cfg c13Config, r *rand.Rand) []int64 {
	if len(cfg.Values) > 0 {
		return cfg.Values
	}
	n := cfg.Rows
	if n < 1 {
		n = 1
	}
	vals := make([]int64, n)
	var pre []byte
	for i := range vals {
		if cfg.Schema == "crczero32" {
			vals[i] = int64(int32(r.Uint32()))
			if i < n-1 {
				pre = binary.LittleEndian.AppendUint32(pre, uint32(vals[i]))
			}
		} else {
			vals[i] = int64(r.Uint64())
			if i < n-1 {
				pre = binary.LittleEndian.AppendUint64(pre, uint64(vals[i]))
			}
		}
	}
	if cfg.Schema == "crczero32" {
		x := c13Forge(pre, 0)
		vals[n-1] = int64(int32(binary.LittleEndian.Uint32(x[:])))
	} else {
		lo := r.Uint32()
		pre = binary.LittleEndian.AppendUint32(pre, lo)
		x := c13Forge(pre, 0)
		vals[n-1] = int64(uint64(lo) | uint64(binary.LittleEndian.Uint32(x[:]))<<32)
	}
	return vals
}

// ---------------------------------------------------------------- typed access, per schema

type c13Typed struct {
	write    func(cfg c13Config) ([]byte, error)
	readAll  func(f *parquet.File, from int64) (any, error) // GenericReader[T], optional SeekToRow
	readFunc func(data []byte) (any, error)                 // parquet.Read[T]
	readOld  func(f *parquet.File, from int64) (any, error) // deprecated Reader: Read(&T), optional SeekToRow
	readRG   func(f *parquet.File, g int) (any, error)      // NewGenericRowGroupReader[T]
	rewrite  func(f *parquet.File, g int) ([]byte, error)   // GenericWriter[T].WriteRowGroup(row group g) into a new file
	// read to the failure, Reset(), read again (twice): GenericReader[T] (old = false) or the deprecated
	// Reader; limit = number of rows of the file in front of the corrupted page
	readReset func(f *parquet.File, old bool, limit int64, want func() (any, error)) (any, error)
	drop     func(rows any, k int64) any
}

func c13Codec(name string) compress.Codec {
	switch name {
	case "snappy":
		return &parquet.Snappy
	case "gzip":
		return &parquet.Gzip
	case "zstd":
		return &parquet.Zstd
	}
	return &parquet.Uncompressed
}

func c13TypedOf[T any](gen func(cfg c13Config, r *rand.Rand) []T) c13Typed {
	return c13Typed{
		write: func(cfg c13Config) ([]byte, error) {
			rows := gen(cfg, rand.New(rand.NewSource(cfg.Seed)))
			buf := new(bytes.Buffer)
			opts := []parquet.WriterOption{parquet.PageBufferSize(1), parquet.DataPageVersion(cfg.Version), parquet.Compression(c13Codec(cfg.Codec))}
			if cfg.RowGroup > 0 {
				opts = append(opts, parquet.MaxRowsPerRowGroup(int64(cfg.RowGroup)))
			}
			if cfg.SmallDict {
				opts = append(opts, parquet.DictionaryMaxBytes(24))
			}
			w := parquet.NewGenericWriter[T](buf, opts...)
			step := cfg.PageRows
			if step < 1 {
				step = len(rows) + 1
			}
			for i := 0; i < len(rows); i += step {
				j := i + step
				if j > len(rows) {
					j = len(rows)
				}
				if _, err := w.Write(rows[i:j]); err != nil {
					return nil, err
				}
			}
			if err := w.Close(); err != nil {
				return nil, err
			}
			return buf.Bytes(), nil
		},
		readAll: func(f *parquet.File, from int64) (any, error) {
			r := parquet.NewGenericReader[T](f)
			defer r.Close()
			if from >= 0 {
				if err := r.SeekToRow(from); err != nil {
					return nil, err
				}
			}
			var out []T
			buf := make([]T, 37)
			for spins := 0; spins < 1<<16; spins++ {
				n, err := r.Read(buf)
				if err != nil && err != io.EOF {
					return out, err
				}
				out = append(out, buf[:n]...)
				buf = make([]T, 37)
				if err == io.EOF {
					return out, nil
				}
			}
			return out, errors.New("c13: reader does not terminate")
		},
		readFunc: func(data []byte) (any, error) {
			rows, err := parquet.Read[T](bytes.NewReader(data), int64(len(data)))
			return rows, err
		},
		readOld: func(f *parquet.File, from int64) (any, error) {
			r := parquet.NewReader(f)
			defer r.Close()
			if from >= 0 {
				if err := r.SeekToRow(from); err != nil {
					return nil, err
				}
			}
			var out []T
			for spins := 0; spins < 1<<20; spins++ {
				var row T
				err := r.Read(&row)
				if err == io.EOF {
					return out, nil
				}
				if err != nil {
					return out, err
				}
				out = append(out, row)
			}
			return out, errors.New("c13: reader does not terminate")
		},
		readRG: func(f *parquet.File, g int) (any, error) {
			r := parquet.NewGenericRowGroupReader[T](f.RowGroups()[g])
			defer r.Close()
			var out []T
			for spins := 0; spins < 1<<16; spins++ {
				buf := make([]T, 19)
				n, err := r.Read(buf)
				if err != nil && err != io.EOF {
					return out, err
				}
				out = append(out, buf[:n]...)
				if err == io.EOF {
					return out, nil
				}
			}
			return out, errors.New("c13: reader does not terminate")
		},
		readReset: func(f *parquet.File, old bool, limit int64, want func() (any, error)) (any, error) {
			var read func() ([]T, error)
			var reset func()
			if old {
				r := parquet.NewReader(f)
				defer r.Close()
				reset = r.Reset
				read = func() ([]T, error) {
					var out []T
					for spins := 0; spins < 1<<20; spins++ {
						var row T
						err := r.Read(&row)
						if err == io.EOF {
							return out, nil
						}
						if err != nil {
							return out, err
						}
						out = append(out, row)
					}
					return out, errors.New("c13: reader does not terminate")
				}
			} else {
				r := parquet.NewGenericReader[T](f)
				defer r.Close()
				reset = r.Reset
				read = func() ([]T, error) {
					var out []T
					for spins := 0; spins < 1<<16; spins++ {
						buf := make([]T, 37)
						n, err := r.Read(buf)
						if err != nil && err != io.EOF {
							return out, err
						}
						out = append(out, buf[:n]...)
						if err == io.EOF {
							return out, nil
						}
					}
					return out, errors.New("c13: reader does not terminate")
				}
			}
			first, err0 := read()
			if err0 == nil || !errors.Is(err0, parquet.ErrCorrupted) {
				return first, err0
			}
			w, err := want()
			if err != nil {
				return nil, err
			}
			for round := 1; round <= 2; round++ {
				reset()
				again, err := read()
				if !c13IsPrefix(again, w) {
					return nil, &c13RetryErr{"reset", fmt.Sprintf("after Reset() number %d the reader delivered %d rows that are not the pristine rows 0.. (err=%v)", round, len(again), err)}
				}
				if int64(len(again)) > limit {
					return nil, &c13RetryErr{"reset", fmt.Sprintf("after Reset() number %d the reader delivered %d rows, beyond row %d where the corrupted page starts (err=%v)", round, len(again), limit, err)}
				}
				if err == nil {
					return nil, &c13RetryErr{"reset", fmt.Sprintf("after Reset() number %d the reader ran through the corrupted page to the end with no error (%d rows)", round, len(again))}
				}
				if !errors.Is(err, parquet.ErrCorrupted) {
					return nil, &c13RetryErr{"reset", fmt.Sprintf("after Reset() number %d the read reaching the corrupted page failed with an error that is not ErrCorrupted: %v", round, err)}
				}
			}
			return first, err0
		},
		rewrite: func(f *parquet.File, g int) ([]byte, error) {
			buf := new(bytes.Buffer)
			w := parquet.NewGenericWriter[T](buf)
			if _, err := w.WriteRowGroup(f.RowGroups()[g]); err != nil {
				return nil, err
			}
			if err := w.Close(); err != nil {
				return nil, err
			}
			return buf.Bytes(), nil
		},
		drop: func(rows any, k int64) any {
			rs := rows.([]T)
			if int(k) > len(rs) {
				k = int64(len(rs))
			}
			return rs[k:]
		},
	}
}

// schemas and fault enumerators registered by other files of the package (c13_levels.go)
var c13ExtraSchemas = map[string]func() c13Typed{}
var c13ExtraFaults = map[string]func(p c13Page, tier string, r *rand.Rand) []c13Fault{}

func c13TypedFor(cfg c13Config) c13Typed {
	if t, ok := c13ExtraSchemas[cfg.Schema]; ok {
		return t()
	}
	switch cfg.Schema {
	case "flat":
		return c13TypedOf(func(cfg c13Config, r *rand.Rand) []c13Flat {
			rows := make([]c13Flat, cfg.Rows)
			for i := range rows {
				rows[i] = c13GenFlat(r, i)
			}
			return rows
		})
	case "nested":
		return c13TypedOf(func(cfg c13Config, r *rand.Rand) []c13Nested {
			rows := make([]c13Nested, cfg.Rows)
			for i := range rows {
				rows[i] = c13GenNested(r, i)
			}
			return rows
		})
	case "crczero32":
		return c13TypedOf(func(cfg c13Config, r *rand.Rand) []c13Z32 {
			vals := c13ZeroValues(cfg, r)
			rows := make([]c13Z32, len(vals))
			for i := range rows {
				rows[i].V = int32(vals[i])
			}
			return rows
		})
	default:
		return c13TypedOf(func(cfg c13Config, r *rand.Rand) []c13Z64 {
			vals := c13ZeroValues(cfg, r)
			rows := make([]c13Z64, len(vals))
			for i := range rows {
				rows[i].V = vals[i]
			}
			return rows
		})
	}
}

// ---------------------------------------------------------------- page location

type c13Page struct {
	RG, Col, Idx int
	Kind         string // dict | v1 | v2
	HdrOff       int64
	BodyOff      int64
	BodyLen      int
	CRC          uint32 // 0 = the header has no CRC field
	BodyCRC      uint32 // CRC-32 of the body as located in the pristine file (the CRC the format asks for)
	RepLen       int    // v2: repetition_levels_byte_length
	DefLen       int    // v2: definition_levels_byte_length
	DictEnc      bool   // data page whose values are dictionary indexes
	Levels       int    // bytes of levels in the body (v2; v1: -1 unknown but present when the column is nested)
	DataOrd      int    // ordinal among the data pages of the chunk (-1 for the dictionary page)
	FirstRow     int64  // first row (within the row group) of a data page
	NumRows      int64
	ColName      string
	MaxLevels    int
}

func c13Locate(data []byte, f *parquet.File) ([]c13Page, error) {
	var out []c13Page
	md := f.Metadata()
	leaves := f.Schema().Columns()
	for g, rg := range md.RowGroups {
		for ci, cc := range rg.Columns {
			off := cc.MetaData.DataPageOffset
			if cc.MetaData.DictionaryPageOffset != 0 {
				off = cc.MetaData.DictionaryPageOffset
			}
			end := off + cc.MetaData.TotalCompressedSize
			var oi *format.OffsetIndex
			if ois := f.OffsetIndexes(); len(ois) == len(md.RowGroups)*len(rg.Columns) {
				oi = &ois[g*len(rg.Columns)+ci]
			}
			idx, ord := 0, 0
			leaf, _ := f.Schema().Lookup(leaves[ci]...)
			for off < end {
				r := (&thrift.CompactProtocol{}).NewReaderFromBytes(data[off:end])
				h := new(format.PageHeader)
				if err := thrift.NewDecoder(r).Decode(h); err != nil {
					return nil, fmt.Errorf("page header at %d: %w", off, err)
				}
				n := int64(r.BytesRead())
				p := c13Page{RG: g, Col: ci, Idx: idx, HdrOff: off, BodyOff: off + n, BodyLen: int(h.CompressedPageSize), CRC: uint32(h.CRC),
					DataOrd: -1, ColName: strings.Join(leaves[ci], "."), MaxLevels: leaf.MaxDefinitionLevel + leaf.MaxRepetitionLevel}
				switch h.Type {
				case format.DictionaryPage:
					p.Kind = "dict"
				case format.DataPage:
					p.Kind = "v1"
					e := h.DataPageHeader.V.Encoding
					p.DictEnc = e == format.RLEDictionary || e == format.PlainDictionary
					p.Levels = -1
				case format.DataPageV2:
					p.Kind = "v2"
					e := h.DataPageHeaderV2.V.Encoding
					p.DictEnc = e == format.RLEDictionary || e == format.PlainDictionary
					p.Levels = int(h.DataPageHeaderV2.V.RepetitionLevelsByteLength + h.DataPageHeaderV2.V.DefinitionLevelsByteLength)
					p.RepLen, p.DefLen = int(h.DataPageHeaderV2.V.RepetitionLevelsByteLength), int(h.DataPageHeaderV2.V.DefinitionLevelsByteLength)
				default:
					return nil, fmt.Errorf("unexpected page type %v", h.Type)
				}
				if p.Kind != "dict" {
					p.DataOrd = ord
					if oi != nil && ord < len(oi.PageLocations) {
						loc := oi.PageLocations[ord]
						if loc.Offset != off {
							return nil, fmt.Errorf("offset index disagrees with the page walk: %d vs %d", loc.Offset, off)
						}
						p.FirstRow = loc.FirstRowIndex
						if ord+1 < len(oi.PageLocations) {
							p.NumRows = oi.PageLocations[ord+1].FirstRowIndex - loc.FirstRowIndex
						} else {
							p.NumRows = rg.NumRows - loc.FirstRowIndex
						}
					} else {
						return nil, fmt.Errorf("no offset index entry for data page %d of column %d", ord, ci)
					}
					ord++
				}
				if p.BodyOff+int64(p.BodyLen) > end {
					return nil, fmt.Errorf("page body past the end of the chunk")
				}
				p.BodyCRC = crc32.ChecksumIEEE(data[p.BodyOff : p.BodyOff+int64(p.BodyLen)])
				out = append(out, p)
				off += n + int64(p.BodyLen)
				idx++
			}
		}
	}
	return out, nil
}

// ---------------------------------------------------------------- reading through the access paths

type c13Outcome struct {
	Class string // detected | other-error | silent-same | silent-differs | panic | hang
	Err   string
	CRC   bool // the error is the loader's checksum mismatch
}

func c13ErrOutcome(err error) c13Outcome {
	msg := err.Error()
	if len(msg) > 300 {
		msg = msg[:300]
	}
	crc := strings.Contains(msg, "crc32 checksum mismatch")
	var rv *c13RetryErr
	if errors.As(err, &rv) {
		return c13Outcome{"retry-" + rv.stage, msg, false}
	}
	if errors.Is(err, parquet.ErrCorrupted) {
		return c13Outcome{"detected", msg, crc}
	}
	if strings.Contains(msg, "does not terminate") {
		return c13Outcome{"hang", msg, crc}
	}
	return c13Outcome{"other-error", msg, crc}
}

func c13Guard(f func() (any, error)) (res any, err error, panicked string) {
	defer func() {
		if r := recover(); r != nil {
			s := fmt.Sprint(r)
			if i := strings.IndexByte(s, '\n'); i >= 0 {
				s = s[:i]
			}
			panicked = s
		}
	}()
	res, err = f()
	return
}

func c13ReadRows(rows parquet.Rows, from int64) (any, error) {
	defer rows.Close()
	if from >= 0 {
		if err := rows.SeekToRow(from); err != nil {
			return nil, err
		}
	}
	var out []parquet.Row
	buf := make([]parquet.Row, 29)
	for spins := 0; spins < 1<<16; spins++ {
		n, err := rows.ReadRows(buf)
		if err != nil && err != io.EOF {
			return out, err // the rows of the calls that succeeded (the failing call's own rows are not judged)
		}
		for i := 0; i < n; i++ {
			out = append(out, buf[i].Clone())
		}
		if err == io.EOF {
			return out, nil
		}
	}
	return out, errors.New("c13: reader does not terminate")
}

func c13ReadPages(pages parquet.Pages, from int64) (any, error) {
	defer pages.Close()
	if from >= 0 {
		if err := pages.SeekToRow(from); err != nil {
			return nil, err
		}
	}
	var out []string
	for spins := 0; spins < 1<<16; spins++ {
		p, err := pages.ReadPage()
		if err == io.EOF {
			return out, nil
		}
		if err != nil {
			return out, err
		}
		vals := make([]parquet.Value, p.NumValues()+1)
		vr := p.Values()
		total := 0
		for total < len(vals) {
			n, err := vr.ReadValues(vals[total:])
			total += n
			if err == io.EOF {
				break
			}
			if err != nil {
				parquet.Release(p)
				return out, err
			}
			if n == 0 {
				break
			}
		}
		for _, v := range vals[:total] {
			out = append(out, fmt.Sprintf("%+v", v))
		}
		out = append(out, fmt.Sprintf("|rows=%d", p.NumRows()))
		parquet.Release(p)
	}
	return out, errors.New("c13: reader does not terminate")
}

func c13ReadDictionary(chunk parquet.ColumnChunk) (any, error) {
	pages := chunk.Pages()
	defer pages.Close()
	fp, ok := pages.(*parquet.FilePages)
	if !ok {
		return nil, fmt.Errorf("c13: Pages() is %T, not *FilePages", pages)
	}
	d, err := fp.ReadDictionary()
	if err != nil {
		return nil, err
	}
	var out []string
	if d != nil {
		for i := 0; i < d.Len(); i++ {
			out = append(out, fmt.Sprintf("%+v", d.Index(int32(i))))
		}
	}
	return out, nil
}

func c13Same(a, b any) bool {
	ra, ok1 := a.([]parquet.Row)
	rb, ok2 := b.([]parquet.Row)
	if ok1 && ok2 {
		if len(ra) != len(rb) {
			return false
		}
		for i := range ra {
			if !ra[i].Equal(rb[i]) {
				return false
			}
		}
		return true
	}
	return reflect.DeepEqual(a, b)
}

// c13IsPrefix: what the successful reads delivered before an error (got) is a prefix of the pristine
// result (want). Results that are not row / value / typed-row slices (or nil) are not judged.
func c13IsPrefix(got, want any) bool {
	if got == nil {
		return true
	}
	switch g := got.(type) {
	case []parquet.Row:
		w, ok := want.([]parquet.Row)
		return !ok || (len(g) <= len(w) && c13Same(g, w[:len(g)]))
	case []string:
		w, ok := want.([]string)
		if !ok {
			return true
		}
		if len(g) > len(w) {
			return false
		}
		for i := range g {
			if g[i] != w[i] {
				return false
			}
		}
		return true
	}
	gv, wv := reflect.ValueOf(got), reflect.ValueOf(want)
	if gv.Kind() != reflect.Slice || wv.Kind() != reflect.Slice || gv.Type() != wv.Type() {
		return true
	}
	if gv.Len() > wv.Len() {
		return false
	}
	return gv.Len() == 0 || reflect.DeepEqual(gv.Interface(), wv.Slice(0, gv.Len()).Interface())
}

// ---------------------------------------------------------------- retries on the same reader

// c13RetryErr: the corruption was reported, but a later read on the same reader did not keep to
// "reports it again or returns the pristine rows" (stage: noseek | into | past | back)
type c13RetryErr struct{ stage, what string }

func (e *c13RetryErr) Error() string { return "retry/" + e.stage + ": " + e.what }

func c13DrainRows(rows parquet.Rows) ([]parquet.Row, error) {
	var out []parquet.Row
	buf := make([]parquet.Row, 29)
	for spins := 0; spins < 1<<16; spins++ {
		n, err := rows.ReadRows(buf)
		for i := 0; i < n; i++ {
			out = append(out, buf[i].Clone())
		}
		if err == io.EOF {
			return out, nil
		}
		if err != nil {
			return out, err
		}
	}
	return out, errors.New("c13: reader does not terminate")
}

// c13RetryRows: read the row group until the corruption is reported, then on the SAME reader
// (a) read again without seeking: must fail again (the position is undefined),
// (b) seek to row k inside the faulted page and read: must report the corruption again,
// (c) seek to row k2 behind the faulted data page (k2 < 0: none) and read: the pristine rows from k2,
// (d) seek back to k: reported again.
// Returns the first error when everything conforms, a *c13RetryErr otherwise.
func c13RetryRows(rows parquet.Rows, k, k2 int64, earlier []int64, firstRow int64, strictPast bool, pristineFrom func(int64) (any, error)) (any, error) {
	defer rows.Close()
	got, err0 := c13DrainRows(rows)
	if err0 == nil {
		return got, nil // never reported: judged like a sequential read
	}
	if !errors.Is(err0, parquet.ErrCorrupted) {
		return nil, err0
	}
	// seek to an EARLIER page (the one cached when the read failed, and others) and read forward
	// THROUGH the corrupted page: every row delivered is the pristine row with its own number, and the
	// read that reaches the corrupted page reports the corruption
	through := func() error {
		for _, k0 := range earlier {
			want, err := pristineFrom(k0)
			if err != nil {
				return err
			}
			if err := rows.SeekToRow(k0); err != nil {
				return &c13RetryErr{"through", fmt.Sprintf("SeekToRow(%d) refused: %v", k0, err)}
			}
			more, err := c13DrainRows(rows)
			wr := want.([]parquet.Row)
			if len(more) > len(wr) || !c13Same(more, wr[:len(more)]) {
				return &c13RetryErr{"through", fmt.Sprintf("after SeekToRow(%d) before the corrupted page the read delivered rows that are not the pristine rows %d..", k0, k0)}
			}
			if int64(len(more)) > firstRow-k0 {
				return &c13RetryErr{"through", fmt.Sprintf("after SeekToRow(%d) the read delivered %d rows, beyond row %d where the corrupted page starts", k0, len(more), firstRow)}
			}
			if err == nil {
				return &c13RetryErr{"through", fmt.Sprintf("after SeekToRow(%d) the read ran through the corrupted page to the end with no error", k0)}
			}
			if !errors.Is(err, parquet.ErrCorrupted) {
				return &c13RetryErr{"through", fmt.Sprintf("after SeekToRow(%d) the read reaching the corrupted page failed with an error that is not ErrCorrupted: %v", k0, err)}
			}
		}
		return nil
	}
	// Reset (rowGroupRows, and whatever else offers it: the optimisation GenericReader.Reset / Reader.Reset
	// rely on) is the other way of repositioning a reader after a failure: the read that follows starts at
	// row 0 again: pristine rows in front of the corrupted page, then the corruption is reported again
	reset := func(stage string) error {
		rs, ok := rows.(interface{ Reset() })
		if !ok {
			return nil
		}
		want, err := pristineFrom(0)
		if err != nil {
			return err
		}
		rs.Reset()
		more, err := c13DrainRows(rows)
		wr := want.([]parquet.Row)
		if len(more) > len(wr) || !c13Same(more, wr[:len(more)]) {
			return &c13RetryErr{stage, fmt.Sprintf("after Reset() the read delivered %d rows that are not the pristine rows 0.. (err=%v)", len(more), err)}
		}
		if int64(len(more)) > firstRow {
			return &c13RetryErr{stage, fmt.Sprintf("after Reset() the read delivered %d rows, beyond row %d where the corrupted page starts (err=%v)", len(more), firstRow, err)}
		}
		if err == nil {
			return &c13RetryErr{stage, fmt.Sprintf("after Reset() the read ran through the corrupted page to the end with no error (%d rows)", len(more))}
		}
		if !errors.Is(err, parquet.ErrCorrupted) {
			return &c13RetryErr{stage, fmt.Sprintf("after Reset() the read reaching the corrupted page failed with an error that is not ErrCorrupted: %v", err)}
		}
		return nil
	}
	// straight after the first failure (the columns in front of the failing one have consumed a batch,
	// nothing was handed out yet when the corruption sits in the first page)
	if err := reset("reset"); err != nil {
		return nil, err
	}
	if err := through(); err != nil {
		return nil, err
	}
	if more, err := c13DrainRows(rows); err == nil {
		return nil, &c13RetryErr{"noseek", fmt.Sprintf("a read without a seek after the failed one returned %d rows and no error", len(more))}
	}
	into := func(stage string) error {
		if err := rows.SeekToRow(k); err != nil {
			return &c13RetryErr{stage, fmt.Sprintf("SeekToRow(%d) refused: %v", k, err)}
		}
		more, err := c13DrainRows(rows)
		if err == nil {
			return &c13RetryErr{stage, fmt.Sprintf("after SeekToRow(%d) into the corrupted page the read returned %d rows and no error", k, len(more))}
		}
		if !errors.Is(err, parquet.ErrCorrupted) {
			return &c13RetryErr{stage, fmt.Sprintf("after SeekToRow(%d) the read failed with an error that is not ErrCorrupted: %v", k, err)}
		}
		return nil
	}
	if err := into("into"); err != nil {
		return nil, err
	}
	if k2 >= 0 {
		want, err := pristineFrom(k2)
		if err != nil {
			return nil, err
		}
		if err := rows.SeekToRow(k2); err != nil {
			return nil, &c13RetryErr{"past", fmt.Sprintf("SeekToRow(%d) refused: %v", k2, err)}
		}
		more, err := c13DrainRows(rows)
		// the property allows "reports it again" here: the async reader keeps returning the first fatal
		// error whatever is sought (strictPast = false); the synchronous reader must deliver the rows
		if err != nil && (strictPast || !errors.Is(err, parquet.ErrCorrupted)) {
			return nil, &c13RetryErr{"past", fmt.Sprintf("after SeekToRow(%d) behind the corrupted page the read failed: %v", k2, err)}
		}
		if err != nil && (len(more) > len(want.([]parquet.Row)) || !c13Same(more, want.([]parquet.Row)[:len(more)])) {
			return nil, &c13RetryErr{"past", fmt.Sprintf("after SeekToRow(%d) behind the corrupted page the read delivered other rows before failing again", k2)}
		}
		if err == nil && !c13Same(more, want) {
			return nil, &c13RetryErr{"past", fmt.Sprintf("after SeekToRow(%d) behind the corrupted page the read returned other rows than the pristine ones", k2)}
		}
		if err := into("back"); err != nil {
			return nil, err
		}
	}
	if err := through(); err != nil {
		return nil, err
	}
	// Reset after seeks (rowIndex is then wherever the last seek left it)
	if err := reset("reset-after-seek"); err != nil {
		return nil, err
	}
	return nil, err0
}

func c13DrainPages(pages parquet.Pages) ([]string, error) {
	var out []string
	for spins := 0; spins < 1<<16; spins++ {
		p, err := pages.ReadPage()
		if err == io.EOF {
			return out, nil
		}
		if err != nil {
			return out, err
		}
		vals := make([]parquet.Value, p.NumValues()+1)
		vr := p.Values()
		total := 0
		for total < len(vals) {
			n, err := vr.ReadValues(vals[total:])
			total += n
			if err != nil || n == 0 {
				break
			}
		}
		for _, v := range vals[:total] {
			out = append(out, fmt.Sprintf("%+v", v))
		}
		out = append(out, fmt.Sprintf("|rows=%d", p.NumRows()))
		parquet.Release(p)
	}
	return out, errors.New("c13: reader does not terminate")
}

// c13RetryPages: the same at the level of one column chunk (FilePages). A read without a seek after
// the failure may deliver the next page (the position is undefined), so it is only demanded that such a
// page is a pristine one (readOn) — and that the seeks that follow it behave as after the failure itself.
func c13RetryPages(pages parquet.Pages, k, k2 int64, earlier []int64, firstRow int64, badOrd int, strictPast bool, pristineFrom func(int64) (any, error)) (any, error) {
	defer pages.Close()
	got, err0 := c13DrainPages(pages)
	if err0 == nil {
		return got, nil
	}
	if !errors.Is(err0, parquet.ErrCorrupted) {
		return nil, err0
	}
	// A consumer that tolerates the failure and READS ON without seeking (the position is undefined
	// then, so which page comes is not judged) must still never be handed corrupted data: whatever page
	// is delivered holds the values of a pristine page other than the corrupted one (or the tail of one:
	// a pending skip may cut its front), and the reader keeps to the contract of the stages below after
	// any number of such reads.
	readOn := func(stage string, m int) error {
		want, err := pristineFrom(0)
		if err != nil {
			return err
		}
		var pristine [][]string // values per data page, in order
		var cur []string
		for _, v := range want.([]string) {
			if strings.HasPrefix(v, "|rows=") {
				pristine = append(pristine, cur)
				cur = nil
				continue
			}
			cur = append(cur, v)
		}
		for i := 0; i < m; i++ {
			p, err := pages.ReadPage()
			if err != nil {
				return nil // io.EOF or a failure: nothing was delivered
			}
			vals := make([]parquet.Value, p.NumValues()+1)
			vr := p.Values()
			total := 0
			for total < len(vals) {
				n, err := vr.ReadValues(vals[total:])
				total += n
				if err != nil || n == 0 {
					break
				}
			}
			var gotv []string
			for _, v := range vals[:total] {
				gotv = append(gotv, fmt.Sprintf("%+v", v))
			}
			parquet.Release(p)
			ok := false
			for ord, pv := range pristine {
				if ord == badOrd || len(gotv) > len(pv) {
					continue
				}
				if len(gotv) == 0 || reflect.DeepEqual(gotv, pv[len(pv)-len(gotv):]) {
					ok = true
					break
				}
			}
			if !ok {
				return &c13RetryErr{stage, fmt.Sprintf("ReadPage number %d after the failed one (no seek) delivered %d values that are not the values (or a tail) of any pristine page other than the corrupted one", i+1, len(gotv))}
			}
		}
		return nil
	}
	through := func() error {
		for _, k0 := range earlier {
			want, err := pristineFrom(k0)
			if err != nil {
				return err
			}
			if err := pages.SeekToRow(k0); err != nil {
				return &c13RetryErr{"through", fmt.Sprintf("SeekToRow(%d) refused: %v", k0, err)}
			}
			more, err := c13DrainPages(pages)
			ws := want.([]string)
			if len(more) > len(ws) || (len(more) > 0 && !reflect.DeepEqual(more, ws[:len(more)])) {
				return &c13RetryErr{"through", fmt.Sprintf("after SeekToRow(%d) before the corrupted page ReadPage delivered values that are not the pristine ones from row %d", k0, k0)}
			}
			var nrows int64
			for _, v := range more {
				var n int64
				if _, e := fmt.Sscanf(v, "|rows=%d", &n); e == nil {
					nrows += n
				}
			}
			if nrows > firstRow-k0 {
				return &c13RetryErr{"through", fmt.Sprintf("after SeekToRow(%d) ReadPage delivered %d rows, beyond row %d where the corrupted page starts", k0, nrows, firstRow)}
			}
			if err == nil {
				return &c13RetryErr{"through", fmt.Sprintf("after SeekToRow(%d) ReadPage ran through the corrupted page to the end with no error", k0)}
			}
			if !errors.Is(err, parquet.ErrCorrupted) {
				return &c13RetryErr{"through", fmt.Sprintf("after SeekToRow(%d) the ReadPage reaching the corrupted page failed with an error that is not ErrCorrupted: %v", k0, err)}
			}
		}
		return nil
	}
	if err := through(); err != nil {
		return nil, err
	}
	into := func(stage string) error {
		if err := pages.SeekToRow(k); err != nil {
			return &c13RetryErr{stage, fmt.Sprintf("SeekToRow(%d) refused: %v", k, err)}
		}
		more, err := c13DrainPages(pages)
		if err == nil {
			return &c13RetryErr{stage, fmt.Sprintf("after SeekToRow(%d) into the corrupted page ReadPage returned %d values and no error", k, len(more))}
		}
		if !errors.Is(err, parquet.ErrCorrupted) {
			return &c13RetryErr{stage, fmt.Sprintf("after SeekToRow(%d) ReadPage failed with an error that is not ErrCorrupted: %v", k, err)}
		}
		return nil
	}
	// read on once right after the first failure, then seek into the corrupted page
	if err := readOn("readon", 1); err != nil {
		return nil, err
	}
	if err := into("readon-into"); err != nil {
		return nil, err
	}
	if err := into("into"); err != nil {
		return nil, err
	}
	if k2 >= 0 {
		want, err := pristineFrom(k2)
		if err != nil {
			return nil, err
		}
		// (the reader has just failed again) read on, then seek behind the corrupted page
		if err := readOn("readon", 1); err != nil {
			return nil, err
		}
		if err := pages.SeekToRow(k2); err != nil {
			return nil, &c13RetryErr{"past", fmt.Sprintf("SeekToRow(%d) refused: %v", k2, err)}
		}
		more, err := c13DrainPages(pages)
		if err != nil && (strictPast || !errors.Is(err, parquet.ErrCorrupted)) {
			return nil, &c13RetryErr{"past", fmt.Sprintf("after SeekToRow(%d) behind the corrupted page ReadPage failed: %v", k2, err)}
		}
		if ws := want.([]string); err != nil && (len(more) > len(ws) || (len(more) > 0 && !reflect.DeepEqual(more, ws[:len(more)]))) {
			return nil, &c13RetryErr{"past", fmt.Sprintf("after SeekToRow(%d) behind the corrupted page ReadPage delivered other values before failing again", k2)}
		}
		if err == nil && !reflect.DeepEqual(any(more), want) {
			return nil, &c13RetryErr{"past", fmt.Sprintf("after SeekToRow(%d) behind the corrupted page the pages hold other values than the pristine ones", k2)}
		}
		if err := into("back"); err != nil {
			return nil, err
		}
	}
	// read on twice (to the end of the chunk when the corrupted page is its last or last but one), then
	// seek in front of the corrupted page and read through it, then into it once more
	if err := readOn("readon", 2); err != nil {
		return nil, err
	}
	if err := through(); err != nil {
		return nil, err
	}
	if err := readOn("readon", 2); err != nil {
		return nil, err
	}
	if err := into("readon-into"); err != nil {
		return nil, err
	}
	return nil, err0
}

// an access: how to read, and which rows it covers
type c13Access struct {
	Path  string // name of the access path (part of the failure key)
	K     int64  // row sought within the row group (-1: none)
	Model string // loader path of the Lean mirror that loads the faulted page ("" = not compared)
	run   func(data []byte) (any, error)
}

type c13Env struct {
	cfg    c13Config
	typed  c13Typed
	data   []byte
	pages  []c13Page
	rgRow  []int64 // first global row of each row group
	rgRows []int64 // rows of each row group
	base   sync.Map
}

func c13Open(data []byte, opts ...parquet.FileOption) (*parquet.File, error) {
	return parquet.OpenFile(bytes.NewReader(data), int64(len(data)), opts...)
}

func (e *c13Env) accesses(p c13Page, r *rand.Rand) []c13Access {
	g, col := p.RG, p.Col
	var out []c13Access
	add := func(path string, k int64, model string, run func(data []byte) (any, error)) {
		out = append(out, c13Access{path, k, model, run})
	}
	seq := "sequential"
	add("rows-seq", -1, seq, func(d []byte) (any, error) {
		f, err := c13Open(d)
		if err != nil {
			return nil, err
		}
		return c13ReadRows(f.RowGroups()[g].Rows(), -1)
	})
	add("pages-seq", -1, seq, func(d []byte) (any, error) {
		f, err := c13Open(d)
		if err != nil {
			return nil, err
		}
		return c13ReadPages(f.RowGroups()[g].ColumnChunks()[col].Pages(), -1)
	})
	add("generic-seq", -1, seq, func(d []byte) (any, error) {
		f, err := c13Open(d)
		if err != nil {
			return nil, err
		}
		return e.typed.readAll(f, -1)
	})
	add("read-func", -1, seq, func(d []byte) (any, error) { return e.typed.readFunc(d) })
	add("async-rows-seq", -1, "", func(d []byte) (any, error) {
		f, err := c13Open(d, parquet.FileReadMode(parquet.ReadModeAsync))
		if err != nil {
			return nil, err
		}
		return c13ReadRows(f.RowGroups()[g].Rows(), -1)
	})
	if p.Kind == "dict" {
		add("read-dictionary", -1, "readDictionaryAPI", func(d []byte) (any, error) {
			f, err := c13Open(d)
			if err != nil {
				return nil, err
			}
			return c13ReadDictionary(f.RowGroups()[g].ColumnChunks()[col])
		})
	}
	// rows to seek to: inside the faulted data page, or (dictionary page) inside dictionary-encoded
	// data pages of the chunk
	type target struct {
		k   int64
		ord int
	}
	var ks []target
	if p.Kind != "dict" {
		if p.NumRows > 0 {
			ks = append(ks, target{p.FirstRow, p.DataOrd})
			if p.NumRows > 1 {
				ks = append(ks, target{p.FirstRow + p.NumRows - 1, p.DataOrd})
			}
			if p.NumRows > 2 {
				ks = append(ks, target{p.FirstRow + 1 + r.Int63n(p.NumRows-2), p.DataOrd})
			}
		}
	} else {
		var enc []c13Page
		for _, q := range e.pages {
			if q.RG == g && q.Col == col && q.DictEnc && q.NumRows > 0 {
				enc = append(enc, q)
			}
		}
		if len(enc) > 0 {
			first, last := enc[0], enc[len(enc)-1]
			ks = append(ks, target{first.FirstRow + first.NumRows - 1, first.DataOrd})
			if len(enc) > 1 {
				ks = append(ks, target{last.FirstRow, last.DataOrd})
				mid := enc[r.Intn(len(enc))]
				ks = append(ks, target{mid.FirstRow + r.Int63n(mid.NumRows), mid.DataOrd})
			}
		}
	}
	var seekRows []int64
	for _, t := range ks {
		seekRows = append(seekRows, t.k)
	}
	e.entryAccesses(p, seekRows, add)
	seen := map[int64]bool{}
	for _, t := range ks {
		if seen[t.k] {
			continue
		}
		seen[t.k] = true
		k := t.k
		// which loader path brings the faulted page in (mirror): a data page after a seek -> afterSeek;
		// the dictionary page -> read in sequence when the seek targets data page 0 of a fresh reader
		// (SeekToRow does not move), lazily through readDictionary otherwise (since 5000be7 all of
		// them end in readPage and verify; the path names keep the comparison per route)
		model, modelNoIndex := "afterSeek", "afterSeek"
		if p.Kind == "dict" {
			model, modelNoIndex = "lazyDictionary", "lazyDictionary"
			if t.ord == 0 {
				model = "sequential"
			}
		}
		add("rows-seek", k, model, func(d []byte) (any, error) {
			f, err := c13Open(d)
			if err != nil {
				return nil, err
			}
			return c13ReadRows(f.RowGroups()[g].Rows(), k)
		})
		add("pages-seek", k, model, func(d []byte) (any, error) {
			f, err := c13Open(d)
			if err != nil {
				return nil, err
			}
			return c13ReadPages(f.RowGroups()[g].ColumnChunks()[col].Pages(), k)
		})
		add("rows-seek-noindex", k, modelNoIndex, func(d []byte) (any, error) {
			f, err := c13Open(d, parquet.SkipPageIndex(true))
			if err != nil {
				return nil, err
			}
			return c13ReadRows(f.RowGroups()[g].Rows(), k)
		})
		add("generic-seek", k, "", func(d []byte) (any, error) {
			f, err := c13Open(d)
			if err != nil {
				return nil, err
			}
			return e.typed.readAll(f, e.rgRow[g]+k)
		})
		add("async-rows-seek", k, "", func(d []byte) (any, error) {
			f, err := c13Open(d, parquet.FileReadMode(parquet.ReadModeAsync))
			if err != nil {
				return nil, err
			}
			return c13ReadRows(f.RowGroups()[g].Rows(), k)
		})
		// retries on the same reader after the corruption was reported (corrupted_stays_reported);
		// one seek target per fault (for a data page its last row: the retry seek skips inside the page)
		if len(seen) > 1 {
			continue
		}
		kr := k
		if p.Kind != "dict" {
			kr = p.FirstRow + p.NumRows - 1
		}
		k2 := int64(-1)
		if p.Kind != "dict" && p.FirstRow+p.NumRows < e.rgRows[g] {
			k2 = p.FirstRow + p.NumRows
		}
		// earlier rows to seek back to: in the page just before the faulted one (the page cached when
		// the sequential read failed): its first and a later row; row 0; a row of a page in between
		var earlier []int64
		if p.Kind != "dict" && p.DataOrd > 0 {
			var before []c13Page
			for _, q := range e.pages {
				if q.RG == g && q.Col == col && q.DataOrd >= 0 && q.DataOrd < p.DataOrd && q.NumRows > 0 {
					before = append(before, q)
				}
			}
			if len(before) > 0 {
				prev := before[len(before)-1]
				earlier = append(earlier, prev.FirstRow, prev.FirstRow+prev.NumRows-1)
				if prev.FirstRow != 0 {
					earlier = append(earlier, 0)
				}
				if len(before) > 2 {
					mid := before[1+r.Intn(len(before)-2)]
					earlier = append(earlier, mid.FirstRow+r.Int63n(mid.NumRows))
				}
			}
		}
		rowsFrom := func(from int64) (any, error) {
			return e.pristine(fmt.Sprintf("rows-from/%d/%d", g, from), func() (any, error) {
				pf, err := c13Open(e.data)
				if err != nil {
					return nil, err
				}
				return c13ReadRows(pf.RowGroups()[g].Rows(), from)
			})
		}
		pagesFrom := func(from int64) (any, error) {
			return e.pristine(fmt.Sprintf("pages-from/%d/%d/%d", g, col, from), func() (any, error) {
				pf, err := c13Open(e.data)
				if err != nil {
					return nil, err
				}
				v, err := c13ReadPages(pf.RowGroups()[g].ColumnChunks()[col].Pages(), from)
				if err != nil {
					return nil, err
				}
				return any(v.([]string)), nil
			})
		}
		for _, mode := range []string{"", "async-"} {
			var opts []parquet.FileOption
			if mode != "" {
				opts = append(opts, parquet.FileReadMode(parquet.ReadModeAsync))
			}
			add(mode+"rows-retry", kr, "", func(d []byte) (any, error) {
				f, err := c13Open(d, opts...)
				if err != nil {
					return nil, err
				}
				return c13RetryRows(f.RowGroups()[g].Rows(), kr, k2, earlier, p.FirstRow, mode == "", rowsFrom)
			})
			add(mode+"pages-retry", kr, "", func(d []byte) (any, error) {
				f, err := c13Open(d, opts...)
				if err != nil {
					return nil, err
				}
				return c13RetryPages(f.RowGroups()[g].ColumnChunks()[col].Pages(), kr, k2, earlier, p.FirstRow, p.DataOrd, mode == "", pagesFrom)
			})
		}
	}
	return out
}

// concatScripts: one script per row group for the column of p, as the mirror's c13.concat takes them:
// 'p' per data page, 'x' where the loader rejects (the faulted page when its header carries a CRC; a
// faulted dictionary page fails the first read of its chunk)
func (e *c13Env) concatScripts(p c13Page) string {
	var parts []string
	for g := range e.rgRows {
		var b strings.Builder
		for _, q := range e.pages {
			if q.RG != g || q.Col != p.Col {
				continue
			}
			bad := g == p.RG && q.Idx == p.Idx && p.CRC != 0
			switch {
			case bad:
				b.WriteByte('x')
			case q.Kind != "dict":
				b.WriteByte('p')
			}
			if bad {
				break
			}
		}
		if b.Len() == 0 {
			b.WriteByte('-')
		}
		parts = append(parts, b.String())
	}
	return strings.Join(parts, "/")
}

// pristine memoises a read of the unaltered file
func (e *c13Env) pristine(key string, f func() (any, error)) (any, error) {
	if v, ok := e.base.Load("p/" + key); ok {
		return v, nil
	}
	v, err := f()
	if err != nil {
		return nil, err
	}
	e.base.Store("p/"+key, v)
	return v, nil
}

// baseline: the same access on the pristine file (memoised)
func (e *c13Env) baseline(a c13Access, p c13Page) (any, error) {
	key := fmt.Sprintf("%s/%d/%d/%d", a.Path, p.RG, p.Col, a.K)
	if !strings.Contains(a.Path, "pages") && !strings.HasPrefix(a.Path, "value-reader") && a.Path != "print-chunk" && a.Path != "read-dictionary" {
		key = fmt.Sprintf("%s/%d/-/%d", a.Path, p.RG, a.K)
	}
	if v, ok := e.base.Load(key); ok {
		return v, nil
	}
	v, err, pn := c13Guard(func() (any, error) { return a.run(e.data) })
	if pn != "" {
		return nil, errors.New("panic on the pristine file: " + pn)
	}
	if err != nil {
		return nil, err
	}
	e.base.Store(key, v)
	return v, nil
}

// c13Key: stable signature of the failing situation, by root cause where it is known. The
// dict-page-crc-unverified-* keys are finding F4 (repaired by 5000be7): they fire again if a way to
// the dictionary page stops comparing the checksum. crc-zero-omitted is the known finding F8.
func c13Key(p c13Page, a c13Access, class string) string {
	kind := p.Kind
	if kind != "dict" {
		kind = "data-" + kind
	}
	// a panic (recovered, or one that takes the process down from a library goroutine) is a defect of
	// its own even where the missing verification is what lets the corrupted bytes through
	sfx := ""
	if class == "panic" || class == "crash" {
		sfx = "/panic"
	}
	if strings.HasPrefix(class, "retry-") && p.CRC != 0 {
		// after the corruption was reported once, a later read on the same reader misbehaved
		return class + "-" + kind + "-" + a.Path
	}
	switch {
	case p.CRC == 0 && p.BodyCRC != 0:
		// NOT F8: the CRC-32 of the body is not 0, yet the header carries no CRC field — the writer left
		// the checksum out (or computed it over something else that sums to 0)
		return c13AbsentKey(p) + sfx
	case p.CRC == 0:
		return "crc-zero-omitted" + sfx
	case c13IsEntryPath(a.Path):
		// a layer above FilePages: named by the entry point whatever the page kind's own history
	case p.Kind == "dict" && a.Path == "read-dictionary":
		return "dict-page-crc-unverified-readdictionary" + sfx
	case p.Kind == "dict" && a.K >= 0:
		return "dict-page-crc-unverified-after-seek" + sfx
	}
	what := "undetected"
	switch class {
	case "panic", "hang":
		what = class
	case "crash":
		what = "panic"
	case "other-error":
		what = "wrong-error"
	case "wrong-values-before-error":
		what = class
	}
	return what + "-" + kind + "-" + a.Path
}

// ---------------------------------------------------------------- fault enumeration

func c13Faults(p c13Page, tier string, r *rand.Rand) []c13Fault {
	nbits := 8 * p.BodyLen
	if nbits == 0 {
		return nil
	}
	var out []c13Fault
	mk := func(start, width int) {
		if start < 0 || width < 1 || start+width > nbits {
			return
		}
		m := c13Burst((start%8+width+7)/8, start%8, width, r)
		out = append(out, c13Fault{RG: p.RG, Col: p.Col, Page: p.Idx, Bit: start, Width: width, Mask: core.Hex(m)})
	}
	thorough := tier == "thorough"
	// single bits
	pos := map[int]bool{}
	if thorough && p.BodyLen <= 32 {
		for i := 0; i < nbits; i++ {
			pos[i] = true
		}
	} else {
		for _, i := range []int{0, 1, 7, 8, 9, nbits - 9, nbits - 8, nbits - 1} {
			pos[i] = true
		}
		if p.Levels > 0 {
			for _, i := range []int{8*p.Levels - 1, 8 * p.Levels} {
				pos[i] = true
			}
		}
		n := 5
		if thorough {
			n = 40
		}
		for i := 0; i < n; i++ {
			pos[r.Intn(nbits)] = true
		}
	}
	var ps []int
	for i := range pos {
		ps = append(ps, i)
	}
	sort.Ints(ps)
	for _, i := range ps {
		mk(i, 1)
	}
	// bursts of 2..32 bits
	widths := []int{2, 8, 9, 17, 31, 32}
	if thorough {
		widths = nil
		for w := 2; w <= 32; w++ {
			widths = append(widths, w)
		}
	}
	for _, w := range widths {
		if w > nbits {
			w = nbits
		}
		if w < 2 {
			continue
		}
		mk(r.Intn(nbits-w+1), w)
		if thorough && w != 2 && w != 8 && w != 9 && w != 17 && w != 31 && w != 32 {
			continue // thorough: every width once; the boundary placements stay with the six widths of quick
		}
		switch r.Intn(3) {
		case 0:
			mk(0, w)
		case 1:
			mk(nbits-w, w)
		}
	}
	if !thorough {
		mk(r.Intn(nbits), 2+r.Intn(31))
	}
	return out
}

func c13Apply(data []byte, p c13Page, f c13Fault) ([]byte, []byte, error) {
	m, err := hexDecode(f.Mask)
	if err != nil {
		return nil, nil, err
	}
	start := f.Bit / 8
	if start < 0 || start+len(m) > p.BodyLen {
		return nil, nil, fmt.Errorf("mask outside the page body")
	}
	bad := bytes.Clone(data)
	for i, b := range m {
		bad[p.BodyOff+int64(start+i)] ^= b
	}
	return bad, bad[p.BodyOff : p.BodyOff+int64(p.BodyLen)], nil
}

func hexDecode(s string) ([]byte, error) {
	if s == "-" {
		return nil, nil
	}
	if len(s)%2 != 0 {
		return nil, errors.New("odd hex")
	}
	out := make([]byte, len(s)/2)
	for i := range out {
		var b byte
		if _, err := fmt.Sscanf(s[2*i:2*i+2], "%02x", &b); err != nil {
			return nil, err
		}
		out[i] = b
	}
	return out, nil
}

// ---------------------------------------------------------------- the worker

type c13Collector struct {
	mu    sync.Mutex
	out   c13Out
	fails map[string][]c13Ranked // per layer+key: the two smallest by rank (deterministic under threading)
}

type c13Ranked struct {
	rank string
	f    core.Failure
}

func (c *c13Collector) hist(name, key string) {
	c.mu.Lock()
	m := c.out.Hist[name]
	if m == nil {
		m = map[string]int64{}
		c.out.Hist[name] = m
	}
	m[key]++
	c.mu.Unlock()
}

func (c *c13Collector) fail(layer, key, what string, detail any) {
	c.mu.Lock()
	k := layer + " " + key
	rank := "0" + what // examples through the plain synchronous paths first
	if strings.Contains(what, "async-") || strings.Contains(what, "noindex") {
		rank = "1" + what
	}
	l := append(c.fails[k], c13Ranked{rank, core.Failure{Layer: layer, Key: key, What: what, Detail: detail}})
	sort.SliceStable(l, func(i, j int) bool { return l[i].rank < l[j].rank })
	if len(l) > 2 {
		l = l[:2]
	}
	c.fails[k] = l
	c.mu.Unlock()
}

func (c *c13Collector) finish() {
	var ks []string
	for k := range c.fails {
		ks = append(ks, k)
	}
	sort.Strings(ks)
	for _, k := range ks {
		for _, r := range c.fails[k] {
			c.out.Failures = append(c.out.Failures, r.f)
		}
	}
	sort.Slice(c.out.Cases, func(i, j int) bool { return c.out.Cases[i].Canon < c.out.Cases[j].Canon })
}

func c13FlipsWorker(args []string) int {
	if len(args) < 1 {
		return 2
	}
	var job c13Job
	if err := json.Unmarshal([]byte(args[0]), &job); err != nil {
		fmt.Fprintln(os.Stderr, "c13flips: bad job:", err)
		return 2
	}
	col := &c13Collector{fails: map[string][]c13Ranked{}}
	col.out.Hist = map[string]map[string]int64{}
	c13RunJob(job, col)
	col.finish()
	b, err := json.Marshal(&col.out)
	if err != nil {
		fmt.Fprintln(os.Stderr, "c13flips:", err)
		return 2
	}
	os.Stdout.Write(b)
	return 0
}

func c13RunJob(job c13Job, col *c13Collector) {
	cfg := job.Config
	env := &c13Env{cfg: cfg, typed: c13TypedFor(cfg)}
	fail := func(layer, key, what string, detail map[string]any) {
		if detail == nil {
			detail = map[string]any{}
		}
		detail["config"] = cfg.canon()
		col.fail(layer, key, what, detail)
	}
	data, err := env.typed.write(cfg)
	if err != nil {
		fail("L2", "cannot-write-file", "the harness could not write its test file: "+err.Error(), nil)
		return
	}
	env.data = data
	f, err := c13Open(data)
	if err != nil {
		fail("L2", "cannot-open-pristine", err.Error(), nil)
		return
	}
	env.pages, err = c13Locate(data, f)
	if err != nil {
		fail("L2", "cannot-locate-pages", err.Error(), nil)
		return
	}
	var acc int64
	for _, rg := range f.Metadata().RowGroups {
		env.rgRow = append(env.rgRow, acc)
		env.rgRows = append(env.rgRows, rg.NumRows)
		acc += rg.NumRows
	}
	col.out.Pages = len(env.pages)
	perChunk := map[[2]int]int{}
	for _, p := range env.pages {
		perChunk[[2]int{p.RG, p.Col}]++
		// the locator must agree with the writer: stored CRC = CRC of the located body
		body := data[p.BodyOff : p.BodyOff+int64(p.BodyLen)]
		if sum := crc32.ChecksumIEEE(body); sum != p.CRC {
			fail("L2", "stored-crc-differs", "the CRC in a page header is not the CRC-32 of the page body the harness located",
				map[string]any{"page": p, "stored": p.CRC, "computed": sum})
		}
		if p.CRC == 0 {
			col.hist("flips.header_crc", "zero(absent)")
		} else {
			col.hist("flips.header_crc", "present")
		}
		col.hist("flips.page_kind", p.Kind+"/"+cfg.Codec)
	}
	if strings.HasPrefix(cfg.Schema, "crczero") {
		for _, p := range env.pages {
			if p.CRC != 0 {
				fail("L2", "crc-zero-construction-failed", "the constructed page does not have CRC 0", map[string]any{"page": p})
			}
		}
	}
	var d *drv.Driver
	if job.Driver != "" {
		d, err = drv.Start(job.Driver)
		if err != nil {
			fail("L2", "driver-unavailable", err.Error(), nil)
			d = nil
		} else {
			defer d.Close()
		}
	}
	// work list
	type item struct {
		p     c13Page
		f     c13Fault
		first bool // first enumerated fault of its page
	}
	var items []item
	r := rand.New(rand.NewSource(cfg.Seed ^ 0x5eed))
	if len(job.Faults) > 0 {
		for _, ft := range job.Faults {
			for _, p := range env.pages {
				if p.RG == ft.RG && p.Col == ft.Col && p.Idx == ft.Page {
					items = append(items, item{p, ft, true})
				}
			}
		}
	} else {
		for _, p := range env.pages {
			tier := job.Tier
			if strings.HasPrefix(cfg.Schema, "crczero") {
				tier = "thorough" // every bit of these small pages
			}
			faults := c13Faults
			if fn := c13ExtraFaults[cfg.Schema]; fn != nil {
				faults = fn
			}
			for k, ft := range faults(p, tier, r) {
				items = append(items, item{p, ft, k == 0})
			}
		}
	}
	threads := job.Threads
	if threads < 1 || job.Trace {
		threads = 1
	}
	type l2req struct {
		req    string
		want   bool   // the real read failed with the loader's checksum mismatch
		concat string // non-empty: expected answer of c13.concat (pages delivered, error class)
		info   map[string]any
		path   string
	}
	var l2mu sync.Mutex
	var l2 []l2req
	var wg sync.WaitGroup
	ch := make(chan int)
	sampled := false
	for w := 0; w < threads; w++ {
		wg.Add(1)
		go func(w int) {
			defer wg.Done()
			for i := range ch {
				it := items[i]
				p, ft := it.p, it.f
				rr := rand.New(rand.NewSource(cfg.Seed + int64(i)*7919))
				bad, body, err := c13Apply(env.data, p, ft)
				if err != nil {
					fail("L2", "bad-fault", err.Error(), map[string]any{"fault": ft})
					continue
				}
				nontrivial := perChunk[[2]int{p.RG, p.Col}] >= 2 || p.MaxLevels > 0
				canon := fmt.Sprintf("%d.%d.%d %s bit=%d w=%d m=%s", p.RG, p.Col, p.Idx, p.Kind, ft.Bit, ft.Width, ft.Mask)
				if nontrivial {
					canon = "n " + canon
				} else {
					canon = "t " + canon
				}
				rec := c13CaseRec{Canon: canon}
				col.hist("flips.width", fmt.Sprint(ft.Width))
				if p.Levels > 0 && ft.Bit < 8*p.Levels {
					col.hist("flips.region", "levels(v2)")
				} else if p.Kind == "dict" {
					col.hist("flips.region", "dictionary")
				} else if p.MaxLevels > 0 && p.Kind == "v1" {
					col.hist("flips.region", "levels+values(v1)")
				} else {
					col.hist("flips.region", "values")
				}
				if c13SortedSchema(cfg.Schema) && p.Kind != "dict" {
					// where the faulted page sits relative to the 24 rows a merge input buffers at first: behind
					// them it is reached by a refill in the middle of the merge
					if p.FirstRow >= 24 {
						col.hist("flips.merge_input_page", "reached-by-refill")
					} else {
						col.hist("flips.merge_input_page", "in-first-buffer")
					}
				}
				modelSeen := map[string]bool{}
				accs := env.accesses(p, rr)
				firstSeek := int64(-1)
				for _, a := range accs {
					if a.K >= 0 {
						firstSeek = a.K
						break
					}
				}
				for _, a := range accs {
					if len(ft.Paths) > 0 && !c13Contains(ft.Paths, a.Path) {
						continue
					}
					async := strings.HasPrefix(a.Path, "async")
					if async && job.NoAsync {
						continue
					}
					// The position of the fault matters to the loader and, where the loader lets it through, to the
					// decoder — not to the layers above. Every fault runs through the core paths (sequential and
					// first-seek-target reads of pages and rows, ReadDictionary); the other paths take the first
					// fault of each page and a deterministic share of the rest.
					if len(ft.Paths) == 0 && !it.first && !c13CorePath(a, firstSeek) {
						share := 1 // quick: every fault through the classical paths
						if c13IsEntryPath(a.Path) {
							share = 3
						}
						if job.Tier == "thorough" {
							share = 6
							if c13IsEntryPath(a.Path) {
								share = 12
							}
						}
						if (i+int(a.K)+len(a.Path))%share != 0 {
							continue
						}
					}
					rec.Paths = append(rec.Paths, fmt.Sprintf("%s@%d", a.Path, a.K))
					if job.Trace || async {
						// announce what is about to run: a panic in a goroutine of the library cannot be
						// recovered here and takes the worker down; the parent reads the last announcements
						one := ft
						one.Paths = []string{a.Path}
						js, _ := json.Marshal(&one)
						fmt.Fprintf(os.Stderr, "@ %s %s\n", c13Key(p, a, "crash"), js)
					}
					want, berr := env.baseline(a, p)
					if berr != nil {
						fail("L2", "pristine-read-fails-"+a.Path, "an access path fails on the unaltered file: "+berr.Error(), map[string]any{"page": p, "k": a.K})
						continue
					}
					got, err, pn := c13Guard(func() (any, error) { return a.run(bad) })
					var oc c13Outcome
					switch {
					case pn != "":
						oc = c13Outcome{"panic", pn, false}
					case err != nil:
						oc = c13ErrOutcome(err)
						if oc.Class == "detected" && !c13IsPrefix(got, want) {
							// reads that SUCCEEDED before the corruption was reported delivered other values
							oc = c13Outcome{"wrong-values-before-error", oc.Err, oc.CRC}
						}
					case c13Same(got, want):
						oc = c13Outcome{Class: "silent-same"}
					default:
						oc = c13Outcome{Class: "silent-differs"}
					}
					col.hist("flips.outcome/"+a.Path, oc.Class)
					col.hist("flips.page/"+p.Kind, oc.Class)
					detail := func() map[string]any {
						one := ft
						one.Paths = []string{a.Path}
						return map[string]any{"page": p, "fault": ft, "path": a.Path, "seek_row": a.K, "outcome": oc.Class, "error": oc.Err,
							"job": c13Job{Config: cfg, Faults: []c13Fault{one}}}
					}
					if oc.Class != "detected" {
						what := fmt.Sprintf("%s page of column %q (%s, page v%d, header CRC %08x): mask %s at bit %d of the body, read through %s",
							p.Kind, p.ColName, cfg.Codec, cfg.Version, p.CRC, ft.Mask, ft.Bit, a.Path)
						if a.K >= 0 {
							what += fmt.Sprintf(" after SeekToRow(%d)", a.K)
						}
						switch oc.Class {
						case "silent-differs":
							what += " returned different values and no error"
						case "silent-same":
							what += " returned no error (values happen to be unchanged)"
						case "panic":
							what += " panicked: " + oc.Err
						case "hang":
							what += " does not terminate"
						case "wrong-values-before-error":
							what += " reported the corruption, but the reads that succeeded before it returned values that are not the pristine ones: " + oc.Err
						default:
							what += " failed with an error that is not ErrCorrupted: " + oc.Err
						}
						fail("L1", c13Key(p, a, oc.Class), what, detail())
					}
					// L2: the concatenating readers (columnPages over the row groups of the file, multiPages) vs
					// PageReaders.drain on the scripts of the row groups: how many pages were delivered before the
					// read ended, and how it ended
					if d != nil && (a.Path == "column-pages-seq" || a.Path == "multi-pages-seq") && oc.Class != "panic" {
						delivered := 0
						if vs, ok := got.([]string); ok {
							for _, v := range vs {
								if strings.HasPrefix(v, "|rows=") {
									delivered++
								}
							}
						}
						ends := "none"
						switch {
						case oc.Class == "detected":
							ends = "corrupted"
						case err != nil:
							ends = "other"
						}
						l2mu.Lock()
						l2 = append(l2, l2req{req: "c13.concat " + env.concatScripts(p), concat: fmt.Sprintf("ok pages=%d err=%s", delivered, ends), info: detail(), path: a.Path})
						l2mu.Unlock()
					}
					// L2: the mirror's loader on the same header and altered body
					if d != nil && a.Model != "" {
						l2mu.Lock()
						if !modelSeen[a.Model+fmt.Sprint(oc.CRC)] {
							modelSeen[a.Model+fmt.Sprint(oc.CRC)] = true
							kind := map[string]string{"dict": "dict", "v1": "v1", "v2": "v2"}[p.Kind]
							l2 = append(l2, l2req{req: fmt.Sprintf("c13.load %s %s %d %08x %s", a.Model, kind, p.BodyLen, p.CRC, core.Hex(body)), want: oc.CRC, info: detail(), path: a.Model})
						}
						l2mu.Unlock()
					}
				}
				col.mu.Lock()
				col.out.Cases = append(col.out.Cases, rec)
				if !sampled && i == c13SampleIndex(len(items)) {
					sampled = true
					col.out.Samples = append(col.out.Samples, map[string]any{"config": cfg.canon(), "page": p, "fault": ft, "paths": rec.Paths})
				}
				col.mu.Unlock()
			}
		}(w)
	}
	for i := range items {
		ch <- i
	}
	close(ch)
	wg.Wait()
	// L2 batch
	if d != nil && len(l2) > 0 {
		reqs := make([]string, len(l2))
		for i := range l2 {
			reqs[i] = l2[i].req
		}
		ans, err := d.AskMany(reqs)
		if err != nil {
			fail("L2", "driver-error", err.Error(), nil)
		}
		for i, a := range ans {
			if l2[i].concat != "" {
				col.hist("flips.concat/"+l2[i].path, strings.TrimPrefix(a[strings.LastIndexByte(a, ' ')+1:], "err="))
				if a != l2[i].concat {
					info := l2[i].info
					info["model"], info["code"], info["request"] = a, l2[i].concat, l2[i].req
					fail("L2", "concat-reader-mismatch-"+l2[i].path, fmt.Sprintf("reading the whole column: code delivered %q, mirror PageReaders.drain %q", l2[i].concat, a), info)
				}
				continue
			}
			col.hist("flips.model/"+l2[i].path, strings.SplitN(a, " ", 3)[0]+" "+func() string {
				if strings.HasPrefix(a, "err") {
					return strings.TrimPrefix(a, "err ")
				}
				return "body"
			}())
			modelDetects := a == "err corrupted"
			if strings.HasPrefix(a, "bad-op") || strings.HasPrefix(a, "err io") {
				fail("L2", "load-model-bad-answer", "unexpected answer of the mirror: "+a, l2[i].info)
				continue
			}
			if modelDetects != l2[i].want {
				info := l2[i].info
				info["model"] = a
				info["model_path"] = l2[i].path
				fail("L2", "load-path-mismatch-"+l2[i].path, fmt.Sprintf("the loader on this path rejects with a checksum mismatch: code=%v, mirror PageLoad.load=%v", l2[i].want, modelDetects), info)
			}
		}
		col.out.Requests = int64(len(ans))
	}
}

func c13SampleIndex(n int) int { return n / 2 }

// c13CorePath: the paths every enumerated fault goes through
func c13CorePath(a c13Access, firstSeek int64) bool {
	switch a.Path {
	case "rows-seq", "pages-seq", "read-dictionary":
		return true
	case "rows-seek", "pages-seek":
		return a.K == firstSeek
	}
	return false
}

func c13Contains(xs []string, x string) bool {
	for _, y := range xs {
		if y == x {
			return true
		}
	}
	return false
}
