package props

import (
	"bytes"
	"encoding/hex"
	"encoding/json"
	"errors"
	"fmt"
	"io"
	"math"
	"math/rand"
	"os"
	"path/filepath"
	"reflect"
	"sort"
	"strings"
	"sync"

	"github.com/parquet-go/parquet-go"
	"github.com/parquet-go/parquet-go/encoding/bytestreamsplit"
	"github.com/parquet-go/parquet-go/encoding/delta"
	"github.com/parquet-go/parquet-go/encoding/rle"

	"verifharness/core"
	"verifharness/gen"
)

// C17 — output bytes are a function of input and options only.
//
//	history    (L1) the same rows with the same options give byte-identical files whether the
//	           writer / buffer instance is fresh or reused through Reset after arbitrary earlier
//	           content, however often it was done before, on whichever goroutine
//	crossbuild (L1) the asm and the purego build of the library write byte-identical files and
//	           encoder outputs for the same seeded corpus (digests exchanged through a file)
func init() {
	RegisterSub("C17", "history", RunC17History)
	RegisterSub("C17", "crossbuild", RunC17CrossBuild)
	RegisterSub("C17", "buffers", RunC17Buffers)
	workers["c17buf"] = c17BufWorker
}

const c17Rule = "history: catalogue struct types x random rows x random writer configuration (gen.RandWriterCfg + bloom filters, deferred blooms, key/value metadata, declared sorting columns, forced dictionary overflow) x instance history: the file written by an instance that was Reset after {abandoned, abandoned after row-by-row writes, flushed, closed, closed empty, failed sink, two generations, reset mid-file, random op sequence, SetKeyValueMetadata} over OTHER rows (for SortingWriter + DropDuplicatedRows also over copies of the row that sorts first in the new content, run sizes 1 / random / > rows) must equal byte-for-byte the file of a fresh instance; instances GenericWriter, Writer, SortingWriter, GenericWriter driven through WriteRowGroup only (rows handed over as an unsorted GenericBuffer / a sorted GenericBuffer declaring sorting columns / the row groups of a file written with the same options / with default options, drawn independently for the earlier content and the content under test; the writer mostly without sorting configuration of its own), catalogue = shared catalogue + GEOMETRY/GEOGRAPHY types (gen.GeoCatalog: WKB values of layouts XY/XYZ/XYM/XYZM drawn per row set, empty geometries, NaN coordinates, non-WKB bytes); repeated fresh writes on the same and on 3 other goroutines, and with the key/value options permuted; non-trivial = non-empty rows and a prior history that wrote rows. buffers (L1, in worker subprocesses: a case that takes the process down is a failure carrying the case): the same catalogue, rows and configurations, GenericBuffer/Buffer under 2 (thorough 4) buffer histories each: 1..3 earlier generations {rows [lo,hi) of the other content; permuted by sort.Sort when sorting columns are declared, else by explicit Swap calls in 2 cases of 3; READ through a discarded WriteRowGroup / Rows() fully or half / the Pages() of all column chunks, of the first, twice / not at all; Reset} then the rows, permuted the same way as on the fresh instance, in 1 case of 4 read once before, -> WriteRowGroup (and: the file written after such a read equals the file written without it); non-trivial as for history. crossbuild: per catalogue type seeded (rows, config, write path) cases and 30k/400k encoder inputs (hybrid RLE int32/levels, delta binary packed, byte stream split), big-page files (one PLAIN column per numeric kind, pages filled to the default 256 KiB target and beyond, values across 2^31 / 2^63, NaN, -0.0) and Page.Bounds of pages at the kernel-switch lengths 32112..131071(..262144) (int32, int64, uint32, uint64, float, double, and 16-byte big-endian values with few distinct high halves at lengths 3..32113) whose sha256 / output bytes the asm and purego builds must agree on (digests exchanged through .build/out/C17-digests-<variant>.json); non-trivial = more than one row / at least 8 values. mirror (L2): a real Writer under a random history (first sink failing around the 4-byte file header and anywhere) vs the Lean mirror (reset.run), observation compared after every step; all cases non-trivial. repr (L1): catalogue types x random rows x the same rows RESPELLED (equal values in another memory layout: empty strings with a non-nil data pointer, strings / []byte at odd offsets inside larger arrays, slices with spare capacity, re-allocated pointers) x 4 (thorough: 6) write paths: byte-identical files; non-trivial = at least one value respelled; a third of the cross-build corpus is respelled too. hist (L1+L2): accumulateAndAppendPageLevelHistogram on slices with k earlier pages and a capacity of need-1, need, need+1, 2x, ... whose spare part holds zeros / earlier counts / -1, levels of 0..200 values in runs: appended block = the counts of the page (L1) and column histogram, slice, spare capacity = the Lean mirror ResetHist.appendPage (L2); real Writers of every catalogue type with a nullable or repeated column, abandoned mid row group / flushed / closed over other rows, then Reset (histogram fields and the arrays behind them before/after vs ResetHist.LevelHist.reset), then the rows in 1..3 row groups: every chunk's SizeStatistics / ColumnIndex level histograms vs the spec (LevelStats.chunkHists) of the levels decoded from its own pages; non-trivial = a page with levels appended to a slice with spare capacity / every writer case. slots (L2): per catalogue type a GenericWriter with default options (one in four declaring sorting columns) x 1..8 ops {WriteRowGroup of a 1..5-row GenericBuffer declaring 0..2 sorting columns (sorted), Close+Reset}: the row groups the footer of the last file lists (column chunks, sorting_columns absent / empty / entries) vs the Lean mirror slots.run; non-trivial = at least one Reset and two row groups." + c17BufResetRule + c17CacheRule

// ---------------------------------------------------------------- configuration

type c17Bloom struct {
	path []string
	bits uint
}

type c17Sort struct {
	path       []string
	descending bool
	nullsFirst bool
}

type c17Cfg struct {
	base       *gen.WriterCfg
	bloom      []c17Bloom
	deferBloom bool
	kv         [][2]string
	sorting    []c17Sort
	dedupe     bool // DropDuplicatedRows(true) next to the sorting columns (sorting writers)
	overflow   int  // > 0: DictionaryMaxBytes(16) and this PageBufferSize override the base options
	writeBuf0  bool // WriteBufferSize(0) overrides the base option: every write reaches the sink at once
	// instance kind generic-writer-write-row-group: where the row groups handed to WriteRowGroup come
	// from, for the content under test and for the earlier content (c17RGSources), and the sorting
	// columns the SOURCE row groups declare (the writer's own configuration is cfg.sorting)
	rgSrc, rgSrcPrior string
	rgSorting         []c17Sort
	desc              string
}

func c17Path(p []string) string { return strings.Join(p, ".") }

func c17RandCfg(r *rand.Rand, e *gen.Entry) *c17Cfg {
	c := &c17Cfg{base: gen.RandWriterCfg(r)}
	paths := e.Schema.Columns()
	if r.Intn(2) == 0 {
		for _, p := range paths {
			if r.Intn(2) == 0 {
				c.bloom = append(c.bloom, c17Bloom{p, []uint{1, 8, 10, 16}[r.Intn(4)]})
			}
		}
		c.deferBloom = len(c.bloom) > 0 && r.Intn(3) == 0
	}
	if r.Intn(2) == 0 {
		nkv := []int{1, 2, 9, 12}[r.Intn(4)]
		seen := map[string]bool{}
		for i := 0; i < nkv; i++ {
			k := fmt.Sprintf("key-%c%d", 'a'+rune(r.Intn(26)), r.Intn(50))
			if !seen[k] { // distinct keys: the configured pairs form a map
				seen[k] = true
				c.kv = append(c.kv, [2]string{k, fmt.Sprint(r.Intn(1000))})
			}
		}
	}
	if r.Intn(3) == 0 {
		c.sorting = c17RandSorting(r, e)
	}
	if r.Intn(4) == 0 { // dictionaries that overflow after a page or two, pages of a few rows
		c.overflow = 48 + r.Intn(120)
	}
	var sb strings.Builder
	sb.WriteString(c.base.Desc)
	if c.overflow > 0 {
		fmt.Fprintf(&sb, " +dictmax=16,pagebuf=%d", c.overflow)
	}
	sb.WriteString(" bloom=")
	for _, b := range c.bloom {
		fmt.Fprintf(&sb, "%s:%d,", c17Path(b.path), b.bits)
	}
	fmt.Fprintf(&sb, " deferbloom=%v kv=%v sorting=", c.deferBloom, c.kv)
	for _, s := range c.sorting {
		fmt.Fprintf(&sb, "%s:%v:%v,", c17Path(s.path), s.descending, s.nullsFirst)
	}
	c.desc = sb.String()
	return c
}

func c17RandSorting(r *rand.Rand, e *gen.Entry) (out []c17Sort) {
	var flat [][]string
	for _, p := range e.Schema.Columns() {
		if leaf, ok := e.Schema.Lookup(p...); ok && leaf.MaxRepetitionLevel == 0 {
			flat = append(flat, p)
		}
	}
	if len(flat) == 0 {
		return nil
	}
	r.Shuffle(len(flat), func(i, j int) { flat[i], flat[j] = flat[j], flat[i] })
	for i := 0; i < len(flat) && i < 1+r.Intn(2); i++ {
		out = append(out, c17Sort{flat[i], r.Intn(2) == 0, r.Intn(2) == 0})
	}
	return out
}

func c17SortingColumns(ss []c17Sort) []parquet.SortingColumn {
	var cols []parquet.SortingColumn
	for _, s := range ss {
		var sc parquet.SortingColumn
		if s.descending {
			sc = parquet.Descending(s.path...)
		} else {
			sc = parquet.Ascending(s.path...)
		}
		if s.nullsFirst {
			sc = parquet.NullsFirst(sc)
		}
		cols = append(cols, sc)
	}
	return cols
}

// opts builds a fresh option list (fresh buffer pools) for one writer instance.
func (c *c17Cfg) opts() []parquet.WriterOption {
	o := append([]parquet.WriterOption{}, c.base.Opts...)
	if c.overflow > 0 {
		o = append(o, parquet.DictionaryMaxBytes(16), parquet.PageBufferSize(c.overflow))
	}
	if c.writeBuf0 {
		o = append(o, parquet.WriteBufferSize(0))
	}
	if len(c.bloom) > 0 {
		var fs []parquet.BloomFilterColumn
		for _, b := range c.bloom {
			fs = append(fs, parquet.SplitBlockFilter(b.bits, b.path...))
		}
		o = append(o, parquet.BloomFilters(fs...))
		if c.deferBloom {
			o = append(o, parquet.DeferBloomFiltersWithBuffers(parquet.NewBufferPool()))
		}
	}
	for _, kv := range c.kv {
		o = append(o, parquet.KeyValueMetadata(kv[0], kv[1]))
	}
	if len(c.sorting) > 0 {
		so := []parquet.SortingOption{parquet.SortingColumns(c17SortingColumns(c.sorting)...)}
		if c.dedupe {
			so = append(so, parquet.DropDuplicatedRows(true))
		}
		o = append(o, parquet.SortingWriterConfig(so...))
	}
	return o
}

// ---------------------------------------------------------------- writer instances under a history

// a sink that accepts failAfter bytes and then fails every write (failAfter < 0: never fails)
type c17Sink struct {
	buf       bytes.Buffer
	failAfter int
}

var errC17Sink = errors.New("c17: injected sink failure")

func (s *c17Sink) Write(p []byte) (int, error) {
	if s.failAfter < 0 {
		return s.buf.Write(p)
	}
	room := s.failAfter - s.buf.Len()
	if room >= len(p) {
		return s.buf.Write(p)
	}
	if room > 0 {
		s.buf.Write(p[:room])
	} else {
		room = 0
	}
	return room, errC17Sink
}

// c17W is one writer instance of some kind driven through calls.
type c17W interface {
	write(rows reflect.Value, lo, hi int) error
	flush() error
	close() error
	reset(w io.Writer)
	setKV(k, v string)
}

type c17Typed struct{ w gen.StatefulWriter }

func (t c17Typed) write(rows reflect.Value, lo, hi int) error {
	if lo >= hi {
		return nil
	}
	_, err := t.w.Write(rows.Slice(lo, hi).Interface())
	return err
}
func (t c17Typed) flush() error      { return t.w.Flush() }
func (t c17Typed) close() error      { return t.w.Close() }
func (t c17Typed) reset(w io.Writer) { t.w.Reset(w) }
func (t c17Typed) setKV(k, v string) { t.w.SetKeyValueMetadata(k, v) }

type c17Reflect struct{ w *parquet.Writer }

func (t c17Reflect) write(rows reflect.Value, lo, hi int) error {
	for i := lo; i < hi; i++ {
		if err := t.w.Write(rows.Index(i).Addr().Interface()); err != nil {
			return err
		}
	}
	return nil
}
func (t c17Reflect) flush() error      { return t.w.Flush() }
func (t c17Reflect) close() error      { return t.w.Close() }
func (t c17Reflect) reset(w io.Writer) { t.w.Reset(w) }
func (t c17Reflect) setKV(k, v string) { t.w.SetKeyValueMetadata(k, v) }

const (
	c17Generic = "generic-writer"
	c17Refl    = "writer"
	c17Sorting = "sorting-writer"
	c17RG      = "generic-writer-write-row-group"
)

// c17RGWriter drives a GenericWriter through WriteRowGroup only: every write call hands the rows
// over as row groups of one of the sources
//
//	buffer             GenericBuffer without sorting columns (rows copied through the row path)
//	sorted-buffer      GenericBuffer declaring sorting columns, sorted (the writer records the
//	                   row group's sorting columns when it has none configured itself)
//	file-same-config   the row groups of a file written with the same options (verbatim chunk copy
//	                   where the library supports it)
//	file-other-config  the row groups of a file written with default options (column-wise re-encode)
//
// The earlier content may come from another source than the content under test.
var c17RGSources = []string{"buffer", "sorted-buffer", "file-same-config", "file-other-config"}

type c17RGWriter struct {
	w     gen.StatefulWriter
	e     *gen.Entry
	cfg   *c17Cfg
	final bool
}

func (t *c17RGWriter) beginFinal() { t.final = true }

func (t *c17RGWriter) write(rows reflect.Value, lo, hi int) error {
	if lo >= hi {
		return nil
	}
	src := t.cfg.rgSrcPrior
	if t.final {
		src = t.cfg.rgSrc
	}
	part := rows.Slice(lo, hi)
	switch src {
	case "buffer", "sorted-buffer":
		var ropts []parquet.RowGroupOption
		sorted := src == "sorted-buffer" && len(t.cfg.rgSorting) > 0
		if sorted {
			ropts = append(ropts, parquet.SortingRowGroupConfig(parquet.SortingColumns(c17SortingColumns(t.cfg.rgSorting)...)))
		}
		b := t.e.NewTypedBuffer(ropts...)
		if sorted {
			for i := 0; i < part.Len(); i++ { // one row per call: see c17BufferFile
				if _, err := b.Write(part.Slice(i, i+1).Interface()); err != nil {
					return err
				}
			}
			sort.Sort(b)
		} else if _, err := b.Write(part.Interface()); err != nil {
			return err
		}
		_, err := t.w.WriteRowGroup(b)
		return err
	default:
		tmp := new(bytes.Buffer)
		var opts []parquet.WriterOption
		if src == "file-same-config" {
			opts = t.cfg.opts()
		}
		fw := t.e.NewTypedWriter(tmp, opts...)
		if _, err := fw.Write(part.Interface()); err != nil {
			return err
		}
		if err := fw.Close(); err != nil {
			return err
		}
		f, err := parquet.OpenFile(bytes.NewReader(tmp.Bytes()), int64(tmp.Len()))
		if err != nil {
			return err
		}
		for _, rg := range f.RowGroups() {
			if _, err := t.w.WriteRowGroup(rg); err != nil {
				return err
			}
		}
		return nil
	}
}
func (t *c17RGWriter) flush() error      { return t.w.Flush() }
func (t *c17RGWriter) close() error      { return t.w.Close() }
func (t *c17RGWriter) reset(w io.Writer) { t.w.Reset(w) }
func (t *c17RGWriter) setKV(k, v string) { t.w.SetKeyValueMetadata(k, v) }

func c17New(kind string, e *gen.Entry, cfg *c17Cfg, sortRows int64, out io.Writer) c17W {
	switch kind {
	case c17Generic:
		return c17Typed{e.NewTypedWriter(out, cfg.opts()...)}
	case c17Refl:
		return c17Reflect{parquet.NewWriter(out, append([]parquet.WriterOption{e.Schema}, cfg.opts()...)...)}
	case c17RG:
		return &c17RGWriter{w: e.NewTypedWriter(out, cfg.opts()...), e: e, cfg: cfg}
	default:
		return c17Typed{e.NewTypedSortingWriter(out, sortRows, cfg.opts()...)}
	}
}

func c17Guard(f func() error) (err error) {
	defer func() {
		if r := recover(); r != nil {
			err = fmt.Errorf("PANIC: %v", r)
		}
	}()
	return f()
}

// A prior history is a list of ops applied to the instance before the final Reset:
//
//	w<k> write the next k rows of the prior content   f flush   c close
//	r    Reset to a fresh good sink                   x<n> Reset to a sink failing after n bytes
//	k    SetKeyValueMetadata("prior-key", "1")
//
// The first sink is good unless the list starts with x<n>.
type c17History struct {
	class string
	ops   []string
}

func (h c17History) String() string { return h.class + "[" + strings.Join(h.ops, " ") + "]" }

// writeFinal writes the rows with the given batches (0 = Flush) and closes.
func c17WriteFinal(w c17W, rows reflect.Value, batches []int) error {
	return c17Guard(func() error {
		lo, n := 0, rows.Len()
		for _, b := range batches {
			if b == 0 {
				if err := w.flush(); err != nil {
					return err
				}
				continue
			}
			hi := lo + b
			if hi > n {
				hi = n
			}
			if err := w.write(rows, lo, hi); err != nil {
				return err
			}
			lo = hi
		}
		if err := w.write(rows, lo, n); err != nil {
			return err
		}
		return w.close()
	})
}

// c17Run produces the file for `rows`: on a fresh instance (h == nil) or on an instance that
// first lived through the prior history and was then Reset onto the output.
func c17Run(kind string, e *gen.Entry, cfg *c17Cfg, sortRows int64, h *c17History, prior, rows reflect.Value, batches []int) (file []byte, err error, priorErrs int) {
	out := new(bytes.Buffer)
	if h == nil || h.class == "fresh-with-set-key-value-metadata" {
		var w c17W
		if err := c17Guard(func() error {
			w = c17New(kind, e, cfg, sortRows, out)
			if h != nil {
				w.setKV("prior-key", "1")
			}
			return nil
		}); err != nil {
			return nil, err, 0
		}
		if f, ok := w.(interface{ beginFinal() }); ok {
			f.beginFinal()
		}
		err = c17WriteFinal(w, rows, batches)
		return out.Bytes(), err, 0
	}
	ops := h.ops
	first := &c17Sink{failAfter: -1}
	if len(ops) > 0 && ops[0][0] == 'x' {
		fmt.Sscanf(ops[0][1:], "%d", &first.failAfter)
		ops = ops[1:]
	}
	var w c17W
	if err := c17Guard(func() error { w = c17New(kind, e, cfg, sortRows, first); return nil }); err != nil {
		return nil, err, 0
	}
	pos := 0
	for _, op := range ops {
		op := op
		if e := c17Guard(func() error {
			switch op[0] {
			case 'w':
				k := 0
				fmt.Sscanf(op[1:], "%d", &k)
				hi := pos + k
				if hi > prior.Len() {
					hi = prior.Len()
				}
				lo := pos
				pos = hi
				return w.write(prior, lo, hi)
			case 'f':
				return w.flush()
			case 'c':
				return w.close()
			case 'r':
				w.reset(&c17Sink{failAfter: -1})
			case 'x':
				s := &c17Sink{}
				fmt.Sscanf(op[1:], "%d", &s.failAfter)
				w.reset(s)
			case 'k':
				w.setKV("prior-key", "1")
			}
			return nil
		}); e != nil {
			priorErrs++
			if strings.HasPrefix(e.Error(), "PANIC") {
				return nil, fmt.Errorf("during the prior history (op %s): %w", op, e), priorErrs
			}
		}
	}
	if err := c17Guard(func() error { w.reset(out); return nil }); err != nil {
		return nil, err, priorErrs
	}
	if f, ok := w.(interface{ beginFinal() }); ok {
		f.beginFinal()
	}
	err = c17WriteFinal(w, rows, batches)
	return out.Bytes(), err, priorErrs
}

func c17Repeat(op string, n int) []string {
	out := make([]string, n)
	for i := range out {
		out[i] = op
	}
	return out
}

func c17Histories(r *rand.Rand, nPrior int, allowKV bool) []c17History {
	all := fmt.Sprintf("w%d", nPrior)
	half := fmt.Sprintf("w%d", (nPrior+1)/2)
	hs := []c17History{
		{"abandoned", []string{all}},
		{"abandoned-after-row-by-row-writes", c17Repeat("w1", min(nPrior, 60))},
		{"flushed-not-closed", []string{all, "f"}},
		{"closed", []string{all, "c"}},
		{"closed-empty", []string{"c"}},
		{"failed-sink", []string{fmt.Sprintf("x%d", []int{0, 1, 3, 4, 5, 40, 200, 1000}[r.Intn(8)]), half, "f", half, "c"}},
		{"two-generations", []string{half, "c", "r", half, "c"}},
		{"reset-mid-file-to-failing-sink", []string{half, "f", fmt.Sprintf("x%d", r.Intn(60)), half, "c"}},
	}
	// random grammar
	var ops []string
	left := nPrior
	for i, n := 0, 1+r.Intn(7); i < n; i++ {
		switch r.Intn(8) {
		case 0, 1, 2:
			k := 1 + r.Intn(left+1)
			ops = append(ops, fmt.Sprintf("w%d", k))
			left -= k
			if left < 0 {
				left = 0
			}
		case 3, 4:
			ops = append(ops, "f")
		case 5:
			ops = append(ops, "c")
		case 6:
			ops = append(ops, "r")
		case 7:
			ops = append(ops, fmt.Sprintf("x%d", r.Intn(300)))
		}
	}
	hs = append(hs, c17History{"random", ops})
	if allowKV {
		hs = append(hs, c17History{"set-key-value-metadata-then-closed", []string{"k", all, "c"}})
	}
	return hs
}

// ---------------------------------------------------------------- buffers

// A buffer history: what happened to a Buffer / GenericBuffer instance before the final Reset, and
// how the content under test is permuted. Buffers are containers of the reuse property like
// writers: everything a buffer keeps across Reset (column buffers, the scratch columns Page()
// materialises a permuted column into, row offsets, dictionaries) is state that must not show.
//
// Each earlier generation: fill rows [lo,hi) of the prior content, permute them (sort.Sort when
// sorting columns are declared, else explicit Swap calls), READ the buffer in one of the ways a
// caller can (that is what materialises pages, and with them the scratch state of permuted
// columns), Reset. The content under test: fill, permute (sort / the same Swap list for the fresh
// and the reused instance), optionally read once before the row group is written.
type c17BufGen struct {
	lo, hi int
	swaps  [][2]int // explicit Swap(i, j) calls (buffers without sorting columns)
	read   string   // none | write-row-group | rows | rows-partial | pages | pages-first | pages-twice
}

type c17BufHist struct {
	gens       []c17BufGen
	finalSwaps [][2]int
	readFirst  string // how the content under test is read once BEFORE the row group is written ("" = not)
}

var c17BufReads = []string{"none", "write-row-group", "write-row-group", "rows", "rows-partial", "pages", "pages-first", "pages-twice"}

func c17RandSwaps(r *rand.Rand, n int) (out [][2]int) {
	if n < 2 {
		return nil
	}
	for k := 1 + r.Intn(2*n); k > 0; k-- {
		out = append(out, [2]int{r.Intn(n), r.Intn(n)})
	}
	return out
}

// c17RandBufHist draws the history; sorted = the buffer declares sorting columns (then sort.Sort
// permutes, otherwise explicit swaps do in two cases out of three).
func c17RandBufHist(r *rand.Rand, nPrior, n int, sorted bool) *c17BufHist {
	h := &c17BufHist{}
	for g := []int{1, 1, 2, 3}[r.Intn(4)]; g > 0; g-- {
		lo := r.Intn(nPrior)
		if r.Intn(2) == 0 {
			lo = 0
		}
		gn := c17BufGen{lo: lo, hi: lo + 1 + r.Intn(nPrior-lo), read: c17BufReads[r.Intn(len(c17BufReads))]}
		if !sorted && r.Intn(3) > 0 {
			gn.swaps = c17RandSwaps(r, gn.hi-gn.lo)
		}
		h.gens = append(h.gens, gn)
	}
	if !sorted && r.Intn(3) > 0 {
		h.finalSwaps = c17RandSwaps(r, n)
	}
	if r.Intn(4) == 0 {
		h.readFirst = c17BufReads[1+r.Intn(len(c17BufReads)-1)]
	}
	return h
}

func (h *c17BufHist) String() string {
	var sb strings.Builder
	for _, g := range h.gens {
		fmt.Fprintf(&sb, "write prior rows [%d,%d); ", g.lo, g.hi)
		if g.swaps != nil {
			fmt.Fprintf(&sb, "Swap%v; ", g.swaps)
		} else {
			sb.WriteString("sort.Sort when sorting columns are declared; ")
		}
		fmt.Fprintf(&sb, "read=%s; Reset; ", g.read)
	}
	sb.WriteString("write rows; ")
	if h.finalSwaps != nil {
		fmt.Fprintf(&sb, "Swap%v; ", h.finalSwaps)
	} else {
		sb.WriteString("sort.Sort when sorting columns are declared; ")
	}
	if h.readFirst != "" {
		fmt.Fprintf(&sb, "read=%s; ", h.readFirst)
	}
	sb.WriteString("WriteRowGroup")
	return sb.String()
}

// c17ReadBuffer reads a filled buffer the way `how` names; errors and panics are returned.
func c17ReadBuffer(how string, e *gen.Entry, cfg *c17Cfg, rg parquet.RowGroup) error {
	return c17Guard(func() error {
		switch how {
		case "write-row-group":
			w := e.NewTypedWriter(io.Discard, cfg.opts()...)
			if _, err := w.WriteRowGroup(rg); err != nil {
				return err
			}
			return w.Close()
		case "rows", "rows-partial":
			rr := rg.Rows()
			defer rr.Close()
			buf := make([]parquet.Row, 7)
			for left := rg.NumRows(); ; {
				if how == "rows-partial" && left <= rg.NumRows()/2 {
					return nil
				}
				n, err := rr.ReadRows(buf)
				left -= int64(n)
				if err == io.EOF || (n == 0 && err == nil) {
					return nil
				}
				if err != nil {
					return err
				}
			}
		case "pages", "pages-first", "pages-twice":
			for pass := 0; pass < 2; pass++ {
				for i, cc := range rg.ColumnChunks() {
					if how == "pages-first" && i > 0 {
						break
					}
					pages := cc.Pages()
					for {
						p, err := pages.ReadPage()
						if err != nil {
							break
						}
						_ = p.NumValues()
						parquet.Release(p)
					}
					pages.Close()
				}
				if how != "pages-twice" {
					break
				}
			}
		}
		return nil
	})
}

// c17BufferFile: rows -> buffer (fresh when h == nil or reuse is false, else reused through Reset
// after the generations of h) -> permuted (sort.Sort when sorting columns are configured, the
// swaps of h otherwise) -> WriteRowGroup into a fresh writer -> Close.
func c17BufferFile(kind string, e *gen.Entry, cfg *c17Cfg, reuse bool, h *c17BufHist, prior, rows reflect.Value) (file []byte, err error, priorErrs []string) {
	if h == nil {
		h = &c17BufHist{}
	}
	err = c17Guard(func() error {
		var ropts []parquet.RowGroupOption
		if len(cfg.sorting) > 0 {
			ropts = append(ropts, parquet.SortingRowGroupConfig(parquet.SortingColumns(c17SortingColumns(cfg.sorting)...)))
		}
		var rg parquet.RowGroup
		var fill func(rs reflect.Value, permuted bool) error
		var srt sort.Interface
		var reset func()
		if kind == "generic-buffer" {
			b := e.NewTypedBuffer(ropts...)
			rg, srt, reset = b, b, b.Reset
			fill = func(rs reflect.Value, permuted bool) error {
				if rs.Len() == 0 {
					return nil
				}
				if permuted {
					// One row per call: on the asm build a batch write into an optional column
					// records wrong row indexes (broadcastRangeInt32AVX2 tail, finding F14 of C10)
					// and permuting such a buffer panics or never returns. C10 owns that defect;
					// here it must not take the check down.
					for i := 0; i < rs.Len(); i++ {
						if _, err := b.Write(rs.Slice(i, i+1).Interface()); err != nil {
							return err
						}
					}
					return nil
				}
				_, err := b.Write(rs.Interface())
				return err
			}
		} else {
			b := parquet.NewBuffer(append([]parquet.RowGroupOption{e.Schema}, ropts...)...)
			rg, srt, reset = b, b, b.Reset
			fill = func(rs reflect.Value, permuted bool) error {
				for i := 0; i < rs.Len(); i++ {
					if err := b.Write(rs.Index(i).Addr().Interface()); err != nil {
						return err
					}
				}
				return nil
			}
		}
		permute := func(swaps [][2]int) {
			if len(cfg.sorting) > 0 {
				sort.Sort(srt)
			}
			for _, s := range swaps {
				srt.Swap(s[0], s[1])
			}
		}
		if reuse {
			for gi, g := range h.gens {
				if err := fill(prior.Slice(g.lo, g.hi), len(cfg.sorting) > 0 || g.swaps != nil); err != nil {
					return fmt.Errorf("filling the buffer with the prior rows: %w", err)
				}
				permute(g.swaps)
				if err := c17ReadBuffer(g.read, e, cfg, rg); err != nil {
					// an earlier generation that cannot be read is not this check's business
					// (histogram entry); the instance is Reset and must still behave like a fresh one
					priorErrs = append(priorErrs, fmt.Sprintf("generation %d read=%s: %s", gi, g.read, errClass(err)))
				}
				reset()
			}
		}
		if err := fill(rows, len(cfg.sorting) > 0 || h.finalSwaps != nil); err != nil {
			return err
		}
		permute(h.finalSwaps)
		if h.readFirst != "" && rows.Len() > 0 {
			if err := c17ReadBuffer(h.readFirst, e, cfg, rg); err != nil {
				return fmt.Errorf("reading the buffer (%s) before WriteRowGroup: %w", h.readFirst, err)
			}
		}
		out := new(bytes.Buffer)
		w := e.NewTypedWriter(out, cfg.opts()...)
		if rows.Len() > 0 {
			if _, err := w.WriteRowGroup(rg); err != nil {
				return err
			}
		}
		if err := w.Close(); err != nil {
			return err
		}
		file = out.Bytes()
		return nil
	})
	return file, err, priorErrs
}

// ---------------------------------------------------------------- history sub-check

func c17RowTexts(e *gen.Entry, rows reflect.Value) []string {
	var s gen.Shredder
	var out []string
	for i := 0; i < rows.Len(); i++ {
		out = append(out, s.ShredRow(e.Schema, rows.Index(i)))
	}
	if len(out) > 40 {
		out = append(append([]string{}, out[:40]...), fmt.Sprintf("... %d rows, regenerate with the run seed", rows.Len()))
	}
	return out
}

func c17GenRows(r *rand.Rand, e *gen.Entry, n int, small bool) reflect.Value {
	prof := &gen.Profile{NullProb: []float64{0.1, 0.5, 0.9}[r.Intn(3)], MaxLen: 1 + r.Intn(4), SmallDomain: small}
	if r.Intn(3) == 0 {
		prof.RunLen = 70
	}
	rows := e.NewRows(n)
	gen.FillRows(r, rows, prof)
	return rows
}

func RunC17History(ctx *core.Ctx) {
	ctx.SetRule(c17Rule)
	// thorough (round 4, to fit the 10-minute budget of the whole property on 16 cores): 24 cases per
	// type on the asm build and 12 on the purego build (was 80 on both); the instance histories are
	// build-independent Go code except for the kernels, which the crossbuild sub-check compares
	ncases := ctx.Scale(10, 24)
	if ctx.Thorough() && ctx.Variant == "purego" {
		ncases = 12
	}
	var wg sync.WaitGroup
	sem := make(chan struct{}, 16)
	for _, e := range gen.WithGeo() {
		wg.Add(1)
		sem <- struct{}{}
		go func(e *gen.Entry) {
			defer wg.Done()
			defer func() { <-sem }()
			r := ctx.Rand("c17h/" + e.Name)
			for k := 0; k < ncases; k++ {
				c17HistoryCase(ctx, e, r, k == 0 && e.Name == "T000")
			}
		}(e)
	}
	wg.Wait()
}

// c17Comparer: the oracle of the history and buffers sub-checks. ref = the file of a fresh instance.
func c17Comparer(ctx *core.Ctx, detail func(map[string]any) map[string]any) func(what, kind string, ref []byte, got []byte, err error, extra map[string]any) {
	return func(what, kind string, ref []byte, got []byte, err error, extra map[string]any) {
		extra["instance"] = kind
		if err != nil {
			ctx.Fail("L1", what+" second-file-"+errClass(err), fmt.Sprintf("%s: a fresh %s writes the rows, this instance fails: %v", what, kind, err), detail(extra))
			return
		}
		if bytes.Equal(ref, got) {
			return
		}
		class, label := c17DiffFiles(ref, got)
		// do the two files at least hold the same rows? (stale rows of an earlier file = data corruption)
		if a, err1 := gen.ReadColumns(ref); err1 == nil {
			if b, err2 := gen.ReadColumns(got); err2 != nil {
				extra["byte_level_first_difference"] = class
				class = "file-unreadable " + errClass(err2)
			} else if gen.ColsString(a) != gen.ColsString(b) {
				extra["byte_level_first_difference"] = class
				class = "stored-rows-differ"
			}
		}
		if class != "" {
			extra["first_difference"] = label
			extra["fresh_len"], extra["got_len"] = len(ref), len(got)
			extra["fresh_sha256"], extra["got_sha256"] = c17ShaFull(ref), c17ShaFull(got)
			if dump := os.Getenv("VERIF_C17_DUMP"); dump != "" && strings.Contains(class, dump) { // debugging aid
				os.WriteFile(filepath.Join(c17OutDir(), "C17-dump-fresh.parquet"), ref, 0o644)
				os.WriteFile(filepath.Join(c17OutDir(), "C17-dump-reused.parquet"), got, 0o644)
			}
			ctx.Fail("L1", what+" "+class, fmt.Sprintf("%s: file differs from a fresh %s's file, first difference: %s at %s", what, kind, class, label), detail(extra))
		}
	}
}

func c17HistoryCase(ctx *core.Ctx, e *gen.Entry, r *rand.Rand, sample bool) {
	ns, nps := []int{1, 2, 3, 9, 33, 64, 65, 100}, []int{1, 2, 8, 50, 130}
	if ctx.Thorough() {
		ns, nps = append(ns, 257, 300), append(nps, 400)
	}
	n, np := ns[r.Intn(len(ns))], nps[r.Intn(len(nps))]
	small := r.Intn(2) == 0
	rows := c17GenRows(r, e, n, small)
	prior := c17GenRows(r, e, np, !small) // the other value domain: overflows tiny dictionaries, other null runs
	cfg := c17RandCfg(r, e)
	batches := c01Batches(r, n)
	sortRows := int64(1 + r.Intn(n+2))
	texts := c17RowTexts(e, rows)
	detail := func(extra map[string]any) map[string]any {
		m := map[string]any{"type": e.Name, "config": cfg.desc, "batches": batches, "rows": texts, "prior_rows": np,
			"prior_profile_small_domain": !small, "sort_row_count": sortRows, "variant": ctx.Variant}
		for k, v := range extra {
			m[k] = v
		}
		return m
	}
	ctx.Case(e.Name+"|"+cfg.desc+"|"+strings.Join(texts, "|")+fmt.Sprint(batches, np), n > 0 && np > 0)
	ctx.Hist("rows", fmt.Sprint(n))
	ctx.Hist("prior-rows", fmt.Sprint(np))
	ctx.Hist("codec", cfg.base.Codec)
	ctx.Hist("bloom-columns", fmt.Sprint(len(cfg.bloom)))
	if sample {
		ctx.Sample(detail(nil))
	}
	compare := c17Comparer(ctx, detail)
	for _, kind := range []string{c17Generic, c17Refl, c17Sorting, c17RG} {
		kcfg := cfg
		kbatches := batches
		if kind == c17RG {
			c2 := *cfg
			c2.rgSrc, c2.rgSrcPrior = c17RGSources[r.Intn(len(c17RGSources))], c17RGSources[r.Intn(len(c17RGSources))]
			if r.Intn(3) > 0 { // the writer itself declares no sorting columns: it records the row groups'
				c2.sorting = nil
			}
			c2.rgSorting = c17RandSorting(r, e)
			c2.desc += fmt.Sprintf(" +row-group-source=%s(earlier content: %s) source-sorting=%v writer-sorting=%v", c2.rgSrc, c2.rgSrcPrior, c2.rgSorting, c2.sorting)
			kcfg = &c2
			ctx.Hist("write-row-group-source", c2.rgSrc+" after "+c2.rgSrcPrior)
		}
		if kind == c17Sorting {
			if len(cfg.sorting) == 0 {
				c2 := *cfg
				c2.sorting = c17RandSorting(r, e)
				c2.desc += " +sorting=" + fmt.Sprint(c2.sorting)
				kcfg = &c2
			}
		}
		if kind == c17Refl {
			kbatches = nil // Writer.Write takes one row at a time; Flush positions are kept out
		}
		if kind == c17Sorting {
			c17DedupeBoundary(ctx, e, r, kcfg, rows, sortRows, compare)
			if r.Intn(2) == 0 {
				c2 := *kcfg
				c2.dedupe = true
				c2.desc += " +dedupe"
				kcfg = &c2
			}
		}
		ref, err, _ := c17Run(kind, e, kcfg, sortRows, nil, prior, rows, kbatches)
		if err != nil {
			ctx.Hist("reference-write-error", kind+" "+errClass(err))
			continue
		}
		// the same thing again: same goroutine, and three other goroutines at once
		again, err, _ := c17Run(kind, e, kcfg, sortRows, nil, prior, rows, kbatches)
		compare("fresh-repeat", kind, ref, again, err, map[string]any{"where": "same goroutine"})
		if kind == c17Generic && len(kcfg.kv) > 1 {
			// the configured key/value pairs are a map: the order the options are given in (and the
			// order Go iterates the map in) must not show in the file
			perm := *kcfg
			perm.kv = append([][2]string{}, kcfg.kv...)
			r.Shuffle(len(perm.kv), func(i, j int) { perm.kv[i], perm.kv[j] = perm.kv[j], perm.kv[i] })
			again, err, _ := c17Run(kind, e, &perm, sortRows, nil, prior, rows, kbatches)
			compare("fresh-repeat", kind, ref, again, err, map[string]any{"where": "key/value metadata options in another order", "kv_order": perm.kv})
			ctx.Hist("kv-metadata-permuted", fmt.Sprint(len(perm.kv)))
		}
		if kind == c17Generic {
			var g sync.WaitGroup
			res := make([][]byte, 3)
			errs := make([]error, 3)
			for i := range res {
				g.Add(1)
				go func(i int) {
					defer g.Done()
					res[i], errs[i], _ = c17Run(kind, e, kcfg, sortRows, nil, prior, rows, kbatches)
				}(i)
			}
			g.Wait()
			for i := range res {
				compare("fresh-repeat", kind, ref, res[i], errs[i], map[string]any{"where": "other goroutine"})
			}
		}
		hs := c17Histories(r, np, true)
		// quick tier: the completed-file history always, plus a rotating subset of the others
		keep := map[string]int{c17Generic: ctx.Scale(4, len(hs)), c17Refl: ctx.Scale(2, 4), c17Sorting: ctx.Scale(1, 3), c17RG: ctx.Scale(2, 4)}[kind]
		r.Shuffle(len(hs), func(i, j int) { hs[i], hs[j] = hs[j], hs[i] })
		for i := range hs {
			if hs[i].class == "closed" && i >= keep-1 {
				hs[keep-1], hs[i] = hs[i], hs[keep-1]
			}
		}
		hs = hs[:keep]
		for _, h := range hs {
			h := h
			got, err, perr := c17Run(kind, e, kcfg, sortRows, &h, prior, rows, kbatches)
			ctx.Hist("history", kind+" "+h.class)
			if err != nil && strings.HasPrefix(err.Error(), "during the prior history") {
				// a PANIC (not an error return) while the earlier content was written: the instance's
				// contract is void, nothing to compare. Not a determinism defect; counted and shown.
				// (Seen: SortingWriter.Close -> MergeRowGroups -> FileColumnIndex.MaxValue index out
				// of range on an optional fixed-length column with an all-null page: finding F6 of C02/C05.)
				ctx.Hist("prior-history-panic", kind+" "+errClass(errors.Unwrap(err)))
				continue
			}
			if perr > 0 {
				ctx.Hist("prior-history-errors", h.class)
			}
			want := ref
			if h.class == "set-key-value-metadata-then-closed" {
				// SetKeyValueMetadata edits the writer's metadata list, which the library keeps
				// across Reset like the configured KeyValueMetadata option (writer.reset does not
				// touch it). The call is therefore counted as part of the options: the
				// reference is a fresh writer on which the same call was made.
				kvh := c17History{class: "fresh-with-set-key-value-metadata"}
				if w2, err2, _ := c17Run(kind, e, kcfg, sortRows, &kvh, prior, rows, kbatches); err2 == nil {
					want = w2
					if err == nil && bytes.Equal(got, ref) {
						ctx.Hist("set-key-value-metadata-across-reset", "dropped")
					} else {
						ctx.Hist("set-key-value-metadata-across-reset", "kept (compared with a fresh writer + the same call)")
					}
				}
			}
			compare("reuse-after-reset", kind, want, got, err, map[string]any{"history": h.String(), "config": kcfg.desc})
		}
	}
}

// c17DedupeBoundary: a SortingWriter with DropDuplicatedRows(true) reused through Reset, where the
// EARLIER file consists of copies of the row that sorts FIRST in the new content (so the largest
// key of the earlier file equals the smallest key of the new one, and the rows are equal across
// the boundary): whatever the duplicate dropper remembers of the earlier file must not reach the
// new one. Several sort-run sizes and ways of ending the earlier file.
func c17DedupeBoundary(ctx *core.Ctx, e *gen.Entry, r *rand.Rand, base *c17Cfg, rows reflect.Value, sortRows int64,
	compare func(what, kind string, ref []byte, got []byte, err error, extra map[string]any)) {
	cfg := *base
	cfg.dedupe = true
	cfg.desc += " +dedupe"
	n := rows.Len()
	for _, run := range []int64{sortRows, 1, int64(n) + 1} {
		ref, err, _ := c17Run(c17Sorting, e, &cfg, run, nil, rows, rows, nil)
		if err != nil {
			ctx.Hist("reference-write-error", "sorting-writer+dedupe "+errClass(err))
			return
		}
		back, err := e.ReadAll(bytes.NewReader(ref), int64(len(ref)))
		if err != nil || reflect.ValueOf(back).Len() == 0 {
			ctx.Hist("dedupe-boundary", "skipped: reference unreadable or empty")
			return
		}
		first := reflect.ValueOf(back).Index(0) // the row that sorts first in the new content
		k := []int{1, 2, int(run) + 1}[r.Intn(3)]
		prior := e.NewRows(k)
		for i := 0; i < k; i++ {
			prior.Index(i).Set(first)
		}
		all := fmt.Sprintf("w%d", k)
		hs := []c17History{{"dedupe-boundary-closed", []string{all, "c"}}, {"dedupe-boundary-flushed", []string{all, "f"}},
			{"dedupe-boundary-two-generations", []string{all, "c", "r", all, "f"}}}
		h := hs[r.Intn(len(hs))]
		got, err, _ := c17Run(c17Sorting, e, &cfg, run, &h, prior, rows, nil)
		ctx.Hist("history", "sorting-writer "+h.class)
		ctx.Hist("dedupe-boundary", fmt.Sprintf("run-size %s", map[bool]string{true: "1", false: map[bool]string{true: "> rows", false: "random"}[run > int64(n)]}[run == 1]))
		if err != nil && strings.HasPrefix(err.Error(), "during the prior history") {
			ctx.Hist("prior-history-panic", "sorting-writer "+errClass(errors.Unwrap(err)))
			continue
		}
		compare("reuse-after-reset", c17Sorting, ref, got, err, map[string]any{"history": h.String(), "config": cfg.desc,
			"sort_row_count": run, "earlier_content": fmt.Sprintf("%d copies of the row that sorts first in the new content", k)})
	}
}

// ---------------------------------------------------------------- cross-build sub-check

type c17FileDigest struct {
	ID      string `json:"id"`
	Err     string `json:"err,omitempty"`
	Len     int    `json:"len"`
	FileSha string `json:"file_sha256"`
	RowsSha string `json:"rows_sha256"` // digest of the decoded column streams
	Chain   string `json:"sections"`    // c17Chain of the file's sections

	secs []c17Section
}

type c17EncDigest struct {
	ID  string `json:"id"`
	Out string `json:"out"` // hex of the encoder output, or "err:<class>"
}

type c17DigestFile struct {
	Seed    int64           `json:"seed"`
	Tier    string          `json:"tier"`
	Variant string          `json:"variant"`
	Session int             `json:"session"` // pid of the orchestrator that started this run
	Files   []c17FileDigest `json:"files"`
	Enc     []c17EncDigest  `json:"encodings"`
}

// the directory of the -out result file: where the orchestrator keeps per-run outputs
func c17OutDir() string {
	for i, a := range os.Args {
		for _, p := range []string{"-out", "--out"} {
			if a == p && i+1 < len(os.Args) {
				return filepath.Dir(os.Args[i+1])
			}
			if strings.HasPrefix(a, p+"=") {
				return filepath.Dir(a[len(p)+1:])
			}
		}
	}
	return os.TempDir()
}

type c17XCase struct {
	id      string
	e       *gen.Entry
	cfg     *c17Cfg
	rows    reflect.Value
	batches []int
	path    string
	sortRow int64
	big     *c17Big // a big-page case (c17_bigpage.go): e, cfg, rows are unset
	// rows respelled by c17Respell: equal values, other memory layout
	respelled bool
}

func (c *c17XCase) canon() string {
	if c.big != nil {
		return "file|" + c.id + "|" + c.big.desc()
	}
	return "file|" + c.id + "|" + c.cfg.desc + "|" + strings.Join(c17RowTexts(c.e, c.rows), "|")
}

func (c *c17XCase) write() ([]byte, error) {
	if c.big != nil {
		return c.big.write()
	}
	switch c.path {
	case c17Generic, c17Sorting:
		f, err, _ := c17Run(c.path, c.e, c.cfg, c.sortRow, nil, c.rows, c.rows, c.batches)
		return f, err
	default:
		f, err, _ := c17BufferFile("generic-buffer", c.e, c.cfg, false, nil, c.rows, c.rows)
		return f, err
	}
}

func (c *c17XCase) detail(ctx *core.Ctx) map[string]any {
	if c.big != nil {
		return map[string]any{"case": c.id, "input": c.big.desc(), "write_path": c.path, "this_variant": ctx.Variant}
	}
	return map[string]any{"case": c.id, "type": c.e.Name, "config": c.cfg.desc, "batches": c.batches, "write_path": c.path,
		"sort_row_count": c.sortRow, "rows": c17RowTexts(c.e, c.rows), "this_variant": ctx.Variant,
		"rows_respelled_equal_values_other_memory_layout": c.respelled}
}

func c17XCases(ctx *core.Ctx) []*c17XCase {
	ncases := ctx.Scale(8, 16) // thorough was 40 (round 4 budget)
	var out []*c17XCase
	for _, e := range gen.WithGeo() {
		r := ctx.Rand("c17x/" + e.Name)
		for k := 0; k < ncases; k++ {
			n := []int{1, 2, 7, 8, 9, 33, 64, 65, 100, 257, 300, 513}[r.Intn(12)]
			c := &c17XCase{e: e, rows: c17GenRows(r, e, n, r.Intn(3) != 0), cfg: c17RandCfg(r, e)}
			if r.Intn(3) == 0 {
				// equal values in another memory layout (c17_repr.go): empty strings with a non-nil
				// data pointer, byte strings at odd offsets of larger arrays, spare capacity — the
				// per-CPU kernels scan string/slice headers and copy bytes in vector-sized steps
				c.rows, _ = c17Respell(r, c.rows)
				c.respelled = true
			}
			c.batches = c01Batches(r, n)
			c.sortRow = int64(1 + r.Intn(n+2))
			switch r.Intn(5) {
			case 0:
				c.path = c17Sorting
				if len(c.cfg.sorting) == 0 {
					c.cfg.sorting = c17RandSorting(r, e)
					c.cfg.desc += " +sorting=" + fmt.Sprint(c.cfg.sorting)
				}
			case 1:
				c.path = "generic-buffer-write-row-group"
			default:
				c.path = c17Generic
			}
			c.id = fmt.Sprintf("%s/%d/%s", e.Name, k, c.path)
			out = append(out, c)
		}
	}
	return out
}

// encoder-level corpus: hybrid RLE (the dictionary index / level encoder), delta binary packed,
// byte stream split — the encoders with per-CPU kernels.
type c17EncCase struct {
	id    string
	kind  string
	width int
	ints  []int32
	longs []int64
}

func c17RunLens(r *rand.Rand) int {
	return []int{1, 1, 2, 3, 4, 4, 5, 7, 8, 8, 9, 12, 15, 16, 17, 24, 31, 32, 33, 63, 64, 65}[r.Intn(22)]
}

func c17EncCases(ctx *core.Ctx) []*c17EncCase {
	r := ctx.Rand("c17x/encodings")
	n := ctx.Scale(30000, 120000) // thorough was 400000 (round 4 budget)
	out := make([]*c17EncCase, 0, n)
	for i := 0; i < n; i++ {
		c := &c17EncCase{}
		total := []int{0, 1, 7, 8, 9, 15, 16, 17, 24, 31, 32, 33, 40, 63, 64, 65, 72, 127, 128, 129, 200}[r.Intn(21)]
		switch k := r.Intn(10); {
		case k < 6:
			c.kind = "rle-int32"
			c.width = []int{1, 1, 2, 2, 3, 4, 5, 7, 8, 9, 12, 16, 17, 24, 31, 32}[r.Intn(16)]
			mask := uint32(1)<<uint(c.width) - 1
			if c.width == 32 {
				mask = math.MaxUint32
			}
			alphabet := 2 + r.Intn(3)
			for len(c.ints) < total {
				v := int32(r.Uint32() & mask)
				if r.Intn(2) == 0 {
					v = int32(uint32(r.Intn(alphabet)) & mask)
				}
				for j, l := 0, c17RunLens(r); j < l && len(c.ints) < total; j++ {
					c.ints = append(c.ints, v)
				}
			}
		case k < 7:
			c.kind = "rle-levels"
			c.width = 1 + r.Intn(3)
			for len(c.ints) < total {
				v := int32(r.Intn(1 << uint(c.width)))
				for j, l := 0, c17RunLens(r); j < l && len(c.ints) < total; j++ {
					c.ints = append(c.ints, v)
				}
			}
		case k < 8:
			c.kind = "delta-int32"
			v := int32(r.Uint32())
			for len(c.ints) < total {
				switch r.Intn(4) {
				case 0:
					v = int32(r.Uint32())
				case 1:
					v += int32(r.Intn(5)) - 2
				case 2:
					v = []int32{0, -1, math.MinInt32, math.MaxInt32}[r.Intn(4)]
				}
				c.ints = append(c.ints, v)
			}
		case k < 9:
			c.kind = "delta-int64"
			v := int64(r.Uint64())
			for len(c.longs) < total {
				switch r.Intn(4) {
				case 0:
					v = int64(r.Uint64())
				case 1:
					v += int64(r.Intn(5)) - 2
				case 2:
					v = []int64{0, -1, math.MinInt64, math.MaxInt64}[r.Intn(4)]
				}
				c.longs = append(c.longs, v)
			}
		default:
			c.kind = []string{"bytestreamsplit-float", "bytestreamsplit-double"}[r.Intn(2)]
			for len(c.longs) < total {
				c.longs = append(c.longs, int64(r.Uint64()))
			}
		}
		c.id = fmt.Sprintf("%s/%d", c.kind, i)
		out = append(out, c)
	}
	return out
}

func (c *c17EncCase) input() string {
	if c.ints != nil || c.longs == nil {
		return fmt.Sprintf("%s width=%d %s", c.kind, c.width, core.JoinInts(c.ints))
	}
	return fmt.Sprintf("%s %s", c.kind, core.JoinInts(c.longs))
}

func (c *c17EncCase) run() (out string) {
	var b []byte
	err := c17Guard(func() (err error) {
		switch c.kind {
		case "rle-int32":
			b, err = (&rle.Encoding{BitWidth: c.width}).EncodeInt32(nil, c.ints)
		case "rle-levels":
			lv := make([]byte, len(c.ints))
			for i, v := range c.ints {
				lv[i] = byte(v)
			}
			b, err = (&rle.Encoding{BitWidth: c.width}).EncodeLevels(nil, lv)
		case "delta-int32":
			b, err = (&delta.BinaryPackedEncoding{}).EncodeInt32(nil, c.ints)
		case "delta-int64":
			b, err = (&delta.BinaryPackedEncoding{}).EncodeInt64(nil, c.longs)
		case "bytestreamsplit-float":
			fs := make([]float32, len(c.longs))
			for i, v := range c.longs {
				fs[i] = math.Float32frombits(uint32(v))
			}
			b, err = (&bytestreamsplit.Encoding{}).EncodeFloat(nil, fs)
		case "bytestreamsplit-double":
			ds := make([]float64, len(c.longs))
			for i, v := range c.longs {
				ds[i] = math.Float64frombits(uint64(v))
			}
			b, err = (&bytestreamsplit.Encoding{}).EncodeDouble(nil, ds)
		}
		return err
	})
	if err != nil {
		return errClass(err)
	}
	return hex.EncodeToString(b)
}

func RunC17CrossBuild(ctx *core.Ctx) {
	ctx.SetRule(c17Rule)
	cases := c17XCases(ctx)
	for i, b := range c17BigCases(ctx.Rand("c17x/big-pages"), ctx.Thorough()) {
		cases = append(cases, &c17XCase{id: fmt.Sprintf("big-page/%d/%s", i, b.profile), path: "big-page-generic-writer", big: b})
	}
	encs := c17EncCases(ctx)
	bounds := c17BoundsCases(ctx.Rand("c17x/page-bounds"), ctx.Thorough())
	mine := c17DigestFile{Seed: ctx.Seed, Tier: ctx.Tier, Variant: ctx.Variant, Session: os.Getppid()}
	if v := os.Getenv("VERIF_C17_SESSION"); v != "" { // manual runs outside ./check
		fmt.Sscanf(v, "%d", &mine.Session)
	}
	mine.Files = make([]c17FileDigest, len(cases))
	var wg sync.WaitGroup
	sem := make(chan struct{}, 16)
	for i := range cases {
		wg.Add(1)
		sem <- struct{}{}
		go func(i int) {
			defer wg.Done()
			defer func() { <-sem }()
			c := cases[i]
			d := c17FileDigest{ID: c.id}
			file, err := c.write()
			if dump := os.Getenv("VERIF_C17_DUMP"); dump != "" && dump == c.id { // debugging aid: keep one case's file
				os.WriteFile(filepath.Join(c17OutDir(), "C17-dump-"+ctx.Variant+".parquet"), file, 0o644)
			}
			if err != nil {
				d.Err = errClass(err)
			} else {
				d.Len, d.FileSha = len(file), c17ShaFull(file)
				if secs, err := c17Sections(file); err != nil {
					d.Err = "sections:" + errClass(err)
				} else {
					d.secs, d.Chain = secs, c17Chain(secs)
				}
				if cols, err := gen.ReadColumns(file); err != nil {
					d.RowsSha = "unreadable:" + errClass(err)
				} else {
					d.RowsSha = c17ShaFull([]byte(gen.ColsString(cols)))
				}
			}
			mine.Files[i] = d
			ctx.Case(c.canon(), c.big != nil || c.rows.Len() > 1)
			ctx.Hist("crossbuild-write-path", c.path)
			if c.respelled {
				ctx.Hist("crossbuild-rows-respelled", "yes")
			}
			for _, s := range d.secs {
				if strings.Contains(s.Class, "page") {
					ctx.Hist("crossbuild-page-sections", s.Class)
				}
			}
		}(i)
	}
	wg.Wait()
	mine.Enc = make([]c17EncDigest, len(encs)+len(bounds))
	for i := range bounds {
		wg.Add(1)
		sem <- struct{}{}
		go func(i int) {
			defer wg.Done()
			defer func() { <-sem }()
			mine.Enc[len(encs)+i] = c17EncDigest{ID: bounds[i].id, Out: bounds[i].run()}
			ctx.Case("bounds|"+bounds[i].desc(), true)
			ctx.Hist("crossbuild-page-bounds", bounds[i].typ)
		}(i)
	}
	chunk := (len(encs) + 15) / 16
	for lo := 0; lo < len(encs); lo += chunk {
		hi := lo + chunk
		if hi > len(encs) {
			hi = len(encs)
		}
		wg.Add(1)
		go func(lo, hi int) {
			defer wg.Done()
			for i := lo; i < hi; i++ {
				mine.Enc[i] = c17EncDigest{ID: encs[i].id, Out: encs[i].run()}
			}
		}(lo, hi)
	}
	wg.Wait()
	for _, c := range encs {
		n := len(c.ints) + len(c.longs)
		ctx.Case("enc|"+c.input(), n >= 8)
		ctx.Hist("crossbuild-encoder", c.kind)
	}
	dir := c17OutDir()
	os.MkdirAll(dir, 0o755)
	if b, err := json.Marshal(&mine); err == nil {
		tmp := filepath.Join(dir, "C17-digests-"+ctx.Variant+".json.tmp")
		if err := os.WriteFile(tmp, b, 0o644); err == nil {
			err = os.Rename(tmp, filepath.Join(dir, "C17-digests-"+ctx.Variant+".json"))
		}
		if err != nil {
			ctx.Fail("L2", "crossbuild-digest-file-unwritable", err.Error(), nil)
		}
	}
	other := map[string]string{"asm": "purego", "purego": "asm"}[ctx.Variant]
	var peer c17DigestFile
	pb, err := os.ReadFile(filepath.Join(dir, "C17-digests-"+other+".json"))
	if err != nil || json.Unmarshal(pb, &peer) != nil || peer.Session != mine.Session || peer.Seed != mine.Seed || peer.Tier != mine.Tier {
		// the other build has not run in this session (yet): it will compare with our file
		ctx.Hist("crossbuild-peer", "absent (this variant ran first, or alone)")
		return
	}
	ctx.Hist("crossbuild-peer", "compared with "+other)
	if len(peer.Files) != len(mine.Files) || len(peer.Enc) != len(mine.Enc) {
		ctx.Fail("L2", "crossbuild-corpus-mismatch", "the two builds generated corpora of different sizes from the same seed", map[string]any{
			"files": []int{len(mine.Files), len(peer.Files)}, "encodings": []int{len(mine.Enc), len(peer.Enc)}})
		return
	}
	for i, c := range cases {
		a, b := mine.Files[i], peer.Files[i]
		if a.ID != b.ID {
			ctx.Fail("L2", "crossbuild-corpus-mismatch", "case ids differ: "+a.ID+" vs "+b.ID, nil)
			return
		}
		if a.Err != b.Err {
			d := c.detail(ctx)
			d[ctx.Variant], d[other] = a.Err, b.Err
			ctx.Fail("L1", "crossbuild-write-outcome-differs", fmt.Sprintf("writing the same rows ends differently: %s=%q %s=%q", ctx.Variant, a.Err, other, b.Err), d)
			continue
		}
		if a.FileSha == b.FileSha {
			ctx.Hist("crossbuild-files", "identical")
			continue
		}
		ctx.Hist("crossbuild-files", "differ")
		class, label := c17FirstDiffChain(a.secs, b.Chain)
		if class == "" {
			class, label = "bytes-outside-known-sections", "-"
		}
		same := a.RowsSha == b.RowsSha && !strings.HasPrefix(a.RowsSha, "unreadable")
		d := c.detail(ctx)
		d["first_difference"], d["decode_to_same_rows"] = label, same
		d[ctx.Variant+"_sha256"], d[other+"_sha256"] = a.FileSha, b.FileSha
		d[ctx.Variant+"_len"], d[other+"_len"] = a.Len, b.Len
		ctx.Fail("L1", "crossbuild-"+class, fmt.Sprintf("the %s and %s builds write different bytes for the same rows and options: first difference %s at %s; the two files decode to the same rows: %v",
			ctx.Variant, other, class, label, same), d)
	}
	for i, c := range bounds {
		a, b := mine.Enc[len(encs)+i], peer.Enc[len(encs)+i]
		if a.Out != b.Out {
			ctx.Fail("L1", "crossbuild-page-bounds-"+c.typ, fmt.Sprintf("Page.Bounds of a %s page of %d values differs between the %s and %s builds: %s vs %s",
				c.typ, c.n, ctx.Variant, other, a.Out, b.Out), map[string]any{"case": c.id, "input": c.desc(), ctx.Variant: a.Out, other: b.Out})
		}
	}
	for i, c := range encs {
		a, b := mine.Enc[i], peer.Enc[i]
		if a.Out == b.Out {
			continue
		}
		key := "crossbuild-encoder-" + c.kind
		what := "outputs differ"
		if strings.HasPrefix(c.kind, "rle") && !strings.HasPrefix(a.Out, "err") && !strings.HasPrefix(b.Out, "err") {
			ab, _ := hex.DecodeString(a.Out)
			bb, _ := hex.DecodeString(b.Out)
			ra, ia := c17RLE(ab, c.width)
			rb, ib := c17RLE(bb, c.width)
			if ia == ib && ra != rb && ra != "malformed" && rb != "malformed" {
				key += "-segmentation"
				what = "both streams decode to the same integers but are cut into different runs"
			}
		}
		ctx.Fail("L1", key, fmt.Sprintf("%s output differs between the %s and %s builds: %s", c.kind, ctx.Variant, other, what),
			map[string]any{"case": c.id, "input": c.input(), ctx.Variant: a.Out, other: b.Out})
	}
}
