package props

import (
	"bytes"
	"encoding/hex"
	"fmt"
	"io"
	"math"
	"math/rand"
	"sort"
	"strings"
	"sync"
	"time"

	"github.com/google/uuid"
	"github.com/parquet-go/parquet-go"
	"github.com/parquet-go/parquet-go/variant"

	"verifharness/core"
)

// Property C19, part "shredding": a variant column written through any shredding schema reads back
// as the value written.
//
//	L1  real files: random values x random shredding schemas (none / primitive / list / object,
//	    nested) x write paths {raw bytes, Go-native values, buffer+WriteRowGroup, Deconstruct+WriteRows,
//	    VariantColumnWriter.WriteValue} x read paths {raw through the file's shredded schema, Go-native
//	    through the file's schema, conversion to the unshredded schema (parquet.Read), legacy Reader
//	    with an unshredded schema}: every row equals the row written (own deep comparison; raw bytes
//	    read back are also decoded by the Lean SPEC decoder).
//	L2  the number of non-null values each leaf column of the file holds equals what the Lean MIRROR
//	    of the shredding writer puts there (which column a value lands in); for the raw write paths
//	    the whole content of every leaf column (row metadata, residual encodings, typed leaf values)
//	    equals the mirror's; the mirror's reconstruction of its own shredding is the value.

func init() { RegisterSub("C19", "shredding", RunC19Shredding) }

// ---------------------------------------------------------------- schemas

type c19Schema struct {
	kind   string // none prim list obj
	tag    string // primitive tag of the Lean model (PType)
	node   func() parquet.Node
	elem   *c19Schema
	names  []string // sorted
	fields []*c19Schema
}

func (s *c19Schema) text(sb *strings.Builder) {
	switch s.kind {
	case "none":
		sb.WriteByte('-')
	case "prim":
		sb.WriteString("p" + s.tag)
	case "list":
		sb.WriteByte('[')
		s.elem.text(sb)
		sb.WriteByte(']')
	case "obj":
		sb.WriteByte('{')
		for i, n := range s.names {
			if i > 0 {
				sb.WriteByte(',')
			}
			sb.WriteString(hex.EncodeToString([]byte(n)) + "=")
			s.fields[i].text(sb)
		}
		sb.WriteByte('}')
	}
}

func (s *c19Schema) String() string { var sb strings.Builder; s.text(&sb); return sb.String() }

func (s *c19Schema) parquetNode() parquet.Node {
	switch s.kind {
	case "prim":
		return s.node()
	case "list":
		return parquet.List(s.elem.parquetNode())
	case "obj":
		g := parquet.Group{}
		for i, n := range s.names {
			g[n] = s.fields[i].parquetNode()
		}
		return g
	}
	panic("c19: no typed_value node for " + s.kind)
}

// leaf column paths below the variant group, in the order of the Lean `leafCounts`
func (s *c19Schema) leafPaths(prefix string, out *[]string) {
	*out = append(*out, prefix+"value")
	switch s.kind {
	case "prim":
		*out = append(*out, prefix+"typed_value")
	case "list":
		s.elem.leafPaths(prefix+"typed_value.list.element.", out)
	case "obj":
		for i, n := range s.names {
			s.fields[i].leafPaths(prefix+"typed_value."+n+".", out)
		}
	}
}

var c19ShredNames = []string{"a", "b", "c", "d", "é"}

type c19Leaf struct {
	tag  string
	node func() parquet.Node
}

func c19RandLeaf(r *rand.Rand) c19Leaf {
	switch r.Intn(22) {
	case 0:
		return c19Leaf{"bool", func() parquet.Node { return parquet.Leaf(parquet.BooleanType) }}
	case 1:
		return c19Leaf{"i8", func() parquet.Node { return parquet.Int(8) }}
	case 2:
		return c19Leaf{"i16", func() parquet.Node { return parquet.Int(16) }}
	case 3:
		return c19Leaf{"i32", func() parquet.Node { return parquet.Int(32) }}
	case 4:
		return c19Leaf{"i32", func() parquet.Node { return parquet.Leaf(parquet.Int32Type) }}
	case 5:
		return c19Leaf{"i64", func() parquet.Node { return parquet.Int(64) }}
	case 6:
		return c19Leaf{"i64", func() parquet.Node { return parquet.Leaf(parquet.Int64Type) }}
	case 7:
		return c19Leaf{"f32", func() parquet.Node { return parquet.Leaf(parquet.FloatType) }}
	case 8:
		return c19Leaf{"f64", func() parquet.Node { return parquet.Leaf(parquet.DoubleType) }}
	case 9, 10:
		return c19Leaf{"str", func() parquet.Node { return parquet.String() }}
	case 11:
		return c19Leaf{"bin", func() parquet.Node { return parquet.Leaf(parquet.ByteArrayType) }}
	case 12:
		return c19Leaf{"date", func() parquet.Node { return parquet.Date() }}
	case 13:
		return c19Leaf{"uuid", func() parquet.Node { return parquet.UUID() }}
	case 14:
		utc := r.Intn(2) == 0
		tag := "tsntz"
		if utc {
			tag = "ts"
		}
		return c19Leaf{tag, func() parquet.Node { return parquet.TimestampAdjusted(parquet.Microsecond, utc) }}
	case 15:
		utc := r.Intn(2) == 0
		tag := "tsntzns"
		if utc {
			tag = "tsns"
		}
		return c19Leaf{tag, func() parquet.Node { return parquet.TimestampAdjusted(parquet.Nanosecond, utc) }}
	case 16:
		utc := r.Intn(2) == 0
		return c19Leaf{"time", func() parquet.Node { return parquet.TimeAdjusted(parquet.Microsecond, utc) }}
	case 17:
		p := []int{1, 5, 9}[r.Intn(3)]
		sc := []int{0, 2}[r.Intn(2)]
		return c19Leaf{fmt.Sprintf("d4:%d:%d", p, sc), func() parquet.Node { return parquet.Decimal(sc, p, parquet.Int32Type) }}
	case 18:
		p := []int{10, 14, 18}[r.Intn(3)]
		sc := []int{0, 2}[r.Intn(2)]
		return c19Leaf{fmt.Sprintf("d8:%d:%d", p, sc), func() parquet.Node { return parquet.Decimal(sc, p, parquet.Int64Type) }}
	case 19:
		p := []int{3, 20, 38}[r.Intn(3)]
		sc := []int{0, 2}[r.Intn(2)]
		return c19Leaf{fmt.Sprintf("d16:%d:%d", p, sc), func() parquet.Node { return parquet.Decimal(sc, p, parquet.FixedLenByteArrayType(16)) }}
	case 20:
		p := []int{3, 20, 38}[r.Intn(3)]
		sc := []int{0, 2}[r.Intn(2)]
		return c19Leaf{fmt.Sprintf("d16:%d:%d", p, sc), func() parquet.Node { return parquet.Decimal(sc, p, parquet.ByteArrayType) }}
	default:
		return c19Leaf{"str", func() parquet.Node { return parquet.String() }}
	}
}

func c19RandSchema(r *rand.Rand, depth int) *c19Schema {
	if depth < 3 {
		switch r.Intn(8) {
		case 0, 1:
			return &c19Schema{kind: "list", elem: c19RandSchema(r, depth+1)}
		case 2, 3, 4:
			s := &c19Schema{kind: "obj"}
			for _, n := range c19ShredNames {
				if r.Intn(2) == 0 {
					s.names = append(s.names, n)
				}
			}
			if len(s.names) == 0 {
				s.names = []string{c19ShredNames[r.Intn(len(c19ShredNames))]}
			}
			sort.Strings(s.names)
			for range s.names {
				s.fields = append(s.fields, c19RandSchema(r, depth+1))
			}
			return s
		}
	}
	l := c19RandLeaf(r)
	return &c19Schema{kind: "prim", tag: l.tag, node: l.node}
}

// ---------------------------------------------------------------- values aimed at a schema

// native = only kinds with a Go-native image that variant.ValueOf maps back to the same kind
func c19ShredPrim(r *rand.Rand, native bool) *c19Node {
	for {
		n := c19RandPrim(r, false)
		switch n.kind {
		case "d4":
			n.scale = byte([]int{0, 2, 3}[r.Intn(3)])
			if r.Intn(2) == 0 {
				n.i = int64(r.Intn(200001) - 100000) // around 10^5 (precision 5)
			}
		case "d8":
			n.scale = byte([]int{0, 2, 3}[r.Intn(3)])
			if r.Intn(2) == 0 {
				n.i = []int64{99, 100, -99, -100, 9999999999, 10000000000, -10000000000, 999999999999999999, 1000000000000000000}[r.Intn(9)]
			}
		case "d16":
			n.scale = byte([]int{0, 2, 3}[r.Intn(3)])
			if r.Intn(2) == 0 { // |x| around 10^3
				x := int64(r.Intn(2003) - 1001)
				for i := 0; i < 16; i++ {
					if i < 8 {
						n.b[i] = byte(uint64(x) >> (8 * i))
					} else if x < 0 {
						n.b[i] = 0xFF
					} else {
						n.b[i] = 0
					}
				}
			}
		case "ts", "tsntz", "time":
			n.i >>= 8
		case "tsns", "tsntzns":
			n.i >>= 2
			if native && n.i%1000 == 0 {
				n.i++ // a time.Time without sub-microsecond part is mapped to the micros kind
			}
		}
		if native {
			switch n.kind {
			case "date", "tsntz", "time", "tsntzns", "d4", "d8", "d16":
				continue
			}
		}
		return n
	}
}

func c19ShredValue(r *rand.Rand, s *c19Schema, depth int, native bool) *c19Node {
	// mostly follow the schema shape, sometimes go off it
	if s != nil && r.Intn(5) > 0 {
		switch s.kind {
		case "list":
			n := r.Intn(4)
			a := &c19Node{kind: "arr"}
			for i := 0; i < n; i++ {
				a.elems = append(a.elems, c19ShredValue(r, s.elem, depth+1, native))
			}
			return a
		case "obj":
			o := &c19Node{kind: "obj"}
			pool := append(append([]string(nil), c19ShredNames...), "resid", "zz", "A")
			r.Shuffle(len(pool), func(i, j int) { pool[i], pool[j] = pool[j], pool[i] })
			for _, name := range pool {
				var fs *c19Schema
				for i, sn := range s.names {
					if sn == name {
						fs = s.fields[i]
					}
				}
				p := 2
				if fs == nil {
					p = 5
				}
				if r.Intn(p) == 0 {
					o.keys = append(o.keys, name)
					o.elems = append(o.elems, c19ShredValue(r, fs, depth+1, native))
				}
			}
			return o
		case "prim":
			want := strings.SplitN(s.tag, ":", 2)[0]
			if k, ok := map[string]string{"bool": "t", "str": "s", "uuid": "u"}[want]; ok {
				want = k
			}
			for tries := 0; tries < 60; tries++ {
				n := c19ShredPrim(r, native)
				if n.kind == want || (want == "t" && n.kind == "f") {
					return n
				}
			}
		}
	}
	if depth < 3 && r.Intn(3) == 0 {
		if r.Intn(2) == 0 {
			return c19ShredValue(r, &c19Schema{kind: "list", elem: nil}, depth, native)
		}
		o := &c19Schema{kind: "obj"}
		return c19ShredValue(r, o, depth, native)
	}
	return c19ShredPrim(r, native)
}

// ---------------------------------------------------------------- Go-native images

func c19FloorDivMod(a, b int64) (int64, int64) {
	q, m := a/b, a%b
	if m < 0 {
		q--
		m += b
	}
	return q, m
}

// the Go value handed to the typed write path (native kinds only)
func (n *c19Node) toNative() any {
	switch n.kind {
	case "n":
		return nil
	case "t":
		return true
	case "f":
		return false
	case "i8":
		return int8(n.i)
	case "i16":
		return int16(n.i)
	case "i32":
		return int32(n.i)
	case "i64":
		return n.i
	case "f32":
		return math.Float32frombits(uint32(n.bits))
	case "f64":
		return math.Float64frombits(n.bits)
	case "s":
		return string(n.b)
	case "bin":
		return bytes.Clone(n.b)
	case "u":
		var u uuid.UUID
		copy(u[:], n.b)
		return u
	case "ts":
		return time.UnixMicro(n.i).UTC()
	case "tsns":
		return time.Unix(0, n.i).UTC()
	case "arr":
		out := make([]any, len(n.elems))
		for i, e := range n.elems {
			out[i] = e.toNative()
		}
		return out
	case "obj":
		m := make(map[string]any, len(n.elems))
		for i, e := range n.elems {
			m[n.keys[i]] = e.toNative()
		}
		return m
	}
	panic("c19: no native image for " + n.kind)
}

// nativeText: what Value.GoValue documents for this value, as canonical text
func (n *c19Node) nativeText(sb *strings.Builder) {
	switch n.kind {
	case "n":
		sb.WriteString("nil")
	case "t":
		sb.WriteString("b:true")
	case "f":
		sb.WriteString("b:false")
	case "i8", "i16", "i32", "i64":
		fmt.Fprintf(sb, "%s:%d", n.kind, n.i)
	case "date", "d4":
		fmt.Fprintf(sb, "i32:%d", n.i)
	case "tsntz", "tsntzns", "time", "d8":
		fmt.Fprintf(sb, "i64:%d", n.i)
	case "f32":
		fmt.Fprintf(sb, "f32:%08x", uint32(n.bits))
	case "f64":
		fmt.Fprintf(sb, "f64:%016x", n.bits)
	case "s":
		sb.WriteString("s:" + hex.EncodeToString(n.b))
	case "bin":
		sb.WriteString("bin:" + hex.EncodeToString(n.b))
	case "u":
		sb.WriteString("u:" + hex.EncodeToString(n.b))
	case "d16":
		sb.WriteString("a16:" + hex.EncodeToString(n.b))
	case "ts":
		s, us := c19FloorDivMod(n.i, 1000000)
		fmt.Fprintf(sb, "T%d.%09d", s, us*1000)
	case "tsns":
		s, ns := c19FloorDivMod(n.i, 1000000000)
		fmt.Fprintf(sb, "T%d.%09d", s, ns)
	case "arr":
		sb.WriteByte('[')
		for i, e := range n.elems {
			if i > 0 {
				sb.WriteByte(',')
			}
			e.nativeText(sb)
		}
		sb.WriteByte(']')
	case "obj":
		idx := make([]int, len(n.keys))
		for i := range idx {
			idx[i] = i
		}
		sort.Slice(idx, func(a, b int) bool { return n.keys[idx[a]] < n.keys[idx[b]] })
		sb.WriteByte('{')
		for j, i := range idx {
			if j > 0 {
				sb.WriteByte(',')
			}
			sb.WriteString(hex.EncodeToString([]byte(n.keys[i])) + "=")
			n.elems[i].nativeText(sb)
		}
		sb.WriteByte('}')
	}
}

func c19GoText(v any, sb *strings.Builder) {
	switch x := v.(type) {
	case nil:
		sb.WriteString("nil")
	case bool:
		fmt.Fprintf(sb, "b:%v", x)
	case int8:
		fmt.Fprintf(sb, "i8:%d", x)
	case int16:
		fmt.Fprintf(sb, "i16:%d", x)
	case int32:
		fmt.Fprintf(sb, "i32:%d", x)
	case int64:
		fmt.Fprintf(sb, "i64:%d", x)
	case float32:
		fmt.Fprintf(sb, "f32:%08x", math.Float32bits(x))
	case float64:
		fmt.Fprintf(sb, "f64:%016x", math.Float64bits(x))
	case string:
		sb.WriteString("s:" + hex.EncodeToString([]byte(x)))
	case []byte:
		sb.WriteString("bin:" + hex.EncodeToString(x))
	case uuid.UUID:
		sb.WriteString("u:" + hex.EncodeToString(x[:]))
	case [16]byte:
		sb.WriteString("a16:" + hex.EncodeToString(x[:]))
	case time.Time:
		fmt.Fprintf(sb, "T%d.%09d", x.Unix(), x.Nanosecond())
		if x.Location() != time.UTC {
			sb.WriteString("@" + x.Location().String())
		}
	case []any:
		sb.WriteByte('[')
		for i, e := range x {
			if i > 0 {
				sb.WriteByte(',')
			}
			c19GoText(e, sb)
		}
		sb.WriteByte(']')
	case map[string]any:
		keys := make([]string, 0, len(x))
		for k := range x {
			keys = append(keys, k)
		}
		sort.Strings(keys)
		sb.WriteByte('{')
		for i, k := range keys {
			if i > 0 {
				sb.WriteByte(',')
			}
			sb.WriteString(hex.EncodeToString([]byte(k)) + "=")
			c19GoText(x[k], sb)
		}
		sb.WriteByte('}')
	default:
		fmt.Fprintf(sb, "?%T", v)
	}
}

// ---------------------------------------------------------------- row shapes and paths

type c19Raw struct {
	Metadata []byte `parquet:"metadata"`
	Value    []byte `parquet:"value"`
}

type c19RowAny struct {
	ID  int32 `parquet:"id"`
	Var any   `parquet:"var,variant"`
}

type c19RowRaw struct {
	ID  int32  `parquet:"id"`
	Var c19Raw `parquet:"var,variant"`
}

type c19File struct {
	data []byte
	err  error
}

func c19Guard(f func() error) (err error) {
	defer func() {
		if p := recover(); p != nil {
			err = fmt.Errorf("PANIC: %v", p)
		}
	}()
	return f()
}

func c19WriteGeneric(schema *parquet.Schema, rows []c19RowAny, mode string) ([]byte, error) {
	buf := new(bytes.Buffer)
	err := c19Guard(func() error {
		w := parquet.NewGenericWriter[c19RowAny](buf, schema)
		switch mode {
		case "generic":
			// split the batch so that Write is called more than once
			k := len(rows) / 2
			if _, err := w.Write(rows[:k]); err != nil {
				return err
			}
			if _, err := w.Write(rows[k:]); err != nil {
				return err
			}
		case "buffer":
			b := parquet.NewGenericBuffer[c19RowAny](schema)
			if _, err := b.Write(rows); err != nil {
				return err
			}
			if _, err := w.WriteRowGroup(b); err != nil {
				return err
			}
		case "deconstruct":
			dec := make([]parquet.Row, len(rows))
			for i := range rows {
				dec[i] = schema.Deconstruct(nil, &rows[i])
			}
			if _, err := w.WriteRows(dec); err != nil {
				return err
			}
		}
		return w.Close()
	})
	return buf.Bytes(), err
}

func c19WriteColumnar(schema *parquet.Schema, values []variant.Value) ([]byte, error) {
	buf := new(bytes.Buffer)
	err := c19Guard(func() error {
		w := parquet.NewWriter(buf, schema)
		vw, err := parquet.NewVariantColumnWriter(w, "var")
		if err != nil {
			return err
		}
		idColumn := w.ColumnWriters()[0]
		idValue := make([]parquet.Value, 1)
		for i, v := range values {
			idValue[0] = parquet.Int32Value(int32(i)).Level(0, 0, 0)
			if _, err := idColumn.WriteRowValues(idValue); err != nil {
				return err
			}
			if err := vw.WriteValue(v); err != nil {
				return err
			}
		}
		return w.Close()
	})
	return buf.Bytes(), err
}

// read results: per row either raw bytes or a Go-native value
type c19ReadRow struct {
	raw    *c19Raw
	native any
}

func c19ReadPath(name string, data []byte, fileSchema *parquet.Schema, n int) (rows []c19ReadRow, err error) {
	err = c19Guard(func() error {
		switch name {
		case "raw-direct":
			r := parquet.NewGenericReader[c19RowRaw](bytes.NewReader(data), fileSchema)
			defer r.Close()
			out := make([]c19RowRaw, n)
			k, err := r.Read(out)
			if err != nil && err != io.EOF {
				return err
			}
			for i := 0; i < k; i++ {
				v := out[i].Var
				rows = append(rows, c19ReadRow{raw: &v})
			}
		case "native-direct":
			r := parquet.NewGenericReader[c19RowAny](bytes.NewReader(data), fileSchema)
			defer r.Close()
			out := make([]c19RowAny, n)
			k, err := r.Read(out)
			if err != nil && err != io.EOF {
				return err
			}
			for i := 0; i < k; i++ {
				rows = append(rows, c19ReadRow{native: out[i].Var})
			}
		case "convert":
			out, err := parquet.Read[c19RowRaw](bytes.NewReader(data), int64(len(data)))
			if err != nil {
				return err
			}
			for i := range out {
				v := out[i].Var
				rows = append(rows, c19ReadRow{raw: &v})
			}
		case "legacy-unshredded":
			readSchema := parquet.NewSchema("table", parquet.Group{"id": parquet.Int(32), "var": parquet.Variant()})
			r := parquet.NewReader(bytes.NewReader(data), readSchema)
			defer r.Close()
			for i := 0; i < n; i++ {
				var row c19RowRaw
				if err := r.Read(&row); err != nil {
					return err
				}
				v := row.Var
				rows = append(rows, c19ReadRow{raw: &v})
			}
		}
		return nil
	})
	return
}

// the non-null values of every leaf column, by dotted path, as canonical text
func c19ColumnValues(data []byte) (cols map[string][]string, err error) {
	cols = map[string][]string{}
	err = c19Guard(func() error {
		f, err := parquet.OpenFile(bytes.NewReader(data), int64(len(data)))
		if err != nil {
			return err
		}
		paths := f.Schema().Columns()
		for _, rg := range f.RowGroups() {
			for ci, cc := range rg.ColumnChunks() {
				path := strings.Join(paths[ci], ".")
				pages := cc.Pages()
				for {
					p, err := pages.ReadPage()
					if err == io.EOF {
						break
					}
					if err != nil {
						pages.Close()
						return err
					}
					vals := make([]parquet.Value, p.NumValues())
					k, _ := p.Values().ReadValues(vals)
					for _, v := range vals[:k] {
						if v.IsNull() {
							continue
						}
						var t string
						switch v.Kind() {
						case parquet.Boolean:
							t = "b0"
							if v.Boolean() {
								t = "b1"
							}
						case parquet.Int32:
							t = fmt.Sprintf("i32:%d", v.Int32())
						case parquet.Int64:
							t = fmt.Sprintf("i64:%d", v.Int64())
						case parquet.Float:
							t = fmt.Sprintf("f32:%08x", math.Float32bits(v.Float()))
						case parquet.Double:
							t = fmt.Sprintf("f64:%016x", math.Float64bits(v.Double()))
						case parquet.ByteArray, parquet.FixedLenByteArray:
							t = "x" + hex.EncodeToString(v.ByteArray())
						default:
							t = "?" + v.Kind().String()
						}
						cols[path] = append(cols[path], t)
					}
					parquet.Release(p)
				}
				pages.Close()
			}
		}
		return nil
	})
	return
}

// ---------------------------------------------------------------- the sub-check

func RunC19Shredding(ctx *core.Ctx) {
	ctx.SetRule(c19Rule)
	nw := 8
	total := ctx.Scale(320, 3200)
	var wg sync.WaitGroup
	for w := 0; w < nw; w++ {
		w := w
		wg.Add(1)
		go func() {
			defer wg.Done()
			r := ctx.Rand(fmt.Sprintf("c19-shred-%d", w))
			d := ctx.Driver()
			var p c19Pending
			if w == 0 {
				c19ForeignDirected(ctx, r, d, &p)
			}
			for i := 0; i < total/nw; i++ {
				c19ShredCase(ctx, r, &p, w == 0 && i < 2)
				if i%2 == 0 {
					c19NestedCases(ctx, r, &p) // the variant group below repeated / optional ancestors
				}
				if i%4 == 1 {
					c19LayoutCase(ctx, r) // small pages and dictionaries, several row groups, cursor reader
				}
				if !ctx.Thorough() || i%3 == 0 {
					c19ForeignCases(ctx, r, d, &p) // files built cell by cell the way another writer lays them out
				}
				if len(p.reqs) >= 1000 {
					p.flush(ctx, d)
				}
			}
			p.flush(ctx, d)
		}()
	}
	wg.Wait()
	c19ShredSNaNProbe(ctx)
}

// c19ShredSNaNProbe: raw variant bytes holding a float32 signalling NaN, written through a shredded
// column (typed FLOAT column, and a column of another type so that the value falls back to `value`)
// and read back raw: the bytes read are compared with the bytes written.
func c19ShredSNaNProbe(ctx *core.Ctx) {
	meta := []byte{0x11, 0x00, 0x00}
	for _, leaf := range []struct {
		name string
		node parquet.Node
	}{{"typed-float", parquet.Leaf(parquet.FloatType)}, {"fallback", parquet.String()}} {
		vn, err := parquet.ShreddedVariant(leaf.node)
		if err != nil {
			continue
		}
		schema := parquet.NewSchema("table", parquet.Group{"id": parquet.Int(32), "var": vn})
		var rows []c19RowAny
		for i, bits := range c19F32SNaN {
			value := []byte{14 << 2, byte(bits), byte(bits >> 8), byte(bits >> 16), byte(bits >> 24)}
			rows = append(rows, c19RowAny{ID: int32(i), Var: c19Raw{Metadata: meta, Value: value}})
		}
		data, err := c19WriteGeneric(schema, rows, "generic")
		if err != nil {
			ctx.Fail("L1", "write-fails snan-probe", err.Error(), nil)
			continue
		}
		got, err := c19ReadPath("raw-direct", data, schema, len(rows))
		if err != nil || len(got) != len(rows) {
			ctx.Fail("L1", "read-fails snan-probe", fmt.Sprint(err), nil)
			continue
		}
		for i, g := range got {
			want := rows[i].Var.(c19Raw).Value
			ctx.Case("shred-snan "+leaf.name+" "+core.Hex(want), true)
			if !bytes.Equal(g.raw.Value, want) {
				ctx.Hist("shred.note", "float32-snan-changed "+leaf.name)
				ctx.Observe("float32-signalling-nan-quieted", "a float32 signalling NaN written (raw variant bytes) through a shredded column reads back with another payload (NaN compared by bits)",
					map[string]any{"schema": leaf.name, "written_value_hex": core.Hex(want), "read_value_hex": core.Hex(g.raw.Value)})
			}
		}
	}
}

func c19ShredCase(ctx *core.Ctx, r *rand.Rand, p *c19Pending, sample bool) {
	var s *c19Schema
	if r.Intn(8) == 0 {
		s = &c19Schema{kind: "none"}
	} else {
		s = c19RandSchema(r, 0)
	}
	stxt := s.String()
	variantNode := parquet.Variant()
	if s.kind != "none" {
		var err error
		if err = c19Guard(func() error { var e error; variantNode, e = parquet.ShreddedVariant(s.parquetNode()); return e }); err != nil {
			ctx.Fail("L1", "shredded-schema-rejected "+s.kind, "ShreddedVariant rejects a valid shredding schema: "+err.Error(), map[string]any{"schema": stxt})
			return
		}
	}
	schema := parquet.NewSchema("table", parquet.Group{"id": parquet.Int(32), "var": variantNode})
	ctx.Hist("shred.schema", s.kind)

	nrows := 4 + r.Intn(6)
	type wpath struct {
		name   string
		native bool
	}
	wpaths := []wpath{{"raw-generic", false}, {"native-generic", true}, {"raw-buffer", false}, {"raw-deconstruct", false}, {"native-deconstruct", true}, {"columnar-writevalue", false}}
	rpaths := []string{"raw-direct", "native-direct", "convert", "legacy-unshredded"}
	var leafPaths []string
	s.leafPaths("var.", &leafPaths)

	for _, wp := range wpaths {
		values := make([]*c19Node, nrows)
		for i := range values {
			if r.Intn(6) == 0 && !wp.native {
				b := 6 + r.Intn(10)
				values[i] = c19RandTree(r, 0, 1+r.Intn(4), &b)
			} else {
				values[i] = c19ShredValue(r, s, 0, wp.native)
			}
		}
		var canon strings.Builder
		canon.WriteString(stxt + " " + wp.name)
		want := make([]string, nrows)
		wantNative := make([]string, nrows)
		gov := make([]variant.Value, nrows)
		rows := make([]c19RowAny, nrows)
		for i, n := range values {
			want[i] = n.SortedString()
			var sb strings.Builder
			n.nativeText(&sb)
			wantNative[i] = sb.String()
			canon.WriteString(" " + n.String())
			gov[i] = n.toVariant()
			if wp.native {
				rows[i] = c19RowAny{ID: int32(i), Var: n.toNative()}
			} else {
				m, v := c19Encode(gov[i])
				rows[i] = c19RowAny{ID: int32(i), Var: c19Raw{Metadata: m, Value: v}}
			}
		}
		ctx.Case(canon.String(), s.kind != "none")
		if sample && wp.name == "raw-generic" {
			ctx.Sample(map[string]any{"schema": stxt, "values": want})
		}
		ctx.Hist("shred.write", wp.name)
		detail := func(extra map[string]any) map[string]any {
			m := map[string]any{"schema": stxt, "parquet_schema": schema.String(), "write": wp.name, "values": want}
			for k, x := range extra {
				m[k] = x
			}
			return m
		}
		var data []byte
		var err error
		switch wp.name {
		case "raw-generic", "native-generic":
			data, err = c19WriteGeneric(schema, rows, "generic")
		case "raw-buffer":
			data, err = c19WriteGeneric(schema, rows, "buffer")
		case "raw-deconstruct", "native-deconstruct":
			data, err = c19WriteGeneric(schema, rows, "deconstruct")
		case "columnar-writevalue":
			data, err = c19WriteColumnar(schema, gov)
		}
		if err != nil {
			ctx.Fail("L1", "write-fails "+wp.name+" schema="+s.kind, "writing a variant column fails: "+err.Error(), detail(nil))
			continue
		}
		// ---- L1: every read path returns the rows written
		for _, rp := range rpaths {
			ctx.Hist("shred.read", rp)
			got, err := c19ReadPath(rp, data, schema, nrows)
			sig := wp.name + "->" + rp + " schema=" + s.kind
			if err != nil {
				ctx.Fail("L1", "read-fails "+sig, "reading the variant column back fails: "+err.Error(), detail(map[string]any{"read": rp}))
				continue
			}
			if len(got) != nrows {
				ctx.Fail("L1", "row-count "+sig, fmt.Sprintf("read %d rows, wrote %d", len(got), nrows), detail(map[string]any{"read": rp}))
				continue
			}
			for i, g := range got {
				i := i
				if g.raw != nil {
					v, err := c19Decode(g.raw.Metadata, g.raw.Value)
					if err != nil {
						ctx.Fail("L1", "readback-undecodable "+sig, "the variant bytes read back do not decode: "+err.Error(), detail(map[string]any{"read": rp, "row": i,
							"metadata_hex": core.Hex(g.raw.Metadata), "value_hex": core.Hex(g.raw.Value)}))
						continue
					}
					if t := c19VText(v, true); t != want[i] {
						ctx.Fail("L1", "value-changed "+sig, "the value read back is not the value written", detail(map[string]any{"read": rp, "row": i, "got": t, "want": want[i]}))
						continue
					}
					if !v.Equal(gov[i]) {
						ctx.Fail("L1", "equal-false "+sig, "Value.Equal(read, written) is false", detail(map[string]any{"read": rp, "row": i}))
					}
					if rp == "raw-direct" || rp == "convert" {
						mh, vh, wi := core.Hex(g.raw.Metadata), core.Hex(g.raw.Value), want[i]
						p.add("variant.dec "+mh+" "+vh, func(ans string) {
							if ans != "ok "+wi {
								ctx.Fail("L1", "spec-decoder-on-readback "+sig, "the spec decoder does not read the bytes read back as the value written",
									detail(map[string]any{"read": rp, "row": i, "spec": ans, "want": wi, "metadata_hex": mh, "value_hex": vh}))
							}
						})
					}
				} else {
					var sb strings.Builder
					c19GoText(g.native, &sb)
					if sb.String() != wantNative[i] {
						ctx.Fail("L1", "native-value-changed "+sig, "the Go value read back is not the Go image of the value written",
							detail(map[string]any{"read": rp, "row": i, "got": sb.String(), "want": wantNative[i]}))
					}
				}
			}
		}
		// ---- L1: the columnar VariantReader and conversion through evolved reader schemas
		var navTie []*c19NavL2
		if (strings.HasPrefix(wp.name, "raw-") || wp.name == "columnar-writevalue") && s.kind != "none" {
			navTie = append(navTie, &c19NavL2{stxt: stxt, p: p}) // the writer shreds exactly the values of `want`
		}
		c19CheckCursor(ctx, data, want, []int{1, 3, 1000}[r.Intn(3)], wp.name+"->cursor schema="+s.kind, detail, navTie...)
		c19CheckEvolved(ctx, data, want, wp.name+" schema="+s.kind, detail)
		// ---- L2: which leaf column holds what, against the mirror of the shredding writer
		colValues, err := c19ColumnValues(data)
		if err != nil {
			ctx.Fail("L2", "column-scan-fails "+wp.name, err.Error(), detail(nil))
			continue
		}
		counts := map[string]int64{}
		for k, v := range colValues {
			counts[k] = int64(len(v))
		}
		// raw write paths decode the row (fields come out sorted by key), register every field name
		// in the row dictionary and shred: the whole content of every leaf column is determined
		if strings.HasPrefix(wp.name, "raw-") {
			model := make([][]string, len(leafPaths))
			var modelMeta []string
			left := nrows
			bad := false
			for i, n := range values {
				i := i
				// an unshredded column passes the caller's bytes through; a shredded one decodes them
				// first (fields come out sorted by key) and re-encodes the residuals
				in := n.SortedString()
				if s.kind == "none" {
					in = n.String()
				}
				p.add("variant.shredcols "+stxt+" "+in, func(ans string) {
					left--
					f := strings.Fields(ans)
					if len(f) != 3 || f[0] != "ok" {
						bad = true
						ctx.Fail("L2", "shred-model-error", "the shredding model does not answer", detail(map[string]any{"row": i, "model": ans}))
					} else {
						modelMeta = append(modelMeta, "x"+strings.TrimPrefix(f[1], "-"))
						for j, c := range strings.Split(f[2], ";") {
							if c != "-" && j < len(model) {
								model[j] = append(model[j], strings.Split(c, ",")...)
							}
						}
					}
					if left == 0 && !bad {
						cmp := func(path string, want []string) bool {
							got := colValues[path]
							if strings.Join(got, ",") != strings.Join(want, ",") {
								ctx.Fail("L2", "shred-column-content "+wp.name+" schema="+s.kind, "leaf column "+path+" does not hold the values the mirror of the shredding writer puts there",
									detail(map[string]any{"column": path, "file": got, "model": want}))
								return false
							}
							return true
						}
						if cmp("var.metadata", modelMeta) {
							for j, path := range leafPaths {
								if !cmp(path, model[j]) {
									break
								}
							}
						}
						ctx.Hist("shred.l2", "column contents compared")
					}
				})
			}
		}
		{ // ---- L2: definition / repetition levels of every leaf column against the level mirror
			evs := make([][]c19Ev, nrows)
			for i := range evs {
				evs[i] = c19AncestorEvents("top", nil)
			}
			c19CheckLevels(ctx, p, "top", s, data, wp.name, evs, values, detail)
		}
		sum := make([]int64, len(leafPaths))
		pending := nrows
		failed := false
		var mu sync.Mutex
		for i, n := range values {
			i, n := i, n
			p.add("variant.shred "+stxt+" "+n.String(), func(ans string) {
				f := strings.Fields(ans)
				mu.Lock()
				defer mu.Unlock()
				pending--
				if len(f) != 4 || f[0] != "ok" {
					failed = true
					ctx.Fail("L2", "shred-model-error", "the shredding model does not answer", detail(map[string]any{"row": i, "model": ans}))
				} else {
					var sb strings.Builder
					sb.WriteString(f[2])
					if f[2] != "invalid" {
						// the model's reconstruction, normalised by the model itself
						if f[2] != want[i] && !c19SameUpToOrder(f[2], want[i]) {
							failed = true
							ctx.Fail("L2", "shred-model-reconstruction", "the model's unshred(shred v) is not v", detail(map[string]any{"row": i, "model": ans}))
						}
					} else {
						failed = true
						ctx.Fail("L2", "shred-model-reconstruction", "the model's unshred rejects its own shredding", detail(map[string]any{"row": i, "model": ans}))
					}
					for j, c := range strings.Split(f[3], ",") {
						var x int64
						fmt.Sscan(c, &x)
						if j < len(sum) {
							sum[j] += x
						}
					}
				}
				if pending == 0 && !failed {
					for j, path := range leafPaths {
						if counts[path] != sum[j] {
							ctx.Fail("L2", "shred-layout "+wp.name+" schema="+s.kind, fmt.Sprintf("column %s holds %d non-null values, the mirror of the shredding writer puts %d there", path, counts[path], sum[j]),
								detail(map[string]any{"column": path, "file_counts": fmt.Sprint(counts), "model_counts": fmt.Sprint(sum), "leaf_paths": leafPaths}))
							break
						}
					}
					for j, path := range leafPaths {
						if sum[j] > 0 {
							if strings.HasSuffix(path, "typed_value") {
								ctx.HistN("shred.landed", "typed_value", sum[j])
							} else if j == 0 {
								ctx.HistN("shred.landed", "top-level value", sum[j])
							} else {
								ctx.HistN("shred.landed", "nested value", sum[j])
							}
						}
					}
				}
			})
		}
	}
}

// c19SameUpToOrder compares two value texts up to object field order by re-parsing them.
func c19SameUpToOrder(a, b string) bool {
	na, oka := c19ParseText(a)
	nb, okb := c19ParseText(b)
	return oka && okb && na.SortedString() == nb.SortedString()
}

// c19ParseText parses the driver's value grammar (used to normalise model output).
func c19ParseText(s string) (*c19Node, bool) {
	n, rest, ok := c19ParseNode(s)
	return n, ok && rest == ""
}

func c19ParseNode(s string) (*c19Node, string, bool) {
	if s == "" {
		return nil, s, false
	}
	switch s[0] {
	case '[':
		a := &c19Node{kind: "arr"}
		s = s[1:]
		if strings.HasPrefix(s, "]") {
			return a, s[1:], true
		}
		for {
			e, rest, ok := c19ParseNode(s)
			if !ok || rest == "" {
				return nil, s, false
			}
			a.elems = append(a.elems, e)
			if rest[0] == ']' {
				return a, rest[1:], true
			}
			if rest[0] != ',' {
				return nil, s, false
			}
			s = rest[1:]
		}
	case '{':
		o := &c19Node{kind: "obj"}
		s = s[1:]
		if strings.HasPrefix(s, "}") {
			return o, s[1:], true
		}
		for {
			eq := strings.IndexByte(s, '=')
			if eq < 0 {
				return nil, s, false
			}
			k, err := hex.DecodeString(s[:eq])
			if err != nil {
				return nil, s, false
			}
			e, rest, ok := c19ParseNode(s[eq+1:])
			if !ok || rest == "" {
				return nil, s, false
			}
			o.keys = append(o.keys, string(k))
			o.elems = append(o.elems, e)
			if rest[0] == '}' {
				return o, rest[1:], true
			}
			if rest[0] != ',' {
				return nil, s, false
			}
			s = rest[1:]
		}
	}
	end := strings.IndexAny(s, ",]}")
	if end < 0 {
		end = len(s)
	}
	tok, rest := s[:end], s[end:]
	f := strings.Split(tok, ":")
	n := &c19Node{kind: f[0]}
	unhex := func(x string) []byte { b, _ := hex.DecodeString(x); return b }
	switch {
	case len(f) == 1 && (f[0] == "n" || f[0] == "t" || f[0] == "f"):
	case len(f) == 2 && (f[0] == "f32" || f[0] == "f64"):
		fmt.Sscanf(f[1], "%x", &n.bits)
	case len(f) == 2 && (f[0] == "bin" || f[0] == "s" || f[0] == "u"):
		n.b = unhex(f[1])
	case len(f) == 2:
		fmt.Sscan(f[1], &n.i)
	case len(f) == 3 && f[0] == "d16":
		var sc int
		fmt.Sscan(f[1], &sc)
		n.scale, n.b = byte(sc), unhex(f[2])
	case len(f) == 3:
		var sc int
		fmt.Sscan(f[1], &sc)
		n.scale = byte(sc)
		fmt.Sscan(f[2], &n.i)
	default:
		return nil, s, false
	}
	return n, rest, true
}
