package props

import (
	"bytes"
	"encoding/json"
	"errors"
	"fmt"
	"io"
	"math"
	"math/bits"
	"math/rand"
	"os"
	"regexp"
	"sort"
	"strconv"
	"strings"
	"sync"
	"sync/atomic"
	"time"

	"github.com/parquet-go/parquet-go"

	"verifharness/core"
	"verifharness/drv"
)

func init() { RegisterSub("C09", "merge", RunC09) }

// ---------------------------------------------------------------- case description

// nullable, descending, nulls first; Wrap: 0 = the key is the top-level leaf k<j>, 1 = it is the leaf
// k<j>.v of an OPTIONAL group k<j> (one more definition level: a null key has the group absent, def 0,
// or the group present and the leaf null, def max-1), 2 = leaf k<j>.v of a required group
type c09Col struct {
	Opt, Desc, NF bool
	Wrap          int
	Kind          string // "" = INT(64); otherwise the physical / logical type of the key column, see c09Kinds
}

func (col c09Col) path() []string {
	if col.Wrap != 0 {
		return []string{"", "v"}
	}
	return []string{""}
}

type c09Row struct {
	K        [3]int64
	Null     [3]bool
	GNull    [3]bool // Wrap = 1: the enclosing group is absent (implies Null)
	Inp, Seq int32
}

type c09Case struct {
	Cols    []c09Col
	MCols   int // sorting columns of the merge (a prefix of Cols); 0 = none given, auto-detected
	Inputs  [][]c09Row
	Storage string // buffer | file | mixed
	PageBuf int    // PageBufferSize of the input files
	Batches []int  // read batch sizes, cycled
	Dedupe  bool
	Path    string // rows | readers | write | copyrows
	Pattern string
	Lists   bool  // repeated payload column sorting before the keys
	Seeks   []int // path rows: forward seeks (distance in rows) interleaved with the reads
	Evolve  uint  // != 0: the merge's schema has one more optional column z_new; bit i set = input i was written
	// without it (an older schema) and is converted by the merge; an inner merge of a nest whose leaves all
	// lack the column is made in the older schema, so that its result is converted by the enclosing merge
	DedupeIn bool // nests: the inner merges drop duplicated rows, the outermost does not (its inputs are
	// deduplicating views: one row per key of the leaves below each inner merge)
	Nest string // "" = one flat merge; otherwise the tree of merges, e.g. [[0,1],2,[3,[4,5]]]: inner
	// lists are merged first (same options / comparator) and their result is an input of the enclosing merge

	seekOut           []c09Pos
	seekEOF           int
	planReq           string      // request for the Lean mirror of the planner (set by c09Run)
	factKey, factWhat string      // a violated hypothesis of the planner theorems (set by c09Run)
	shapes            [][2]string // row-group trees met by c09Run: prefix text, real answers of the three predicates
}

func (c *c09Case) sortCols() int {
	if c.MCols == 0 {
		return len(c.Cols)
	}
	return c.MCols
}

func (r c09Row) keyText(ncols int) string {
	var sb strings.Builder
	for j := 0; j < ncols; j++ {
		if j > 0 {
			sb.WriteByte(';')
		}
		if r.GNull[j] {
			sb.WriteByte('N')
		} else if r.Null[j] {
			sb.WriteByte('n')
		} else {
			sb.WriteString(strconv.FormatInt(r.K[j], 10))
		}
	}
	return sb.String()
}

func (c *c09Case) canon() string {
	var sb strings.Builder
	for _, col := range c.Cols {
		kind := ""
		if col.Kind != "" {
			kind = ",kind=" + col.Kind
		}
		if col.Wrap != 0 {
			fmt.Fprintf(&sb, "col(opt=%v,desc=%v,nf=%v,wrap=%d%s) ", col.Opt, col.Desc, col.NF, col.Wrap, kind)
			continue
		}
		fmt.Fprintf(&sb, "col(opt=%v,desc=%v,nf=%v%s) ", col.Opt, col.Desc, col.NF, kind)
	}
	fmt.Fprintf(&sb, "mcols=%d storage=%s pagebuf=%d batches=%v dedupe=%v path=%s lists=%v seeks=%v ", c.MCols, c.Storage, c.PageBuf, c.Batches, c.Dedupe, c.Path, c.Lists, c.Seeks)
	if c.Evolve != 0 {
		sb.WriteString("evolve=")
		for i := range c.Inputs {
			sb.WriteByte('0' + byte(c.Evolve>>i&1))
		}
		sb.WriteByte(' ')
	}
	if c.DedupeIn {
		sb.WriteString("inner-dedupe ")
	}
	if c.Nest != "" {
		fmt.Fprintf(&sb, "nest=%s ", c.Nest)
	}
	sb.WriteString("inputs=")
	for i, in := range c.Inputs {
		if i > 0 {
			sb.WriteByte('/')
		}
		if len(in) == 0 {
			sb.WriteByte('-')
		}
		for j, r := range in {
			if j > 0 {
				sb.WriteByte(',')
			}
			sb.WriteString(r.keyText(len(c.Cols)))
		}
	}
	return sb.String()
}

// the property's own comparator: declared columns, nulls first/last as declared (independent of
// the direction), descending reverses the order of the non-null values
func c09Cmp(cols []c09Col, n int, a, b c09Row) int {
	for j := 0; j < n; j++ {
		col := cols[j]
		switch {
		case a.Null[j] && b.Null[j]:
			continue
		case a.Null[j]:
			if col.NF {
				return -1
			}
			return 1
		case b.Null[j]:
			if col.NF {
				return 1
			}
			return -1
		}
		c := 0
		if a.K[j] < b.K[j] {
			c = -1
		} else if a.K[j] > b.K[j] {
			c = 1
		}
		if col.Desc {
			c = -c
		}
		if c != 0 {
			return c
		}
	}
	return 0
}

// ---------------------------------------------------------------- key column types

// The property speaks of "the declared sorting columns" of any type: the abstract key of a row stays an
// integer (c09Row.K, the order the oracle and the Lean mirror work with), the column's Kind decides
// which Parquet type carries it and how. Every encoding is strictly monotone from the integers into
// the SORT ORDER THE FORMAT DEFINES for the type (signed for INT32/INT64, DATE, TIME, TIMESTAMP and
// DECIMAL on any physical type; unsigned for UINT; unsigned bytewise for BYTE_ARRAY / FLBA / STRING /
// UUID; numeric for FLOAT / DOUBLE) and places the keys around 0 on both sides of the type's
// "other" reading (a negative key is a large unsigned number, the unsigned kinds cross the sign bit,
// the byte strings cross 0x7f/0x80), so that a comparator arm that reads the wrong signedness, width or
// direction orders some pair the wrong way.
var c09Kinds = []string{
	"p64", "p32", "i32", "u32", "u64", // plain INT64 / INT32, INT(32), UINT(32), UINT(64)
	"ts-ms", "ts-us", "ts-ns", "date", "time-ms", "time-us", "time-ns",
	"dec32", "dec64", "decflba", "decbytes", // DECIMAL on INT32, INT64, FLBA(9), BYTE_ARRAY (minimal two's complement)
	"f32", "f64", // numeric value of the key; key 0 is -0.0 in every other row
	"uuid", "flba16", "flba8", "bytes", "str", // big-endian offset-binary: unsigned bytewise order = key order
}

func c09KindNode(kind string) parquet.Node {
	switch kind {
	case "":
		return parquet.Int(64)
	case "p64":
		return parquet.Leaf(parquet.Int64Type)
	case "p32":
		return parquet.Leaf(parquet.Int32Type)
	case "i32":
		return parquet.Int(32)
	case "u32":
		return parquet.Uint(32)
	case "u64":
		return parquet.Uint(64)
	case "ts-ms":
		return parquet.Timestamp(parquet.Millisecond)
	case "ts-us":
		return parquet.Timestamp(parquet.Microsecond)
	case "ts-ns":
		return parquet.Timestamp(parquet.Nanosecond)
	case "date":
		return parquet.Date()
	case "time-ms":
		return parquet.Time(parquet.Millisecond)
	case "time-us":
		return parquet.Time(parquet.Microsecond)
	case "time-ns":
		return parquet.Time(parquet.Nanosecond)
	case "dec32":
		return parquet.Decimal(2, 9, parquet.Int32Type)
	case "dec64":
		return parquet.Decimal(3, 18, parquet.Int64Type)
	case "decflba":
		return parquet.Decimal(1, 20, parquet.FixedLenByteArrayType(9))
	case "decbytes":
		return parquet.Decimal(0, 20, parquet.ByteArrayType)
	case "f32":
		return parquet.Leaf(parquet.FloatType)
	case "f64":
		return parquet.Leaf(parquet.DoubleType)
	case "uuid":
		return parquet.UUID()
	case "flba16":
		return parquet.Leaf(parquet.FixedLenByteArrayType(16))
	case "flba8":
		return parquet.Leaf(parquet.FixedLenByteArrayType(8))
	case "bytes":
		return parquet.Leaf(parquet.ByteArrayType)
	case "str":
		return parquet.String()
	}
	panic("c09: unknown key kind " + kind)
}

// the keys a kind can carry
func c09KindRange(kind string) (lo, hi int64) {
	switch kind {
	case "p32", "i32", "u32", "date", "time-ms":
		return -1 << 31, 1<<31 - 1
	case "dec32":
		return -999999999, 999999999
	case "dec64":
		return -999999999999999999, 999999999999999999
	case "f32":
		return -1 << 24, 1 << 24
	case "f64":
		return -1 << 53, 1 << 53
	}
	return -1 << 63, 1<<63 - 1
}

// odd: a property of the row that does not take part in the order (used for the sign of a float zero)
func c09KindValue(kind string, k int64, odd bool) parquet.Value {
	off := func() []byte { // offset binary, big endian: -2^63 -> 00.., -1 -> 7f ff.., 0 -> 80 00..
		var b [8]byte
		u := uint64(k) ^ (1 << 63)
		for i := range b {
			b[i] = byte(u >> (56 - 8*i))
		}
		return b[:]
	}
	switch kind {
	case "", "p64", "ts-ms", "ts-us", "ts-ns", "time-us", "time-ns", "dec64":
		return parquet.Int64Value(k)
	case "u64":
		return parquet.Int64Value(int64(uint64(k) ^ (1 << 63)))
	case "p32", "i32", "date", "time-ms", "dec32":
		return parquet.Int32Value(int32(k))
	case "u32":
		return parquet.Int32Value(int32(uint32(int32(k)) ^ (1 << 31)))
	case "f32":
		if k == 0 && odd {
			return parquet.FloatValue(float32(math.Copysign(0, -1)))
		}
		return parquet.FloatValue(float32(k))
	case "f64":
		if k == 0 && odd {
			return parquet.DoubleValue(math.Copysign(0, -1))
		}
		return parquet.DoubleValue(float64(k))
	case "decflba": // two's complement, sign extended to 9 bytes
		b := make([]byte, 9)
		if k < 0 {
			b[0] = 0xff
		}
		for i := 0; i < 8; i++ {
			b[1+i] = byte(uint64(k) >> (56 - 8*i))
		}
		return parquet.FixedLenByteArrayValue(b)
	case "decbytes": // minimal two's complement (1..8 bytes): lengths differ between neighbours
		n := 8
		for n > 1 {
			top, next := byte(uint64(k)>>(8*(n-1))), byte(uint64(k)>>(8*(n-2)))
			if (top == 0 && next&0x80 == 0) || (top == 0xff && next&0x80 != 0) {
				n--
				continue
			}
			break
		}
		b := make([]byte, n)
		for i := range b {
			b[i] = byte(uint64(k) >> (8 * (n - 1 - i)))
		}
		return parquet.ByteArrayValue(b)
	case "uuid", "flba16": // the key straddles the two 64-bit halves compareBE128 reads
		b := make([]byte, 16)
		copy(b[4:], off())
		return parquet.FixedLenByteArrayValue(b)
	case "flba8":
		return parquet.FixedLenByteArrayValue(off())
	case "bytes", "str":
		return parquet.ByteArrayValue(off())
	}
	panic("c09: unknown key kind " + kind)
}

func c09KindKey(kind string, v parquet.Value) (int64, error) {
	want := parquet.Int64
	switch kind {
	case "p32", "i32", "u32", "date", "time-ms", "dec32":
		want = parquet.Int32
	case "f32":
		want = parquet.Float
	case "f64":
		want = parquet.Double
	case "decflba", "uuid", "flba16", "flba8":
		want = parquet.FixedLenByteArray
	case "decbytes", "bytes", "str":
		want = parquet.ByteArray
	}
	if v.Kind() != want {
		return 0, fmt.Errorf("value of kind %v in a column of kind %q", v.Kind(), kind)
	}
	unoff := func(b []byte) (int64, error) {
		if len(b) != 8 {
			return 0, fmt.Errorf("byte string key of %d bytes", len(b))
		}
		var u uint64
		for _, x := range b {
			u = u<<8 | uint64(x)
		}
		return int64(u ^ (1 << 63)), nil
	}
	switch kind {
	case "", "p64", "ts-ms", "ts-us", "ts-ns", "time-us", "time-ns", "dec64":
		return v.Int64(), nil
	case "u64":
		return int64(uint64(v.Int64()) ^ (1 << 63)), nil
	case "p32", "i32", "date", "time-ms", "dec32":
		return int64(v.Int32()), nil
	case "u32":
		return int64(int32(uint32(v.Int32()) ^ (1 << 31))), nil
	case "f32":
		f := v.Float()
		if float32(int64(f)) != f {
			return 0, fmt.Errorf("float key %v", f)
		}
		return int64(f), nil
	case "f64":
		f := v.Double()
		if float64(int64(f)) != f {
			return 0, fmt.Errorf("double key %v", f)
		}
		return int64(f), nil
	case "decflba", "decbytes":
		b := v.ByteArray()
		if len(b) == 0 || len(b) > 9 || (kind == "decflba" && len(b) != 9) {
			return 0, fmt.Errorf("decimal key of %d bytes", len(b))
		}
		k := int64(0)
		if b[0]&0x80 != 0 {
			k = -1
		}
		for _, x := range b {
			k = k<<8 | int64(x)
		}
		return k, nil
	case "uuid", "flba16":
		b := v.ByteArray()
		if len(b) != 16 || !bytes.Equal(b[:4], make([]byte, 4)) || !bytes.Equal(b[12:], make([]byte, 4)) {
			return 0, fmt.Errorf("16-byte key % x", b)
		}
		return unoff(b[4:12])
	case "flba8", "bytes", "str":
		return unoff(v.ByteArray())
	}
	return 0, fmt.Errorf("unknown key kind %q", kind)
}

// c09TypeKeys gives the key columns of one case in `one` types other than INT(64) (says whether it did).
// The keys of a generated case are small numbers and fit every kind.
func c09TypeKeys(r *rand.Rand, cols []c09Col, one int) bool {
	if r.Intn(one) != 0 {
		return false
	}
	for j := range cols {
		if j == 0 || r.Intn(3) != 0 {
			cols[j].Kind = c09Kinds[r.Intn(len(c09Kinds))]
		}
	}
	return true
}

// c09CenterKeys shifts every key column so that its values lie on both sides of 0 (the order of the
// rows does not change)
func c09CenterKeys(inputs [][]c09Row) {
	for j := 0; j < 3; j++ {
		lo, hi, any := int64(0), int64(0), false
		for _, in := range inputs {
			for _, row := range in {
				if row.Null[j] {
					continue
				}
				if !any || row.K[j] < lo {
					lo = row.K[j]
				}
				if !any || row.K[j] > hi {
					hi = row.K[j]
				}
				any = true
			}
		}
		mid := lo + (hi-lo)/2
		for _, in := range inputs {
			for s := range in {
				if !in[s].Null[j] {
					in[s].K[j] -= mid
				}
			}
		}
	}
}

func c09KeySig(cols []c09Col) string {
	parts := strings.Split(c09KindsText(cols), ",")
	for i, col := range cols {
		if col.Desc {
			parts[i] += ":desc"
		} else {
			parts[i] += ":asc"
		}
	}
	return strings.Join(parts, ",")
}

func c09KindsText(cols []c09Col) string {
	parts := make([]string, len(cols))
	for i, col := range cols {
		parts[i] = col.Kind
		if col.Kind == "" {
			parts[i] = "int64"
		}
	}
	return strings.Join(parts, ",")
}

// ---------------------------------------------------------------- parquet plumbing

func c09Schema(cols []c09Col) *parquet.Schema { return c09SchemaL(cols, false) }

// lists = true adds a repeated payload column "a_list" that sorts before the key columns by name
// (the merged schema orders fields by name): 0..4 values per row, derived from the hidden payload
func c09SchemaL(cols []c09Col, lists bool) *parquet.Schema { return c09SchemaE(cols, lists, false) }

// extra = true adds the optional column z_new (last by name), see c09Case.Evolve
func c09SchemaE(cols []c09Col, lists, extra bool) *parquet.Schema {
	g := parquet.Group{"x_inp": parquet.Int(32), "y_seq": parquet.Int(32)}
	if extra {
		g["z_new"] = parquet.Optional(parquet.Int(64))
	}
	if lists {
		g["a_list"] = parquet.Repeated(parquet.Int(32))
	}
	for j, col := range cols {
		n := c09KindNode(col.Kind)
		if col.Opt {
			n = parquet.Optional(n)
		}
		switch col.Wrap {
		case 1:
			n = parquet.Optional(parquet.Group{"v": n})
		case 2:
			n = parquet.Group{"v": n}
		}
		g["k"+strconv.Itoa(j)] = n
	}
	return parquet.NewSchema("c09", g)
}

// the list payload of row (inp, seq): values chosen so that ordering rows by a list element would
// contradict the key order
func c09List(inp, seq int32) []int32 {
	n := int((inp*7 + seq*3) % 5)
	if n < 0 {
		n = -n
	}
	out := make([]int32, n)
	for i := range out {
		out[i] = (seq*31+inp*17+int32(i)*13)%100 - 50
		if i%2 == 1 {
			out[i] = -out[i] - seq%7
		}
	}
	return out
}

func c09Sorting(cols []c09Col, n int) []parquet.SortingColumn {
	var out []parquet.SortingColumn
	for j := 0; j < n; j++ {
		var sc parquet.SortingColumn
		path := cols[j].path()
		path[0] = "k" + strconv.Itoa(j)
		if cols[j].Desc {
			sc = parquet.Descending(path...)
		} else {
			sc = parquet.Ascending(path...)
		}
		if cols[j].NF {
			sc = parquet.NullsFirst(sc)
		}
		out = append(out, sc)
	}
	return out
}

func c09ToRow(cols []c09Col, r c09Row) parquet.Row { return c09ToRowL(cols, r, false) }

func c09ToRowL(cols []c09Col, r c09Row, lists bool) parquet.Row {
	return c09ToRowE(cols, r, lists, false)
}

// the value of the column z_new of a row written with it
func c09Extra(inp, seq int32) int64 { return int64(inp)*100000 + int64(seq) - 7 }

func c09ToRowE(cols []c09Col, r c09Row, lists, extra bool) parquet.Row {
	row := make(parquet.Row, 0, len(cols)+8)
	off := 0
	if lists {
		off = 1
		l := c09List(r.Inp, r.Seq)
		if len(l) == 0 {
			row = append(row, parquet.Value{}.Level(0, 0, 0))
		}
		for i, v := range l {
			rep := 1
			if i == 0 {
				rep = 0
			}
			row = append(row, parquet.Int32Value(v).Level(rep, 1, 0))
		}
	}
	for j, col := range cols {
		maxDef := 0
		if col.Opt {
			maxDef++
		}
		if col.Wrap == 1 {
			maxDef++
		}
		switch {
		case r.GNull[j] && col.Wrap == 1:
			row = append(row, parquet.Value{}.Level(0, 0, j+off))
		case r.Null[j] && col.Opt:
			row = append(row, parquet.Value{}.Level(0, maxDef-1, j+off))
		default:
			row = append(row, c09KindValue(col.Kind, r.K[j], (r.Inp+r.Seq)&1 == 1).Level(0, maxDef, j+off))
		}
	}
	row = append(row, parquet.Int32Value(r.Inp).Level(0, 0, len(cols)+off))
	row = append(row, parquet.Int32Value(r.Seq).Level(0, 0, len(cols)+1+off))
	if extra {
		row = append(row, parquet.Int64Value(c09Extra(r.Inp, r.Seq)).Level(0, 1, len(cols)+2+off))
	}
	return row
}

func c09FromRow(cols []c09Col, row parquet.Row) (c09Row, error) { return c09FromRowL(cols, row, false) }

func c09FromRowL(cols []c09Col, row parquet.Row, lists bool) (c09Row, error) {
	return c09FromRowW(cols, 0, row, lists)
}

// bit j of the result: key column j sits in an optional group
func c09WrapMask(cols []c09Col) (m uint) {
	for j, col := range cols {
		if col.Wrap == 1 {
			m |= 1 << j
		}
	}
	return m
}

// evolve != 0: the rows have the column z_new; it is null in the rows of the inputs named by evolve
func c09FromRowW(cols []c09Col, evolve uint, row parquet.Row, lists bool) (c09Row, error) {
	var r c09Row
	ncols, wrapped := len(cols), c09WrapMask(cols)
	off, extra := 0, 0
	if evolve != 0 {
		extra = 1
	}
	var list []int32
	if lists {
		off = 1
	} else if len(row) != ncols+2+extra {
		return r, fmt.Errorf("row has %d values, want %d", len(row), ncols+2+extra)
	}
	seen := 0
	var z parquet.Value
	for _, v := range row {
		c := v.Column() - off
		switch {
		case lists && c == -1:
			if !v.IsNull() {
				list = append(list, v.Int32())
			}
			continue
		case c < 0 || c >= ncols+2+extra:
			return r, fmt.Errorf("value with column index %d", v.Column())
		case c == ncols+2:
			z = v
		case c < ncols:
			if v.IsNull() {
				r.Null[c] = true
				r.GNull[c] = wrapped&(1<<c) != 0 && v.DefinitionLevel() == 0
			} else {
				k, kerr := c09KindKey(cols[c].Kind, v)
				if kerr != nil {
					return r, fmt.Errorf("key column %d: %v", c, kerr)
				}
				r.K[c] = k
			}
		case c == ncols:
			r.Inp = v.Int32()
		default:
			r.Seq = v.Int32()
		}
		seen++
	}
	if seen != ncols+2+extra {
		return r, fmt.Errorf("row has %d non-list values, want %d", seen, ncols+2+extra)
	}
	if extra == 1 && r.Inp >= 0 && r.Inp < 32 {
		if lacks := evolve>>uint(r.Inp)&1 == 1; lacks != z.IsNull() || (!lacks && z.Int64() != c09Extra(r.Inp, r.Seq)) {
			return r, fmt.Errorf("column z_new of row (%d,%d) altered: %v (written without the column: %v)", r.Inp, r.Seq, z, lacks)
		}
	}
	if lists && fmt.Sprint(list) != fmt.Sprint(c09List(r.Inp, r.Seq)) {
		return r, fmt.Errorf("list payload of row (%d,%d) altered: %v, written %v", r.Inp, r.Seq, list, c09List(r.Inp, r.Seq))
	}
	return r, nil
}

// chunkReader is a RowReader that delivers its rows in chunks of chosen sizes.
type c09ChunkReader struct {
	rows    []parquet.Row
	sizes   []int
	eofLast bool // return io.EOF together with the last rows
	zeroOK  bool // a size entry 0 answers (0, nil)
}

func (c *c09ChunkReader) ReadRows(dst []parquet.Row) (int, error) {
	if len(c.rows) == 0 {
		return 0, io.EOF
	}
	want := len(dst)
	if len(c.sizes) > 0 {
		if c.zeroOK && c.sizes[0] == 0 {
			c.sizes = c.sizes[1:]
			return 0, nil
		}
		want = max(1, c.sizes[0])
		c.sizes = c.sizes[1:]
	}
	n := min(len(dst), min(want, len(c.rows)))
	for i := 0; i < n; i++ {
		dst[i] = append(dst[i][:0], c.rows[i]...)
	}
	c.rows = c.rows[n:]
	if len(c.rows) == 0 && c.eofLast && n > 0 {
		return n, io.EOF
	}
	return n, nil
}

// build one input as a row group
func c09RowGroup(c *c09Case, schema *parquet.Schema, in []c09Row, asFile bool) (parquet.RowGroup, error) {
	return c09RowGroupE(c, schema, in, asFile, false)
}

func c09RowGroupE(c *c09Case, schema *parquet.Schema, in []c09Row, asFile, extra bool) (parquet.RowGroup, error) {
	sorting := c09Sorting(c.Cols, len(c.Cols))
	rows := make([]parquet.Row, len(in))
	for i, r := range in {
		rows[i] = c09ToRowE(c.Cols, r, c.Lists, extra)
	}
	if !asFile || len(in) == 0 {
		b := parquet.NewBuffer(schema, parquet.SortingRowGroupConfig(parquet.SortingColumns(sorting...)))
		if len(rows) > 0 {
			if _, err := b.WriteRows(rows); err != nil {
				return nil, err
			}
		}
		return b, nil
	}
	var out bytes.Buffer
	w := parquet.NewWriter(&out, schema, parquet.SortingWriterConfig(parquet.SortingColumns(sorting...)), parquet.PageBufferSize(c.PageBuf))
	if _, err := w.WriteRows(rows); err != nil {
		return nil, err
	}
	if err := w.Close(); err != nil {
		return nil, err
	}
	f, err := parquet.OpenFile(bytes.NewReader(out.Bytes()), int64(out.Len()))
	if err != nil {
		return nil, err
	}
	if len(f.RowGroups()) != 1 {
		return nil, fmt.Errorf("input file has %d row groups", len(f.RowGroups()))
	}
	return f.RowGroups()[0], nil
}

// drain a RowReader with the case's batch sizes; buffers are reused dirty
func c09Drain(c *c09Case, rr parquet.RowReader, limit int) ([]c09Row, [][2]int, error) {
	maxb := 1
	for _, b := range c.Batches {
		maxb = max(maxb, b)
	}
	buf := make([]parquet.Row, maxb)
	var out []c09Row
	var calls [][2]int // batch size, rows returned
	for i := 0; ; i++ {
		b := c.Batches[i%len(c.Batches)]
		n, err := rr.ReadRows(buf[:b])
		calls = append(calls, [2]int{b, n})
		if n < 0 || n > b {
			return out, calls, fmt.Errorf("ReadRows returned n=%d for a buffer of %d", n, b)
		}
		for _, row := range buf[:n] {
			r, derr := c09FromRowW(c.Cols, c.Evolve, row, c.Lists)
			if derr != nil {
				return out, calls, derr
			}
			out = append(out, r)
		}
		if err == io.EOF {
			return out, calls, nil
		}
		if err != nil {
			return out, calls, err
		}
		if len(calls) > 3*limit+16 {
			return out, calls, errors.New("no progress: ReadRows keeps returning without io.EOF")
		}
	}
}

type c09Pos struct {
	at  int // absolute index in the merged sequence
	row c09Row
}

var c09SeekHung atomic.Bool

// read with forward seeks: one batch, SeekToRow(pos+d) (twice in a row when d%5 == 0), ... then to the
// end. Runs under a timeout: a ReadRows that never returns is reported, later seek cases are skipped.
func c09DrainSeek(c *c09Case, rows parquet.Rows, limit int) (out []c09Pos, eofAt int, calls [][2]int, err error) {
	type res struct {
		out   []c09Pos
		eofAt int
		calls [][2]int
		err   error
	}
	done := make(chan res, 1)
	go func() {
		var r res
		defer func() {
			if p := recover(); p != nil {
				r.err = fmt.Errorf("panic: %v", p)
			}
			done <- r
		}()
		maxb := 1
		for _, b := range c.Batches {
			maxb = max(maxb, b)
		}
		buf := make([]parquet.Row, maxb)
		pos := 0
		seeks := append([]int(nil), c.Seeks...)
		for i := 0; ; i++ {
			b := c.Batches[i%len(c.Batches)]
			n, e := rows.ReadRows(buf[:b])
			r.calls = append(r.calls, [2]int{b, n})
			if n < 0 || n > b {
				r.err = fmt.Errorf("ReadRows returned n=%d for a buffer of %d", n, b)
				return
			}
			for _, row := range buf[:n] {
				rw, derr := c09FromRowW(c.Cols, c.Evolve, row, c.Lists)
				if derr != nil {
					r.err = derr
					return
				}
				r.out = append(r.out, c09Pos{pos, rw})
				pos++
			}
			if e == io.EOF {
				r.eofAt = pos
				return
			}
			if e != nil {
				r.err = e
				return
			}
			if len(seeks) > 0 {
				d := seeks[0]
				seeks = seeks[1:]
				if e := rows.SeekToRow(int64(pos + d)); e != nil {
					if errors.Is(e, io.EOF) { // seeking to or past the end may already report the end
						r.eofAt = pos + d
						return
					}
					r.err = fmt.Errorf("SeekToRow(%d) from %d: %w", pos+d, pos, e)
					return
				}
				pos += d
				if d%5 == 0 {
					if e := rows.SeekToRow(int64(pos + 2)); e != nil {
						if errors.Is(e, io.EOF) {
							r.eofAt = pos + 2
							return
						}
						r.err = fmt.Errorf("SeekToRow(%d) from %d: %w", pos+2, pos, e)
						return
					}
					pos += 2
				}
			}
			if len(r.calls) > 3*limit+16 {
				r.err = errors.New("no progress: ReadRows keeps returning without io.EOF")
				return
			}
		}
	}()
	select {
	case r := <-done:
		return r.out, r.eofAt, r.calls, r.err
	case <-time.After(20 * time.Second):
		c09SeekHung.Store(true)
		return nil, 0, nil, errors.New("hang: ReadRows after SeekToRow did not return within 20s")
	}
}

// oracle of a read with seeks: the row delivered at absolute index p carries the p-th sort key of the
// merged sequence (the key sequence is determined even where the order of equal-key rows is not),
// rows are genuine, not repeated, in per-input order, and io.EOF comes at the end of the sequence
func c09SeekOracle(c *c09Case, out []c09Pos, eofAt int) (key, what string) {
	n := c.sortCols()
	var all []c09Row
	for _, in := range c.Inputs {
		all = append(all, in...)
	}
	sort.SliceStable(all, func(a, b int) bool { return c09Cmp(c.Cols, n, all[a], all[b]) < 0 })
	if c.Dedupe {
		var d []c09Row
		for i, r := range all {
			if i == 0 || c09Cmp(c.Cols, n, all[i-1], r) != 0 {
				d = append(d, r)
			}
		}
		all = d
	}
	seen := map[[2]int32]bool{}
	last := map[int32]int32{}
	for _, p := range out {
		r := p.row
		if int(r.Inp) < 0 || int(r.Inp) >= len(c.Inputs) || int(r.Seq) < 0 || int(r.Seq) >= len(c.Inputs[r.Inp]) || c.Inputs[r.Inp][r.Seq] != r {
			return "seek-foreign-row", fmt.Sprintf("row at index %d (payload %d,%d, key %s) is not an input row", p.at, r.Inp, r.Seq, r.keyText(len(c.Cols)))
		}
		if seen[[2]int32{r.Inp, r.Seq}] {
			return "seek-duplicated-row", fmt.Sprintf("input %d row %d delivered twice", r.Inp, r.Seq)
		}
		seen[[2]int32{r.Inp, r.Seq}] = true
		if l, ok := last[r.Inp]; ok && r.Seq <= l {
			return "seek-per-input-order", fmt.Sprintf("input %d: row %d after row %d", r.Inp, r.Seq, l)
		}
		last[r.Inp] = r.Seq
		if p.at >= len(all) {
			return "seek-rows-past-the-end", fmt.Sprintf("a row is delivered at index %d, the merged sequence has %d rows", p.at, len(all))
		}
		if c09Cmp(c.Cols, n, all[p.at], r) != 0 {
			return "seek-wrong-position", fmt.Sprintf("row delivered at index %d has key %s, the merged sequence has key %s there", p.at, r.keyText(n), all[p.at].keyText(n))
		}
	}
	if eofAt < len(all) {
		return "seek-early-eof", fmt.Sprintf("io.EOF at index %d, the merged sequence has %d rows", eofAt, len(all))
	}
	return "", ""
}

// run one case on the real library, returns the emitted rows
// fact probe: do the cut lookups of merge_refine.go refuse pages that hold some nulls
// (proposed_fixes/C09_cut_lookups_nulls.diff)? The mirror of the planner takes it as a parameter.
var c09StrictCuts = sync.OnceValue(func() string {
	cols := []c09Col{{Opt: true}}
	schema := c09Schema(cols)
	mk := func(inp int32, lo, n, nulls int) []c09Row {
		var rows []c09Row
		for i := 0; i < n; i++ {
			rows = append(rows, c09Row{K: [3]int64{int64(lo + i)}, Inp: inp, Seq: int32(i)})
		}
		for i := 0; i < nulls; i++ {
			rows = append(rows, c09Row{Null: [3]bool{true}, Inp: inp, Seq: int32(n + i)})
		}
		return rows
	}
	c := &c09Case{Cols: cols, PageBuf: 256}
	a, err1 := c09RowGroup(c, schema, mk(0, 3544, 2237, 44), false)
	b, err2 := c09RowGroup(c, schema, mk(1, 43, 1736, 38), true)
	if err1 != nil || err2 != nil {
		return "0"
	}
	m, err := parquet.MergeRowGroups([]parquet.RowGroup{a, b}, schema)
	if err != nil {
		return "0"
	}
	if parquet.VerifMergeKind(m) == "merged" {
		return "1"
	}
	return "0"
})

// page statistics of the sorting columns of a row group, in the format of the driver's merge.plan
func c09TargetText(rg parquet.RowGroup, cols []c09Col, off int) (string, bool) {
	ncols := len(cols)
	var sb strings.Builder
	fmt.Fprintf(&sb, "%d", rg.NumRows())
	if rg.NumRows() == 0 {
		return sb.String(), true
	}
	chunks := rg.ColumnChunks()
	bad := false
	kind := ""
	val := func(v parquet.Value) string {
		if v.IsNull() {
			return "n"
		}
		k, err := c09KindKey(kind, v)
		if err != nil {
			bad = true
		}
		return strconv.FormatInt(k, 10)
	}
	for j := 0; j < ncols; j++ {
		kind = cols[j].Kind
		ci, err := chunks[j+off].ColumnIndex()
		if err != nil || ci == nil {
			return "", false
		}
		sb.WriteByte('~')
		if ci.NumPages() == 0 {
			sb.WriteByte('-')
		}
		for p := 0; p < ci.NumPages(); p++ {
			if p > 0 {
				sb.WriteByte(',')
			}
			flag := "o"
			if ci.NullPage(p) {
				flag = "N"
			} else if ci.NullCount(p) > 0 {
				flag = "h"
			}
			if flag == "N" {
				sb.WriteString("n_n_N")
			} else {
				fmt.Fprintf(&sb, "%s_%s_%s", val(ci.MinValue(p)), val(ci.MaxValue(p)), flag)
			}
		}
		if j == 0 {
			if oi, err := chunks[off].OffsetIndex(); err == nil && oi != nil {
				sb.WriteString("~F")
				if oi.NumPages() == 0 {
					sb.WriteByte('-')
				}
				for p := 0; p < oi.NumPages(); p++ {
					if p > 0 {
						sb.WriteByte(',')
					}
					fmt.Fprintf(&sb, "%d", oi.FirstRowIndex(p))
				}
			}
		}
	}
	return sb.String(), !bad
}

// ---------------------------------------------------------------- nested merges

// c09Tree is a tree of merges over the inputs of a case: a leaf names an input, an inner node is a
// merge of its children whose result is an input of the enclosing merge.
type c09Tree struct {
	leaf int // >= 0: input index; -1: inner node
	kids []*c09Tree
}

func (t *c09Tree) text() string {
	if t.leaf >= 0 {
		return strconv.Itoa(t.leaf)
	}
	parts := make([]string, len(t.kids))
	for i, k := range t.kids {
		parts[i] = k.text()
	}
	return "[" + strings.Join(parts, ",") + "]"
}

// c09ParseTree parses "[[0,1],2,[3,[4,5]]]"
func c09ParseTree(s string) (*c09Tree, error) {
	pos := 0
	var node func() (*c09Tree, error)
	node = func() (*c09Tree, error) {
		if pos >= len(s) {
			return nil, errors.New("nest: unexpected end")
		}
		if s[pos] == '[' {
			pos++
			t := &c09Tree{leaf: -1}
			for {
				if pos < len(s) && s[pos] == ']' {
					pos++
					return t, nil
				}
				if len(t.kids) > 0 {
					if pos >= len(s) || s[pos] != ',' {
						return nil, errors.New("nest: expected ','")
					}
					pos++
				}
				k, err := node()
				if err != nil {
					return nil, err
				}
				t.kids = append(t.kids, k)
			}
		}
		st := pos
		for pos < len(s) && s[pos] >= '0' && s[pos] <= '9' {
			pos++
		}
		if st == pos {
			return nil, errors.New("nest: expected an input index")
		}
		v, _ := strconv.Atoi(s[st:pos])
		return &c09Tree{leaf: v}, nil
	}
	t, err := node()
	if err != nil {
		return nil, err
	}
	if pos != len(s) || t.leaf >= 0 {
		return nil, errors.New("nest: not a list")
	}
	return t, nil
}

func (t *c09Tree) leaves(out []int) []int {
	if t.leaf >= 0 {
		return append(out, t.leaf)
	}
	for _, k := range t.kids {
		out = k.leaves(out)
	}
	return out
}

// c09GenTree groups the inputs (in a random order) into a tree of depth <= 3 with at least one inner merge
func c09GenTree(r *rand.Rand, k int) *c09Tree {
	perm := r.Perm(k)
	var build func(leaves []int, depth int) []*c09Tree
	build = func(leaves []int, depth int) []*c09Tree {
		var kids []*c09Tree
		for i := 0; i < len(leaves); {
			g := 1
			if depth > 0 && len(leaves) > 1 {
				g = 1 + r.Intn(min(4, len(leaves)-i))
				if g == len(leaves) {
					g--
				}
			}
			if g >= 2 {
				kids = append(kids, &c09Tree{leaf: -1, kids: build(leaves[i:i+g], depth-1)})
			} else {
				kids = append(kids, &c09Tree{leaf: leaves[i]})
			}
			i += g
		}
		return kids
	}
	for {
		t := &c09Tree{leaf: -1, kids: build(perm, 2)}
		inner := false
		for _, kid := range t.kids {
			inner = inner || kid.leaf < 0
		}
		if inner || k < 3 {
			if !inner && k == 2 {
				t = &c09Tree{leaf: -1, kids: []*c09Tree{{leaf: -1, kids: []*c09Tree{{leaf: perm[0]}, {leaf: perm[1]}}}}}
			}
			return t
		}
	}
}

func c09Run(c *c09Case) (out []c09Row, kind string, calls [][2]int, plan string, err error) {
	defer func() {
		if p := recover(); p != nil {
			err = fmt.Errorf("panic: %v", p)
		}
	}()
	if c.Evolve != 0 && (c.Path == "readers" || len(c.Inputs) > 32) {
		return nil, "", nil, "", errors.New("evolve: not on the readers path")
	}
	schema := c09SchemaE(c.Cols, c.Lists, c.Evolve != 0)
	older := c09SchemaL(c.Cols, c.Lists) // the schema of the inputs written without z_new
	total := 0
	rgs := make([]parquet.RowGroup, len(c.Inputs))
	for i, in := range c.Inputs {
		asFile := c.Storage == "file" || (c.Storage == "mixed" && i%2 == 1)
		isch, extra := schema, c.Evolve != 0
		if c.Evolve>>uint(i)&1 == 1 {
			isch, extra = older, false
		}
		rg, e := c09RowGroupE(c, isch, in, asFile, extra)
		if e != nil {
			return nil, "", nil, "", fmt.Errorf("building input %d: %w", i, e)
		}
		rgs[i] = rg
		total += len(in)
	}
	msort := c09Sorting(c.Cols, c.sortCols())
	optsOf := func(schema *parquet.Schema, dedupe bool) []parquet.RowGroupOption {
		opts := []parquet.RowGroupOption{schema}
		if c.MCols > 0 || dedupe {
			so := []parquet.SortingOption{parquet.DropDuplicatedRows(dedupe)}
			if c.MCols > 0 {
				so = append(so, parquet.SortingColumns(msort...))
			}
			opts = append(opts, parquet.SortingRowGroupConfig(so...))
		}
		return opts
	}
	opts := optsOf(schema, c.Dedupe)
	if c.DedupeIn && (c.Nest == "" || c.MCols == 0) {
		return nil, "", nil, "", errors.New("inner-dedupe: needs a nest and explicit sorting columns")
	}
	var tree *c09Tree
	if c.Nest != "" {
		if tree, err = c09ParseTree(c.Nest); err != nil {
			return nil, "", nil, "", err
		}
		seen := map[int]bool{}
		for _, l := range tree.leaves(nil) {
			if l >= len(rgs) || seen[l] {
				return nil, "", nil, "", fmt.Errorf("nest %s does not partition %d inputs", c.Nest, len(rgs))
			}
			seen[l] = true
		}
		if len(seen) != len(rgs) {
			return nil, "", nil, "", fmt.Errorf("nest %s does not partition %d inputs", c.Nest, len(rgs))
		}
	}
	if c.Path == "readers" {
		cmp := schema.Comparator(msort...)
		var build func(t *c09Tree) parquet.RowReader
		var closers []parquet.Rows
		defer func() {
			for _, rows := range closers {
				rows.Close()
			}
		}()
		build = func(t *c09Tree) parquet.RowReader {
			if t.leaf >= 0 {
				rows := rgs[t.leaf].Rows()
				closers = append(closers, rows)
				return rows
			}
			kids := make([]parquet.RowReader, len(t.kids))
			for i, k := range t.kids {
				kids[i] = build(k)
			}
			if c.DedupeIn && t != tree {
				return parquet.DedupeRowReader(parquet.MergeRowReaders(kids, cmp), cmp)
			}
			return parquet.MergeRowReaders(kids, cmp)
		}
		if tree == nil {
			tree = &c09Tree{leaf: -1}
			for i := range rgs {
				tree.kids = append(tree.kids, &c09Tree{leaf: i})
			}
		}
		rr := build(tree)
		if c.Dedupe {
			rr = parquet.DedupeRowReader(rr, cmp)
		}
		out, calls, err = c09Drain(c, rr, total)
		return out, "readers", calls, "", err
	}
	// the inputs of the outermost merge; interleaved[i]: the rows of tops[i].Rows() do not come in the
	// order of the pages of its column chunks (it is, or contains, the loser-tree merge of several inputs)
	tops := rgs
	interleaved := make([]bool, len(rgs))
	if tree != nil {
		var build func(t *c09Tree) (parquet.RowGroup, bool, error)
		build = func(t *c09Tree) (parquet.RowGroup, bool, error) {
			if t.leaf >= 0 {
				return rgs[t.leaf], false, nil
			}
			kids := make([]parquet.RowGroup, len(t.kids))
			il := false
			for i, k := range t.kids {
				rg, kil, e := build(k)
				if e != nil {
					return nil, false, e
				}
				kids[i], il = rg, il || kil
			}
			iopts := optsOf(schema, c.Dedupe || c.DedupeIn)
			if c.Evolve != 0 {
				allOlder := true
				for _, l := range t.leaves(nil) {
					allOlder = allOlder && c.Evolve>>uint(l)&1 == 1
				}
				if allOlder {
					iopts = optsOf(older, c.Dedupe || c.DedupeIn)
				}
			}
			m, e := parquet.MergeRowGroups(kids, iopts...)
			if e != nil {
				return nil, false, fmt.Errorf("inner MergeRowGroups: %w", e)
			}
			for _, sg := range parquet.VerifMergeSegments(m) {
				il = il || sg[0] > 1
			}
			return m, il, nil
		}
		tops, interleaved = nil, nil
		for _, k := range tree.kids {
			rg, il, e := build(k)
			if e != nil {
				return nil, "", nil, "", e
			}
			tops, interleaved = append(tops, rg), append(interleaved, il)
		}
	}
	c.planReq = ""
	if !c.Dedupe {
		parts := make([]string, len(tops))
		ok := true
		for i, rg := range tops {
			off := 0
			if c.Lists {
				off = 1
			}
			parts[i], ok = c09TargetText(rg, c.Cols[:c.sortCols()], off)
			if !ok {
				break
			}
			if interleaved[i] {
				parts[i] += "~I"
			}
			if c.DedupeIn && tree != nil && tree.kids[i].leaf < 0 {
				parts[i] += "~D" // a deduplicating view: Rows() leaves out rows of the column chunks
			}
			// the tree of views behind the input (types only): the mirror derives supportsRowRanges from it
			if sh := parquet.VerifRowGroupShape(rg); len(sh) < 2000 {
				parts[i] += "~H" + strings.ReplaceAll(sh, ",", ";")
			}
		}
		if ok {
			ts := "."
			if len(parts) > 0 {
				ts = strings.Join(parts, "/")
			}
			c.planReq = "merge.plan " + c09StrictCuts() + " " + c09SpecText(c.Cols[:c.sortCols()]) + " " + ts
		}
	}
	c.factKey, c.factWhat = "", ""
	if total <= 6000 && (total+len(c.Batches))%2 == 0 {
		c.factKey, c.factWhat = c09PlannerFacts(c, schema, msort, tops)
	}
	if c.factKey == "" {
		// the null counts of the page indexes of the leaves (hasNulls of the planner's page statistics):
		// as many nulls as the input has null keys in that column, whatever their definition level
		off := 0
		if c.Lists {
			off = 1
		}
		for i, rg := range rgs {
			for j := 0; j < c.sortCols() && len(c.Inputs[i]) > 0 && c.factKey == ""; j++ {
				want := int64(0)
				for _, r := range c.Inputs[i] {
					if r.Null[j] {
						want++
					}
				}
				ci, err := rg.ColumnChunks()[j+off].ColumnIndex()
				if err != nil || ci == nil {
					continue
				}
				got := int64(0)
				for p := 0; p < ci.NumPages(); p++ {
					got += ci.NullCount(p)
				}
				if got != want {
					c.factKey = "column-index-null-count"
					c.factWhat = fmt.Sprintf("input %d (%T), key column %d: the pages of the column index count %d nulls, the input has %d null keys", i, rg, j, got, want)
				}
			}
		}
	}
	merged, e := parquet.MergeRowGroups(tops, opts...)
	if e != nil {
		return nil, "", nil, "", fmt.Errorf("MergeRowGroups: %w", e)
	}
	c.shapes = c.shapes[:0]
	for _, rg := range append(append([]parquet.RowGroup{}, tops...), merged) {
		il, dr, ro := parquet.VerifRowGroupPredicates(rg)
		b := func(x bool) string {
			if x {
				return "1"
			}
			return "0"
		}
		c.shapes = append(c.shapes, [2]string{parquet.VerifRowGroupShape(rg), "ok " + b(il) + " " + b(dr) + " " + b(ro) + " " + b(parquet.VerifRowGroupSupportsRowRanges(rg))})
	}
	kind = parquet.VerifMergeKind(merged)
	var segs []string
	for _, sg := range parquet.VerifMergeSegmentsOver(merged, tops) {
		segs = append(segs, fmt.Sprintf("%d:%d", sg[0], sg[1]))
	}
	plan = "-"
	if len(segs) > 0 {
		plan = strings.Join(segs, ",")
	}
	switch c.Path {
	case "rows":
		rows := merged.Rows()
		defer rows.Close()
		if len(c.Seeks) > 0 {
			c.seekOut, c.seekEOF, calls, err = c09DrainSeek(c, rows, total)
			for _, p := range c.seekOut {
				out = append(out, p.row)
			}
			return out, kind, calls, plan, err
		}
		out, calls, err = c09Drain(c, rows, total)
		return out, kind, calls, plan, err
	case "write", "copyrows":
		var file bytes.Buffer
		w := parquet.NewWriter(&file, schema, parquet.PageBufferSize(max(c.PageBuf, 64)))
		if c.Path == "write" {
			if _, e := w.WriteRowGroup(merged); e != nil {
				return nil, kind, nil, plan, fmt.Errorf("WriteRowGroup: %w", e)
			}
		} else {
			rows := merged.Rows()
			_, e := parquet.CopyRows(w, rows)
			rows.Close()
			if e != nil {
				return nil, kind, nil, plan, fmt.Errorf("CopyRows: %w", e)
			}
		}
		if e := w.Close(); e != nil {
			return nil, kind, nil, plan, fmt.Errorf("Close: %w", e)
		}
		f, e := parquet.OpenFile(bytes.NewReader(file.Bytes()), int64(file.Len()))
		if e != nil {
			return nil, kind, nil, plan, fmt.Errorf("OpenFile(output): %w", e)
		}
		for _, rg := range f.RowGroups() {
			rows := rg.Rows()
			o, cl, e := c09Drain(c, rows, int(rg.NumRows()))
			rows.Close()
			out = append(out, o...)
			calls = append(calls, cl...)
			if e != nil {
				return out, kind, calls, plan, e
			}
		}
		return out, kind, calls, plan, nil
	}
	return nil, kind, nil, plan, fmt.Errorf("unknown path %q", c.Path)
}

// ---------------------------------------------------------------- hypotheses of the planner theorems

// c09PlannerFacts checks, on the real inputs of the outermost merge, what the Lean theorems about the
// planner assume of a row group: its range bounds every row its Rows() deliver (range validity:
// PagesOk / CoveredBy behind rowGroupRange), and its cut lookups are conservative for the keys the
// planner may ask about (the bounds of the row groups of the merge): every row at or after
// cutAbove(key) is strictly after key, every row before cutBelow(key) strictly before. A row group
// whose page index does not describe the order of its Rows() (a merged row group was one) fails here
// whether or not a particular merge happens to come out unsorted.
func c09PlannerFacts(c *c09Case, schema *parquet.Schema, msort []parquet.SortingColumn, tops []parquet.RowGroup) (key, what string) {
	cmp := schema.Comparator(msort...)
	type bound struct{ lo, hi parquet.Row }
	bounds := make([]*bound, len(tops))
	for i, rg := range tops {
		if rg.NumRows() == 0 {
			continue
		}
		lo, hi, err := parquet.VerifRowGroupRange(rg, schema, msort)
		if err == nil {
			bounds[i] = &bound{lo, hi}
		}
	}
	for i, rg := range tops {
		n := int(rg.NumRows())
		if bounds[i] == nil || n > 5000 {
			continue
		}
		var rows []parquet.Row
		rr := rg.Rows()
		buf := make([]parquet.Row, 64)
		for {
			m, err := rr.ReadRows(buf)
			for _, row := range buf[:m] {
				rows = append(rows, row.Clone())
			}
			if err != nil {
				break
			}
		}
		rr.Close()
		if len(rows) != n {
			continue // reported by the main oracle
		}
		for r, row := range rows {
			if cmp(bounds[i].lo, row) > 0 || cmp(row, bounds[i].hi) > 0 {
				return "planner-range-excludes-row", fmt.Sprintf("input %d of the outermost merge (%s, %d rows): row %d lies outside the range rowGroupRangeOfSortedColumns computed for it", i, parquet.VerifMergeKind(rg), n, r)
			}
		}
		above, below := parquet.VerifCutLookups(rg, schema, msort)
		if above == nil || below == nil {
			continue
		}
		for j, b := range bounds {
			if b == nil {
				continue
			}
			for side, k := range []parquet.Row{b.lo, b.hi} {
				if a := int(above(k)); a < 0 || a > n {
					return "planner-cut-out-of-range", fmt.Sprintf("input %d: cutAbove(bound %d/%d) = %d of %d rows", i, j, side, a, n)
				} else {
					for r := a; r < n; r++ {
						if cmp(rows[r], k) <= 0 {
							return "planner-cutabove-not-conservative", fmt.Sprintf("input %d (%d rows): cutAbove(bound %d/%d) = %d but row %d is not after the key", i, n, j, side, a, r)
						}
					}
				}
				if bl := int(below(k)); bl < 0 || bl > n {
					return "planner-cut-out-of-range", fmt.Sprintf("input %d: cutBelow(bound %d/%d) = %d of %d rows", i, j, side, bl, n)
				} else {
					for r := 0; r < bl; r++ {
						if cmp(rows[r], k) >= 0 {
							return "planner-cutbelow-not-conservative", fmt.Sprintf("input %d (%d rows): cutBelow(bound %d/%d) = %d but row %d is not before the key", i, n, j, side, bl, r)
						}
					}
				}
			}
		}
	}
	return "", ""
}

// ---------------------------------------------------------------- L1 oracle

func c09ErrClass(err error) string {
	s := err.Error()
	if i := strings.IndexAny(s, "0123456789"); i > 0 {
		s = s[:i]
	}
	if len(s) > 60 {
		s = s[:60]
	}
	return strings.TrimSpace(s)
}

// returns "" or the failure key + description
func c09Oracle(c *c09Case, out []c09Row) (key, what string) {
	n := c.sortCols()
	cols := c.Cols
	// every output row is an input row (payload identifies it), keys intact
	seen := make([][]int, len(c.Inputs))
	for i := range seen {
		seen[i] = make([]int, len(c.Inputs[i]))
	}
	last := make([]int32, len(c.Inputs))
	for i := range last {
		last[i] = -1
	}
	for idx, r := range out {
		if int(r.Inp) < 0 || int(r.Inp) >= len(c.Inputs) || int(r.Seq) < 0 || int(r.Seq) >= len(c.Inputs[r.Inp]) {
			return "foreign-row", fmt.Sprintf("output row %d carries payload (%d,%d) that no input has", idx, r.Inp, r.Seq)
		}
		src := c.Inputs[r.Inp][r.Seq]
		if src != r {
			return "row-altered", fmt.Sprintf("output row %d (input %d seq %d) has keys %s, was written with %s", idx, r.Inp, r.Seq, r.keyText(len(cols)), src.keyText(len(cols)))
		}
		seen[r.Inp][r.Seq]++
		if seen[r.Inp][r.Seq] > 1 {
			return "duplicated-row", fmt.Sprintf("input %d row %d is emitted more than once", r.Inp, r.Seq)
		}
		if r.Seq <= last[r.Inp] {
			return "per-input-order", fmt.Sprintf("input %d: row %d emitted after row %d", r.Inp, r.Seq, last[r.Inp])
		}
		last[r.Inp] = r.Seq
	}
	// sorted by the declared columns
	for i := 1; i < len(out); i++ {
		if c09Cmp(cols, n, out[i-1], out[i]) > 0 {
			nullInvolved := false
			for j := 0; j < n; j++ {
				if out[i-1].Null[j] != out[i].Null[j] {
					nullInvolved = true
				}
			}
			if nullInvolved && c.Pattern == "fixed" {
				return "nullable-key-ranges-ignore-nulls", fmt.Sprintf("output not sorted: row %d (%s) precedes row %d (%s); a null key is out of place (F12: row-group key ranges computed from non-null page bounds only)", i-1, out[i-1].keyText(n), i, out[i].keyText(n))
			}
			if nullInvolved && c.Path != "readers" && !c.Dedupe && len(out) >= parquet.VerifMinStreamedRegionRows && c09StrictCuts() == "0" {
				return "nullable-key-cuts-ignore-nulls", fmt.Sprintf("output not sorted: row %d (%s) precedes row %d (%s); a null key is out of place (refinement cuts computed from the non-null bounds of a page that also holds nulls)", i-1, out[i-1].keyText(n), i, out[i].keyText(n))
			}
			if nullInvolved {
				return "unsorted-null-out-of-place", fmt.Sprintf("output not sorted: row %d (%s) precedes row %d (%s); a null key is out of place", i-1, out[i-1].keyText(n), i, out[i].keyText(n))
			}
			return "unsorted", fmt.Sprintf("output not sorted: row %d (%s) precedes row %d (%s)", i-1, out[i-1].keyText(n), i, out[i].keyText(n))
		}
	}
	if !c.Dedupe && c.DedupeIn {
		// the inputs of the outermost merge that are inner merges deliver one row per sort key of the leaves
		// below them; the outermost merge keeps all the rows of its inputs
		tree, err := c09ParseTree(c.Nest)
		if err != nil {
			return "bad-case", err.Error()
		}
		sortKey := func(r c09Row) string {
			r.GNull = [3]bool{}
			return r.keyText(n)
		}
		for g, kid := range tree.kids {
			if kid.leaf >= 0 {
				for j, k := range seen[kid.leaf] {
					if k == 0 {
						return "lost-row", fmt.Sprintf("input %d row %d (key %s) is missing from the output (%d rows out)", kid.leaf, j, c.Inputs[kid.leaf][j].keyText(n), len(out))
					}
				}
				continue
			}
			below := map[int32]bool{}
			for _, l := range kid.leaves(nil) {
				below[int32(l)] = true
			}
			count := map[string]int{}
			for _, r := range out {
				if below[r.Inp] {
					count[sortKey(r)]++
				}
			}
			for l := range below {
				for j, r := range c.Inputs[l] {
					switch k := count[sortKey(r)]; {
					case k == 0:
						return "dedupe-lost-key", fmt.Sprintf("no output row has the sort key %s of input %d row %d (below the deduplicating input %d of the outermost merge)", r.keyText(n), l, j, g)
					case k > 1:
						return "deduplicated-rows-reappear", fmt.Sprintf("input %d of the outermost merge is a deduplicating merge (one row per sort key) of the leaves %s, the output has %d rows of these leaves with the sort key %s", g, kid.text(), k, r.keyText(n))
					}
				}
			}
		}
		return "", ""
	}
	if !c.Dedupe {
		for i := range seen {
			for j, k := range seen[i] {
				if k == 0 {
					return "lost-row", fmt.Sprintf("input %d row %d (key %s) is missing from the output (%d rows out)", i, j, c.Inputs[i][j].keyText(n), len(out))
				}
			}
		}
		return "", ""
	}
	// dedupe: exactly one row per distinct sort key
	for i := 1; i < len(out); i++ {
		if c09Cmp(cols, n, out[i-1], out[i]) == 0 {
			return "dedupe-left-duplicate", fmt.Sprintf("rows %d and %d have the same sort key %s", i-1, i, out[i].keyText(n))
		}
	}
	// the sort key of a row: a null is a null, whether its group is absent or present
	sortKey := func(r c09Row) string {
		r.GNull = [3]bool{}
		return r.keyText(n)
	}
	have := map[string]bool{}
	for _, r := range out {
		have[sortKey(r)] = true
	}
	for i := range c.Inputs {
		for j, r := range c.Inputs[i] {
			if !have[sortKey(r)] {
				return "dedupe-lost-key", fmt.Sprintf("no output row has the sort key %s of input %d row %d", r.keyText(n), i, j)
			}
		}
	}
	return "", ""
}

func c09Check(ctx *core.Ctx, c *c09Case, p *c09Pending) {
	total, nonEmpty, nulls := 0, 0, false
	for _, in := range c.Inputs {
		total += len(in)
		if len(in) > 0 {
			nonEmpty++
		}
		for _, r := range in {
			nulls = nulls || r.Null[0] || r.Null[1] || r.Null[2]
		}
	}
	canon := c.canon()
	ctx.Case(canon, nonEmpty >= 2)
	out, kind, calls, plan, err := c09Run(c)
	ctx.Hist("inputs", strconv.Itoa(len(c.Inputs)))
	ctx.Hist("path", c.Path)
	ctx.Hist("storage", c.Storage)
	ctx.Hist("pattern", c.Pattern)
	ctx.Hist("plan", kind)
	ctx.Hist("dedupe", strconv.FormatBool(c.Dedupe))
	ctx.Hist("total-rows", c09Bucket(total))
	ctx.Hist("nulls", strconv.FormatBool(nulls))
	ctx.Hist("key-columns", fmt.Sprintf("%d/merge-by-%d", len(c.Cols), c.MCols))
	{
		nest, kinds := "top-level", [3]bool{}
		for j, col := range c.Cols {
			if col.Wrap != 0 {
				nest = "in-group"
			}
			for _, in := range c.Inputs {
				for _, r := range in {
					if r.GNull[j] {
						kinds[0] = true
					} else if r.Null[j] && col.Wrap == 1 {
						kinds[1] = true
					}
				}
			}
		}
		if nest != "top-level" {
			nest += fmt.Sprintf(" group-absent=%v leaf-null-in-present-group=%v", kinds[0], kinds[1])
		}
		ctx.Hist("key-nesting", nest)
	}
	detail := func() map[string]any {
		var o []string
		for _, r := range out {
			o = append(o, fmt.Sprintf("%s@%d:%d", r.keyText(len(c.Cols)), r.Inp, r.Seq))
		}
		if len(o) > 400 {
			o = append(o[:400], "...")
		}
		cs := canon
		return map[string]any{"case": cs, "plan": kind, "output": strings.Join(o, " "), "calls": fmt.Sprint(calls[:min(len(calls), 50)])}
	}
	sig := fmt.Sprintf(" path=%s", c.Path)
	typed := false
	for j, col := range c.Cols {
		typed = typed || col.Kind != ""
		ctx.Hist("key-type", c09KindsText(c.Cols[j:j+1])+map[bool]string{false: "/asc", true: "/desc"}[col.Desc])
	}
	if typed {
		// keys of other types than INT(64): the types and directions of the merge's sorting columns are part
		// of the situation (the comparator has one arm per type and direction)
		sig = " keys=" + c09KeySig(c.Cols[:c.sortCols()]) + sig
	}
	if c.DedupeIn {
		sig = " inner-dedupe" + sig
	}
	ctx.Hist("inner-dedupe", strconv.FormatBool(c.DedupeIn))
	if c.Evolve != 0 {
		// some inputs are converted to the schema of the merge
		sig = " converted" + sig
		ctx.Hist("schema-evolution", fmt.Sprintf("inputs-without-the-new-column=%s", c09Bucket(bits.OnesCount(c.Evolve))))
	} else {
		ctx.Hist("schema-evolution", "none")
	}
	if c.Nest != "" {
		// a merged row group (or merged reader) is itself an input of a merge
		sig = " nested" + sig
		ctx.Hist("nest", c09NestShape(c.Nest))
	}
	// L2: the plan (segments of row groups) against the Lean mirror of rowGroupRangeOfSortedColumns +
	// overlappingRowGroups; one key column (nullable or not), single-page row groups (Buffers), no
	// dedupe wrappers
	if p != nil && err == nil && c.Storage == "buffer" && len(c.Cols) == 1 && !c.Dedupe && c.Path != "readers" && len(c.Inputs) > 0 && c.Nest == "" {
		nf := "0"
		if c.Cols[0].NF {
			nf = "1"
		}
		req := "merge.segments " + nf + " " + c09Lists(c.Inputs, func(r c09Row) string {
			if r.Null[0] {
				return "n"
			}
			if c.Cols[0].Desc {
				return strconv.FormatInt(-r.K[0], 10)
			}
			return strconv.FormatInt(r.K[0], 10)
		})
		want := "ok " + plan
		ctx.Hist("l2-plan-segments", c09Bucket(strings.Count(plan, ",")+1))
		ctx.Hist("l2-plan-nulls", strconv.FormatBool(nulls))
		p.reqs = append(p.reqs, req)
		p.pend = append(p.pend, func(ans string) {
			if ans != want {
				ctx.Fail("L2", "segments-mirror", "segments chosen by MergeRowGroups differ from the Lean mirror of overlappingRowGroups", map[string]any{
					"case": canon, "request": req, "impl": want, "model": ans})
			}
		})
	}
	// L2: the whole plan (ranges over several pages, segments, refinement cuts) against the mirror
	if p != nil && err == nil && c.planReq != "" {
		req, want := c.planReq, "ok "+plan
		ctx.Hist("l2-plan", kind)
		p.reqs = append(p.reqs, req)
		p.pend = append(p.pend, func(ans string) {
			if ans != want {
				ctx.Fail("L2", "plan-mirror plan="+kind, "plan of MergeRowGroups (segments, refinement slices) differs from the Lean mirror of the planner", map[string]any{
					"case": canon[:min(len(canon), 3000)], "request": req[:min(len(req), 6000)], "impl": want, "model": ans})
			}
		})
	}
	// L2: rowGroupInterleavesChunks / rowGroupDropsRows / rowGroupReadsChunksInOrder on the trees of views
	// this case built (inputs of the outermost merge and its result) against the mirror in MergeShape.lean
	if p != nil && err == nil {
		asked := map[string]bool{}
		for _, sh := range c.shapes {
			if asked[sh[0]] || len(sh[0]) > 4000 {
				continue
			}
			asked[sh[0]] = true
			req, want := "merge.shape "+sh[0], sh[1]
			ctx.Hist("l2-shape", sh[0][:1]+" "+want[3:])
			p.reqs = append(p.reqs, req)
			p.pend = append(p.pend, func(ans string) {
				if ans != want {
					ctx.Fail("L2", "shape-mirror", "rowGroupInterleavesChunks / rowGroupDropsRows / rowGroupReadsChunksInOrder / supportsRowRanges (in this order) of a tree of row-group views differ from the Lean mirror", map[string]any{
						"case": canon[:min(len(canon), 3000)], "request": req, "impl": want, "model": ans})
				}
			})
		}
	}
	if c.factKey != "" {
		// obligation: an assumed hypothesis of the planner theorems does not hold of a real row group
		ctx.Fail("L2", c.factKey, c.factWhat, map[string]any{"case": canon[:min(len(canon), 3000)], "plan": kind})
	}
	if err != nil && strings.HasPrefix(err.Error(), "hang:") {
		ctx.Fail("L1", "seek-forward-beyond-buffer-hangs plan="+kind, "SeekToRow forward by more than the read buffer, then ReadRows: "+err.Error(), detail())
		return
	}
	if err != nil {
		ctx.Fail("L1", "error "+c09ErrClass(err)+sig, "merge fails: "+err.Error(), detail())
		return
	}
	if len(c.Seeks) > 0 {
		ctx.Hist("seeks", strconv.Itoa(len(c.Seeks)))
		if key, what := c09SeekOracle(c, c.seekOut, c.seekEOF); key != "" {
			if typed {
				key += " keys=" + c09KeySig(c.Cols[:c.sortCols()])
			}
			ctx.Fail("L1", key+" plan="+kind, what, detail())
		}
		return
	}
	if key, what := c09Oracle(c, out); key != "" {
		if key != "nullable-key-ranges-ignore-nulls" && key != "nullable-key-cuts-ignore-nulls" {
			key += sig + " plan=" + kind
		}
		ctx.Fail("L1", key, what, detail())
	}
}

func c09Bucket(n int) string {
	switch {
	case n == 0:
		return "0"
	case n < 8:
		return "1-7"
	case n < 25:
		return "8-24"
	case n < 100:
		return "25-99"
	case n < 400:
		return "100-399"
	case n < 2000:
		return "400-1999"
	}
	return "2000+"
}

// ---------------------------------------------------------------- generators

var c09BatchPool = []int{1, 1, 2, 3, 5, 7, 8, 9, 23, 24, 25, 31, 32, 33, 47, 48, 49, 63, 64, 65, 95, 96, 97, 127, 128, 129, 191, 192, 193, 255, 256, 257, 300}

func c09GenBatches(r *rand.Rand) []int {
	n := 1 + r.Intn(3)
	bs := make([]int, n)
	for i := range bs {
		if r.Intn(4) == 0 {
			bs[i] = 1 + r.Intn(300)
		} else {
			bs[i] = c09BatchPool[r.Intn(len(c09BatchPool))]
		}
	}
	return bs
}

func c09GenLen(r *rand.Rand, big bool) int {
	switch x := r.Intn(20); {
	case x < 2:
		return 0
	case x < 8:
		return 1 + r.Intn(6)
	case x < 14:
		return []int{22, 23, 24, 25, 26, 47, 48, 49, 50}[r.Intn(9)]
	case x < 18:
		return 30 + r.Intn(100)
	default:
		if big {
			return 180 + r.Intn(250)
		}
		return 90 + r.Intn(110)
	}
}

// key ranges of the inputs per overlap pattern
func c09GenInputs(r *rand.Rand, cols []c09Col, k int, pattern string, lens []int, nullRate int) [][]c09Row {
	inputs := make([][]c09Row, k)
	width := int64(1 + r.Intn(40))
	if r.Intn(3) == 0 {
		width = int64(1 + r.Intn(4)) // many duplicates
	}
	for i := 0; i < k; i++ {
		var lo, hi int64
		switch pattern {
		case "disjoint":
			lo = int64(i) * (width + 3)
			hi = lo + width
		case "touching":
			lo = int64(i) * width
			hi = lo + width
		case "nested":
			lo = int64(i) * 2
			hi = int64(2*k-i)*2 + width
		case "identical":
			lo, hi = 0, width
		case "staggered": // partial overlap with the neighbours
			lo = int64(i) * width * 2 / 3
			hi = lo + width
		default: // random
			lo = r.Int63n(3 * width)
			hi = lo + r.Int63n(2*width+1)
		}
		if r.Intn(2) == 0 {
			// inputs in reverse position order (the planner sorts them by minimum)
			lo, hi = -hi, -lo
		}
		rows := make([]c09Row, lens[i])
		for j := range rows {
			var row c09Row
			for cidx, col := range cols {
				if col.Opt && nullRate > 0 && r.Intn(nullRate) == 0 {
					row.Null[cidx] = true
					continue
				}
				if cidx == 0 {
					row.K[cidx] = lo + r.Int63n(hi-lo+1)
				} else {
					row.K[cidx] = r.Int63n(4)
				}
			}
			rows[j] = row
		}
		sort.SliceStable(rows, func(a, b int) bool { return c09Cmp(cols, len(cols), rows[a], rows[b]) < 0 })
		for j := range rows {
			rows[j].Inp, rows[j].Seq = int32(i), int32(j)
		}
		inputs[i] = rows
	}
	return inputs
}

// key columns below groups: one case in four nests some of its key columns in groups (c09Col.Wrap).
// Under an optional group a nullable key has two kinds of null rows (group absent, def 0; group present
// and leaf null, def 1 of 2), a required key becomes nullable through its group (def 0 of 1). The null
// rows of both kinds compare equal, so the inputs stay sorted; inputs whose required key gained nulls
// are sorted again.
func c09WrapKeys(r *rand.Rand, c *c09Case) {
	if r.Intn(4) != 0 {
		return
	}
	resort := false
	for j := range c.Cols {
		col := &c.Cols[j]
		switch r.Intn(4) {
		case 0:
			continue
		case 1:
			col.Wrap = 2
			continue
		}
		col.Wrap = 1
		gain := 0 // a required key under an optional group: one row in `gain` has the group absent
		if !col.Opt && r.Intn(2) == 0 {
			gain = []int{2, 5, 20}[r.Intn(3)]
			col.NF = r.Intn(2) == 0
			resort = true
		}
		for i := range c.Inputs {
			kind := r.Intn(3) // the null keys of this input: 0 = leaf null in a present group, 1 = group absent, 2 = both
			for s := range c.Inputs[i] {
				row := &c.Inputs[i][s]
				switch {
				case row.Null[j]:
					row.GNull[j] = kind == 1 || (kind == 2 && r.Intn(2) == 0)
				case gain > 0 && r.Intn(gain) == 0:
					row.K[j], row.Null[j], row.GNull[j] = 0, true, true
				}
			}
		}
	}
	if resort {
		for i, rows := range c.Inputs {
			sort.SliceStable(rows, func(a, b int) bool { return c09Cmp(c.Cols, len(c.Cols), rows[a], rows[b]) < 0 })
			for s := range rows {
				rows[s].Inp, rows[s].Seq = int32(i), int32(s)
			}
		}
	}
}

// schema evolution: one case in six merges into a schema with one more optional column than some of its
// inputs have (c09Case.Evolve), so that MergeRowGroups converts those inputs. In a nest one inner merge
// is (when possible) made of such inputs only: its result, a merged row group in the older schema, is
// then converted by the enclosing merge.
func c09EvolveSchema(r *rand.Rand, c *c09Case) {
	if c.Path == "readers" || len(c.Inputs) == 0 || r.Intn(6) != 0 {
		return
	}
	// not next to a repeated column: Convert gives an added column the levels of its closest sibling, the
	// known C12 finding F19 (added-column-borrows-sibling-levels), which is not a matter of merging
	c.Lists = false
	for i := range c.Inputs {
		if r.Intn(2) == 0 {
			c.Evolve |= 1 << i
		}
	}
	if c.Nest != "" {
		if t, err := c09ParseTree(c.Nest); err == nil {
			var inner []*c09Tree
			for _, k := range t.kids {
				if k.leaf < 0 {
					inner = append(inner, k)
				}
			}
			if len(inner) > 0 {
				for _, l := range inner[r.Intn(len(inner))].leaves(nil) {
					c.Evolve |= 1 << l
				}
			}
		}
	}
	if c.Evolve == 0 {
		c.Evolve = 1 << r.Intn(len(c.Inputs))
	}
}

var c09Patterns = []string{"disjoint", "touching", "nested", "identical", "staggered", "random"}

func c09GenCase(r *rand.Rand) *c09Case {
	c := &c09Case{}
	ncols := 1
	if r.Intn(4) == 0 {
		ncols = 2
	}
	nullable := r.Intn(3) == 0
	for j := 0; j < ncols; j++ {
		col := c09Col{Desc: r.Intn(3) == 0}
		if nullable && r.Intn(3) != 0 {
			col.Opt = true
			col.NF = r.Intn(2) == 0
		}
		c.Cols = append(c.Cols, col)
	}
	switch r.Intn(4) {
	case 0:
		c.MCols = 0
	case 1:
		c.MCols = 1
	default:
		c.MCols = ncols
	}
	k := r.Intn(10)
	c.Pattern = c09Patterns[r.Intn(len(c09Patterns))]
	c.Storage = []string{"buffer", "buffer", "file", "file", "mixed"}[r.Intn(5)]
	c.PageBuf = []int{1, 16, 64, 256, 4096, 1 << 20}[r.Intn(6)]
	c.Batches = c09GenBatches(r)
	c.Dedupe = r.Intn(3) == 0
	c.Path = []string{"rows", "rows", "readers", "write", "copyrows"}[r.Intn(5)]
	lens := make([]int, k)
	for i := range lens {
		lens[i] = c09GenLen(r, k <= 3)
	}
	nullRate := 0
	if nullable {
		nullRate = []int{2, 4, 10, 40}[r.Intn(4)]
	}
	c.Inputs = c09GenInputs(r, c.Cols, k, c.Pattern, lens, nullRate)
	c.Lists = r.Intn(3) == 0
	c09WrapKeys(r, c)
	c09EvolveSchema(r, c)
	c09GenSeeks(r, c)
	c09TypeKeys(r, c.Cols, 3)
	return c
}

// forward seeks for the rows path: farther than the read buffer, short, to the end, repeated
func c09GenSeeks(r *rand.Rand, c *c09Case) {
	if c.Path != "rows" || r.Intn(4) != 0 || c09SeekHung.Load() {
		return
	}
	maxb, total := 1, 0
	for _, b := range c.Batches {
		maxb = max(maxb, b)
	}
	for _, in := range c.Inputs {
		total += len(in)
	}
	for n := 1 + r.Intn(3); n > 0; n-- {
		switch r.Intn(4) {
		case 0:
			c.Seeks = append(c.Seeks, r.Intn(4))
		case 1:
			c.Seeks = append(c.Seeks, total+r.Intn(3)) // to or past the end
		default:
			c.Seeks = append(c.Seeks, maxb+1+r.Intn(2*maxb+5)) // farther than the buffer
		}
	}
}

// large inputs with long lone stretches and small pages: the refinement planner slices them
func c09GenRefineCase(r *rand.Rand) *c09Case {
	c := &c09Case{Pattern: "refine-" + []string{"staggered", "touching", "nested", "random"}[r.Intn(4)]}
	col := c09Col{Desc: r.Intn(3) == 0}
	if r.Intn(3) == 0 {
		col.Opt, col.NF = true, r.Intn(2) == 0
	}
	c.Cols = []c09Col{col}
	if r.Intn(4) == 0 {
		c.Cols = append(c.Cols, c09Col{})
	}
	c.MCols = []int{0, 1, len(c.Cols)}[r.Intn(3)]
	k := 2 + r.Intn(3)
	c.Storage = []string{"file", "file", "mixed"}[r.Intn(3)]
	c.PageBuf = []int{64, 256, 1024}[r.Intn(3)]
	c.Batches = c09GenBatches(r)
	c.Dedupe = r.Intn(6) == 0
	c.Path = []string{"rows", "write", "rows", "copyrows"}[r.Intn(4)]
	min := parquet.VerifMinStreamedRegionRows
	inputs := make([][]c09Row, k)
	nullRate := 0
	if col.Opt && r.Intn(2) == 0 {
		nullRate = 50
	}
	for i := 0; i < k; i++ {
		n := min + min/2 + r.Intn(2*min)
		span := int64(n)
		if r.Intn(3) == 0 {
			span = int64(n / 8) // duplicates
		}
		var lo int64
		switch c.Pattern {
		case "refine-staggered":
			lo = int64(i) * span * 3 / 4
		case "refine-touching":
			lo = int64(i) * span
		case "refine-nested":
			lo = int64(i) * span / 3
			span = span * int64(k-i) / int64(k)
		default:
			lo = r.Int63n(2 * span)
		}
		rows := make([]c09Row, n)
		for j := range rows {
			var row c09Row
			if nullRate > 0 && r.Intn(nullRate) == 0 {
				row.Null[0] = true
			} else {
				row.K[0] = lo + r.Int63n(span+1)
			}
			if len(c.Cols) > 1 {
				row.K[1] = r.Int63n(3)
			}
			rows[j] = row
		}
		sort.SliceStable(rows, func(a, b int) bool { return c09Cmp(c.Cols, len(c.Cols), rows[a], rows[b]) < 0 })
		for j := range rows {
			rows[j].Inp, rows[j].Seq = int32(i), int32(j)
		}
		inputs[i] = rows
	}
	c.Inputs = inputs
	c.Lists = r.Intn(3) == 0
	c09WrapKeys(r, c)
	c09EvolveSchema(r, c)
	c09GenSeeks(r, c)
	if c09TypeKeys(r, c.Cols, 3) {
		c09CenterKeys(c.Inputs)
	}
	return c
}

// large inputs sorted by a compound key (2 or 3 columns) in which many rows share the first key
// column, within and across row groups, over several pages: the page-granular cuts of the refinement
// planner (first sorting column only) meet row-group bounds that are decided by the later columns
func c09GenCompoundRefineCase(r *rand.Rand) *c09Case {
	c := &c09Case{Pattern: "refine-compound-" + []string{"touching", "staggered", "nested"}[r.Intn(3)]}
	ncols := 2 + r.Intn(2)
	for j := 0; j < ncols; j++ {
		col := c09Col{Desc: r.Intn(4) == 0}
		if r.Intn(5) == 0 {
			col.Opt, col.NF = true, r.Intn(2) == 0
		}
		c.Cols = append(c.Cols, col)
	}
	c.MCols = []int{0, ncols, ncols}[r.Intn(3)]
	k := 2 + r.Intn(2)
	c.Storage = "file"
	c.PageBuf = []int{64, 128, 256, 1024}[r.Intn(4)]
	c.Batches = c09GenBatches(r)
	c.Dedupe = r.Intn(10) == 0
	c.Path = []string{"rows", "rows", "write", "copyrows"}[r.Intn(4)]
	min := parquet.VerifMinStreamedRegionRows
	width := int64(2 + r.Intn(6))    // distinct first-column values per row group
	bdom := int64(50 + r.Intn(3000)) // domain of the second column
	inputs := make([][]c09Row, k)
	for i := 0; i < k; i++ {
		n := min + min/2 + r.Intn(2*min)
		var lo, hi int64
		switch c.Pattern {
		case "refine-compound-touching": // the last first-column value of one group is the first of the next
			lo = int64(i) * width
			hi = lo + width
		case "refine-compound-staggered":
			lo = int64(i) * (width - 1)
			hi = lo + width
		default:
			lo = int64(i)
			hi = lo + width*int64(k-i)
		}
		rows := make([]c09Row, n)
		for j := range rows {
			var row c09Row
			for cidx, col := range c.Cols {
				if col.Opt && r.Intn(60) == 0 {
					row.Null[cidx] = true
					continue
				}
				switch cidx {
				case 0:
					row.K[0] = lo + r.Int63n(hi-lo+1)
				case 1:
					row.K[1] = r.Int63n(bdom)
				default:
					row.K[2] = r.Int63n(3)
				}
			}
			rows[j] = row
		}
		sort.SliceStable(rows, func(a, b int) bool { return c09Cmp(c.Cols, len(c.Cols), rows[a], rows[b]) < 0 })
		for j := range rows {
			rows[j].Inp, rows[j].Seq = int32(i), int32(j)
		}
		inputs[i] = rows
	}
	if r.Intn(2) == 0 { // the planner sorts the row groups by their lower bound
		inputs[0], inputs[k-1] = inputs[k-1], inputs[0]
		for i := range inputs {
			for j := range inputs[i] {
				inputs[i][j].Inp = int32(i)
			}
		}
	}
	c.Inputs = inputs
	c.Lists = r.Intn(3) == 0
	c09WrapKeys(r, c)
	c09EvolveSchema(r, c)
	c09GenSeeks(r, c)
	if c09TypeKeys(r, c.Cols, 3) {
		c09CenterKeys(c.Inputs)
	}
	return c
}

// nested merges: the result of a merge is an input of another merge (MergeRowGroups over merged row
// groups, MergeRowReaders over merged readers). Pattern "island": one wide input and narrow inputs
// inside its range, so that an inner merge covers a wide range while its members' pages, chunk after
// chunk, are not in key order.
func c09GenNestedCase(r *rand.Rand, big bool) *c09Case {
	var c *c09Case
	if big {
		c = c09GenRefineCase(r)
		if r.Intn(2) == 0 {
			c = c09GenCompoundRefineCase(r)
		}
		c.Seeks = nil
	} else {
		c = &c09Case{}
		ncols := 1 + r.Intn(4)/3
		nullable := r.Intn(4) == 0
		for j := 0; j < ncols; j++ {
			col := c09Col{Desc: r.Intn(3) == 0}
			if nullable && r.Intn(3) != 0 {
				col.Opt, col.NF = true, r.Intn(2) == 0
			}
			c.Cols = append(c.Cols, col)
		}
		c.MCols = []int{0, 1, ncols, ncols}[r.Intn(4)]
		k := 2 + r.Intn(6)
		c.Pattern = []string{"island", "island", "nested", "staggered", "random", "touching", "identical"}[r.Intn(7)]
		c.Storage = []string{"buffer", "buffer", "file", "file", "mixed"}[r.Intn(5)]
		c.PageBuf = []int{1, 16, 64, 256, 4096}[r.Intn(5)]
		c.Batches = c09GenBatches(r)
		c.Dedupe = r.Intn(5) == 0
		c.Path = []string{"rows", "rows", "readers", "write", "copyrows"}[r.Intn(5)]
		lens := make([]int, k)
		for i := range lens {
			lens[i] = c09GenLen(r, k <= 3)
			if c.Pattern == "island" && lens[i] == 0 {
				lens[i] = 3
			}
		}
		nullRate := 0
		if nullable {
			nullRate = []int{4, 10, 40}[r.Intn(3)]
		}
		if c.Pattern == "island" {
			c.Inputs = c09GenIslands(r, c.Cols, k, lens, nullRate)
		} else {
			c.Inputs = c09GenInputs(r, c.Cols, k, c.Pattern, lens, nullRate)
		}
		c.Lists = r.Intn(4) == 0
		c09WrapKeys(r, c)
	}
	c.Pattern = "nested-" + c.Pattern
	tree := c09GenTree(r, len(c.Inputs))
	if !c.Dedupe && r.Intn(5) == 0 {
		// deduplicating views as inputs of a merge that keeps duplicates; also views of a single row group
		c.DedupeIn = true
		if c.MCols == 0 {
			c.MCols = len(c.Cols)
		}
		for i, k := range tree.kids {
			if k.leaf >= 0 && r.Intn(2) == 0 {
				tree.kids[i] = &c09Tree{leaf: -1, kids: []*c09Tree{k}}
			}
		}
	}
	c.Nest = tree.text()
	c.Evolve = 0
	c09EvolveSchema(r, c)
	c09TypeKeys(r, c.Cols, 3)
	return c
}

// input 0 spans [0, 100*k]; input i > 0 is an island [100*i, 100*i+w] inside it, one in four an outlier
// outside of it
func c09GenIslands(r *rand.Rand, cols []c09Col, k int, lens []int, nullRate int) [][]c09Row {
	inputs := make([][]c09Row, k)
	for i := 0; i < k; i++ {
		lo, hi := int64(0), int64(100*k)
		if i > 0 {
			lo = int64(100*i) + r.Int63n(20)
			hi = lo + r.Int63n(60)
			// an outlier: an island off the shore of the wide input, below or above its range. An inner merge
			// of the wide input, an island and an outlier is a sequence of segments one of which is a
			// loser-tree merge (its pages, listed member after member, are not in the order of its rows)
			switch r.Intn(8) {
			case 0:
				lo, hi = lo-int64(100*k+50), hi-int64(100*k+50)
			case 1:
				lo, hi = lo+int64(100*k+50), hi+int64(100*k+50)
			}
		}
		rows := make([]c09Row, lens[i])
		for j := range rows {
			var row c09Row
			for cidx, col := range cols {
				if col.Opt && nullRate > 0 && r.Intn(nullRate) == 0 {
					row.Null[cidx] = true
					continue
				}
				if cidx == 0 {
					row.K[cidx] = lo + r.Int63n(hi-lo+1)
				} else {
					row.K[cidx] = r.Int63n(4)
				}
			}
			rows[j] = row
		}
		if i == 0 && len(rows) >= 2 && !rows[0].Null[0] && !rows[1].Null[0] {
			rows[0].K[0], rows[1].K[0] = 0, int64(100*k) // the wide input really spans the whole range
		}
		sort.SliceStable(rows, func(a, b int) bool { return c09Cmp(cols, len(cols), rows[a], rows[b]) < 0 })
		for j := range rows {
			rows[j].Inp, rows[j].Seq = int32(i), int32(j)
		}
		inputs[i] = rows
	}
	return inputs
}

// shape of a nest for the histograms: depth and number of inner merges
func c09NestShape(nest string) string {
	depth, maxd, inner := 0, 0, -1
	for _, ch := range nest {
		switch ch {
		case '[':
			depth++
			inner++
			maxd = max(maxd, depth)
		case ']':
			depth--
		}
	}
	return fmt.Sprintf("depth=%d inner=%d", maxd, min(inner, 4))
}

// ---------------------------------------------------------------- L2: the Lean mirror

type c09L2Case struct {
	keys    [][]int64
	refills [][]int
	batches []int
	eofLast bool
}

func c09Lists[T any](xs [][]T, f func(T) string) string {
	if len(xs) == 0 {
		return "."
	}
	parts := make([]string, len(xs))
	for i, x := range xs {
		if len(x) == 0 {
			parts[i] = "-"
			continue
		}
		ss := make([]string, len(x))
		for j, v := range x {
			ss[j] = f(v)
		}
		parts[i] = strings.Join(ss, ",")
	}
	return strings.Join(parts, "/")
}

var c09L2Cols = []c09Col{{}}
var c09L2Schema = c09Schema(c09L2Cols)
var c09L2Compare = c09L2Schema.Comparator(parquet.Ascending("k0"))

// runs MergeRowReaders over chunked sources; returns the request for the model and the answer
// the model must give
func c09L2Run(c *c09L2Case) (req, want string, rows []c09Row, err error) {
	defer func() {
		if p := recover(); p != nil {
			err = fmt.Errorf("panic: %v", p)
		}
	}()
	readers := make([]parquet.RowReader, len(c.keys))
	total := 0
	for i, ks := range c.keys {
		rs := make([]parquet.Row, len(ks))
		for j, k := range ks {
			rs[j] = c09ToRow(c09L2Cols, c09Row{K: [3]int64{k}, Inp: int32(i), Seq: int32(j)})
		}
		var sizes []int
		if i < len(c.refills) {
			sizes = append(sizes, c.refills[i]...)
		}
		readers[i] = &c09ChunkReader{rows: rs, sizes: sizes, eofLast: c.eofLast}
		total += len(ks)
	}
	rr := parquet.MergeRowReaders(readers, c09L2Compare)
	maxb := 1
	for _, b := range c.batches {
		maxb = max(maxb, b)
	}
	buf := make([]parquet.Row, maxb)
	var used []int
	var batches []string
	var streaks []int
	for i := 0; ; i++ {
		b := c.batches[i%len(c.batches)]
		n, e := rr.ReadRows(buf[:b])
		used = append(used, b)
		streaks = append(streaks, parquet.VerifMergeStreak(rr))
		var sb strings.Builder
		if n == 0 {
			sb.WriteByte('-')
		}
		for j, row := range buf[:max(n, 0)] {
			r, derr := c09FromRow(c09L2Cols, row)
			if derr != nil {
				return "", "", rows, derr
			}
			rows = append(rows, r)
			if j > 0 {
				sb.WriteByte(',')
			}
			fmt.Fprintf(&sb, "%d:%d", r.Inp, r.Seq)
		}
		batches = append(batches, sb.String())
		if e == io.EOF {
			break
		}
		if e != nil {
			return "", "", rows, e
		}
		if len(used) > 3*total+16 {
			return "", "", rows, errors.New("no progress")
		}
	}
	req = fmt.Sprintf("merge.run %s %s %s", c09Lists(c.keys, func(k int64) string { return strconv.FormatInt(k, 10) }),
		core.JoinInts(used), c09Lists(c.refills, strconv.Itoa))
	want = "ok 1 " + strings.Join(batches, "|") + " " + core.JoinInts(streaks)
	return req, want, rows, nil
}

func (c *c09L2Case) text() string {
	return fmt.Sprintf("keys=%s refills=%s batches=%v eofLast=%v", c09Lists(c.keys, func(k int64) string { return strconv.FormatInt(k, 10) }),
		c09Lists(c.refills, strconv.Itoa), c.batches, c.eofLast)
}

type c09Pending struct {
	reqs []string
	pend []func(string)
}

func (p *c09Pending) flush(ctx *core.Ctx, d *drv.Driver, force bool) {
	if len(p.reqs) == 0 || (!force && len(p.reqs) < 2000) {
		return
	}
	if d != nil {
		ans, err := d.AskMany(p.reqs)
		if err != nil {
			ctx.Fail("L2", "driver-error", err.Error(), nil)
		}
		for i, a := range ans {
			p.pend[i](a)
		}
	}
	p.reqs, p.pend = p.reqs[:0], p.pend[:0]
}

// L2 (exact emitted sequence, call by call) + L1 on the same run
func c09L2Check(ctx *core.Ctx, c *c09L2Case, p *c09Pending) {
	req, want, rows, err := c09L2Run(c)
	nonEmpty := 0
	for _, k := range c.keys {
		if len(k) > 0 {
			nonEmpty++
		}
	}
	ctx.Case("l2 "+c.text(), nonEmpty >= 2)
	ctx.Hist("l2-inputs", strconv.Itoa(len(c.keys)))
	if err != nil {
		ctx.Fail("L1", "error "+c09ErrClass(err)+" path=chunked-readers", "MergeRowReaders fails: "+err.Error(), map[string]any{"case": c.text()})
		return
	}
	// L1 on the same run
	oc := &c09Case{Cols: c09L2Cols, MCols: 1, Path: "readers"}
	for i, ks := range c.keys {
		in := make([]c09Row, len(ks))
		for j, k := range ks {
			in[j] = c09Row{K: [3]int64{k}, Inp: int32(i), Seq: int32(j)}
		}
		oc.Inputs = append(oc.Inputs, in)
	}
	if key, what := c09Oracle(oc, rows); key != "" {
		ctx.Fail("L1", key+" path=chunked-readers", what, map[string]any{"case": c.text(), "output": want})
	}
	text := c.text()
	p.reqs = append(p.reqs, req)
	p.pend = append(p.pend, func(ans string) {
		if ans != want {
			arity := "k"
			if len(c.keys) <= 2 {
				arity = strconv.Itoa(len(c.keys))
			}
			ctx.Fail("L2", "merge-mirror arity="+arity, "emitted (input,seq) batches / streak counters of MergeRowReaders differ from the Lean mirror", map[string]any{
				"case": text, "request": req, "impl": want, "model": ans})
		}
	})
}

func c09SortedKeys(r *rand.Rand, n int, lo, hi int64) []int64 {
	ks := make([]int64, n)
	for i := range ks {
		ks[i] = lo + r.Int63n(hi-lo+1)
	}
	sort.Slice(ks, func(a, b int) bool { return ks[a] < ks[b] })
	return ks
}

func c09GenL2(r *rand.Rand) *c09L2Case {
	c := &c09L2Case{eofLast: r.Intn(4) == 0}
	k := r.Intn(10)
	pattern := c09Patterns[r.Intn(len(c09Patterns))]
	width := int64(1 + r.Intn(30))
	if r.Intn(3) == 0 {
		width = int64(1 + r.Intn(3))
	}
	for i := 0; i < k; i++ {
		var lo, hi int64
		switch pattern {
		case "disjoint":
			lo = int64(i) * (width + 2)
			hi = lo + width
		case "touching":
			lo = int64(i) * width
			hi = lo + width
		case "nested":
			lo, hi = int64(i), int64(2*k-i)+width
		case "identical":
			lo, hi = 0, width
		case "staggered":
			lo = int64(i) * width * 2 / 3
			hi = lo + width
		default:
			lo = r.Int63n(3 * width)
			hi = lo + r.Int63n(2*width+1)
		}
		n := c09GenLen(r, true)
		if r.Intn(12) == 0 {
			n = 400 + r.Intn(400) // reaches the 192-row buffers
		}
		c.keys = append(c.keys, c09SortedKeys(r, n, lo, hi))
		var sizes []int
		switch r.Intn(4) {
		case 0: // full refills
		case 1:
			for j := r.Intn(40); j > 0; j-- {
				sizes = append(sizes, 1+r.Intn(3))
			}
		default:
			for j := r.Intn(12); j > 0; j-- {
				sizes = append(sizes, []int{0, 1, 2, 5, 23, 24, 25, 47, 48, 49, 96, 191, 192, 193, 500}[r.Intn(15)])
			}
		}
		c.refills = append(c.refills, sizes)
	}
	c.batches = c09GenBatches(r)
	if r.Intn(20) == 0 {
		c.batches = append(c.batches, 0)
	}
	if k == 1 {
		c.eofLast = false // mergeRowReaders returns the single reader itself: its io.EOF timing is the source's
	}
	return c
}

// ---------------------------------------------------------------- L2: compound nullable keys (comparator chain)

func c09SpecText(cols []c09Col) string {
	parts := make([]string, len(cols))
	for i, col := range cols {
		d, n := "a", "l"
		if col.Desc {
			d = "d"
		}
		if col.NF {
			n = "f"
		}
		parts[i] = d + n
	}
	return strings.Join(parts, ",")
}

type c09L2CCase struct {
	lists   bool
	cols    []c09Col
	inputs  [][]c09Row
	refills [][]int
	batches []int
}

func (c *c09L2CCase) text() string {
	n := len(c.cols)
	return fmt.Sprintf("specs=%s opt=%v lists=%v inputs=%s refills=%s batches=%v", c09SpecText(c.cols), c.cols, c.lists,
		c09Lists(c.inputs, func(r c09Row) string { return r.keyText(n) }), c09Lists(c.refills, strconv.Itoa), c.batches)
}

func c09GenL2C(r *rand.Rand) *c09L2CCase {
	c := &c09L2CCase{lists: r.Intn(2) == 0}
	ncols := 1 + r.Intn(3)
	for j := 0; j < ncols; j++ {
		col := c09Col{Desc: r.Intn(3) == 0}
		if r.Intn(2) == 0 {
			col.Opt, col.NF = true, r.Intn(2) == 0
		}
		c.cols = append(c.cols, col)
	}
	k := 2 + r.Intn(5)
	lens := make([]int, k)
	for i := range lens {
		lens[i] = []int{0, 1, 2, 5, 23, 24, 25, 40, 60}[r.Intn(9)]
	}
	c.inputs = c09GenInputs(r, c.cols, k, c09Patterns[r.Intn(len(c09Patterns))], lens, []int{2, 5, 20}[r.Intn(3)])
	for i := 0; i < k; i++ {
		var sizes []int
		for j := r.Intn(6); j > 0; j-- {
			sizes = append(sizes, []int{1, 2, 5, 23, 24, 25, 100}[r.Intn(7)])
		}
		c.refills = append(c.refills, sizes)
	}
	c.batches = c09GenBatches(r)
	c09TypeKeys(r, c.cols, 2)
	return c
}

func c09L2CCheck(ctx *core.Ctx, c *c09L2CCase, p *c09Pending) {
	text := c.text()
	ctx.Case("l2c "+text, len(c.inputs) >= 2)
	ctx.Hist("l2c-columns", strconv.Itoa(len(c.cols)))
	var req, want string
	var rows []c09Row
	err := func() (err error) {
		defer func() {
			if q := recover(); q != nil {
				err = fmt.Errorf("panic: %v", q)
			}
		}()
		schema := c09SchemaL(c.cols, c.lists)
		cmp := schema.Comparator(c09Sorting(c.cols, len(c.cols))...)
		readers := make([]parquet.RowReader, len(c.inputs))
		total := 0
		for i, in := range c.inputs {
			rs := make([]parquet.Row, len(in))
			for j, row := range in {
				rs[j] = c09ToRowL(c.cols, row, c.lists)
			}
			readers[i] = &c09ChunkReader{rows: rs, sizes: append([]int(nil), c.refills[i]...)}
			total += len(in)
		}
		rr := parquet.MergeRowReaders(readers, cmp)
		maxb := 1
		for _, b := range c.batches {
			maxb = max(maxb, b)
		}
		buf := make([]parquet.Row, maxb)
		var used, streaks []int
		var batches []string
		for i := 0; ; i++ {
			b := c.batches[i%len(c.batches)]
			n, e := rr.ReadRows(buf[:b])
			used = append(used, b)
			streaks = append(streaks, parquet.VerifMergeStreak(rr))
			var sb strings.Builder
			if n == 0 {
				sb.WriteByte('-')
			}
			for j, row := range buf[:max(n, 0)] {
				rw, derr := c09FromRowL(c.cols, row, c.lists)
				if derr != nil {
					return derr
				}
				rows = append(rows, rw)
				if j > 0 {
					sb.WriteByte(',')
				}
				fmt.Fprintf(&sb, "%d:%d", rw.Inp, rw.Seq)
			}
			batches = append(batches, sb.String())
			if e == io.EOF {
				break
			}
			if e != nil {
				return e
			}
			if len(used) > 3*total+16 {
				return errors.New("no progress")
			}
		}
		n := len(c.cols)
		req = fmt.Sprintf("merge.runc %s %s %s %s", c09SpecText(c.cols), c09Lists(c.inputs, func(r c09Row) string { return r.keyText(n) }),
			core.JoinInts(used), c09Lists(c.refills, strconv.Itoa))
		want = "ok 1 " + strings.Join(batches, "|") + " " + core.JoinInts(streaks)
		return nil
	}()
	if err != nil {
		ctx.Fail("L1", "error "+c09ErrClass(err)+" path=chunked-readers-compound", "MergeRowReaders fails: "+err.Error(), map[string]any{"case": text})
		return
	}
	oc := &c09Case{Cols: c.cols, MCols: len(c.cols), Path: "readers", Inputs: c.inputs}
	if key, what := c09Oracle(oc, rows); key != "" {
		for _, col := range c.cols {
			if col.Kind != "" {
				key += " keys=" + c09KeySig(c.cols)
				break
			}
		}
		ctx.Fail("L1", key+" path=chunked-readers-compound", what, map[string]any{"case": text, "output": want})
	}
	p.reqs = append(p.reqs, req)
	p.pend = append(p.pend, func(ans string) {
		if ans != want {
			ctx.Fail("L2", "merge-mirror-compound-keys", "MergeRowReaders over nullable / descending / multi-column keys differs from the Lean mirror run on cmpRows ranks", map[string]any{
				"case": text, "request": req, "impl": want, "model": ans})
		}
	})
}

// the comparator chain itself: schema.Comparator against cmpRows
func c09CmpChecks(ctx *core.Ctx, r *rand.Rand, d *drv.Driver, p *c09Pending, n int) {
	for i := 0; i < n; i++ {
		ncols := 1 + r.Intn(3)
		var cols []c09Col
		for j := 0; j < ncols; j++ {
			col := c09Col{Desc: r.Intn(2) == 0}
			if r.Intn(3) != 0 {
				col.Opt, col.NF = true, r.Intn(2) == 0
			}
			if r.Intn(3) != 0 {
				col.Kind = c09Kinds[r.Intn(len(c09Kinds))]
			}
			cols = append(cols, col)
		}
		mk := func() c09Row {
			var row c09Row
			for j, col := range cols {
				if col.Opt && r.Intn(3) == 0 {
					row.Null[j] = true
				} else {
					row.K[j] = int64(r.Intn(4)) - 1
					if r.Intn(8) == 0 {
						row.K[j] = []int64{-1 << 63, 1<<63 - 1, -1 << 31, 1 << 31}[r.Intn(4)]
					}
					if col.Kind != "" && r.Intn(3) == 0 {
						// the edges of the kind, byte and word boundaries of its encodings
						lo, hi := c09KindRange(col.Kind)
						row.K[j] = []int64{lo, lo + 1, hi - 1, hi, -129, -128, -127, 127, 128, 255, 256, -256, -257, -32769, 32768, 65536, -65537, 1 << 23, -1 << 23}[r.Intn(19)]
					}
					if lo, hi := c09KindRange(col.Kind); row.K[j] < lo {
						row.K[j] = lo
					} else if row.K[j] > hi {
						row.K[j] = hi
					}
				}
			}
			return row
		}
		a, b := mk(), mk()
		lists := r.Intn(2) == 0
		a.Inp, a.Seq, b.Inp, b.Seq = int32(r.Intn(9)), int32(r.Intn(50)), int32(r.Intn(9)), int32(r.Intn(50))
		schema := c09SchemaL(cols, lists)
		canon := fmt.Sprintf("merge.cmp %s %s %s", c09SpecText(cols), a.keyText(ncols), b.keyText(ncols))
		got, panicked := 0, ""
		func() {
			defer func() {
				if q := recover(); q != nil {
					panicked = c09ErrClass(fmt.Errorf("panic: %v", q))
				}
			}()
			cmp := schema.Comparator(c09Sorting(cols, ncols)...)
			got = cmp(c09ToRowL(cols, a, lists), c09ToRowL(cols, b, lists))
		}()
		if panicked != "" {
			ctx.Case(canon+fmt.Sprint(cols, lists, a.Inp, a.Seq, b.Inp, b.Seq), ncols >= 2)
			ctx.Fail("L1", fmt.Sprintf("comparator-panics lists=%v %s", lists, panicked), "schema.Comparator panics on two rows of its schema", map[string]any{"case": canon, "cols": fmt.Sprint(cols), "lists": lists, "list-a": fmt.Sprint(c09List(a.Inp, a.Seq)), "list-b": fmt.Sprint(c09List(b.Inp, b.Seq))})
			continue
		}
		sign := func(x int) int {
			if x < 0 {
				return -1
			} else if x > 0 {
				return 1
			}
			return 0
		}
		ctx.Case(canon+fmt.Sprint(cols, lists, a.Inp, a.Seq, b.Inp, b.Seq), ncols >= 2)
		if want := c09Cmp(cols, ncols, a, b); sign(got) != want {
			key := fmt.Sprintf("comparator-order lists=%v", lists)
			for j := 0; j < ncols; j++ {
				// the first column on which the two rows differ decides; name its type if it is not INT(64)
				if c09Cmp(cols[j:j+1], 1, c09Row{K: [3]int64{a.K[j]}, Null: [3]bool{a.Null[j]}}, c09Row{K: [3]int64{b.K[j]}, Null: [3]bool{b.Null[j]}}) != 0 || j == ncols-1 {
					if cols[j].Kind != "" {
						key += " key=" + c09KeySig(cols[j:j+1])
					}
					break
				}
			}
			ctx.Fail("L1", key, "schema.Comparator orders two rows against the declared sorting columns", map[string]any{"case": canon, "cols": fmt.Sprint(cols), "lists": lists, "list-a": fmt.Sprint(c09List(a.Inp, a.Seq)), "list-b": fmt.Sprint(c09List(b.Inp, b.Seq)), "impl": got, "declared": want})
		}
		p.reqs = append(p.reqs, canon)
		p.pend = append(p.pend, func(ans string) {
			m, err := strconv.Atoi(strings.TrimPrefix(ans, "ok "))
			if err != nil || sign(m) != sign(got) {
				ctx.Fail("L2", "comparator-mirror", "schema.Comparator differs in sign from the Lean cmpRows", map[string]any{"case": canon, "cols": fmt.Sprint(cols), "impl": got, "model": ans})
			}
		})
		p.flush(ctx, d, false)
	}
}

// ---------------------------------------------------------------- sources answering (0, nil)

// A RowReader may return fewer rows than requested with a nil error (row.go: "The application is
// expected to handle the case where ReadRows returns less rows than requested and no error"); zero
// rows is the extreme of the "source chunkings" the property quantifies over. The merge readers must
// treat a (0, nil) answer as "read again" (bufferedRowReader.read retries, mirror Buf.readE in
// MergeRetry.lean): the property's oracle applies at L1 and the run must equal the main mirror fed
// with the refill stream without its zero entries (theorem readE_eq_read_squash). MergeZero.lean keeps
// the mirror of the code before the retry existed (witness of the re-emitted stale row).
func c09ZeroChecks(ctx *core.Ctx, r *rand.Rand, d *drv.Driver, p *c09Pending, n int) {
	for i := 0; i < n; i++ {
		k := 2
		if i%4 == 3 {
			k = 3
		}
		c := &c09L2Case{}
		for j := 0; j < k; j++ {
			c.keys = append(c.keys, c09SortedKeys(r, 1+r.Intn(30), 0, 20))
			var sizes []int
			for x := 1 + r.Intn(8); x > 0; x-- {
				sizes = append(sizes, []int{0, 0, 1, 2, 3, 24}[r.Intn(6)])
			}
			if k == 3 && j == 0 && r.Intn(2) == 0 {
				sizes[0] = 0
			}
			if r.Intn(40) == 0 {
				// the longest run of (0, nil) answers read() sits out: 1 read + 100 retries, the last one delivers
				at := r.Intn(len(sizes) + 1)
				sizes = append(sizes[:at:at], append(make([]int, 100), append([]int{1 + r.Intn(3)}, sizes[at:]...)...)...)
				for at > 0 && sizes[at-1] == 0 { // keep the run at exactly 100
					sizes[at-1] = 1
					at--
				}
				ctx.Hist("zero-reads-run", "100")
			}
			c.refills = append(c.refills, sizes)
		}
		c.batches = []int{1 + r.Intn(12)}
		text := "zero " + c.text()
		ctx.Case(text, true)
		ctx.Hist("zero-reads", strconv.Itoa(k))
		var rows []c09Row
		var batches []string
		var used []int
		err := func() (err error) {
			defer func() {
				if q := recover(); q != nil {
					err = fmt.Errorf("panic: %v", q)
				}
			}()
			readers := make([]parquet.RowReader, k)
			total := 0
			for j, ks := range c.keys {
				rs := make([]parquet.Row, len(ks))
				for s, key := range ks {
					rs[s] = c09ToRow(c09L2Cols, c09Row{K: [3]int64{key}, Inp: int32(j), Seq: int32(s)})
				}
				readers[j] = &c09ChunkReader{rows: rs, sizes: append([]int(nil), c.refills[j]...), zeroOK: true}
				total += len(ks)
			}
			rr := parquet.MergeRowReaders(readers, c09L2Compare)
			buf := make([]parquet.Row, c.batches[0])
			for calls := 0; calls < 4*total+40; calls++ {
				m, e := rr.ReadRows(buf)
				used = append(used, len(buf))
				var sb strings.Builder
				if m == 0 {
					sb.WriteByte('-')
				}
				for x, row := range buf[:m] {
					rw, derr := c09FromRow(c09L2Cols, row)
					if derr != nil {
						return derr
					}
					rows = append(rows, rw)
					if x > 0 {
						sb.WriteByte(',')
					}
					fmt.Fprintf(&sb, "%d:%d", rw.Inp, rw.Seq)
				}
				batches = append(batches, sb.String())
				if e == io.EOF {
					return nil
				}
				if e != nil {
					return e
				}
			}
			return errors.New("no io.EOF")
		}()
		if err != nil {
			ctx.Fail("L1", fmt.Sprintf("zero-row-read readers=%d error %s", min(k, 3), c09ErrClass(err)), "MergeRowReaders over a source that answers (0, nil): "+err.Error(), map[string]any{"case": text})
			continue
		}
		oc := &c09Case{Cols: c09L2Cols, MCols: 1, Path: "readers"}
		for j, ks := range c.keys {
			in := make([]c09Row, len(ks))
			for s, key := range ks {
				in[s] = c09Row{K: [3]int64{key}, Inp: int32(j), Seq: int32(s)}
			}
			oc.Inputs = append(oc.Inputs, in)
		}
		if key, what := c09Oracle(oc, rows); key != "" {
			ctx.Fail("L1", fmt.Sprintf("zero-row-read readers=%d %s", min(k, 3), key), "MergeRowReaders over a source that answers (0, nil): "+what, map[string]any{"case": text, "output": strings.Join(batches, "|")})
		}
		{
			// (0, nil) answers are skipped: same as the main mirror on the streams without their zero
			// entries (the driver squashes them, MergeRetry.lean)
			req := fmt.Sprintf("merge.runr %s %s %s", c09Lists(c.keys, func(x int64) string { return strconv.FormatInt(x, 10) }), core.JoinInts(used), c09Lists(c.refills, strconv.Itoa))
			want := "ok 1 " + strings.Join(batches, "|")
			p.reqs = append(p.reqs, req)
			p.pend = append(p.pend, func(ans string) {
				if i := strings.LastIndexByte(ans, ' '); i < 0 || ans[:i] != want {
					ctx.Fail("L2", "merge-zero-read-skipped-mirror", "MergeRowReaders over (0, nil) sources differs from the mirror run without the zero entries", map[string]any{"case": text, "request": req, "impl": want, "model": ans})
				}
			})
			p.flush(ctx, d, false)
		}
	}
}

// ---------------------------------------------------------------- L2: runLength and dedupe

func c09RunLengthChecks(ctx *core.Ctx, r *rand.Rand, d *drv.Driver, p *c09Pending, n int) {
	for i := 0; i < n; i++ {
		ln := []int{0, 1, 2, 3, 4, 5, 7, 8, 9, 15, 16, 17, 31, 32, 33, 191, 192}[r.Intn(17)]
		if r.Intn(3) == 0 {
			ln = r.Intn(200)
		}
		ks := c09SortedKeys(r, ln, 0, int64(1+r.Intn(12)))
		bound := int64(r.Intn(15)) - 1
		mx := -r.Intn(2)
		window := make([]parquet.Row, ln)
		for j, k := range ks {
			window[j] = c09ToRow(c09L2Cols, c09Row{K: [3]int64{k}})
		}
		got := -1
		func() {
			defer func() { recover() }() // a panic leaves -1, which no prefix length equals
			got = parquet.VerifRunLength(window, c09ToRow(c09L2Cols, c09Row{K: [3]int64{bound}}), c09L2Compare, mx)
		}()
		// L1 (runLength_spec): the length of the maximal prefix with compare <= max
		want := 0
		for want < ln && ((mx == 0 && ks[want] <= bound) || (mx == -1 && ks[want] < bound)) {
			want++
		}
		canon := fmt.Sprintf("runlength %s %d %d", core.JoinInts(ks), bound, mx)
		ctx.Case(canon, ln >= 2)
		ctx.Hist("runlength", c09Bucket(ln))
		if got != want {
			ctx.Fail("L1", "runlength-not-maximal-prefix", fmt.Sprintf("runLength returned %d, the maximal prefix has %d rows", got, want), map[string]any{"case": canon})
		}
		p.reqs = append(p.reqs, "merge."+canon)
		p.pend = append(p.pend, func(ans string) {
			if ans != "ok "+strconv.Itoa(got) {
				ctx.Fail("L2", "runlength-mirror", "runLength differs from the Lean mirror", map[string]any{"case": canon, "impl": got, "model": ans})
			}
		})
		p.flush(ctx, d, false)
	}
}

func c09DedupeChecks(ctx *core.Ctx, r *rand.Rand, d *drv.Driver, p *c09Pending, n int) {
	for i := 0; i < n; i++ {
		total := r.Intn(60)
		ks := c09SortedKeys(r, total, 0, int64(1+r.Intn(10)))
		// cut into batches
		var batches [][]int64
		var sizes []int
		for rest := ks; len(rest) > 0; {
			s := 1 + r.Intn(1+r.Intn(12))
			s = min(s, len(rest))
			batches = append(batches, rest[:s])
			sizes = append(sizes, s)
			rest = rest[s:]
		}
		rows := make([]parquet.Row, total)
		idx := 0
		for bi, b := range batches {
			for j, k := range b {
				rows[idx] = c09ToRow(c09L2Cols, c09Row{K: [3]int64{k}, Inp: int32(bi), Seq: int32(j)})
				idx++
			}
		}
		src := &c09ChunkReader{rows: rows, sizes: sizes}
		dd := parquet.DedupeRowReader(src, c09L2Compare)
		buf := make([]parquet.Row, 64)
		var out []c09Row
		var err error
		for calls := 0; calls < 4*total+8; calls++ {
			var m int
			m, err = dd.ReadRows(buf)
			for _, row := range buf[:m] {
				rr, _ := c09FromRow(c09L2Cols, row)
				out = append(out, rr)
			}
			if err != nil {
				break
			}
		}
		canon := "dedupe.run " + c09Lists(batches, func(k int64) string { return strconv.FormatInt(k, 10) })
		ctx.Case(canon, len(batches) >= 2)
		ctx.Hist("dedupe-batches", c09Bucket(len(batches)))
		if err != io.EOF {
			ctx.Fail("L1", "dedupe-reader-error", fmt.Sprint("DedupeRowReader: ", err), map[string]any{"case": canon})
			continue
		}
		// L1: exactly one row per key, the first of its group
		var want []string
		for j, k := range ks {
			if j == 0 || ks[j-1] != k {
				want = append(want, strconv.FormatInt(k, 10))
			}
		}
		var gotKeys, gotTags []string
		for _, o := range out {
			gotKeys = append(gotKeys, strconv.FormatInt(o.K[0], 10))
			gotTags = append(gotTags, fmt.Sprintf("%d:%d", o.Inp, o.Seq))
		}
		if strings.Join(want, ",") != strings.Join(gotKeys, ",") {
			ctx.Fail("L1", "dedupe-not-one-row-per-key", "DedupeRowReader over a sorted sequence does not leave exactly one row per key", map[string]any{"case": canon, "got": gotKeys, "want": want})
		}
		tags := "-"
		if len(gotTags) > 0 {
			tags = strings.Join(gotTags, ",")
		}
		p.reqs = append(p.reqs, canon)
		p.pend = append(p.pend, func(ans string) {
			if ans != "ok "+tags {
				ctx.Fail("L2", "dedupe-mirror", "rows kept by DedupeRowReader differ from the Lean mirror", map[string]any{"case": canon, "impl": tags, "model": ans})
			}
		})
		p.flush(ctx, d, false)
	}
}

// ---------------------------------------------------------------- replay of a recorded case

var c09CanonRe = regexp.MustCompile(`^((?:col\(opt=\w+,desc=\w+,nf=\w+(?:,wrap=\d)?(?:,kind=[\w-]+)?\) )+)mcols=(\d+) storage=(\w+) pagebuf=(\d+) batches=\[([\d ]*)\] dedupe=(\w+) path=(\w+) lists=(\w+) seeks=\[([\d ]*)\] (?:evolve=([01]+) )?(inner-dedupe )?(?:nest=(\S+) )?inputs=(.*)$`)

// c09ParseCanon rebuilds a case from its canonical text (the "case" field of a failure detail)
func c09ParseCanon(text string) (*c09Case, error) {
	m := c09CanonRe.FindStringSubmatch(strings.TrimSpace(text))
	if m == nil {
		return nil, errors.New("not a canonical C09 case")
	}
	c := &c09Case{Storage: m[3], Path: m[7], Pattern: "replay", Dedupe: m[6] == "true", Lists: m[8] == "true"}
	for _, cm := range regexp.MustCompile(`col\(opt=(\w+),desc=(\w+),nf=(\w+)(?:,wrap=(\d))?(?:,kind=([\w-]+))?\)`).FindAllStringSubmatch(m[1], -1) {
		wrap, _ := strconv.Atoi(cm[4])
		c.Cols = append(c.Cols, c09Col{Opt: cm[1] == "true", Desc: cm[2] == "true", NF: cm[3] == "true", Wrap: wrap, Kind: cm[5]})
	}
	c.MCols, _ = strconv.Atoi(m[2])
	c.PageBuf, _ = strconv.Atoi(m[4])
	for _, f := range strings.Fields(m[5]) {
		v, _ := strconv.Atoi(f)
		c.Batches = append(c.Batches, v)
	}
	for _, f := range strings.Fields(m[9]) {
		v, _ := strconv.Atoi(f)
		c.Seeks = append(c.Seeks, v)
	}
	for i, ch := range m[10] {
		if ch == '1' {
			c.Evolve |= 1 << i
		}
	}
	c.DedupeIn = m[11] != ""
	c.Nest = m[12]
	if c.Nest != "" {
		if _, err := c09ParseTree(c.Nest); err != nil {
			return nil, err
		}
	}
	for i, in := range strings.Split(m[13], "/") {
		var rows []c09Row
		if in != "-" {
			for j, rt := range strings.Split(in, ",") {
				row := c09Row{Inp: int32(i), Seq: int32(j)}
				for cidx, vt := range strings.Split(rt, ";") {
					if vt == "n" {
						row.Null[cidx] = true
					} else if vt == "N" {
						row.Null[cidx], row.GNull[cidx] = true, true
					} else {
						row.K[cidx], _ = strconv.ParseInt(vt, 10, 64)
					}
				}
				rows = append(rows, row)
			}
		}
		c.Inputs = append(c.Inputs, rows)
	}
	if len(c.Batches) == 0 {
		return nil, errors.New("no batch sizes")
	}
	return c, nil
}

// ---------------------------------------------------------------- entry point

func RunC09(ctx *core.Ctx) {
	ctx.SetRule("k in 0..9 sorted inputs (empty, disjoint, touching, nested, identical, staggered, random key ranges; duplicates within and across inputs; asc/desc; nullable keys nulls first/last; one to three key columns, merge by a prefix or by all; key columns of INT(64) or (one case in three; two in three of the comparator pairs) of another type each - plain INT64/INT32, INT(32), UINT(32/64), TIMESTAMP and TIME in ms/us/ns, DATE, DECIMAL on INT32/INT64/FLBA(9)/BYTE_ARRAY (minimal two's complement, lengths vary), FLOAT/DOUBLE (key 0 as -0.0 in every other row; no NaN), UUID, FLBA(16), FLBA(8), BYTE_ARRAY, STRING - with keys on both sides of zero, i.e. of the sign bit / the 0x7f-0x80 byte boundary of the encoding, ascending and descending; key columns as top-level leaves or as leaves of optional / required groups (a null key with its group absent or with the group present); schema evolution (the merge schema has one more optional column than some inputs, which the merge converts, in nests also the merged result of an inner merge); nests whose inner merges drop duplicated rows while the outermost keeps them (deduplicating views, also of a single row group, as inputs); optionally a repeated payload column (lists of 0-4 values) that sorts before the key columns by name; forward SeekToRow histories on the merged rows; large compound-key files whose first key column is shared by many rows across row-group and page boundaries) as sorted Buffers and as files (PageBufferSize 1..1MiB, with page index) x read batch sizes 1..300 x MergeRowGroups.Rows / MergeRowReaders / Writer.WriteRowGroup / CopyRows, with and without DropDuplicatedRows; trees of nested merges (the result of a merge as an input of another, depth <= 3, MergeRowGroups and MergeRowReaders); chunked-source MergeRowReaders runs, also with sources answering (0, nil), compared call by call with the Lean mirror; runLength and DedupeRowReader against mirror and spec; exhaustive small scope. Distinct by canonical case text, non-trivial = at least two non-empty inputs (merges) / at least two rows or batches (runLength, dedupe)")

	// F12 as a fixed corpus-like case so that it is reported deterministically
	fixed := []*c09Case{
		{Cols: []c09Col{{Opt: true}}, MCols: 1, Storage: "buffer", PageBuf: 4096, Batches: []int{10}, Path: "rows", Pattern: "fixed",
			Inputs: [][]c09Row{{{K: [3]int64{10}}, {Null: [3]bool{true}, Seq: 1}}, {{K: [3]int64{17}, Inp: 1}, {K: [3]int64{17}, Inp: 1, Seq: 1}, {K: [3]int64{18}, Inp: 1, Seq: 2}}}},
	}
	// F12 on a key nested in an optional group: the null keys of the first buffer have their group present
	// (definition level 1 of 2), or absent (0 of 2)
	for _, gnull := range []bool{false, true} {
		for _, nf := range []bool{false, true} {
			other := int64(17)
			if nf {
				other = 3
			}
			fixed = append(fixed, &c09Case{Cols: []c09Col{{Opt: true, NF: nf, Wrap: 1}}, MCols: 1, Storage: "buffer", PageBuf: 4096, Batches: []int{10}, Path: "rows", Pattern: "fixed-nested-key",
				Inputs: [][]c09Row{{{K: [3]int64{10}}, {Null: [3]bool{true}, GNull: [3]bool{gnull}, Seq: 1}}, {{K: [3]int64{other}, Inp: 1}, {K: [3]int64{other}, Inp: 1, Seq: 1}, {K: [3]int64{other + 1}, Inp: 1, Seq: 2}}}})
			if nf {
				in := fixed[len(fixed)-1].Inputs[0]
				in[0], in[1] = in[1], in[0]
				in[0].Seq, in[1].Seq = 0, 1
			}
		}
	}
	// the minimal input of the cut-lookup defect (mixed page with nulls), deterministic as well
	{
		mk := func(inp int32, lo, n, nulls int) []c09Row {
			var rows []c09Row
			for i := 0; i < n; i++ {
				rows = append(rows, c09Row{K: [3]int64{int64(lo + i)}, Inp: inp, Seq: int32(i)})
			}
			for i := 0; i < nulls; i++ {
				rows = append(rows, c09Row{Null: [3]bool{true}, Inp: inp, Seq: int32(n + i)})
			}
			return rows
		}
		for _, path := range []string{"rows", "write"} {
			fixed = append(fixed, &c09Case{Cols: []c09Col{{Opt: true}}, MCols: 0, Storage: "mixed", PageBuf: 256, Batches: []int{100}, Path: path,
				Pattern: "fixed-cuts", Inputs: [][]c09Row{mk(0, 3544, 2237, 44), mk(1, 43, 1736, 38)}})
		}
	}
	// the minimal nested merge: Merge(Merge(A[0..100], B[50..60]), C[70..80]); the inner merged row group
	// lists its pages chunk after chunk (A's, then B's)
	{
		mk := func(inp int32, keys ...int64) []c09Row {
			var rows []c09Row
			for i, k := range keys {
				rows = append(rows, c09Row{K: [3]int64{k}, Inp: inp, Seq: int32(i)})
			}
			return rows
		}
		for _, path := range []string{"rows", "write"} {
			fixed = append(fixed, &c09Case{Cols: []c09Col{{}}, MCols: 1, Storage: "buffer", PageBuf: 4096, Batches: []int{7}, Path: path, Pattern: "fixed-nested",
				Nest: "[[0,1],2]", Inputs: [][]c09Row{mk(0, 0, 10, 20, 30, 40, 50, 60, 70, 80, 90, 100), mk(1, 50, 55, 60), mk(2, 70, 75, 80)}})
			// the same behind a disjoint member: the inner result is a sequence of segments [X, merge(A, B)]
			for _, storage := range []string{"buffer", "file"} {
				fixed = append(fixed, &c09Case{Cols: []c09Col{{}}, MCols: 1, Storage: storage, PageBuf: 4096, Batches: []int{7}, Path: path, Pattern: "fixed-nested",
					Nest: "[[0,1,2],3]", Inputs: [][]c09Row{mk(0, -30, -20, -10), mk(1, 0, 10, 20, 30, 40, 50, 60, 70, 80, 90, 100), mk(2, 50, 55, 60), mk(3, 70, 75, 80)}})
			}
		}
	}
	// a merged result in an older schema, converted by the enclosing merge: Merge(Merge(evens, odds), D)
	{
		var ev, od []c09Row
		for i := 0; i < 50; i++ {
			ev = append(ev, c09Row{K: [3]int64{int64(2 * i)}, Inp: 0, Seq: int32(i)})
			od = append(od, c09Row{K: [3]int64{int64(2*i + 1)}, Inp: 1, Seq: int32(i)})
		}
		for _, path := range []string{"rows", "write"} {
			fixed = append(fixed, &c09Case{Cols: []c09Col{{}}, MCols: 1, Storage: "buffer", PageBuf: 4096, Batches: []int{10}, Path: path, Pattern: "fixed-converted",
				Nest: "[[0,1],2]", Evolve: 3, Inputs: [][]c09Row{ev, od, {{K: [3]int64{200}, Inp: 2}}}})
		}
	}
	// a deduplicating view of one file (every key twice) merged, keeping duplicates, with a file that
	// overlaps its middle: the refinement planner would slice the view by the row positions of its chunks
	{
		var a, b []c09Row
		for i := 0; i < 4000; i++ {
			a = append(a, c09Row{K: [3]int64{int64(i / 2)}, Inp: 0, Seq: int32(i)})
		}
		for i := 0; i < 100; i++ {
			b = append(b, c09Row{K: [3]int64{int64(1900 + i)}, Inp: 1, Seq: int32(i)})
		}
		for _, path := range []string{"rows", "write"} {
			fixed = append(fixed, &c09Case{Cols: []c09Col{{}}, MCols: 1, Storage: "file", PageBuf: 256, Batches: []int{100}, Path: path, Pattern: "fixed-inner-dedupe",
				Nest: "[[0],1]", DedupeIn: true, Inputs: [][]c09Row{a, b}})
		}
	}
	for _, c := range fixed {
		c09Check(ctx, c, nil)
	}

	// recorded cases first: corpus/C09/*.case hold the canonical text of one case each; -replay <file>
	// (a replay json written by ./check, or a .case file) runs that case alone
	replayOne := func(path string) bool {
		b, err := os.ReadFile(path)
		if err != nil {
			return false
		}
		text := string(b)
		var rec struct {
			Detail struct {
				Case string `json:"case"`
			} `json:"detail"`
		}
		if json.Unmarshal(b, &rec) == nil && rec.Detail.Case != "" {
			text = rec.Detail.Case
		}
		c, err := c09ParseCanon(text)
		if err != nil {
			return false
		}
		c09Check(ctx, c, nil)
		return true
	}
	if ctx.Replay != "" && replayOne(ctx.Replay) {
		return
	}
	for _, f := range ctx.CorpusFiles() {
		replayOne(f)
	}

	workers := 14
	var wg sync.WaitGroup
	// thorough is sized to stay well under 10 minutes on a loaded machine (round 3: 854 s under load)
	nL1 := ctx.Scale(4000, 36000)
	nRefine := ctx.Scale(40, 300)
	nCompound := ctx.Scale(70, 500)
	nNested := ctx.Scale(1500, 15000)
	nNestedBig := ctx.Scale(16, 150)
	nL2 := ctx.Scale(6000, 55000)
	nL2C := ctx.Scale(2500, 25000)
	for w := 0; w < workers; w++ {
		wg.Add(1)
		go func(w int) {
			defer wg.Done()
			d := ctx.Driver()
			p := &c09Pending{}
			r := ctx.Rand(fmt.Sprintf("c09-l1-%d", w))
			for i := w; i < nL1; i += workers {
				c := c09GenCase(r)
				if i < 3 {
					ctx.Sample(map[string]any{"case": c.canon()[:min(len(c.canon()), 600)]})
				}
				c09Check(ctx, c, p)
				p.flush(ctx, d, false)
			}
			for i := w; i < nRefine; i += workers {
				c09Check(ctx, c09GenRefineCase(r), p)
			}
			for i := w; i < nCompound; i += workers {
				c09Check(ctx, c09GenCompoundRefineCase(r), p)
			}
			rn := ctx.Rand(fmt.Sprintf("c09-nested-%d", w))
			for i := w; i < nNested; i += workers {
				c09Check(ctx, c09GenNestedCase(rn, false), p)
				p.flush(ctx, d, false)
			}
			for i := w; i < nNestedBig; i += workers {
				c09Check(ctx, c09GenNestedCase(rn, true), p)
			}
			p.flush(ctx, d, true)
			r2 := ctx.Rand(fmt.Sprintf("c09-l2-%d", w))
			for i := w; i < nL2; i += workers {
				c := c09GenL2(r2)
				if i < 2 {
					ctx.Sample(map[string]any{"l2": c.text()[:min(len(c.text()), 600)]})
				}
				c09L2Check(ctx, c, p)
				p.flush(ctx, d, false)
			}
			p.flush(ctx, d, true)
			r3 := ctx.Rand(fmt.Sprintf("c09-l2c-%d", w))
			for i := w; i < nL2C; i += workers {
				c09L2CCheck(ctx, c09GenL2C(r3), p)
				p.flush(ctx, d, false)
			}
			p.flush(ctx, d, true)
			if w == 2 {
				c09ZeroChecks(ctx, ctx.Rand("c09-zero"), d, p, ctx.Scale(3000, 20000))
				p.flush(ctx, d, true)
			}
			if w == 1 {
				c09CmpChecks(ctx, ctx.Rand("c09-cmp"), d, p, ctx.Scale(20000, 150000))
				p.flush(ctx, d, true)
			}
			if w == 0 {
				c09RunLengthChecks(ctx, ctx.Rand("c09-runlength"), d, p, ctx.Scale(20000, 150000))
				p.flush(ctx, d, true)
				c09DedupeChecks(ctx, ctx.Rand("c09-dedupe"), d, p, ctx.Scale(5000, 50000))
				p.flush(ctx, d, true)
			}
		}(w)
	}
	wg.Wait()
	c09Exhaustive(ctx, workers)
}

// all 3-input merges over keys {0,1,2} with lengths <= L and batch sizes 1..5 (L = 2 quick, 4 thorough):
// chunked MergeRowReaders against mirror (L2) and oracle (L1), MergeRowGroups(buffers).Rows against the oracle
func c09Exhaustive(ctx *core.Ctx, workers int) {
	maxLen := ctx.Scale(2, 4)
	var lists [][]int64
	var rec func(prefix []int64, lo int64)
	rec = func(prefix []int64, lo int64) {
		lists = append(lists, append([]int64(nil), prefix...))
		if len(prefix) == maxLen {
			return
		}
		for v := lo; v <= 2; v++ {
			rec(append(prefix, v), v)
		}
	}
	rec(nil, 0)
	type job struct{ a, b int }
	jobs := make(chan job, 64)
	var wg sync.WaitGroup
	for w := 0; w < workers; w++ {
		wg.Add(1)
		go func() {
			defer wg.Done()
			d := ctx.Driver()
			p := &c09Pending{}
			for j := range jobs {
				for _, l3 := range lists {
					keys := [][]int64{lists[j.a], lists[j.b], l3}
					for b := 1; b <= 5; b++ {
						c09L2Check(ctx, &c09L2Case{keys: keys, batches: []int{b}}, p)
						if maxLen > 2 && (b == 3 || b == 4) {
							continue // thorough: the row-group form runs with batch sizes 1, 2 and 5 (dedupe)
						}
						oc := &c09Case{Cols: c09L2Cols, MCols: 1, Storage: "buffer", PageBuf: 4096, Batches: []int{b}, Path: "rows", Pattern: "exhaustive", Dedupe: b == 5}
						for i, ks := range keys {
							in := make([]c09Row, len(ks))
							for s, k := range ks {
								in[s] = c09Row{K: [3]int64{k}, Inp: int32(i), Seq: int32(s)}
							}
							oc.Inputs = append(oc.Inputs, in)
						}
						c09Check(ctx, oc, p)
					}
					p.flush(ctx, d, false)
				}
			}
			p.flush(ctx, d, true)
		}()
	}
	for a := range lists {
		for b := range lists {
			jobs <- job{a, b}
		}
	}
	close(jobs)
	wg.Wait()
}
