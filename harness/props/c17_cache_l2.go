package props

import (
	"crypto/sha256"
	"encoding/hex"
	"fmt"
	"reflect"
	"strings"
	"sync"

	"github.com/parquet-go/parquet-go"

	"verifharness/core"
)

// C17 sub-check cache, L2 part: the worker processes of the cache sub-check record what the
// process-wide schema cache (cachedSchemas, schema.go:196) does during their history, and the
// parent compares the sequence with the trace of the Lean mirror of schemaOf
// (PqModel/SchemaCache.lean `schemaOf ... false`, driver op `schemacache.trace 0`) for the same
// history from an empty cache.
//
// A step is one activity of the worker on a Go type T with its list of StructTag replacements.
// Observed per step:
//   - the *Schema a direct parquet.SchemaOf call of the activity handed out, by IDENTITY: the number
//     of the step in which this pointer was first seen (returned or found in the cache). The mirror
//     instantiates the derivation of step n as the object (n, replacements), so its result says which
//     object the call must return: its own (miss) or the one an earlier step made (hit);
//   - after the step, for each of the 9 tracked types (8 row types + the nested struct c17cInner,
//     which no call names directly: it must never get an entry) what VerifCachedSchema finds:
//     nothing, or a pointer (again by step of first sight) = what was stored;
//   - sha256 of String() of the result and of every entry: where the mirror says "derived without
//     replacements", it must be the default derivation of the type (computed by the parent).
//
// Activities whose derivations happen inside the library (NewGenericWriter[T], NewGenericReader[T],
// NewGenericBuffer[T], reflect Writer) are modelled as ONE schemaOf(T, replacements) call: repeated
// calls with the same arguments leave the mirror's cache where the first one left it, so the entries
// after the step are comparable; their result is not observed. A hidden default derivation
// (schemaOf(T) during an activity configured with replacements) shows as an entry the mirror lacks.
// One activity is two calls (c17cCallsOf): generic-buffer with replacements derives
// s = SchemaOf(new(T), replacements) itself and hands s to NewGenericBuffer[T](s) and
// NewGenericWriter[T](buf, s, ...); the writer's configuration then carries a schema but no
// StructTag option, and NewGenericWriter (writer.go:115-117) derives schemaOf(T) without
// replacements whether or not a schema was given: the step is [(T, replacements), (T, none)], the
// result observed is the first call's, the entries are those after the second.
//
// Mode `calls` of the worker is a history of 120 (thorough 400) direct SchemaOf calls in a fresh
// process over the 9 types (pointer and value models, none or 1..3 replacements, calls whose
// replacement makes the derivation panic): every result is observed.

const c17CacheL2Rule = " cache L2 (schema-cache trace): per batch the three worker processes (earlier activities + write under test; the write alone; 120/400 direct SchemaOf calls over the 8 private row types and a nested struct type, pointer or value model, no replacement | 1..3 replacements, some making the derivation panic) record after every step which *Schema was returned (by pointer identity: the step that first saw it), what cachedSchemas holds for each of the 9 types (VerifCachedSchema) and the sha256 of the String() of both, vs the Lean mirror schemaOf (schemacache.trace 0) run over the same history from an empty cache: hit/miss, returned object, stored object, and 'derived without replacements' = the type's default derivation; non-trivial = the trace has a hit, a storing miss and a call with replacements."

type c17cStep struct {
	Op     string `json:"op"`
	Ty     int    `json:"ty"`
	Tags   []int  `json:"tags"`   // ids of the (tag, path) replacements, in first-use order of the process
	Failed bool   `json:"failed"` // the activity returned an error or panicked
	// the activity reached its NewGenericWriter[T](schema, no StructTag) call: a second schemaOf(T) call
	AlsoDefault bool     `json:"also_default_derivation"`
	Res         int      `json:"res"`          // step that first saw the returned *Schema; -1: no direct SchemaOf result
	ResStr      string   `json:"res_str"`      // sha256[:8] of its String()
	IsEntry     bool     `json:"res_is_entry"` // the returned pointer is what the cache holds for the type after the step
	Dump        []int    `json:"entries"`      // per tracked type: step that first saw the cached *Schema, -1: no entry
	DumpStr     []string `json:"entries_str"`  // sha256[:8] of String() of each entry, "" without entry
	TagText     []string `json:"struct_tags"`  // for the failure detail only
}

type c17cProbe interface {
	cached() *parquet.Schema
	schemaOf(ptr bool, tags []c17cTag) *parquet.Schema
}

func (t c17cT[T]) cached() *parquet.Schema { return parquet.VerifCachedSchema(new(T)) }

func (t c17cT[T]) schemaOf(ptr bool, tags []c17cTag) *parquet.Schema {
	var sopts []parquet.SchemaOption
	for _, tg := range tags {
		sopts = append(sopts, parquet.StructTag(reflect.StructTag(tg.Tag), tg.Path...))
	}
	if ptr {
		return parquet.SchemaOf(new(T), sopts...)
	}
	var zero T
	return parquet.SchemaOf(zero, sopts...)
}

var c17cInnerT = c17cT[c17cInner]{"c17cInner", []c17cLeaf{c17cL("int", "x", "X"), c17cL("str", "y", "Y")}}

// the tracked cache keys: the row types in the order of c17cTypes, then the nested struct type
func c17cKeys() []c17cType {
	return append(append([]c17cType{}, c17cTypes...), c17cInnerT)
}

func c17cStrSum(s *parquet.Schema) (sum string) {
	defer func() {
		if r := recover(); r != nil {
			sum = "PANIC"
		}
	}()
	h := sha256.Sum256([]byte(s.String()))
	return hex.EncodeToString(h[:8])
}

type c17cTracer struct {
	keys   []c17cType
	steps  []c17cStep
	n      int // steps of the process so far
	origin map[*parquet.Schema]int
	tagID  map[string]int
}

func newC17cTracer() *c17cTracer {
	return &c17cTracer{keys: c17cKeys(), origin: map[*parquet.Schema]int{}, tagID: map[string]int{}}
}

func (tr *c17cTracer) idOf(s *parquet.Schema) int {
	if o, ok := tr.origin[s]; ok {
		return o
	}
	tr.origin[s] = tr.n
	return tr.n
}

func (tr *c17cTracer) step(op string, ty int, tags []c17cTag, res *parquet.Schema, failed, alsoDefault bool) {
	st := c17cStep{Op: op, Ty: ty, Tags: []int{}, Failed: failed, AlsoDefault: alsoDefault, Res: -1}
	for _, tg := range tags {
		k := tg.Tag + " @" + strings.Join(tg.Path, ".")
		if _, ok := tr.tagID[k]; !ok {
			tr.tagID[k] = len(tr.tagID) + 1
		}
		st.Tags = append(st.Tags, tr.tagID[k])
		st.TagText = append(st.TagText, k)
	}
	if res != nil {
		st.Res, st.ResStr = tr.idOf(res), c17cStrSum(res)
	}
	for ki, k := range tr.keys {
		p := k.(c17cProbe).cached()
		if p == nil {
			st.Dump, st.DumpStr = append(st.Dump, -1), append(st.DumpStr, "")
			continue
		}
		st.Dump, st.DumpStr = append(st.Dump, tr.idOf(p)), append(st.DumpStr, c17cStrSum(p))
		if ki == ty && p == res {
			st.IsEntry = true
		}
	}
	tr.steps = append(tr.steps, st)
	tr.n++
}

// defaultSchema: SchemaOf(new(T)) as the last activity of a case, a step like the others
func (tr *c17cTracer) defaultSchema(t c17cType, ti int) (str string) {
	var s *parquet.Schema
	func() {
		defer func() {
			if r := recover(); r != nil {
				str = fmt.Sprint("PANIC: ", r)
			}
		}()
		s = t.(c17cProbe).schemaOf(true, nil)
		str = s.String()
	}()
	tr.step("default-schema", ti, nil, s, s == nil, false)
	return str
}

// c17cCallsHistory: direct SchemaOf calls only, in a fresh process
func c17cCallsHistory(ctx *core.Ctx, batch int, tr *c17cTracer) []c17cStep {
	r := ctx.Rand(fmt.Sprintf("c17cachecalls/%d", batch))
	n := ctx.Scale(120, 400)
	// a batch works on a few of the types so that hits, first derivations and untouched keys all occur
	live := r.Perm(len(tr.keys))[:2+r.Intn(len(tr.keys)-1)]
	pTagged := []float64{0.2, 0.5, 0.8}[r.Intn(3)]
	for i := 0; i < n; i++ {
		ti := live[r.Intn(len(live))]
		t := tr.keys[ti]
		var tags []c17cTag
		if r.Float64() < pTagged {
			tags = c17cRandTags(r, t)
			if r.Intn(8) == 0 { // an option the field's type does not take: the derivation panics
				l := t.leaves()[0]
				tags = append(tags, c17cTag{Tag: `parquet:"` + l.name + `,uuid"`, Path: l.path})
			}
		}
		ptr := r.Intn(2) == 0
		var s *parquet.Schema
		func() {
			defer func() { recover() }()
			s = t.(c17cProbe).schemaOf(ptr, tags)
		}()
		op := "schema-of-value"
		if ptr {
			op = "schema-of-pointer"
		}
		if len(tags) > 0 {
			op += "+struct-tag"
		}
		tr.step(op, ti, tags, s, s == nil, false)
	}
	steps := tr.steps
	tr.steps = nil
	return steps
}

// ---------------------------------------------------------------- parent

// c17cCallsOf: the schemaOf calls a step stands for (replacement ids of each), see the file comment
func c17cCallsOf(st c17cStep) [][]int {
	if st.AlsoDefault {
		return [][]int{st.Tags, nil}
	}
	return [][]int{st.Tags}
}

type c17cTraceRec struct {
	batch int
	mode  string
	steps []c17cStep
}

var c17cTraces struct {
	sync.Mutex
	recs []c17cTraceRec
}

func c17cCollectTrace(ctx *core.Ctx, batch int, mode string, res []c17cResult, werr string) {
	if werr != "" {
		if mode == "calls" {
			ctx.Fail("L2", "harness-worker-died-outside-a-case", "c17cache calls worker (direct SchemaOf history) failed: "+werr, map[string]any{"batch": batch})
		}
		return
	}
	var steps []c17cStep
	for _, r := range res {
		steps = append(steps, r.Trace...)
	}
	c17cTraces.Lock()
	c17cTraces.recs = append(c17cTraces.recs, c17cTraceRec{batch, mode, steps})
	c17cTraces.Unlock()
}

func c17cCompareTraces(ctx *core.Ctx) {
	c17cTraces.Lock()
	recs := c17cTraces.recs
	c17cTraces.recs = nil
	c17cTraces.Unlock()
	if len(recs) == 0 {
		return
	}
	d := ctx.Driver()
	if d == nil {
		return
	}
	keys := c17cKeys()
	// the default derivation of every tracked type, derived here (the parent's own cache is no
	// part of any worker's history)
	def := make([]string, len(keys))
	for i, k := range keys {
		def[i] = c17cStrSum(k.(c17cProbe).schemaOf(true, nil))
	}
	reqs := make([]string, len(recs))
	for i, rec := range recs {
		var sb strings.Builder
		fmt.Fprintf(&sb, "schemacache.trace 0 %d", len(keys))
		for _, st := range rec.steps {
			for _, tags := range c17cCallsOf(st) {
				tg := "-"
				if len(tags) > 0 {
					tg = strings.Trim(strings.ReplaceAll(fmt.Sprint(tags), " ", ","), "[]")
				}
				fmt.Fprintf(&sb, " %d:%s", st.Ty, tg)
			}
		}
		reqs[i] = sb.String()
	}
	ans, err := d.AskMany(reqs)
	if err != nil {
		ctx.Fail("L2", "driver-unavailable", "pqdriver failed on schemacache.trace: "+err.Error(), nil)
		return
	}
	for i, rec := range recs {
		c17cCompareTrace(ctx, rec, keys, def, reqs[i], ans[i])
	}
}

func c17cCompareTrace(ctx *core.Ctx, rec c17cTraceRec, keys []c17cType, def []string, req, ans string) {
	replay := fmt.Sprintf("pqcheck -worker c17cache %d %s %d %s %s <out>  (schema_cache_trace of the result) vs pqdriver: %s", rec.batch, rec.mode, ctx.Seed, ctx.Tier, ctx.Variant, req)
	raw := strings.Fields(ans)
	ncalls := 0
	for _, st := range rec.steps {
		ncalls += len(c17cCallsOf(st))
	}
	if len(raw) == 0 || raw[0] != "ok" || len(raw)-1 != ncalls {
		ctx.Fail("L2", "schema-cache-mirror-answer-malformed", "schemacache.trace did not answer one observation per call", map[string]any{"request": req, "answer": ans})
		return
	}
	// the mirror numbers objects by call, the worker by step: obs[n+1] = <h|m><result of the step's
	// first call>/<entries after its last call>, objects renumbered to steps; sameObj[n] = the first
	// call's result is the object the mirror holds for the type after the last call
	stepOfCall := map[string]string{"-": "-"}
	obs := []string{"ok"}
	sameObj := make([]bool, len(rec.steps))
	for n, c := 0, 0; n < len(rec.steps); n++ {
		k := len(c17cCallsOf(rec.steps[n]))
		for j := c; j < c+k; j++ {
			stepOfCall[fmt.Sprint(j)], stepOfCall[fmt.Sprint(j)+"t"] = fmt.Sprint(n), fmt.Sprint(n)+"t"
		}
		first, last := raw[1+c], raw[c+k]
		fs, ls := strings.IndexByte(first, '/'), strings.IndexByte(last, '/')
		if fs < 2 || ls < 2 {
			ctx.Fail("L2", "schema-cache-mirror-answer-malformed", "observation without result/entries", map[string]any{"request": req, "answer": ans})
			return
		}
		ents := strings.Split(last[ls+1:], ",")
		if len(ents) != len(keys) {
			ctx.Fail("L2", "schema-cache-mirror-answer-malformed", "observation without one entry per tracked type", map[string]any{"request": req, "answer": ans})
			return
		}
		sameObj[n] = first[1:fs] == ents[rec.steps[n].Ty]
		for e := range ents {
			ents[e] = stepOfCall[ents[e]]
		}
		obs = append(obs, first[:1]+stepOfCall[first[1:fs]]+"/"+strings.Join(ents, ","))
		c += k
	}
	hits, stores, tagged := 0, 0, 0
	fail := func(n int, what, text string) {
		st := rec.steps[n]
		call := "call-without-replacement"
		if len(st.Tags) > 0 {
			call = "call-with-struct-tag-replacement"
		}
		ctx.Fail("L2", "schema-cache-mirror-differs "+what+" "+call, text, map[string]any{
			"batch": rec.batch, "worker_mode": rec.mode, "variant": ctx.Variant, "step": n, "step_activity": st.Op, "type": keys[st.Ty].name(),
			"struct_tags": st.TagText, "real": st, "mirror": obs[n+1], "history": rec.steps[:n+1], "replay": replay})
	}
	for n, st := range rec.steps {
		o := obs[n+1]
		slash := strings.IndexByte(o, '/')
		if slash < 2 {
			ctx.Fail("L2", "schema-cache-mirror-answer-malformed", "observation without result/entries", map[string]any{"request": req, "answer": ans})
			return
		}
		mres, ments := o[1:slash], strings.Split(o[slash+1:], ",")
		if len(ments) != len(keys) || len(st.Dump) != len(keys) {
			ctx.Fail("L2", "schema-cache-mirror-answer-malformed", "observation without one entry per tracked type", map[string]any{"request": req, "answer": ans})
			return
		}
		kind := "miss"
		if o[0] == 'h' {
			kind = "hit"
			hits++
		}
		if len(st.Tags) > 0 {
			tagged++
		}
		observed := "result-observed"
		if st.Res < 0 {
			observed = "result-not-observed"
		}
		ctx.Hist("cache-l2-step", rec.mode+" "+st.Op+" mirror:"+kind+" "+observed)
		bad := false
		for k := range keys {
			real := "-"
			if st.Dump[k] >= 0 {
				real = fmt.Sprint(st.Dump[k])
			}
			mirror := strings.TrimSuffix(ments[k], "t")
			own := "entry-of-the-called-type"
			if k != st.Ty {
				own = "entry-of-another-type"
			}
			switch {
			case mirror == "-" && real != "-":
				fail(n, "entry-in-the-real-cache-only "+own, fmt.Sprintf("after the step cachedSchemas holds a schema for %s, the mirror's cache has no entry", keys[k].name()))
				bad = true
			case mirror != "-" && real == "-":
				fail(n, "entry-in-the-mirror-only "+own, fmt.Sprintf("after the step the mirror's cache holds a schema for %s, cachedSchemas has none", keys[k].name()))
				bad = true
			case mirror != real:
				fail(n, "entry-identity "+own, fmt.Sprintf("the *Schema cached for %s was first seen in step %s, the mirror holds the object made by step %s", keys[k].name(), real, mirror))
				bad = true
			case mirror != "-" && ments[k] == mirror && st.DumpStr[k] != def[k]:
				fail(n, "entry-is-not-the-default-derivation "+own, fmt.Sprintf("the mirror's entry for %s was derived without replacements; String() of the cached *Schema is not the type's default derivation", keys[k].name()))
				bad = true
			}
			if !bad && mirror == fmt.Sprint(n) {
				stores++
			}
		}
		if st.Res >= 0 && !bad {
			switch {
			case strings.TrimSuffix(mres, "t") != fmt.Sprint(st.Res):
				fail(n, "result-identity mirror-"+kind, fmt.Sprintf("SchemaOf returned the *Schema first seen in step %d, the mirror returns the object made by step %s", st.Res, mres))
				bad = true
			case st.IsEntry != sameObj[n]:
				fail(n, "result-vs-entry mirror-"+kind, "whether the returned *Schema is the one the cache holds for the type after the call differs from the mirror")
				bad = true
			case !strings.HasSuffix(mres, "t") && st.ResStr != def[st.Ty]:
				fail(n, "result-is-not-the-default-derivation mirror-"+kind, "a call without replacements returned a schema whose String() is not the type's default derivation")
				bad = true
			}
		}
		if bad {
			break // later steps of the same process repeat the difference
		}
	}
	ctx.Case("cachetrace|"+rec.mode+"|"+req, hits > 0 && stores > 0 && tagged > 0)
	ctx.Hist("cache-l2-trace-steps", rec.mode+" "+bucket(len(rec.steps)))
	ctx.HistN("cache-l2-steps-compared", rec.mode, int64(len(rec.steps)))
}
