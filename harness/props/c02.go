package props

import (
	"bytes"
	"fmt"
	"math/rand"
	"os"
	"path/filepath"
	"reflect"
	"regexp"
	"strings"
	"sync"

	"github.com/parquet-go/parquet-go"

	"verifharness/core"
	"verifharness/gen"
)

func init() { RegisterSub("C02", "wellformed", RunC02) }

var c02Digits = regexp.MustCompile(`[0-9]+`)

// c02Class turns a problem line of the Lean reader into a stable failure key
// ("rg0/col3: offset index offsets [..] are not the page starts [..]" -> "offset index offsets are not the page starts")
func c02Class(p string) string {
	if i := strings.Index(p, ": "); i >= 0 && strings.HasPrefix(p, "rg") {
		p = p[i+2:]
	}
	p = regexp.MustCompile(`\[[^\]]*\]`).ReplaceAllString(p, "")
	p = c02Digits.ReplaceAllString(p, "#")
	p = strings.Join(strings.Fields(p), " ")
	if len(p) > 90 {
		p = p[:90]
	}
	return p
}

// what the library's own reader sees, for the L2 comparison with the spec reader's summary
func c02GoSummary(file []byte) (string, error) {
	f, err := parquet.OpenFile(bytes.NewReader(file), int64(len(file)))
	if err != nil {
		return "", err
	}
	md := f.Metadata()
	chunks, oi, ci := 0, 0, 0
	for _, rg := range md.RowGroups {
		for _, c := range rg.Columns {
			chunks++
			if c.OffsetIndexOffset != 0 {
				oi++
			}
			if c.ColumnIndexOffset != 0 {
				ci++
			}
		}
	}
	return fmt.Sprintf("rg=%d chunks=%d oi=%d ci=%d", len(md.RowGroups), chunks, oi, ci), nil
}

func RunC02(ctx *core.Ctx) {
	ctx.SetRule("files written from catalogue struct types under random configurations (page version, codec, page/row-group/dictionary limits, statistics, bloom filters), by GenericWriter, by a writer reused through Reset, and through WriteRowGroup from a file or a buffer; each file is parsed by the Lean spec reader (thrift compact, footer, page headers at the announced offsets, offset/column index) which re-derives the layout numbers with the proved accounting model; non-trivial = more than one page in some chunk or more than one row group")
	tmp := filepath.Join(".build", "tmp", fmt.Sprintf("c02-%s-%d", ctx.Variant, os.Getpid()))
	os.MkdirAll(tmp, 0o755)
	defer os.RemoveAll(tmp)
	ncases := ctx.Scale(6, 80)
	var wg sync.WaitGroup
	sem := make(chan struct{}, 16)
	for _, e := range gen.Catalog {
		wg.Add(1)
		sem <- struct{}{}
		go func(e *gen.Entry) {
			defer wg.Done()
			defer func() { <-sem }()
			d := ctx.Driver()
			if d == nil {
				return
			}
			r := ctx.Rand("c02/" + e.Name)
			for k := 0; k < ncases; k++ {
				n := []int{0, 1, 3, 40, 64, 65, 130, 300}[r.Intn(8)]
				prof := &gen.Profile{NullProb: []float64{0.1, 0.5, 0.95}[r.Intn(3)], MaxLen: 1 + r.Intn(4), SmallDomain: r.Intn(2) == 0}
				if r.Intn(3) == 0 {
					prof.RunLen = 70
				}
				rows := e.NewRows(n)
				gen.FillRows(r, rows, prof)
				cfg := gen.RandWriterCfg(r)
				// bloom filters on every leaf column, sometimes
				opts := cfg.Opts
				desc := cfg.Desc
				if r.Intn(3) == 0 {
					var fs []parquet.BloomFilterColumn
					for _, p := range e.Schema.Columns() {
						fs = append(fs, parquet.SplitBlockFilter(10, p...))
					}
					opts = append(append([]parquet.WriterOption{}, opts...), parquet.BloomFilters(fs...))
					desc += " bloom"
				}
				mode := []string{"direct", "direct", "reset-reuse", "copy-from-file", "copy-from-buffer"}[r.Intn(5)]
				file, err := c02Write(e, rows, mode, opts, c01Batches(r, n), r)
				detail := map[string]any{"type": e.Name, "config": desc, "mode": mode, "rows": n, "seed_stream": "c02/" + e.Name, "case_index": k}
				if err != nil {
					ctx.Fail("L1", "write-error mode="+mode+" "+errClass(err), "writing valid rows failed: "+err.Error(), detail)
					continue
				}
				path := filepath.Join(tmp, fmt.Sprintf("%s-%d.parquet", e.Name, k))
				if err := os.WriteFile(path, file, 0o644); err != nil {
					ctx.Fail("L2", "tmp-write", err.Error(), nil)
					continue
				}
				abs, _ := filepath.Abs(path)
				ans, err := d.Ask(fmt.Sprintf("file.check %s %d", abs, cfg.MaxRows))
				os.Remove(path)
				if err != nil {
					ctx.Fail("L2", "driver-error", err.Error(), nil)
					return
				}
				ctx.Hist("mode", mode)
				switch {
				case strings.HasPrefix(ans, "ok "):
					sum := ans[3:]
					multi := !strings.Contains(sum, "rg=1 ") && !strings.Contains(sum, "rg=0 ")
					var chunks, data int
					fmt.Sscanf(sum[strings.Index(sum, "chunks="):], "chunks=%d data=%d", &chunks, &data)
					ctx.Case(e.Name+desc+mode+fmt.Sprint(k, n), multi || data > chunks)
					if k == 0 {
						ctx.Sample(map[string]any{"type": e.Name, "config": desc, "mode": mode, "rows": n, "spec_reader": sum})
					}
					gs, gerr := c02GoSummary(file)
					if gerr != nil {
						ctx.Fail("L1", "open-error "+errClass(gerr), "the library cannot open its own file: "+gerr.Error(), detail)
					} else {
						// compare the fields both summaries carry
						var rg, ch, a, b, c2, v2, oi, ci int
						fmt.Sscanf(sum, "rg=%d chunks=%d data=%d dict=%d crc=%d v2=%d oi=%d ci=%d", &rg, &ch, &a, &b, &c2, &v2, &oi, &ci)
						if want := fmt.Sprintf("rg=%d chunks=%d oi=%d ci=%d", rg, ch, oi, ci); want != gs {
							detail["spec_reader"], detail["library_reader"] = want, gs
							ctx.Fail("L2", "spec-reader-vs-library-metadata", "the Lean spec reader and the library's reader see different file structure", detail)
						}
					}
				case strings.HasPrefix(ans, "bad "):
					ctx.Case(e.Name+desc+mode+fmt.Sprint(k, n), true)
					parts := strings.SplitN(ans, " | ", 2)
					for _, p := range strings.Split(parts[1], " ; ") {
						detail["problem"] = p
						detail["all_problems"] = parts[1]
						ctx.Fail("L1", "malformed mode="+mode+": "+c02Class(p), "file metadata does not describe the bytes present: "+p, detail)
					}
				default:
					ctx.Case(e.Name+desc+mode+fmt.Sprint(k, n), true)
					detail["answer"] = ans
					ctx.Fail("L1", "unparsable mode="+mode+": "+c02Class(ans), "the spec reader cannot parse the file: "+ans, detail)
				}
			}
		}(e)
	}
	wg.Wait()
}

func c02Write(e *gen.Entry, rows reflect.Value, mode string, opts []parquet.WriterOption, batches []int, r *rand.Rand) (file []byte, err error) {
	defer func() {
		if x := recover(); x != nil {
			err = fmt.Errorf("PANIC: %v", x)
		}
	}()
	var buf bytes.Buffer
	switch mode {
	case "direct":
		err = e.WriteGeneric(&buf, rows.Interface(), batches, opts...)
	case "reset-reuse":
		// first file: other rows, completed; then Reset and write the real rows
		var first bytes.Buffer
		w := parquet.NewWriter(&first, append([]parquet.WriterOption{e.Schema}, opts...)...)
		other := e.NewRows(1 + r.Intn(5))
		gen.FillRows(r, other, &gen.Profile{NullProb: 0.3, MaxLen: 2})
		for i := 0; i < other.Len(); i++ {
			if err = w.Write(other.Index(i).Addr().Interface()); err != nil {
				return nil, err
			}
		}
		if err = w.Close(); err != nil {
			return nil, err
		}
		w.Reset(&buf)
		for i := 0; i < rows.Len(); i++ {
			if err = w.Write(rows.Index(i).Addr().Interface()); err != nil {
				return nil, err
			}
		}
		err = w.Close()
	case "copy-from-file":
		var src bytes.Buffer
		if err = e.WriteGeneric(&src, rows.Interface(), batches, opts...); err != nil {
			return nil, err
		}
		f, err2 := parquet.OpenFile(bytes.NewReader(src.Bytes()), int64(src.Len()))
		if err2 != nil {
			return nil, err2
		}
		w := parquet.NewWriter(&buf, append([]parquet.WriterOption{e.Schema}, opts...)...)
		for _, rg := range f.RowGroups() {
			if _, err = w.WriteRowGroup(rg); err != nil {
				return nil, err
			}
		}
		err = w.Close()
	case "copy-from-buffer":
		err = e.WriteGenericBuffer(&buf, rows.Interface(), batches, opts...)
	}
	return buf.Bytes(), err
}
