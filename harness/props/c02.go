package props

import (
	"bytes"
	"encoding/hex"
	"fmt"
	"math/rand"
	"os"
	"path/filepath"
	"reflect"
	"regexp"
	"sort"
	"strings"
	"sync"

	"github.com/parquet-go/parquet-go"

	"verifharness/core"
	"verifharness/drv"
	"verifharness/gen"
)

func init() { RegisterSub("C02", "wellformed", RunC02) }

var c02Digits = regexp.MustCompile(`[0-9]+`)

// c02Class turns a problem line of the Lean reader into a stable failure key
// ("rg0/col3: offset index offsets [..] are not the page starts [..]" -> "offset index offsets are not the page starts")
func c02Class(p string) string {
	if i := strings.Index(p, ": "); i >= 0 && strings.HasPrefix(p, "rg") {
		p = p[i+2:]
	}
	p = regexp.MustCompile(`\[[^\]]*\]`).ReplaceAllString(p, "")
	p = c02Digits.ReplaceAllString(p, "#")
	p = strings.Join(strings.Fields(p), " ")
	if len(p) > 90 {
		p = p[:90]
	}
	return p
}

// what the library's own reader sees, for the L2 comparison with the spec reader's summary
func c02GoSummary(file []byte) (string, error) {
	f, err := parquet.OpenFile(bytes.NewReader(file), int64(len(file)))
	if err != nil {
		return "", err
	}
	md := f.Metadata()
	chunks, oi, ci := 0, 0, 0
	for _, rg := range md.RowGroups {
		for _, c := range rg.Columns {
			chunks++
			if c.OffsetIndexOffset != 0 {
				oi++
			}
			if c.ColumnIndexOffset != 0 {
				ci++
			}
		}
	}
	return fmt.Sprintf("rg=%d chunks=%d oi=%d ci=%d", len(md.RowGroups), chunks, oi, ci), nil
}

func RunC02(ctx *core.Ctx) {
	ctx.SetRule("files written from catalogue struct types under random configurations (page version, codec (50 % of the cases force none, snappy, gzip or lz4raw file-wide; fields keep their own codec/encoding tags), page/row-group/dictionary limits, statistics, bloom filters (half of the cases: all leaves or a subset, 1/10/40 bits per value, sections written after each row group or deferred to the end of the file through DeferBloomFiltersWithBuffers with memory, 64-byte-chunk or temp-file buffers, bitsets uncompressed or gzip)), by GenericWriter, by a writer reused through Reset, and through WriteRowGroup from a file written with the same options (verbatim copy), from a file written with other options (re-encode) or from a buffer; catalogue types with Go maps included (structure and counts only); random key/value metadata, created_by and declared sorting columns, which the spec views of the footer (file.meta) must return as configured; the page-index offsets must be those the mirror of writeFileFooter computes from the same lengths (L2); sub-check lz4raw: LZ4_RAW file-wide at every encoder level, every stored block must parse into a writable, end-rule-conformant sequence list (domain of lz4raw_part_inverts_conformant_block) and Spec.partBytes must return what the real decoder returns (L2); sub-check longrow: one row whose list has 1023..131073 elements (around every power-of-two multiple of the 1024-value copy buffer) through every mode; each file is parsed by the Lean spec reader (thrift compact, footer, page headers at the announced offsets, offset/column index) which re-derives the layout numbers with the proved accounting model and, for uncompressed, snappy, gzip and lz4raw chunks, decompresses (spec Snappy reader, spec inflate/gunzip, spec LZ4 block reader) and decodes every page with the spec decoders (levels, dictionary, PLAIN/RLE/DELTA_*/BYTE_STREAM_SPLIT values) comparing decoded counts with the headers and indexes; the decoded Dremel streams (file.dump) are compared column by column with the reference shredder's streams of the rows written (columns with a chunk in another codec are skipped and counted); non-trivial = more than one page in some chunk or more than one row group")
	tmp := filepath.Join(".build", "tmp", fmt.Sprintf("c02-%s-%d", ctx.Variant, os.Getpid()))
	os.MkdirAll(tmp, 0o755)
	defer os.RemoveAll(tmp)
	ncases := ctx.Scale(6, 80)
	// recorded files first: library-written files of shapes the catalogue does not reach, with a
	// hand-computed expected dump (corpus/C02/values-*.case)
	if cd := ctx.Driver(); cd != nil {
		for _, cf := range ctx.CorpusFiles() {
			c02Corpus(ctx, cd, cf, tmp)
		}
	}
	var wg sync.WaitGroup
	sem := make(chan struct{}, 16)
	// the types with Go maps too (MAP groups, struct-valued maps: leaves four levels down): their
	// files get every structural and count check; the stream comparison does not apply (entry order)
	entries := append(append([]*gen.Entry{}, gen.Catalog...), gen.MapCatalog...)
	for _, e := range entries {
		wg.Add(1)
		sem <- struct{}{}
		go func(e *gen.Entry) {
			defer wg.Done()
			defer func() { <-sem }()
			d := ctx.Driver()
			if d == nil {
				return
			}
			r := ctx.Rand("c02/" + e.Name)
			rb := ctx.Rand("c02bloom/" + e.Name)
			for k := 0; k < ncases; k++ {
				n := []int{0, 1, 3, 40, 64, 65, 130, 300}[r.Intn(8)]
				prof := &gen.Profile{NullProb: []float64{0.1, 0.5, 0.95}[r.Intn(3)], MaxLen: 1 + r.Intn(4), SmallDomain: r.Intn(2) == 0}
				if r.Intn(3) == 0 {
					prof.RunLen = 70
				}
				if k == 1 {
					// every dictionary-encoded column falls back to PLAIN inside the row group
					n = []int{130, 300}[r.Intn(2)]
					prof.SmallDomain = false
				}
				rows := e.NewRows(n)
				gen.FillRows(r, rows, prof)
				cfg := gen.RandWriterCfg(r)
				if k == 1 {
					cfg = gen.PlainWriterCfg(r)
					cfg.DictMax = 16
					cfg.Opts = append(cfg.Opts, parquet.DictionaryMaxBytes(16))
					cfg.Desc += " dictmax=16"
				}
				// bloom filters, in half of the cases: on every leaf column or on a subset; every way
				// the writer has of placing and framing the sections (c02BloomOpts). The choices
				// beyond "all leaves, inline, uncompressed" come from their own stream.
				opts := cfg.Opts
				desc := cfg.Desc
				if r.Intn(3) == 0 || rb.Intn(4) == 0 {
					bo, bd := c02BloomOpts(rb, e.Schema.Columns(), tmp)
					opts = append(append([]parquet.WriterOption{}, opts...), bo...)
					desc += bd
				}
				// value-level agreement covers uncompressed, snappy, gzip and lz4raw chunks: force one of
				// them file-wide in 50 % of the cases (a later option overrides the earlier one; fields
				// carrying their own codec tag keep it)
				if x := r.Intn(10); x < 5 || k == 1 {
					name := []string{"none", "snappy", "gzip", "snappy", "lz4"}[x%5]
					opts = append(append([]parquet.WriterOption{}, opts...), parquet.Compression(gen.Codecs[name]))
					desc += " filecodec=" + name
				}
				mode := c02Modes[r.Intn(len(c02Modes))]
				if k == 1 {
					mode = "direct"
				}
				var srcOpts []parquet.WriterOption
				if mode == "reencode-from-file" {
					sc := gen.RandWriterCfg(r)
					srcOpts = sc.Opts
					desc += " | source file: " + sc.Desc
				}
				meta := c02RandMeta(r, e, mode)
				opts = append(append([]parquet.WriterOption{}, opts...), meta.opts...)
				desc += meta.desc
				file, err := c02Write(e, rows, mode, opts, srcOpts, c01Batches(r, n), r)
				detail := map[string]any{"type": e.Name, "config": desc, "mode": mode, "rows": n, "seed_stream": "c02/" + e.Name, "case_index": k}
				if err != nil {
					ctx.Fail("L1", "write-error mode="+mode+" "+errClass(err), "writing valid rows failed: "+err.Error(), detail)
					continue
				}
				if !c02Judge(ctx, d, tmp, e, rows, file, mode, desc, cfg.MaxRows, k, n, detail, meta) {
					return
				}
			}
		}(e)
	}
	wg.Wait()
}

// c02Judge runs the Lean spec reader over one written file and files every clause it reports
// (L1), compares the structure summary with the library's own reader (L2) and the decoded Dremel
// streams with the reference shredder's (L1). false = the driver is gone.
func c02Judge(ctx *core.Ctx, d *drv.Driver, tmp string, e *gen.Entry, rows reflect.Value, file []byte, mode, desc string, maxRows int64, k, n int, detail map[string]any, meta *c02Meta) bool {
	path := filepath.Join(tmp, fmt.Sprintf("%s-%d.parquet", e.Name, k))
	if err := os.WriteFile(path, file, 0o644); err != nil {
		ctx.Fail("L2", "tmp-write", err.Error(), nil)
		return true
	}
	abs, _ := filepath.Abs(path)
	answers, err := d.AskMany([]string{fmt.Sprintf("file.check %s %d", abs, maxRows), "file.dump " + abs, "file.meta " + abs})
	os.Remove(path)
	if err != nil {
		ctx.Fail("L2", "driver-error", err.Error(), nil)
		return false
	}
	ans, dump := answers[0], answers[1]
	c02JudgeMeta(ctx, answers[2], meta, mode, strings.HasPrefix(ans, "ok "), detail)
	ctx.Hist("mode", mode)
	switch {
	case strings.HasPrefix(ans, "ok "):
		sum := ans[3:]
		multi := !strings.Contains(sum, "rg=1 ") && !strings.Contains(sum, "rg=0 ")
		var chunks, data int
		fmt.Sscanf(sum[strings.Index(sum, "chunks="):], "chunks=%d data=%d", &chunks, &data)
		if i := strings.Index(sum, "decoded="); i >= 0 {
			var decoded, capped int
			fmt.Sscanf(sum[i:], "decoded=%d capped=%d", &decoded, &capped)
			ctx.HistN("data-pages", "value-decoded (none/snappy/gzip/lz4raw)", int64(decoded))
			ctx.HistN("data-pages", "structural only (other codec)", int64(data-decoded-capped))
			ctx.HistN("data-pages", "capped", int64(capped))
			if j := strings.Index(sum, "bloom="); j >= 0 {
				var bl int
				fmt.Sscanf(sum[j:], "bloom=%d", &bl)
				ctx.HistN("bloom filter sections parsed by the spec reader", mode, int64(bl))
				if i := strings.Index(desc, " place="); i >= 0 && bl > 0 {
					var place, bc string
					fmt.Sscanf(desc[i:], " place=%s bloomcodec=%s", &place, &bc)
					nsec := "1 section"
					if bl > 1 {
						nsec = ">= 2 sections"
					}
					ctx.Hist("bloom filter placement", place+", "+nsec)
					ctx.Hist("bloom filter bitset codec", bc)
				}
			}
		}
		ctx.Case(e.Name+desc+mode+fmt.Sprint(k, n), multi || data > chunks)
		if k == 0 {
			ctx.Sample(map[string]any{"type": e.Name, "config": desc, "mode": mode, "rows": n, "spec_reader": sum})
		}
		gs, gerr := c02GoSummary(file)
		if gerr != nil {
			ctx.Fail("L1", "open-error "+errClass(gerr), "the library cannot open its own file: "+gerr.Error(), detail)
		} else {
			// compare the fields both summaries carry
			var rg, ch, a, b, c2, v2, oi, ci int
			fmt.Sscanf(sum, "rg=%d chunks=%d data=%d dict=%d crc=%d v2=%d oi=%d ci=%d", &rg, &ch, &a, &b, &c2, &v2, &oi, &ci)
			if want := fmt.Sprintf("rg=%d chunks=%d oi=%d ci=%d", rg, ch, oi, ci); want != gs {
				detail["spec_reader"], detail["library_reader"] = want, gs
				ctx.Fail("L2", "spec-reader-vs-library-metadata", "the Lean spec reader and the library's reader see different file structure", detail)
			}
		}
	case strings.HasPrefix(ans, "bad "):
		ctx.Case(e.Name+desc+mode+fmt.Sprint(k, n), true)
		parts := strings.SplitN(ans, " | ", 2)
		for _, p := range strings.Split(parts[1], " ; ") {
			detail["problem"] = p
			detail["all_problems"] = parts[1]
			ctx.Fail("L1", "malformed mode="+mode+": "+c02Class(p), "file metadata does not describe the bytes present: "+p, detail)
		}
	default:
		ctx.Case(e.Name+desc+mode+fmt.Sprint(k, n), true)
		detail["answer"] = ans
		ctx.Fail("L1", "unparsable mode="+mode+": "+c02Class(ans), "the spec reader cannot parse the file: "+ans, detail)
	}
	c02Values(ctx, e, rows, file, mode, strings.HasPrefix(ans, "ok "), dump, detail)
	return true
}

// c02Modes: the ways a file comes into being. "copy-from-file" hands the row groups of a file
// written with the SAME options to WriteRowGroup (chunks copied verbatim); "reencode-from-file"
// hands over the row groups of a file written with OTHER options (page version, codec, limits),
// so that the writer re-encodes the values column by column or row by row; "copy-from-buffer"
// writes a GenericBuffer through WriteRowGroup (column-wise re-encode of in-memory columns).
var c02Modes = []string{"direct", "direct", "reset-reuse", "copy-from-file", "copy-from-buffer", "reencode-from-file"}

// c02Meta: footer metadata a case asks for (options) and what the file must then say
type c02Meta struct {
	opts      []parquet.WriterOption
	desc      string
	kv        map[string]string // nil = none configured
	createdBy [3]string         // application, version, build ("" application = default)
	sorting   []string          // "leafIndex/desc/nullsFirst" in declaration order
}

var c02KeyPool = []string{"k", "", "writer.model.name", "ARROW:schema", "caf\u00e9", "\u65e5\u672c", "a b", "key-with-a-rather-long-name-0123456789-0123456789-0123456789", "k2"}
var c02ValPool = []string{"", "v", "{\"a\":1}", "\u00e9\u00e8", "0123456789012345678901234567890123456789012345678901234567890123456789012345678901234567890123456789012345678901234567890123456789", " "}

// c02RandMeta: key/value metadata (0-4 pairs, a repeated key keeps the last value as documented),
// created_by, and declared sorting columns (metadata only: the plain writer records the
// declaration, it neither sorts nor verifies)
func c02RandMeta(r *rand.Rand, e *gen.Entry, mode string) *c02Meta {
	m := &c02Meta{}
	if r.Intn(2) == 0 {
		m.kv = map[string]string{}
		for i, n := 0, 1+r.Intn(4); i < n; i++ {
			k, v := c02KeyPool[r.Intn(len(c02KeyPool))], c02ValPool[r.Intn(len(c02ValPool))]
			m.kv[k] = v
			m.opts = append(m.opts, parquet.KeyValueMetadata(k, v))
		}
		m.desc += fmt.Sprintf(" kv=%q", m.kv)
	}
	if r.Intn(3) == 0 {
		m.createdBy = [3]string{[]string{"verif", "my app", "caf\u00e9"}[r.Intn(3)], []string{"1.0", "0.0.0-rc1", ""}[r.Intn(3)], []string{"abc123", "", "6cf94d29b2b7115df4de2c06e2ab4326d721eb55"}[r.Intn(3)]}
		m.opts = append(m.opts, parquet.CreatedBy(m.createdBy[0], m.createdBy[1], m.createdBy[2]))
		m.desc += fmt.Sprintf(" created_by=%q", m.createdBy)
	}
	paths := e.Schema.Columns()
	if (mode == "direct" || mode == "reset-reuse" || mode == "copy-from-file") && len(paths) > 0 && r.Intn(3) == 0 {
		var scs []parquet.SortingColumn
		used := map[int]bool{}
		for i, n := 0, 1+r.Intn(3); i < n; i++ {
			li := r.Intn(len(paths))
			if used[li] {
				continue
			}
			used[li] = true
			desc, nf := r.Intn(2) == 0, r.Intn(2) == 0
			var sc parquet.SortingColumn
			if desc {
				sc = parquet.Descending(paths[li]...)
			} else {
				sc = parquet.Ascending(paths[li]...)
			}
			if nf {
				sc = parquet.NullsFirst(sc)
			}
			scs = append(scs, sc)
			b := map[bool]string{false: "0", true: "1"}
			m.sorting = append(m.sorting, fmt.Sprintf("%d/%s/%s", li, b[desc], b[nf]))
		}
		m.opts = append(m.opts, parquet.SortingWriterConfig(parquet.SortingColumns(scs...)))
		m.desc += " sorting=" + strings.Join(m.sorting, "+")
	}
	return m
}

var c02CreatedByForm = regexp.MustCompile(`^(.*) version (.*?) ?\(build (.*)\)$`)

// c02JudgeMeta: the spec views of the footer metadata (file.meta) against what was configured
// (L1), and the page-index offsets against the mirror of writeFileFooter (L2).
func c02JudgeMeta(ctx *core.Ctx, ans string, meta *c02Meta, mode string, checkOK bool, detail map[string]any) {
	with := func(extra map[string]any) map[string]any {
		m := map[string]any{"file_meta": ans}
		for k, v := range detail {
			m[k] = v
		}
		for k, v := range extra {
			m[k] = v
		}
		return m
	}
	if !strings.HasPrefix(ans, "ok ") {
		if checkOK {
			ctx.Fail("L1", "meta-unreadable mode="+mode+": "+c02Class(ans), "file.check accepts the file but file.meta cannot read its footer: "+ans, with(nil))
		}
		return
	}
	field := func(name string) string {
		i := strings.Index(ans, " "+name+"=")
		if i < 0 {
			return ""
		}
		rest := ans[i+len(name)+2:]
		if name == "layout" {
			return rest
		}
		if j := strings.Index(rest, " "); j >= 0 {
			rest = rest[:j]
		}
		return rest
	}
	unhex := func(h string) (string, bool) {
		if h == "-" {
			return "", true
		}
		b, err := hex.DecodeString(h)
		return string(b), err == nil
	}
	var nidx int
	fmt.Sscanf(field("indexes"), "%d", &nidx)
	ctx.HistN("page-index structures laid out by the mirror", mode, int64(nidx))
	if lay := field("layout"); lay != "agrees" {
		ctx.Fail("L2", "page-index-layout-mirror mode="+mode, "the page-index offsets of the file are not those the mirror of writeFileFooter computes from the same lengths: "+lay, with(nil))
	}
	if meta == nil {
		return
	}
	// created_by
	cb := field("created_by")
	if meta.createdBy[0] != "" {
		ctx.Hist("footer metadata", "created_by configured")
		got, ok := unhex(cb)
		mm := c02CreatedByForm.FindStringSubmatch(got)
		if cb == "none" || !ok || mm == nil || mm[1] != meta.createdBy[0] || mm[2] != meta.createdBy[1] || mm[3] != meta.createdBy[2] {
			ctx.Fail("L1", "created-by-differs mode="+mode, fmt.Sprintf("created_by of the file is %q, configured application/version/build %q", got, meta.createdBy), with(nil))
		} else if want := meta.createdBy[0] + " version " + meta.createdBy[1] + " (build " + meta.createdBy[2] + ")"; got != want {
			ctx.Observe("created-by-lacks-space-before-build", "created_by is written as \"<application> version <version>(build <build>)\": the convention of the format (and the doc comment of CreatedBy) has a space before \"(build\"", map[string]any{"created_by": got, "convention": want})
		}
	} else if cb == "none" {
		ctx.Fail("L1", "created-by-missing mode="+mode, "the file has no created_by although the writer has a default", with(nil))
	}
	// key/value metadata: the configured pairs, as a set (the library orders them by key)
	got := map[string]string{}
	bad := ""
	if f := field("kv"); f != "-" {
		for _, p := range strings.Split(f, ",") {
			kh, vh, found := strings.Cut(p, ":")
			k, ok1 := unhex(kh)
			v, ok2 := unhex(vh)
			if !found || !ok1 || !ok2 || vh == "none" {
				bad = "pair " + p + " has no key or no value"
			}
			if _, dup := got[k]; dup {
				bad = fmt.Sprintf("key %q is written twice", k)
			}
			got[k] = v
		}
	}
	want := meta.kv
	if want == nil {
		want = map[string]string{}
	} else {
		ctx.Hist("footer metadata", fmt.Sprintf("%d key/value pairs", len(want)))
	}
	if bad != "" || !reflect.DeepEqual(got, want) {
		ctx.Fail("L1", "key-value-metadata-differs mode="+mode, fmt.Sprintf("key_value_metadata of the file is %q, configured %q %s", got, want, bad), with(nil))
	}
	// sorting columns: every row group carries the declaration
	wantS := "-"
	if len(meta.sorting) > 0 {
		wantS = strings.Join(meta.sorting, "+")
		ctx.Hist("footer metadata", "sorting columns declared")
	}
	if f := field("sorting"); f != "" {
		for i, rg := range strings.Split(f, ";") {
			if rg != wantS {
				ctx.Fail("L1", "sorting-columns-differ mode="+mode, fmt.Sprintf("row group %d announces sorting columns %s, declared %s (leaf index/descending/nulls first)", i, rg, wantS), with(nil))
				break
			}
		}
	}
}

func c02Write(e *gen.Entry, rows reflect.Value, mode string, opts, srcOpts []parquet.WriterOption, batches []int, r *rand.Rand) (file []byte, err error) {
	defer func() {
		if x := recover(); x != nil {
			err = fmt.Errorf("PANIC: %v", x)
		}
	}()
	var buf bytes.Buffer
	switch mode {
	case "direct":
		err = e.WriteGeneric(&buf, rows.Interface(), batches, opts...)
	case "reset-reuse":
		// first file: other rows, completed; then Reset and write the real rows
		var first bytes.Buffer
		w := parquet.NewWriter(&first, append([]parquet.WriterOption{e.Schema}, opts...)...)
		other := e.NewRows(1 + r.Intn(5))
		gen.FillRows(r, other, &gen.Profile{NullProb: 0.3, MaxLen: 2})
		for i := 0; i < other.Len(); i++ {
			if err = w.Write(other.Index(i).Addr().Interface()); err != nil {
				return nil, err
			}
		}
		if err = w.Close(); err != nil {
			return nil, err
		}
		w.Reset(&buf)
		for i := 0; i < rows.Len(); i++ {
			if err = w.Write(rows.Index(i).Addr().Interface()); err != nil {
				return nil, err
			}
		}
		err = w.Close()
	case "copy-from-file", "reencode-from-file":
		var src bytes.Buffer
		if mode == "copy-from-file" {
			srcOpts = opts
		}
		if err = e.WriteGeneric(&src, rows.Interface(), batches, srcOpts...); err != nil {
			return nil, err
		}
		f, err2 := parquet.OpenFile(bytes.NewReader(src.Bytes()), int64(src.Len()))
		if err2 != nil {
			return nil, err2
		}
		w := parquet.NewWriter(&buf, append([]parquet.WriterOption{e.Schema}, opts...)...)
		for _, rg := range f.RowGroups() {
			if _, err = w.WriteRowGroup(rg); err != nil {
				return nil, err
			}
		}
		err = w.Close()
	case "copy-from-buffer":
		err = e.WriteGenericBuffer(&buf, rows.Interface(), batches, opts...)
	}
	return buf.Bytes(), err
}

var c02CodecNames = map[int]string{0: "none", 1: "snappy", 2: "gzip", 3: "lzo", 4: "brotli", 5: "lz4", 6: "zstd", 7: "lz4raw"}
var c02EncNames = map[int]string{0: "plain", 2: "plaindict", 3: "rle", 4: "bitpacked", 5: "delta", 6: "deltalen", 7: "deltabytes", 8: "rledict", 9: "split"}

// c02ColumnInfo: per leaf column, "codec=<..> enc=<sorted set> type=<physical>" read from the
// file's own metadata (all row groups); used for the coverage histograms only, never as oracle.
func c02ColumnInfo(file []byte, ncol int) []string {
	out := make([]string, ncol)
	f, err := parquet.OpenFile(bytes.NewReader(file), int64(len(file)))
	if err != nil {
		return out
	}
	type acc struct {
		codecs, encs map[int]bool
		typ          string
	}
	accs := make([]acc, ncol)
	for _, rg := range f.Metadata().RowGroups {
		for i, c := range rg.Columns {
			if i >= ncol {
				break
			}
			if accs[i].codecs == nil {
				accs[i] = acc{map[int]bool{}, map[int]bool{}, strings.ToLower(c.MetaData.Type.String())}
			}
			accs[i].codecs[int(c.MetaData.Codec)] = true
			for _, en := range c.MetaData.Encoding {
				accs[i].encs[int(en)] = true
			}
		}
	}
	set := func(m map[int]bool, names map[int]string) string {
		var ks []int
		for k := range m {
			ks = append(ks, k)
		}
		sort.Ints(ks)
		var ss []string
		for _, k := range ks {
			if n, ok := names[k]; ok {
				ss = append(ss, n)
			} else {
				ss = append(ss, fmt.Sprint(k))
			}
		}
		return strings.Join(ss, "+")
	}
	for i, a := range accs {
		if a.codecs == nil {
			out[i] = "no-chunks"
			continue
		}
		out[i] = fmt.Sprintf("codec=%s enc=%s type=%s", set(a.codecs, c02CodecNames), set(a.encs, c02EncNames), a.typ)
	}
	return out
}

// c02Values is the value-level L1 oracle: the Dremel streams the Lean spec reader decodes from
// the file (file.dump) against the reference shredder's streams of the rows that were written.
func c02Values(ctx *core.Ctx, e *gen.Entry, rows reflect.Value, file []byte, mode string, checkOK bool, dump string, detail map[string]any) {
	paths := e.Schema.Columns()
	var sh gen.Shredder
	for i := 0; i < rows.Len() && !e.HasMap; i++ {
		sh.ShredRow(e.Schema, rows.Index(i))
	}
	expected := sh.Cols
	if rows.Len() == 0 {
		expected = make([][]gen.Triple, len(paths))
	}
	with := func(extra map[string]any) map[string]any {
		m := map[string]any{}
		for k, v := range detail {
			m[k] = v
		}
		for k, v := range extra {
			m[k] = v
		}
		return m
	}
	if strings.HasPrefix(dump, "err ") && strings.HasSuffix(dump, "(capped)") {
		// a page beyond the size the list-based spec decoders are run on: structural checks only
		ctx.Hist("values", "dump-capped")
		return
	}
	if !strings.HasPrefix(dump, "ok") {
		// a file the checker already rejected cannot be dumped either: one failure is enough
		if checkOK {
			ctx.Fail("L1", "values-undecodable mode="+mode+": "+c02Class(strings.TrimPrefix(dump, "err ")), "file.check accepts the file but file.dump cannot decode it: "+dump, with(map[string]any{"dump_answer": dump}))
		}
		ctx.Hist("values", "dump-error")
		return
	}
	if e.HasMap {
		// the entry order of a Go map is unspecified: no stream to compare with
		ctx.Hist("values", "map-type (decodable, streams not compared)")
		return
	}
	body := strings.TrimPrefix(strings.TrimPrefix(dump, "ok"), " ")
	got := strings.Split(body, " ; ")
	if len(got) != len(paths) || len(expected) != len(paths) {
		ctx.Fail("L1", "values-differ mode="+mode+" column-count", fmt.Sprintf("the spec reader sees %d leaf columns, the schema has %d, the reference shredder %d", len(got), len(paths), len(expected)), with(nil))
		return
	}
	info := c02ColumnInfo(file, len(paths))
	for ci, g := range got {
		if g == "?" {
			ctx.Hist("values-skipped", info[ci])
			ctx.Hist("values", "column-skipped")
			continue
		}
		ctx.Hist("values-compared", info[ci])
		ctx.Hist("values", "column-compared")
		var ents []string
		if g != "" {
			ents = strings.Split(g, " ")
		}
		exp := expected[ci]
		n := len(ents)
		if len(exp) < n {
			n = len(exp)
		}
		pos, a, b := -1, "", ""
		for i := 0; i < n; i++ {
			if x := exp[i].String(); x != ents[i] {
				pos, a, b = i, x, ents[i]
				break
			}
		}
		if pos < 0 && len(exp) != len(ents) {
			pos, a, b = n, "<end>", "<end>"
			if n < len(exp) {
				a = exp[n].String()
			} else {
				b = ents[n]
			}
		}
		if pos < 0 {
			continue
		}
		sig := "?"
		if lc, ok := e.Schema.Lookup(paths[ci]...); ok {
			sig = fmt.Sprintf("%s rep=%d def=%d", strings.ToLower(lc.Node.Type().Kind().String()), lc.MaxRepetitionLevel, lc.MaxDefinitionLevel)
		}
		ctx.Fail("L1", "values-differ mode="+mode+" col="+sig,
			fmt.Sprintf("column %d (%s): entry %d written as %s, the spec reader decodes %s (streams: %d written, %d decoded)", ci, strings.Join(paths[ci], "."), pos, a, b, len(exp), len(ents)),
			with(map[string]any{"column_index": ci, "column_path": strings.Join(paths[ci], "."), "column_storage": info[ci], "position": pos, "written": a, "decoded": b, "written_entries": len(exp), "decoded_entries": len(ents)}))
	}
}

// c02Corpus replays one `c02-values` case: `file <hex of a parquet file>` must pass file.check and
// file.dump must answer the `dump` line. Files of other formats are left to other sub-checks.
func c02Corpus(ctx *core.Ctx, d interface {
	AskMany([]string) ([]string, error)
}, casePath, tmp string) {
	raw, err := os.ReadFile(casePath)
	if err != nil || !strings.HasPrefix(string(raw), "c02-values ") {
		return
	}
	var fileHex, want string
	for _, l := range strings.Split(string(raw), "\n") {
		switch {
		case strings.HasPrefix(l, "file "):
			fileHex = strings.TrimSpace(l[5:])
		case strings.HasPrefix(l, "dump "):
			want = l[5:]
		}
	}
	name := filepath.Base(casePath)
	file, err := hex.DecodeString(fileHex)
	if err != nil || want == "" {
		ctx.Fail("L2", "corpus-case-unreadable", "corpus case "+name+" is not a c02-values case", nil)
		return
	}
	path := filepath.Join(tmp, name+".parquet")
	if err := os.WriteFile(path, file, 0o644); err != nil {
		ctx.Fail("L2", "tmp-write", err.Error(), nil)
		return
	}
	defer os.Remove(path)
	abs, _ := filepath.Abs(path)
	answers, err := d.AskMany([]string{"file.check " + abs + " 0", "file.dump " + abs})
	if err != nil {
		ctx.Fail("L2", "driver-error", err.Error(), nil)
		return
	}
	ctx.Case("corpus "+name, true)
	ctx.Hist("mode", "corpus")
	if !strings.HasPrefix(answers[0], "ok ") {
		ctx.Fail("L2", "corpus-file-rejected: "+c02Class(answers[0]), "the spec reader rejects a recorded file it accepted when the case was recorded: "+answers[0], map[string]any{"case": name})
	}
	if answers[1] != want {
		got, exp := strings.Split(answers[1], " "), strings.Split(want, " ")
		pos := 0
		for pos < len(got) && pos < len(exp) && got[pos] == exp[pos] {
			pos++
		}
		a, b := "<end>", "<end>"
		if pos < len(exp) {
			a = exp[pos]
		}
		if pos < len(got) {
			b = got[pos]
		}
		ctx.Fail("L2", "corpus-dump-differs", fmt.Sprintf("file.dump of a recorded file differs from the recorded hand-computed streams at token %d: expected %s got %s", pos, a, b), map[string]any{"case": name, "token": pos, "expected": a, "got": b})
	}
}

// c02BloomOpts: one way of asking for bloom filters. Which leaves: all of them, or a non-empty
// random subset. Where the sections go: after each row group (the default) or, with
// DeferBloomFiltersWithBuffers, buffered and written together between the last row group and the
// page indexes — through a pool of in-memory buffers of the default chunk size, of 64-byte
// chunks (one section spans several chunks) or of temp files. How the bitset is framed:
// uncompressed or gzip (BloomFilterCompression). 1, 10 or 40 bits per value (one block .. many).
// Whatever the choice, the spec reader must find at every announced bloom_filter_offset a header
// and a bitset that take exactly bloom_filter_length bytes and share no byte with anything else.
func c02BloomOpts(rb *rand.Rand, leaves [][]string, tmp string) ([]parquet.WriterOption, string) {
	bits := []uint{10, 10, 1, 40}[rb.Intn(4)]
	var fs []parquet.BloomFilterColumn
	which := "all"
	if len(leaves) > 1 && rb.Intn(3) == 0 {
		var idx []string
		pick := rb.Intn(len(leaves)) // this one at least
		for i, p := range leaves {
			if i == pick || rb.Intn(2) == 0 {
				fs = append(fs, parquet.SplitBlockFilter(bits, p...))
				idx = append(idx, fmt.Sprint(i))
			}
		}
		which = "leaves:" + strings.Join(idx, ",")
	} else {
		for _, p := range leaves {
			fs = append(fs, parquet.SplitBlockFilter(bits, p...))
		}
	}
	opts := []parquet.WriterOption{parquet.BloomFilters(fs...)}
	place := "inline"
	switch rb.Intn(6) {
	case 0, 1:
		place = "deferred(pool)"
		opts = append(opts, parquet.DeferBloomFiltersWithBuffers(parquet.NewBufferPool()))
	case 2:
		place = "deferred(chunk64)"
		opts = append(opts, parquet.DeferBloomFiltersWithBuffers(parquet.NewChunkBufferPool(64)))
	case 3:
		place = "deferred(tempfile)"
		opts = append(opts, parquet.DeferBloomFiltersWithBuffers(parquet.NewFileBufferPool(tmp, "bloom.*")))
	}
	codec := "none"
	if rb.Intn(4) == 0 {
		codec = "gzip"
		opts = append(opts, parquet.BloomFilterCompression(&parquet.Gzip))
	}
	return opts, fmt.Sprintf(" bloom=%s bits=%d place=%s bloomcodec=%s", which, bits, place, codec)
}
