package props

import (
	"bytes"
	"encoding/hex"
	"fmt"
	"math/rand"
	"os"
	"path/filepath"
	"reflect"
	"regexp"
	"sort"
	"strings"
	"sync"

	"github.com/parquet-go/parquet-go"

	"verifharness/core"
	"verifharness/drv"
	"verifharness/gen"
)

func init() { RegisterSub("C02", "wellformed", RunC02) }

var c02Digits = regexp.MustCompile(`[0-9]+`)

// c02Class turns a problem line of the Lean reader into a stable failure key
// ("rg0/col3: offset index offsets [..] are not the page starts [..]" -> "offset index offsets are not the page starts")
func c02Class(p string) string {
	if i := strings.Index(p, ": "); i >= 0 && strings.HasPrefix(p, "rg") {
		p = p[i+2:]
	}
	p = regexp.MustCompile(`\[[^\]]*\]`).ReplaceAllString(p, "")
	p = c02Digits.ReplaceAllString(p, "#")
	p = strings.Join(strings.Fields(p), " ")
	if len(p) > 90 {
		p = p[:90]
	}
	return p
}

// what the library's own reader sees, for the L2 comparison with the spec reader's summary
func c02GoSummary(file []byte) (string, error) {
	f, err := parquet.OpenFile(bytes.NewReader(file), int64(len(file)))
	if err != nil {
		return "", err
	}
	md := f.Metadata()
	chunks, oi, ci := 0, 0, 0
	for _, rg := range md.RowGroups {
		for _, c := range rg.Columns {
			chunks++
			if c.OffsetIndexOffset != 0 {
				oi++
			}
			if c.ColumnIndexOffset != 0 {
				ci++
			}
		}
	}
	return fmt.Sprintf("rg=%d chunks=%d oi=%d ci=%d", len(md.RowGroups), chunks, oi, ci), nil
}

func RunC02(ctx *core.Ctx) {
	ctx.SetRule("files written from catalogue struct types under random configurations (page version, codec (40 % of the cases force none, snappy or gzip file-wide; fields keep their own codec/encoding tags), page/row-group/dictionary limits, statistics, bloom filters), by GenericWriter, by a writer reused through Reset, and through WriteRowGroup from a file or a buffer; each file is parsed by the Lean spec reader (thrift compact, footer, page headers at the announced offsets, offset/column index) which re-derives the layout numbers with the proved accounting model and, for uncompressed, snappy and gzip chunks, decompresses (spec Snappy reader, spec inflate/gunzip) and decodes every page with the spec decoders (levels, dictionary, PLAIN/RLE/DELTA_*/BYTE_STREAM_SPLIT values) comparing decoded counts with the headers and indexes; the decoded Dremel streams (file.dump) are compared column by column with the reference shredder's streams of the rows written (columns with a chunk in another codec are skipped and counted); non-trivial = more than one page in some chunk or more than one row group")
	tmp := filepath.Join(".build", "tmp", fmt.Sprintf("c02-%s-%d", ctx.Variant, os.Getpid()))
	os.MkdirAll(tmp, 0o755)
	defer os.RemoveAll(tmp)
	ncases := ctx.Scale(6, 80)
	// recorded files first: library-written files of shapes the catalogue does not reach, with a
	// hand-computed expected dump (corpus/C02/values-*.case)
	if cd := ctx.Driver(); cd != nil {
		for _, cf := range ctx.CorpusFiles() {
			c02Corpus(ctx, cd, cf, tmp)
		}
	}
	var wg sync.WaitGroup
	sem := make(chan struct{}, 16)
	// the types with Go maps too (MAP groups, struct-valued maps: leaves four levels down): their
	// files get every structural and count check; the stream comparison does not apply (entry order)
	entries := append(append([]*gen.Entry{}, gen.Catalog...), gen.MapCatalog...)
	for _, e := range entries {
		wg.Add(1)
		sem <- struct{}{}
		go func(e *gen.Entry) {
			defer wg.Done()
			defer func() { <-sem }()
			d := ctx.Driver()
			if d == nil {
				return
			}
			r := ctx.Rand("c02/" + e.Name)
			for k := 0; k < ncases; k++ {
				n := []int{0, 1, 3, 40, 64, 65, 130, 300}[r.Intn(8)]
				prof := &gen.Profile{NullProb: []float64{0.1, 0.5, 0.95}[r.Intn(3)], MaxLen: 1 + r.Intn(4), SmallDomain: r.Intn(2) == 0}
				if r.Intn(3) == 0 {
					prof.RunLen = 70
				}
				if k == 1 {
					// every dictionary-encoded column falls back to PLAIN inside the row group
					n = []int{130, 300}[r.Intn(2)]
					prof.SmallDomain = false
				}
				rows := e.NewRows(n)
				gen.FillRows(r, rows, prof)
				cfg := gen.RandWriterCfg(r)
				if k == 1 {
					cfg = gen.PlainWriterCfg(r)
					cfg.DictMax = 16
					cfg.Opts = append(cfg.Opts, parquet.DictionaryMaxBytes(16))
					cfg.Desc += " dictmax=16"
				}
				// bloom filters on every leaf column, sometimes
				opts := cfg.Opts
				desc := cfg.Desc
				if r.Intn(3) == 0 {
					var fs []parquet.BloomFilterColumn
					for _, p := range e.Schema.Columns() {
						fs = append(fs, parquet.SplitBlockFilter(10, p...))
					}
					opts = append(append([]parquet.WriterOption{}, opts...), parquet.BloomFilters(fs...))
					desc += " bloom"
				}
				// value-level agreement covers uncompressed, snappy and gzip chunks: force one of them
				// file-wide in 40 % of the cases (a later option overrides the earlier one; fields
				// carrying their own codec tag keep it)
				if x := r.Intn(10); x < 4 || k == 1 {
					name := []string{"none", "snappy", "gzip", "snappy"}[x%4]
					opts = append(append([]parquet.WriterOption{}, opts...), parquet.Compression(gen.Codecs[name]))
					desc += " filecodec=" + name
				}
				mode := c02Modes[r.Intn(len(c02Modes))]
				if k == 1 {
					mode = "direct"
				}
				var srcOpts []parquet.WriterOption
				if mode == "reencode-from-file" {
					sc := gen.RandWriterCfg(r)
					srcOpts = sc.Opts
					desc += " | source file: " + sc.Desc
				}
				file, err := c02Write(e, rows, mode, opts, srcOpts, c01Batches(r, n), r)
				detail := map[string]any{"type": e.Name, "config": desc, "mode": mode, "rows": n, "seed_stream": "c02/" + e.Name, "case_index": k}
				if err != nil {
					ctx.Fail("L1", "write-error mode="+mode+" "+errClass(err), "writing valid rows failed: "+err.Error(), detail)
					continue
				}
				if !c02Judge(ctx, d, tmp, e, rows, file, mode, desc, cfg.MaxRows, k, n, detail) {
					return
				}
			}
		}(e)
	}
	wg.Wait()
}

// c02Judge runs the Lean spec reader over one written file and files every clause it reports
// (L1), compares the structure summary with the library's own reader (L2) and the decoded Dremel
// streams with the reference shredder's (L1). false = the driver is gone.
func c02Judge(ctx *core.Ctx, d *drv.Driver, tmp string, e *gen.Entry, rows reflect.Value, file []byte, mode, desc string, maxRows int64, k, n int, detail map[string]any) bool {
	path := filepath.Join(tmp, fmt.Sprintf("%s-%d.parquet", e.Name, k))
	if err := os.WriteFile(path, file, 0o644); err != nil {
		ctx.Fail("L2", "tmp-write", err.Error(), nil)
		return true
	}
	abs, _ := filepath.Abs(path)
	answers, err := d.AskMany([]string{fmt.Sprintf("file.check %s %d", abs, maxRows), "file.dump " + abs})
	os.Remove(path)
	if err != nil {
		ctx.Fail("L2", "driver-error", err.Error(), nil)
		return false
	}
	ans, dump := answers[0], answers[1]
	ctx.Hist("mode", mode)
	switch {
	case strings.HasPrefix(ans, "ok "):
		sum := ans[3:]
		multi := !strings.Contains(sum, "rg=1 ") && !strings.Contains(sum, "rg=0 ")
		var chunks, data int
		fmt.Sscanf(sum[strings.Index(sum, "chunks="):], "chunks=%d data=%d", &chunks, &data)
		if i := strings.Index(sum, "decoded="); i >= 0 {
			var decoded, capped int
			fmt.Sscanf(sum[i:], "decoded=%d capped=%d", &decoded, &capped)
			ctx.HistN("data-pages", "value-decoded (none/snappy/gzip)", int64(decoded))
			ctx.HistN("data-pages", "structural only (other codec)", int64(data-decoded-capped))
			ctx.HistN("data-pages", "capped", int64(capped))
		}
		ctx.Case(e.Name+desc+mode+fmt.Sprint(k, n), multi || data > chunks)
		if k == 0 {
			ctx.Sample(map[string]any{"type": e.Name, "config": desc, "mode": mode, "rows": n, "spec_reader": sum})
		}
		gs, gerr := c02GoSummary(file)
		if gerr != nil {
			ctx.Fail("L1", "open-error "+errClass(gerr), "the library cannot open its own file: "+gerr.Error(), detail)
		} else {
			// compare the fields both summaries carry
			var rg, ch, a, b, c2, v2, oi, ci int
			fmt.Sscanf(sum, "rg=%d chunks=%d data=%d dict=%d crc=%d v2=%d oi=%d ci=%d", &rg, &ch, &a, &b, &c2, &v2, &oi, &ci)
			if want := fmt.Sprintf("rg=%d chunks=%d oi=%d ci=%d", rg, ch, oi, ci); want != gs {
				detail["spec_reader"], detail["library_reader"] = want, gs
				ctx.Fail("L2", "spec-reader-vs-library-metadata", "the Lean spec reader and the library's reader see different file structure", detail)
			}
		}
	case strings.HasPrefix(ans, "bad "):
		ctx.Case(e.Name+desc+mode+fmt.Sprint(k, n), true)
		parts := strings.SplitN(ans, " | ", 2)
		for _, p := range strings.Split(parts[1], " ; ") {
			detail["problem"] = p
			detail["all_problems"] = parts[1]
			ctx.Fail("L1", "malformed mode="+mode+": "+c02Class(p), "file metadata does not describe the bytes present: "+p, detail)
		}
	default:
		ctx.Case(e.Name+desc+mode+fmt.Sprint(k, n), true)
		detail["answer"] = ans
		ctx.Fail("L1", "unparsable mode="+mode+": "+c02Class(ans), "the spec reader cannot parse the file: "+ans, detail)
	}
	c02Values(ctx, e, rows, file, mode, strings.HasPrefix(ans, "ok "), dump, detail)
	return true
}

// c02Modes: the ways a file comes into being. "copy-from-file" hands the row groups of a file
// written with the SAME options to WriteRowGroup (chunks copied verbatim); "reencode-from-file"
// hands over the row groups of a file written with OTHER options (page version, codec, limits),
// so that the writer re-encodes the values column by column or row by row; "copy-from-buffer"
// writes a GenericBuffer through WriteRowGroup (column-wise re-encode of in-memory columns).
var c02Modes = []string{"direct", "direct", "reset-reuse", "copy-from-file", "copy-from-buffer", "reencode-from-file"}

func c02Write(e *gen.Entry, rows reflect.Value, mode string, opts, srcOpts []parquet.WriterOption, batches []int, r *rand.Rand) (file []byte, err error) {
	defer func() {
		if x := recover(); x != nil {
			err = fmt.Errorf("PANIC: %v", x)
		}
	}()
	var buf bytes.Buffer
	switch mode {
	case "direct":
		err = e.WriteGeneric(&buf, rows.Interface(), batches, opts...)
	case "reset-reuse":
		// first file: other rows, completed; then Reset and write the real rows
		var first bytes.Buffer
		w := parquet.NewWriter(&first, append([]parquet.WriterOption{e.Schema}, opts...)...)
		other := e.NewRows(1 + r.Intn(5))
		gen.FillRows(r, other, &gen.Profile{NullProb: 0.3, MaxLen: 2})
		for i := 0; i < other.Len(); i++ {
			if err = w.Write(other.Index(i).Addr().Interface()); err != nil {
				return nil, err
			}
		}
		if err = w.Close(); err != nil {
			return nil, err
		}
		w.Reset(&buf)
		for i := 0; i < rows.Len(); i++ {
			if err = w.Write(rows.Index(i).Addr().Interface()); err != nil {
				return nil, err
			}
		}
		err = w.Close()
	case "copy-from-file", "reencode-from-file":
		var src bytes.Buffer
		if mode == "copy-from-file" {
			srcOpts = opts
		}
		if err = e.WriteGeneric(&src, rows.Interface(), batches, srcOpts...); err != nil {
			return nil, err
		}
		f, err2 := parquet.OpenFile(bytes.NewReader(src.Bytes()), int64(src.Len()))
		if err2 != nil {
			return nil, err2
		}
		w := parquet.NewWriter(&buf, append([]parquet.WriterOption{e.Schema}, opts...)...)
		for _, rg := range f.RowGroups() {
			if _, err = w.WriteRowGroup(rg); err != nil {
				return nil, err
			}
		}
		err = w.Close()
	case "copy-from-buffer":
		err = e.WriteGenericBuffer(&buf, rows.Interface(), batches, opts...)
	}
	return buf.Bytes(), err
}

var c02CodecNames = map[int]string{0: "none", 1: "snappy", 2: "gzip", 3: "lzo", 4: "brotli", 5: "lz4", 6: "zstd", 7: "lz4raw"}
var c02EncNames = map[int]string{0: "plain", 2: "plaindict", 3: "rle", 4: "bitpacked", 5: "delta", 6: "deltalen", 7: "deltabytes", 8: "rledict", 9: "split"}

// c02ColumnInfo: per leaf column, "codec=<..> enc=<sorted set> type=<physical>" read from the
// file's own metadata (all row groups); used for the coverage histograms only, never as oracle.
func c02ColumnInfo(file []byte, ncol int) []string {
	out := make([]string, ncol)
	f, err := parquet.OpenFile(bytes.NewReader(file), int64(len(file)))
	if err != nil {
		return out
	}
	type acc struct {
		codecs, encs map[int]bool
		typ          string
	}
	accs := make([]acc, ncol)
	for _, rg := range f.Metadata().RowGroups {
		for i, c := range rg.Columns {
			if i >= ncol {
				break
			}
			if accs[i].codecs == nil {
				accs[i] = acc{map[int]bool{}, map[int]bool{}, strings.ToLower(c.MetaData.Type.String())}
			}
			accs[i].codecs[int(c.MetaData.Codec)] = true
			for _, en := range c.MetaData.Encoding {
				accs[i].encs[int(en)] = true
			}
		}
	}
	set := func(m map[int]bool, names map[int]string) string {
		var ks []int
		for k := range m {
			ks = append(ks, k)
		}
		sort.Ints(ks)
		var ss []string
		for _, k := range ks {
			if n, ok := names[k]; ok {
				ss = append(ss, n)
			} else {
				ss = append(ss, fmt.Sprint(k))
			}
		}
		return strings.Join(ss, "+")
	}
	for i, a := range accs {
		if a.codecs == nil {
			out[i] = "no-chunks"
			continue
		}
		out[i] = fmt.Sprintf("codec=%s enc=%s type=%s", set(a.codecs, c02CodecNames), set(a.encs, c02EncNames), a.typ)
	}
	return out
}

// c02Values is the value-level L1 oracle: the Dremel streams the Lean spec reader decodes from
// the file (file.dump) against the reference shredder's streams of the rows that were written.
func c02Values(ctx *core.Ctx, e *gen.Entry, rows reflect.Value, file []byte, mode string, checkOK bool, dump string, detail map[string]any) {
	paths := e.Schema.Columns()
	var sh gen.Shredder
	for i := 0; i < rows.Len() && !e.HasMap; i++ {
		sh.ShredRow(e.Schema, rows.Index(i))
	}
	expected := sh.Cols
	if rows.Len() == 0 {
		expected = make([][]gen.Triple, len(paths))
	}
	with := func(extra map[string]any) map[string]any {
		m := map[string]any{}
		for k, v := range detail {
			m[k] = v
		}
		for k, v := range extra {
			m[k] = v
		}
		return m
	}
	if strings.HasPrefix(dump, "err ") && strings.HasSuffix(dump, "(capped)") {
		// a page beyond the size the list-based spec decoders are run on: structural checks only
		ctx.Hist("values", "dump-capped")
		return
	}
	if !strings.HasPrefix(dump, "ok") {
		// a file the checker already rejected cannot be dumped either: one failure is enough
		if checkOK {
			ctx.Fail("L1", "values-undecodable mode="+mode+": "+c02Class(strings.TrimPrefix(dump, "err ")), "file.check accepts the file but file.dump cannot decode it: "+dump, with(map[string]any{"dump_answer": dump}))
		}
		ctx.Hist("values", "dump-error")
		return
	}
	if e.HasMap {
		// the entry order of a Go map is unspecified: no stream to compare with
		ctx.Hist("values", "map-type (decodable, streams not compared)")
		return
	}
	body := strings.TrimPrefix(strings.TrimPrefix(dump, "ok"), " ")
	got := strings.Split(body, " ; ")
	if len(got) != len(paths) || len(expected) != len(paths) {
		ctx.Fail("L1", "values-differ mode="+mode+" column-count", fmt.Sprintf("the spec reader sees %d leaf columns, the schema has %d, the reference shredder %d", len(got), len(paths), len(expected)), with(nil))
		return
	}
	info := c02ColumnInfo(file, len(paths))
	for ci, g := range got {
		if g == "?" {
			ctx.Hist("values-skipped", info[ci])
			ctx.Hist("values", "column-skipped")
			continue
		}
		ctx.Hist("values-compared", info[ci])
		ctx.Hist("values", "column-compared")
		var ents []string
		if g != "" {
			ents = strings.Split(g, " ")
		}
		exp := expected[ci]
		n := len(ents)
		if len(exp) < n {
			n = len(exp)
		}
		pos, a, b := -1, "", ""
		for i := 0; i < n; i++ {
			if x := exp[i].String(); x != ents[i] {
				pos, a, b = i, x, ents[i]
				break
			}
		}
		if pos < 0 && len(exp) != len(ents) {
			pos, a, b = n, "<end>", "<end>"
			if n < len(exp) {
				a = exp[n].String()
			} else {
				b = ents[n]
			}
		}
		if pos < 0 {
			continue
		}
		sig := "?"
		if lc, ok := e.Schema.Lookup(paths[ci]...); ok {
			sig = fmt.Sprintf("%s rep=%d def=%d", strings.ToLower(lc.Node.Type().Kind().String()), lc.MaxRepetitionLevel, lc.MaxDefinitionLevel)
		}
		ctx.Fail("L1", "values-differ mode="+mode+" col="+sig,
			fmt.Sprintf("column %d (%s): entry %d written as %s, the spec reader decodes %s (streams: %d written, %d decoded)", ci, strings.Join(paths[ci], "."), pos, a, b, len(exp), len(ents)),
			with(map[string]any{"column_index": ci, "column_path": strings.Join(paths[ci], "."), "column_storage": info[ci], "position": pos, "written": a, "decoded": b, "written_entries": len(exp), "decoded_entries": len(ents)}))
	}
}

// c02Corpus replays one `c02-values` case: `file <hex of a parquet file>` must pass file.check and
// file.dump must answer the `dump` line. Files of other formats are left to other sub-checks.
func c02Corpus(ctx *core.Ctx, d interface {
	AskMany([]string) ([]string, error)
}, casePath, tmp string) {
	raw, err := os.ReadFile(casePath)
	if err != nil || !strings.HasPrefix(string(raw), "c02-values ") {
		return
	}
	var fileHex, want string
	for _, l := range strings.Split(string(raw), "\n") {
		switch {
		case strings.HasPrefix(l, "file "):
			fileHex = strings.TrimSpace(l[5:])
		case strings.HasPrefix(l, "dump "):
			want = l[5:]
		}
	}
	name := filepath.Base(casePath)
	file, err := hex.DecodeString(fileHex)
	if err != nil || want == "" {
		ctx.Fail("L2", "corpus-case-unreadable", "corpus case "+name+" is not a c02-values case", nil)
		return
	}
	path := filepath.Join(tmp, name+".parquet")
	if err := os.WriteFile(path, file, 0o644); err != nil {
		ctx.Fail("L2", "tmp-write", err.Error(), nil)
		return
	}
	defer os.Remove(path)
	abs, _ := filepath.Abs(path)
	answers, err := d.AskMany([]string{"file.check " + abs + " 0", "file.dump " + abs})
	if err != nil {
		ctx.Fail("L2", "driver-error", err.Error(), nil)
		return
	}
	ctx.Case("corpus "+name, true)
	ctx.Hist("mode", "corpus")
	if !strings.HasPrefix(answers[0], "ok ") {
		ctx.Fail("L2", "corpus-file-rejected: "+c02Class(answers[0]), "the spec reader rejects a recorded file it accepted when the case was recorded: "+answers[0], map[string]any{"case": name})
	}
	if answers[1] != want {
		got, exp := strings.Split(answers[1], " "), strings.Split(want, " ")
		pos := 0
		for pos < len(got) && pos < len(exp) && got[pos] == exp[pos] {
			pos++
		}
		a, b := "<end>", "<end>"
		if pos < len(exp) {
			a = exp[pos]
		}
		if pos < len(got) {
			b = got[pos]
		}
		ctx.Fail("L2", "corpus-dump-differs", fmt.Sprintf("file.dump of a recorded file differs from the recorded hand-computed streams at token %d: expected %s got %s", pos, a, b), map[string]any{"case": name, "token": pos, "expected": a, "got": b})
	}
}
