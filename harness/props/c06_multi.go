package props

import (
	"fmt"
	"math/rand"
	"sort"
	"strings"

	"github.com/parquet-go/parquet-go"

	"verifharness/core"
)

// C06/multi: Find on the column index of a multiColumnChunk (MultiRowGroup, MergeRowGroups and the wrappers
// built on them): the page lists of the chunks' column indexes one after the other, with IsAscending /
// IsDescending recomputed across the chunk borders (multi_row_group.go).
//
// The chunk indexes come from three sources:
//
//	idx-int32 / idx-bytes : built through the exported ColumnIndexer exactly as the writer does (flags = the
//	                        writer's boundary order), served by a stand-in RowGroup/ColumnChunk
//	dict / odict          : real parquet.Buffers with a dictionary-encoded (optional) int32 column, one page
//	                        each, possibly empty / all null (indexedColumnIndex, nullableColumnIndex)
//
// L1: the property on the concatenated pages. L2: multi.find = the Lean mirror of mapPageIndex, IsAscending,
// IsDescending and Find over the same chunk indexes.
func init() { RegisterSub("C06", "multi", RunC06Multi) }

type c06MultiCase struct {
	flavour string      // idx-int32 | idx-bytes | dict | odict
	chunks  [][]c06Page // dict flavours: exactly one page per chunk; null = no value (empty or all null)
	nulls   []int       // odict: number of null rows of each chunk
}

func (c c06MultiCase) kind() string {
	if c.flavour == "idx-bytes" {
		return "bytes"
	}
	return "int32"
}

func (c c06MultiCase) canon() string {
	var sb strings.Builder
	sb.WriteString("multi ")
	sb.WriteString(c.flavour)
	for i, ch := range c.chunks {
		sb.WriteString(" |")
		for _, p := range ch {
			if p.null {
				sb.WriteString(" n")
			} else {
				fmt.Fprintf(&sb, " %d:%d%v", p.min, p.max, p.vals)
			}
		}
		if c.flavour == "odict" {
			fmt.Fprintf(&sb, " +%dnull", c.nulls[i])
		}
	}
	return sb.String()
}

// stand-ins serving a prepared column index through the public RowGroup / ColumnChunk interfaces
type c06FakeChunk struct {
	typ   parquet.Type
	index parquet.ColumnIndex
}

func (c *c06FakeChunk) Type() parquet.Type                        { return c.typ }
func (c *c06FakeChunk) Column() int                               { return 0 }
func (c *c06FakeChunk) Pages() parquet.Pages                      { return nil }
func (c *c06FakeChunk) ColumnIndex() (parquet.ColumnIndex, error) { return c.index, nil }
func (c *c06FakeChunk) OffsetIndex() (parquet.OffsetIndex, error) { return nil, nil }
func (c *c06FakeChunk) BloomFilter() parquet.BloomFilter          { return nil }
func (c *c06FakeChunk) NumValues() int64                          { return 0 }

type c06FakeRowGroup struct {
	schema *parquet.Schema
	chunk  parquet.ColumnChunk
}

func (g *c06FakeRowGroup) NumRows() int64                          { return 0 }
func (g *c06FakeRowGroup) ColumnChunks() []parquet.ColumnChunk     { return []parquet.ColumnChunk{g.chunk} }
func (g *c06FakeRowGroup) Schema() *parquet.Schema                 { return g.schema }
func (g *c06FakeRowGroup) SortingColumns() []parquet.SortingColumn { return nil }
func (g *c06FakeRowGroup) Rows() parquet.Rows                      { return nil }

type c06DictRow struct {
	V int32 `parquet:"v,dict"`
}

type c06ODictRow struct {
	V *int32 `parquet:"v,optional,dict"`
}

var (
	c06SchemaInt32 = parquet.NewSchema("m", parquet.Group{"v": parquet.Leaf(parquet.Int32Type)})
	c06SchemaBytes = parquet.NewSchema("m", parquet.Group{"v": parquet.Leaf(parquet.ByteArrayType)})
)

// rowGroups builds the row groups of the case
func (c c06MultiCase) rowGroups() []parquet.RowGroup {
	var out []parquet.RowGroup
	for i, ch := range c.chunks {
		switch c.flavour {
		case "dict":
			b := parquet.NewGenericBuffer[c06DictRow]()
			var rows []c06DictRow
			if !ch[0].null {
				for _, v := range ch[0].vals {
					rows = append(rows, c06DictRow{V: int32(v)})
				}
			}
			if len(rows) > 0 {
				if _, err := b.Write(rows); err != nil {
					panic(err)
				}
			}
			out = append(out, b)
		case "odict":
			b := parquet.NewGenericBuffer[c06ODictRow]()
			var rows []c06ODictRow
			if !ch[0].null {
				for _, v := range ch[0].vals {
					x := int32(v)
					rows = append(rows, c06ODictRow{V: &x})
				}
			}
			for k := 0; k < c.nulls[i]; k++ {
				rows = append(rows, c06ODictRow{})
			}
			if len(rows) > 0 {
				if _, err := b.Write(rows); err != nil {
					panic(err)
				}
			}
			out = append(out, b)
		default:
			index, typ := c06Index(c06Case{kind: c.kind(), pages: ch})
			schema := c06SchemaInt32
			if c.kind() == "bytes" {
				schema = c06SchemaBytes
			}
			out = append(out, &c06FakeRowGroup{schema: schema, chunk: &c06FakeChunk{typ: typ, index: index}})
		}
	}
	return out
}

func c06BoundText(kind string, v parquet.Value) string {
	if v.IsNull() {
		return "n"
	}
	return fmt.Sprint(c06Unrank(kind, v))
}

// c06ChunkText is the model's input for one chunk, read off the chunk's own column index
func c06ChunkText(kind string, ci parquet.ColumnIndex) string {
	b := func(x bool) string {
		if x {
			return "1"
		}
		return "0"
	}
	n := ci.NumPages()
	nulls, mins, maxs := make([]string, n), make([]string, n), make([]string, n)
	for i := 0; i < n; i++ {
		nulls[i] = b(ci.NullPage(i))
		mins[i] = c06BoundText(kind, ci.MinValue(i))
		maxs[i] = c06BoundText(kind, ci.MaxValue(i))
	}
	j := func(s []string) string {
		if len(s) == 0 {
			return "-"
		}
		return strings.Join(s, ",")
	}
	return b(ci.IsAscending()) + b(ci.IsDescending()) + ":" + j(nulls) + ":" + j(mins) + ":" + j(maxs)
}

func c06MultiCheck(ctx *core.Ctx, c c06MultiCase, probes []int, reqs *[]string, pend *[]func(string)) {
	kind := c.kind()
	detail := func(extra map[string]any) map[string]any {
		m := map[string]any{"case": c.canon()}
		for k, v := range extra {
			m[k] = v
		}
		return m
	}
	var pages []c06Page
	emptyChunk, valueless := false, false
	for _, ch := range c.chunks {
		pages = append(pages, ch...)
		emptyChunk = emptyChunk || len(ch) == 0
		for _, p := range ch {
			valueless = valueless || p.null
		}
	}
	nontrivial := len(c.chunks) >= 2 && len(pages) >= 2
	ctx.Case(c.canon(), nontrivial)
	var index parquet.ColumnIndex
	var typ parquet.Type
	var chunkTexts []string
	if pan := c05Recover(func() {
		rgs := c.rowGroups()
		for _, rg := range rgs {
			ci, err := rg.ColumnChunks()[0].ColumnIndex()
			if err != nil {
				panic(err)
			}
			chunkTexts = append(chunkTexts, c06ChunkText(kind, ci))
		}
		cc := parquet.MultiRowGroup(rgs...).ColumnChunks()[0]
		typ = cc.Type()
		var err error
		if index, err = cc.ColumnIndex(); err != nil {
			panic(err)
		}
	}); pan != nil {
		ctx.Fail("L1", "multi-column-index-panics "+c.flavour, fmt.Sprint(pan), detail(nil))
		return
	}
	n := index.NumPages()
	if n != len(pages) {
		ctx.Fail("L1", "multi-num-pages "+c.flavour, fmt.Sprintf("the chunks have %d pages, the multi index %d", len(pages), n), detail(nil))
		return
	}
	ctx.Hist("multi-flavour", c.flavour)
	ctx.Hist("multi-chunks", fmt.Sprint(len(c.chunks)))
	ctx.Hist("multi-pages", c05Bucket(len(pages)))
	asc, desc := index.IsAscending(), index.IsDescending()
	order := 0
	switch {
	case asc:
		order = 1
		ctx.Hist("multi-order", "ascending")
	case desc:
		order = 2
		ctx.Hist("multi-order", "descending")
	default:
		ctx.Hist("multi-order", "unordered")
	}
	hasNull := false
	b := func(x bool) string {
		if x {
			return "1"
		}
		return "0"
	}
	vn, vmin, vmax := make([]string, n), make([]string, n), make([]string, n)
	for i := 0; i < n; i++ {
		hasNull = hasNull || index.NullPage(i)
		vn[i], vmin[i], vmax[i] = b(index.NullPage(i)), c06BoundText(kind, index.MinValue(i)), c06BoundText(kind, index.MaxValue(i))
	}
	if hasNull {
		ctx.Hist("multi-nullpages", "some")
	} else {
		ctx.Hist("multi-nullpages", "none")
	}
	if asc && !hasNull {
		ctx.Hist("multi-dispatch", "binary")
	} else {
		ctx.Hist("multi-dispatch", "linear")
	}
	// the order claims themselves are C05's (claimed boundary order of the multi view, repaired by 5dcb05b); here they
	// matter through Find only: the probes below fail when Find relies on an untruthful ASCENDING claim
	sig := fmt.Sprintf("multi %s order=%d nullpages=%v", c.flavour, order, hasNull)
	if emptyChunk {
		sig += " zero-page-chunk"
	}
	if valueless && !hasNull {
		sig += " valueless-page-not-null-page"
	}
	probeTexts := make([]string, len(probes))
	for i, v := range probes {
		probeTexts[i] = fmt.Sprint(v)
	}
	for _, nullsFirst := range []bool{false, true} {
		cmp, nfTag, nfArg := parquet.CompareNullsLast(typ.Compare), "", "0"
		if nullsFirst {
			cmp, nfTag, nfArg = parquet.CompareNullsFirst(typ.Compare), " nulls-first", "1"
		}
		gots := make([]string, len(probes))
		for pi, v := range probes {
			got := -1
			pan := c05Recover(func() { got = parquet.Find(index, c06Value(kind, v), cmp) })
			gots[pi] = fmt.Sprint(got)
			first, anyBound := -1, false
			for i, p := range pages {
				if p.null {
					continue
				}
				if p.min <= v && v <= p.max {
					anyBound = true
				}
				if first < 0 {
					for _, x := range p.vals {
						if x == v {
							first = i
							break
						}
					}
				}
			}
			if first >= 0 {
				ctx.Hist("probe", "present")
			} else {
				ctx.Hist("probe", "absent")
			}
			d := detail(map[string]any{"probe": v, "nulls_first": nullsFirst, "returned": got, "numPages": n, "first_page_with_value": first,
				"is_ascending": asc, "is_descending": desc, "chunk_indexes": chunkTexts})
			switch {
			case pan != nil:
				ctx.Fail("L1", "search-panic "+sig+nfTag, fmt.Sprintf("Find panics: %v", pan), d)
			case got < 0 || got > n:
				ctx.Fail("L1", "out-of-range "+sig+nfTag, "Find returned an index outside 0..NumPages", d)
			case first >= 0 && got > first:
				ctx.Fail("L1", "missed-page "+sig+nfTag, fmt.Sprintf("value occurs in page %d of the multi-row-group chunk but Find returned %d (NumPages=%d)", first, got, n), d)
			case got < n && (pages[got].null || v < pages[got].min || v > pages[got].max):
				ctx.Fail("L1", "bounds-exclude "+sig+nfTag, "Find returned a page whose bounds do not contain the value", d)
			case got == n && anyBound:
				ctx.Fail("L1", "numpages-but-candidate "+sig+nfTag, "Find returned NumPages although a page's bounds contain the value", d)
			}
		}
		// ---- L2: the Lean mirror of the multi index (page lookup through the offsets, recomputed flags, Find)
		zero := 0
		if kind != "int32" {
			zero = -1000
		}
		chunks := "-"
		if len(chunkTexts) > 0 {
			chunks = strings.Join(chunkTexts, "|")
		}
		j := func(s []string) string {
			if len(s) == 0 {
				return "-"
			}
			return strings.Join(s, ",")
		}
		want := fmt.Sprintf("ok %s %s %s %d %s %s %s", j(gots), b(asc), b(desc), n, j(vn), j(vmin), j(vmax))
		nf := nullsFirst
		*reqs = append(*reqs, fmt.Sprintf("multi.find %s %d %s %s", nfArg, zero, chunks, j(probeTexts)))
		*pend = append(*pend, func(ans string) {
			if ans != want {
				ctx.Fail("L2", "multi-mirror "+c.flavour, "multiColumnIndex view / order flags / Find differ from the Lean mirror", detail(map[string]any{
					"nulls_first": nf, "probes": probes, "impl": want, "model": ans, "chunk_indexes": chunkTexts}))
			}
		})
	}
}

// c06MultiRand: a page sequence laid out like c06RandCase (ascending-ish / descending-ish / random / constant), cut
// into chunks at random places, so that chunk borders fall between overlapping, touching and disjoint pages
func c06MultiRand(r *rand.Rand) c06MultiCase {
	c := c06MultiCase{flavour: []string{"idx-int32", "idx-bytes", "idx-int32", "dict", "odict"}[r.Intn(5)]}
	nch := 2 + r.Intn(3)
	mode := r.Intn(4)
	if r.Intn(3) > 0 {
		mode = 0 // the binary search is only reachable on ascending layouts
	}
	nullP := []int{0, 0, 6}[r.Intn(3)]
	base := r.Intn(8) - 4
	page := func() c06Page {
		if nullP > 0 && r.Intn(nullP) == 0 {
			return c06Page{null: true}
		}
		var lo int
		switch mode {
		case 0:
			lo = base
			base += r.Intn(3)
		case 1:
			lo = base
			base -= r.Intn(3)
		case 2:
			lo = r.Intn(24) - 6
		default:
			lo = base
		}
		k := 1 + r.Intn(3)
		vals := make([]int, k)
		for j := range vals {
			vals[j] = lo + r.Intn(4)
		}
		sort.Ints(vals)
		p := c06Page{vals: vals, min: vals[0], max: vals[k-1]}
		if strings.HasPrefix(c.flavour, "idx") && r.Intn(6) == 0 {
			p.min -= r.Intn(2)
			p.max += r.Intn(3)
		}
		return p
	}
	for i := 0; i < nch; i++ {
		switch c.flavour {
		case "dict":
			p := page()
			if r.Intn(5) == 0 {
				p = c06Page{null: true} // an empty buffer
			}
			c.chunks = append(c.chunks, []c06Page{p})
		case "odict":
			p := page()
			nn := r.Intn(3)
			if p.null && nn == 0 && r.Intn(2) == 0 {
				nn = 1 // all null rather than empty
			}
			c.chunks = append(c.chunks, []c06Page{p})
			c.nulls = append(c.nulls, nn)
		default:
			np := 2 + r.Intn(3)
			if r.Intn(6) == 0 {
				np = r.Intn(2)
			}
			if mode == 0 && r.Intn(3) == 0 {
				base -= r.Intn(4) // the next chunk starts inside the range of the previous one
			}
			var ch []c06Page
			for k := 0; k < np; k++ {
				ch = append(ch, page())
			}
			c.chunks = append(c.chunks, ch)
		}
	}
	return c
}

func RunC06Multi(ctx *core.Ctx) {
	ctx.SetRule("column index of MultiRowGroup(...) over 2..4 chunks: chunk indexes built through the exported ColumnIndexer (int32 / byte-array, null pages anywhere, exact or widened bounds, 0..4 pages) behind stand-in row groups, or real dictionary-encoded parquet.Buffers (required / optional int32, empty and all-null included); exhaustive small scope (2 chunks x <= 2 pages over a 4-value domain; thorough also 3 chunks over a 3-value domain) plus random layouts whose chunk borders overlap, touch or are disjoint; every probe in the value domain x both null orderings; distinct by canonical text, non-trivial = at least 2 chunks and 2 pages")
	d := ctx.Driver()
	var reqs []string
	var pend []func(string)
	flush := func(force bool) {
		if force || len(reqs) > 4000 {
			c06Flush(ctx, d, &reqs, &pend)
		}
	}
	shapesOf := func(dom int) []c06Page {
		shapes := []c06Page{{null: true}}
		for a := 0; a < dom; a++ {
			for b := a; b < dom; b++ {
				shapes = append(shapes, c06Page{vals: []int{a, b}, min: a, max: b})
			}
		}
		return shapes
	}
	chunkShapes := func(dom, maxPages int) [][]c06Page {
		shapes := shapesOf(dom)
		out := [][]c06Page{nil}
		var rec func(prefix []c06Page)
		rec = func(prefix []c06Page) {
			if len(prefix) > 0 {
				out = append(out, append([]c06Page(nil), prefix...))
			}
			if len(prefix) == maxPages {
				return
			}
			for _, s := range shapes {
				rec(append(prefix, s))
			}
		}
		rec(nil)
		return out
	}
	// exhaustive: 2 chunks x <= 2 pages, 4-value domain
	cs4 := chunkShapes(4, 2)
	for _, a := range cs4 {
		for _, b := range cs4 {
			c06MultiCheck(ctx, c06MultiCase{flavour: "idx-int32", chunks: [][]c06Page{a, b}}, []int{-1, 0, 1, 2, 3, 4}, &reqs, &pend)
			flush(false)
		}
	}
	if ctx.Thorough() {
		cs3 := chunkShapes(3, 2)
		for _, a := range cs3 {
			for _, b := range cs3 {
				for _, e := range cs3 {
					c06MultiCheck(ctx, c06MultiCase{flavour: "idx-int32", chunks: [][]c06Page{a, b, e}}, []int{-1, 0, 1, 2, 3}, &reqs, &pend)
					flush(false)
				}
			}
		}
	}
	// exhaustive: dictionary buffers, 3 chunks, each empty or [a,b] over a 3-value domain shifted below zero
	// (the zero value is what a raw comparison reads out of a null bound)
	for _, fl := range []string{"dict", "odict"} {
		shapes := shapesOf(3)
		for i := range shapes {
			if !shapes[i].null {
				s := shapes[i]
				shapes[i] = c06Page{vals: []int{s.min - 1, s.max - 1}, min: s.min - 1, max: s.max - 1}
			}
		}
		for _, a := range shapes {
			for _, b := range shapes {
				for _, e := range shapes {
					c := c06MultiCase{flavour: fl, chunks: [][]c06Page{{a}, {b}, {e}}, nulls: []int{0, 1, 0}}
					c06MultiCheck(ctx, c, []int{-2, -1, 0, 1, 2}, &reqs, &pend)
					flush(false)
				}
			}
		}
	}
	flush(true)
	// random, larger
	r := ctx.Rand("c06multi")
	n := ctx.Scale(12000, 150000)
	for i := 0; i < n; i++ {
		c := c06MultiRand(r)
		if i < 3 {
			ctx.Sample(map[string]any{"multi": c.canon()})
		}
		lo, hi := 0, 0
		for _, ch := range c.chunks {
			for _, p := range ch {
				if !p.null {
					lo, hi = min(lo, p.min), max(hi, p.max)
				}
			}
		}
		var ps []int
		for v := lo - 1; v <= hi+1; v++ {
			ps = append(ps, v)
		}
		c06MultiCheck(ctx, c, ps, &reqs, &pend)
		flush(false)
	}
	flush(true)
}
