package props

import (
	"bytes"
	"fmt"
	"io"
	"math/rand"
	"strings"
	"sync"

	"verifharness/core"
	"verifharness/gen"

	"github.com/parquet-go/parquet-go"
)

// C11 / colwriter — the column-oriented write API (ColumnWriter.WriteRowValues / Flush / Close,
// writer.go) against the row path and against the Lean mirror PqModel/ColWriter.lean.
//
// Catalogue rows are deconstructed once; file A is written through Writer.WriteRows (one call),
// file B through Writer.ColumnWriters(): per column the values of the rows are handed to
// WriteRowValues in a random split into batches of whole rows (a different split per column),
// with Flush and Close calls of the column writer in between, the columns interleaved at random.
// L1 (property, independent of the mirror): A and B hold one row group with the same number of
//     rows and, per column, the same stream of (value, repetition level, definition level) — the
//     stream of the deconstructed rows; every data page of B starts at repetition level 0 and
//     FirstRowIndex of its offset index counts the rows of the pages before it.
// L2 (op colw.run): after EVERY call on a column writer of B the state read through the hook
//     VerifColumnWriterStateOf (buffer present, Len, Size, numRows, pages written, totalRowCount)
//     and the returned row count are the mirror's; the values and rows per data page and the
//     FirstRowIndex entries of B's file are the mirror's after the final flush.
//     (op colw.rows) the values per data page and FirstRowIndex entries of A's file are what the
//     mirror of ConcurrentRowGroupWriter.WriteRows (chunks of 64 rows, empty chunks skipped) gives.
// One case in three sets MaxRowsPerRowGroup(1|2|7|64|65|100) on both writers: L1 every row group of A
//     has at most that many rows (and A, B still hold the same streams); L2 (op colw.rowsmax) the
//     row groups of A (rows and values per data page of each) are the mirror's of writer.WriteRows /
//     writeRows / writeRowGroup; B is ONE row group as the mirror says (Lean: colpath_ignores_max_rows)
//     — recorded as an observation outside the property, not as a failure.
func init() { RegisterSub("C11", "colwriter", RunC11ColWriter) }

type c11cwPage struct {
	n     int
	rows  int
	first int64
	rep0  bool
}

type c11cwGroup struct {
	numRows int64
	pages   []c11cwPage
}

// the pages of column chunk ci of every row group of a file, and the column's stream over the file
func c11cwRead(file []byte, ci int, repeated bool) (groups []c11cwGroup, stream []string, err error) {
	defer func() {
		if r := recover(); r != nil {
			err = fmt.Errorf("PANIC: %v", r)
		}
	}()
	f, e := parquet.OpenFile(bytes.NewReader(file), int64(len(file)))
	if e != nil {
		return nil, nil, e
	}
	buf := make([]parquet.Value, 257)
	for _, rg := range f.RowGroups() {
		g := c11cwGroup{numRows: rg.NumRows()}
		chunk := rg.ColumnChunks()[ci]
		oi, _ := chunk.OffsetIndex()
		ps := chunk.Pages()
		for pi := 0; ; pi++ {
			p, e := ps.ReadPage()
			if e == io.EOF {
				break
			}
			if e != nil {
				ps.Close()
				return groups, stream, e
			}
			pg := c11cwPage{n: int(p.NumValues()), rows: int(p.NumRows()), first: -1, rep0: true}
			if oi != nil && pi < oi.NumPages() {
				pg.first = oi.FirstRowIndex(pi)
			}
			vr := p.Values()
			k := 0
			for {
				n, e := vr.ReadValues(buf)
				for _, v := range buf[:n] {
					if k == 0 && repeated && v.RepetitionLevel() != 0 {
						pg.rep0 = false
					}
					k++
					stream = append(stream, gen.TripleOf(v).String())
				}
				if e != nil {
					if e != io.EOF {
						parquet.Release(p)
						ps.Close()
						return groups, stream, e
					}
					break
				}
			}
			parquet.Release(p)
			g.pages = append(g.pages, pg)
		}
		ps.Close()
		groups = append(groups, g)
	}
	return groups, stream, nil
}

func c11cwGroupsText(gs []c11cwGroup) string {
	if len(gs) == 0 {
		return "-"
	}
	var ss []string
	for _, g := range gs {
		ss = append(ss, fmt.Sprintf("%d:%s", g.numRows, c11cwInts(g.pages, func(p c11cwPage) int64 { return int64(p.n) })))
	}
	return strings.Join(ss, "|")
}

// bytes a stored value adds to Size() of the base column buffer; ok = false: not additive (boolean bits)
func c11cwValueSize(leaf parquet.LeafColumn, dict bool, v parquet.Value) (int, bool) {
	if dict {
		return 4, true
	}
	switch leaf.Node.Type().Kind() {
	case parquet.Int32, parquet.Float:
		return 4, true
	case parquet.Int64, parquet.Double:
		return 8, true
	case parquet.Int96:
		return 12, true
	case parquet.ByteArray:
		return 4 + len(v.ByteArray()), true
	case parquet.FixedLenByteArray:
		return leaf.Node.Type().Length(), true
	}
	return 0, false
}

func c11cwToken(leaf parquet.LeafColumn, dict bool, v parquet.Value) (string, bool) {
	start := v.RepetitionLevel() == 0
	if v.DefinitionLevel() != leaf.MaxDefinitionLevel {
		if start {
			return "n", true
		}
		return "m", true
	}
	sz, ok := c11cwValueSize(leaf, dict, v)
	if start {
		return fmt.Sprintf("s%d", sz), ok
	}
	return fmt.Sprintf("c%d", sz), ok
}

func c11cwTrunc(s string, n int) string {
	if len(s) > n {
		return s[:n] + fmt.Sprintf("...(%d bytes)", len(s))
	}
	return s
}

func c11cwJoin(ts []string) string {
	if len(ts) == 0 {
		return "-"
	}
	return strings.Join(ts, ".")
}

func c11cwInts(pages []c11cwPage, f func(c11cwPage) int64) string {
	if len(pages) == 0 {
		return "-"
	}
	var ss []string
	for _, p := range pages {
		ss = append(ss, fmt.Sprint(f(p)))
	}
	return strings.Join(ss, ",")
}

func c11cwFinal(pages []c11cwPage, numRows int64, withRows bool) string {
	nv := int64(0)
	for _, p := range pages {
		nv += int64(p.n)
	}
	s := "pages=" + c11cwInts(pages, func(p c11cwPage) int64 { return int64(p.n) })
	if withRows {
		s += " rows=" + c11cwInts(pages, func(p c11cwPage) int64 { return int64(p.rows) })
	}
	return s + " first=" + c11cwInts(pages, func(p c11cwPage) int64 { return p.first }) + fmt.Sprintf(" numRows=%d numValues=%d", numRows, nv)
}

func c11cwState(s parquet.VerifColumnWriterState, ret int) string {
	return fmt.Sprintf("%d,%d,%d,%d,%d,%d,%d", b2i(s.HasBuffer), s.Len, s.Size, s.NumRows, s.NumPages, s.TotalRowCount, ret)
}

func c11RunColWriter(ctx *core.Ctx, d interface {
	AskMany([]string) ([]string, error)
}, e *gen.Entry, r *rand.Rand, sample bool) {
	n := []int{1, 2, 3, 63, 64, 65, 129, 200, 400}[r.Intn(9)]
	prof := &gen.Profile{NullProb: []float64{0.1, 0.5}[r.Intn(2)], MaxLen: 1 + r.Intn(5), SmallDomain: r.Intn(2) == 0}
	vals := e.NewRows(n)
	gen.FillRows(r, vals, prof)
	rows := make([]parquet.Row, n)
	for i := range rows {
		rows[i] = e.Schema.Deconstruct(nil, vals.Index(i).Interface())
	}
	paths := e.Schema.Columns()
	ncol := len(paths)
	if ncol == 0 {
		return
	}
	leaves := make([]parquet.LeafColumn, ncol)
	for ci := range paths {
		leaves[ci], _ = e.Schema.Lookup(paths[ci]...)
	}
	// per column, per row, the values
	colRows := make([][][]parquet.Value, ncol)
	for ci := range colRows {
		colRows[ci] = make([][]parquet.Value, n)
	}
	for ri, row := range rows {
		for _, v := range row {
			colRows[v.Column()][ri] = append(colRows[v.Column()][ri], v)
		}
	}
	pbs := []int{1, 40, 64, 200, 1000, 4096, 20000}[r.Intn(7)]
	ver := 1 + r.Intn(2)
	opts := []parquet.WriterOption{parquet.PageBufferSize(pbs), parquet.DataPageVersion(ver)}
	desc := fmt.Sprintf("PageBufferSize(%d) DataPageVersion(%d)", pbs, ver)
	maxRows := []int{0, 0, 0, 1, 2, 7, 64, 65, 100}[r.Intn(9)]
	if maxRows > 0 {
		opts = append(opts, parquet.MaxRowsPerRowGroup(int64(maxRows)))
		desc += fmt.Sprintf(" MaxRowsPerRowGroup(%d)", maxRows)
	}
	var texts []string
	for i := 0; i < n && i < 12; i++ {
		var one gen.Shredder
		texts = append(texts, one.ShredRow(e.Schema, vals.Index(i)))
	}
	detail := func(extra map[string]any) map[string]any {
		m := map[string]any{"type": e.Name, "options": desc, "num_rows": n, "rows": texts, "regenerate": "stream c11-colwriter/" + e.Name}
		for k, v := range extra {
			m[k] = v
		}
		return m
	}

	// file A: the row path
	var fileA []byte
	errA := func() (err error) {
		defer func() {
			if rec := recover(); rec != nil {
				err = fmt.Errorf("PANIC: %v", rec)
			}
		}()
		var buf bytes.Buffer
		pw := parquet.NewWriter(&buf, append([]parquet.WriterOption{e.Schema}, opts...)...)
		cp := make([]parquet.Row, n)
		for i := range rows {
			cp[i] = rows[i].Clone()
		}
		if _, err := pw.WriteRows(cp); err != nil {
			return err
		}
		if err := pw.Close(); err != nil {
			return err
		}
		fileA = buf.Bytes()
		return nil
	}()

	// file B: the column writers, call by call
	type colHist struct {
		ops    []string // mirror ops
		trace  []string // observed states
		kind   string
		bs     int32
		dict   bool
		sizeOK bool
		plain  bool
	}
	hist := make([]*colHist, ncol)
	var fileB []byte
	var callDesc []string
	errB := func() (err error) {
		defer func() {
			if rec := recover(); rec != nil {
				err = fmt.Errorf("PANIC: %v", rec)
			}
		}()
		var buf bytes.Buffer
		pw := parquet.NewWriter(&buf, append([]parquet.WriterOption{e.Schema}, opts...)...)
		cws := pw.ColumnWriters()
		if len(cws) != ncol {
			return fmt.Errorf("%d column writers for %d leaf columns", len(cws), ncol)
		}
		next := make([]int, ncol) // next row of the column
		for ci := range hist {
			s := parquet.VerifColumnWriterStateOf(cws[ci])
			h := &colHist{bs: s.BufferSize, dict: s.Dictionary, sizeOK: true, kind: "flat"}
			if s.MaxRep > 0 {
				h.kind = "repeated"
			} else if s.MaxDef > 0 {
				h.kind = "optional"
			}
			hist[ci] = h
		}
		maxBatch := []int{1, 2, 5, 64, 100, 1000}[r.Intn(6)]
		left := ncol
		for left > 0 {
			ci := r.Intn(ncol)
			if next[ci] >= n {
				continue
			}
			h := hist[ci]
			switch x := r.Intn(12); {
			case x == 0:
				if err := cws[ci].Flush(); err != nil {
					return fmt.Errorf("ColumnWriter[%d].Flush: %w", ci, err)
				}
				h.ops = append(h.ops, "f")
				h.trace = append(h.trace, c11cwState(parquet.VerifColumnWriterStateOf(cws[ci]), 0))
				ctx.Hist("colwriter call", "Flush")
			case x == 1:
				if err := cws[ci].Close(); err != nil {
					return fmt.Errorf("ColumnWriter[%d].Close: %w", ci, err)
				}
				h.ops = append(h.ops, "x")
				h.trace = append(h.trace, c11cwState(parquet.VerifColumnWriterStateOf(cws[ci]), 0))
				ctx.Hist("colwriter call", "Close")
			default:
				k := 1 + r.Intn(maxBatch)
				if x == 2 {
					k = 0 // an empty batch
				}
				if next[ci]+k > n {
					k = n - next[ci]
				}
				var batch []parquet.Value
				var toks []string
				for _, rv := range colRows[ci][next[ci] : next[ci]+k] {
					for _, v := range rv {
						t, ok := c11cwToken(leaves[ci], h.dict, v)
						if !ok {
							h.sizeOK = false
						}
						toks = append(toks, t)
						batch = append(batch, v.Clone())
					}
				}
				next[ci] += k
				ret, err := cws[ci].WriteRowValues(batch)
				if err != nil {
					return fmt.Errorf("ColumnWriter[%d].WriteRowValues: %w", ci, err)
				}
				if ret != k {
					ctx.Fail("L1", "write-row-values-returns-wrong-row-count kind="+h.kind, fmt.Sprintf("WriteRowValues of %d whole rows (%d values) of column %d returned %d", k, len(batch), ci, ret), detail(map[string]any{"column": ci}))
				}
				h.ops = append(h.ops, "w:"+c11cwJoin(toks))
				s := parquet.VerifColumnWriterStateOf(cws[ci])
				if s.SwitchedPlain {
					h.plain = true
				}
				h.trace = append(h.trace, c11cwState(s, ret))
				ctx.Hist("colwriter call", "WriteRowValues rows="+c11Bucket(k))
				if len(callDesc) < 40 {
					callDesc = append(callDesc, fmt.Sprintf("col%d.WriteRowValues(%d rows)", ci, k))
				}
				if next[ci] >= n {
					left--
				}
			}
		}
		if err := pw.Close(); err != nil {
			return err
		}
		fileB = buf.Bytes()
		return nil
	}()
	canon := fmt.Sprintf("colwriter|%s|%s|%d|%s", e.Name, desc, n, strings.Join(texts, "|"))
	if errA != nil || errB != nil {
		ctx.Case(canon, false)
		if errA != nil {
			ctx.Fail("L1", "colwriter-row-path-write-error "+errClass(errA), "WriteRows of deconstructed catalogue rows failed: "+errA.Error(), detail(nil))
		}
		if errB != nil {
			ctx.Fail("L1", "colwriter-column-path-write-error "+errClass(errB), "writing whole rows through ColumnWriters failed: "+errB.Error(), detail(map[string]any{"calls": callDesc}))
		}
		return
	}
	var reqs []string
	type ask struct {
		ci   int
		what string // "run" | "rows"
		want string
	}
	var asks []ask
	nontrivial := false
	for ci := range paths {
		h := hist[ci]
		rep := h.kind == "repeated"
		groupsA, streamA, eA := c11cwRead(fileA, ci, rep)
		groupsB, streamB, eB := c11cwRead(fileB, ci, rep)
		key := func(s string) string { return s + " kind=" + h.kind }
		if eA != nil || eB != nil || len(groupsA) == 0 || len(groupsB) == 0 {
			ctx.Fail("L1", key("colwriter-output-unreadable"), fmt.Sprintf("row path: %v (%d row groups); column path: %v (%d row groups)", eA, len(groupsA), eB, len(groupsB)), detail(map[string]any{"column": ci, "calls": callDesc}))
			continue
		}
		var nrA, nrB int64
		for gi, g := range groupsA {
			nrA += g.numRows
			if maxRows > 0 && g.numRows > int64(maxRows) || maxRows == 0 && gi > 0 {
				ctx.Fail("L1", key("colwriter-row-path-row-group-size"), fmt.Sprintf("row group %d of the file written through WriteRows has %d rows under %s", gi, g.numRows, desc), detail(map[string]any{"column": ci}))
				break
			}
		}
		for _, g := range groupsB {
			nrB += g.numRows
		}
		if len(groupsB) != 1 {
			// the mirror (cwWrite / writeRowGroup, colpath_ignores_max_rows): the column-oriented path never starts a row group
			ctx.Fail("L2", key("colwriter-column-path-row-groups-vs-mirror"), fmt.Sprintf("the file written through ColumnWriters has %d row groups (%s), the mirror writes one", len(groupsB), c11cwGroupsText(groupsB)), detail(map[string]any{"column": ci, "calls": callDesc}))
			continue
		}
		if ci == 0 && maxRows > 0 && nrB > int64(maxRows) {
			ctx.Observe("colwriter-column-path-ignores-MaxRowsPerRowGroup", fmt.Sprintf("%d rows written through ColumnWriter.WriteRowValues under MaxRowsPerRowGroup(%d) are one row group of %d rows (the row path writes %d row groups); Lean: colpath_ignores_max_rows", n, maxRows, nrB, len(groupsA)), detail(nil))
			ctx.Hist("colwriter MaxRowsPerRowGroup", "column path exceeds the limit")
		}
		pagesA, pagesB := groupsA[0].pages, groupsB[0].pages
		var want []string
		for _, rv := range colRows[ci] {
			for _, v := range rv {
				want = append(want, gen.TripleOf(v).String())
			}
		}
		if nrA != int64(n) || nrB != int64(n) {
			ctx.Fail("L1", key("colwriter-row-count"), fmt.Sprintf("%d rows written; the row group of the row path has %d rows, of the column path %d", n, nrA, nrB), detail(map[string]any{"column": ci, "calls": callDesc}))
		}
		if strings.Join(streamB, " ") != strings.Join(streamA, " ") {
			ctx.Fail("L1", key("colwriter-stream-differs-from-row-path"), fmt.Sprintf("column %d: the file written through ColumnWriter.WriteRowValues holds %d values, the file written through WriteRows %d, or they differ", ci, len(streamB), len(streamA)),
				detail(map[string]any{"column": ci, "calls": callDesc, "column_path": c11cwTrunc(strings.Join(streamB, " "), 2000), "row_path": c11cwTrunc(strings.Join(streamA, " "), 2000)}))
		} else if strings.Join(streamA, " ") != strings.Join(want, " ") {
			ctx.Fail("L1", key("colwriter-stream-differs-from-rows"), fmt.Sprintf("column %d: both files hold a stream other than the values of the rows written", ci), detail(map[string]any{"column": ci}))
		}
		rowsBefore := int64(0)
		for pi, p := range pagesB {
			if !p.rep0 {
				ctx.Fail("L1", key("colwriter-page-starts-mid-row"), fmt.Sprintf("data page %d of column %d written through ColumnWriter starts at repetition level > 0", pi, ci), detail(map[string]any{"column": ci, "calls": callDesc}))
				break
			}
			if p.first != rowsBefore {
				ctx.Fail("L1", key("colwriter-first-row-index"), fmt.Sprintf("column %d page %d: FirstRowIndex %d, the pages before it hold %d rows", ci, pi, p.first, rowsBefore), detail(map[string]any{"column": ci, "calls": callDesc}))
				break
			}
			rowsBefore += int64(p.rows)
		}
		ctx.Hist("colwriter column", fmt.Sprintf("kind=%s dict=%v pages(column path)=%s pages(row path)=%s", h.kind, h.dict, c11Bucket(len(pagesB)), c11Bucket(len(pagesA))))
		if len(pagesB) > 1 && len(h.ops) > 1 {
			nontrivial = true
		}
		if !h.sizeOK || h.plain {
			ctx.Hist("colwriter L2 skipped", fmt.Sprintf("size-not-additive=%v switched-to-plain=%v", !h.sizeOK, h.plain))
			continue
		}
		ops := "-"
		if len(h.ops) > 0 {
			ops = strings.Join(h.ops, ";")
		}
		tr := "-"
		if len(h.trace) > 0 {
			tr = strings.Join(h.trace, ";")
		}
		reqs = append(reqs, fmt.Sprintf("colw.run %s %d %s", h.kind, h.bs, ops))
		asks = append(asks, ask{ci, "run", "ok " + tr + " " + c11cwFinal(pagesB, nrB, true)})
		var rts []string
		for _, rv := range colRows[ci] {
			var ts []string
			for _, v := range rv {
				t, _ := c11cwToken(leaves[ci], h.dict, v)
				ts = append(ts, t)
			}
			rts = append(rts, c11cwJoin(ts))
		}
		if maxRows == 0 {
			reqs = append(reqs, fmt.Sprintf("colw.rows %s %d %s", h.kind, h.bs, strings.Join(rts, "/")))
			asks = append(asks, ask{ci, "rows", c11cwFinal(pagesA, nrA, true)})
		} else {
			reqs = append(reqs, fmt.Sprintf("colw.rowsmax %s %d %d %s", h.kind, h.bs, maxRows, strings.Join(rts, "/")))
			asks = append(asks, ask{ci, "rowsmax", "ok " + c11cwGroupsText(groupsA)})
			ctx.Hist("colwriter MaxRowsPerRowGroup", fmt.Sprintf("row path: limit=%d row groups=%s", maxRows, c11Bucket(len(groupsA))))
		}
	}
	ctx.Case(canon, nontrivial)
	ctx.Hist("colwriter page buffer", fmt.Sprint(pbs))
	if sample {
		ctx.Sample(detail(map[string]any{"calls": callDesc}))
	}
	if d == nil || len(reqs) == 0 {
		return
	}
	ans, err := d.AskMany(reqs)
	if err != nil {
		ctx.Fail("L2", "driver-error", err.Error(), nil)
		return
	}
	for i, a := range ans {
		q := asks[i]
		h := hist[q.ci]
		switch q.what {
		case "run":
			if a != q.want {
				ctx.Fail("L2", fmt.Sprintf("colwriter-history-vs-mirror kind=%s dict=%v", h.kind, h.dict),
					fmt.Sprintf("column %d: the states of the ColumnWriter after each call / the pages of its file differ from the mirror's", q.ci),
					detail(map[string]any{"column": q.ci, "request": c11cwTrunc(reqs[i], 4000), "mirror": c11cwTrunc(a, 4000), "observed": c11cwTrunc(q.want, 4000)}))
			}
		case "rowsmax":
			if a != q.want {
				ctx.Fail("L2", fmt.Sprintf("colwriter-row-path-row-groups-vs-mirror kind=%s dict=%v", h.kind, h.dict),
					fmt.Sprintf("column %d: the row groups (rows : values per data page) WriteRows wrote under %s differ from the mirror of writer.WriteRows / writeRows / writeRowGroup", q.ci, desc),
					detail(map[string]any{"column": q.ci, "mirror": c11cwTrunc(a, 4000), "observed": c11cwTrunc(q.want, 4000)}))
			}
		case "rows":
			fs := strings.SplitN(a, " ", 3)
			if len(fs) != 3 || fs[0] != "ok" {
				ctx.Fail("L2", "driver-bad-answer", "pqdriver did not answer colw.rows", map[string]any{"request": c11cwTrunc(reqs[i], 2000), "answer": a})
				continue
			}
			if fs[2] != q.want {
				ctx.Fail("L2", fmt.Sprintf("colwriter-row-path-pages-vs-mirror kind=%s dict=%v", h.kind, h.dict),
					fmt.Sprintf("column %d: the data pages WriteRows wrote differ from the mirror of the 64-row chunking over WriteRowValues", q.ci),
					detail(map[string]any{"column": q.ci, "mirror": c11cwTrunc(fs[2], 4000), "observed": c11cwTrunc(q.want, 4000), "batches": c11cwTrunc(fs[1], 1000)}))
			}
		}
	}
}

func RunC11ColWriter(ctx *core.Ctx) {
	per := ctx.Scale(8, 40)
	var wg sync.WaitGroup
	sem := make(chan struct{}, 16)
	for ei, e := range gen.Catalog {
		wg.Add(1)
		sem <- struct{}{}
		go func(ei int, e *gen.Entry) {
			defer wg.Done()
			defer func() { <-sem }()
			d := ctx.Driver()
			r := ctx.Rand("c11-colwriter/" + e.Name)
			for k := 0; k < per; k++ {
				func() {
					defer func() {
						if rec := recover(); rec != nil {
							ctx.Fail("L1", "panic-in-colwriter-case", fmt.Sprintf("building the rows or comparing the files panicked: %v", rec), map[string]any{"type": e.Name})
						}
					}()
					if d == nil {
						c11RunColWriter(ctx, nil, e, r, false)
					} else {
						c11RunColWriter(ctx, d, e, r, ei == 2 && k == 0)
					}
				}()
			}
		}(ei, e)
	}
	wg.Wait()
}
