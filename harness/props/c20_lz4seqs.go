package props

// C20 round 6, sub-check `lz4seqs`: the LZ4 block format on SEQUENCES
// (lean/PqModel/Spec/Lz4Seqs.lean, theorems in lean/PqModel/Props/C20Lz4.lean).
//
// (A) generated sequence lists (literal runs / match lengths around the 4-bit field and the 255-byte
//     extensions, offsets 1, 2, .., "everything so far", overlapping or not; a share with an offset
//     of 0 or one byte too far; final literal runs that do and do not obey the end-of-block rules)
//     are written by the Lean encoder `encSeqs` (`lz4.encseqs`) and read by the REAL decoder
//     (compress/lz4 Codec.Decode -> pierrec UncompressBlock, amd64 assembly): on a writable list the
//     real decoder must return what `applySeqs` says (= what `lz4Dec` answers, theorem
//     lz4_reader_inverts_every_sequence_list).
// (B) every output of the REAL encoder (all levels) is split into sequences by `lz4.parse`: the
//     stream must re-encode to itself, be writable, obey the end-of-block rules and mean the input —
//     it lies in the domain of the theorem.
// (C) streams of the proved greedy reference encoder (`lz4.greedy`) through the real decoder.

import (
	"bytes"
	"fmt"
	"math/rand"
	"strings"
	"sync"

	"github.com/parquet-go/parquet-go/compress/lz4"

	"verifharness/core"
)

func init() { RegisterSub("C20", "lz4seqs", RunC20Lz4Seqs) }

type c20Seq struct {
	lits    []byte
	off, ml int
}

func c20SeqsText(seqs []c20Seq, last []byte) string {
	if len(seqs) == 0 {
		return "- " + core.Hex(last)
	}
	var sb strings.Builder
	for i, s := range seqs {
		if i > 0 {
			sb.WriteByte(',')
		}
		fmt.Fprintf(&sb, "%s:%d:%d", core.Hex(s.lits), s.off, s.ml)
	}
	return sb.String() + " " + core.Hex(last)
}

var c20LenEdges = []int{0, 1, 2, 3, 13, 14, 15, 16, 17, 254, 255, 268, 269, 270, 271, 272, 524, 525, 526}

// one generated list; bad = "" | "zero" | "far"
func c20GenSeqs(r *rand.Rand) (seqs []c20Seq, last []byte, bad string) {
	n := 0
	k := r.Intn(6)
	if r.Intn(10) == 0 {
		k = 0
	}
	badAt := -1
	if k > 0 && r.Intn(8) == 0 {
		badAt = r.Intn(k)
	}
	pick := func() int {
		if r.Intn(3) == 0 {
			return c20LenEdges[r.Intn(len(c20LenEdges))]
		}
		return r.Intn(20)
	}
	for i := 0; i < k; i++ {
		ll := pick()
		if n+ll == 0 {
			ll = 1 + r.Intn(16)
		}
		lits := make([]byte, ll)
		for j := range lits {
			lits[j] = byte(r.Intn(4)) + 'a'
		}
		n += ll
		var off int
		switch r.Intn(7) {
		case 0:
			off = 1
		case 1:
			off = 2 + r.Intn(3)
		case 2:
			off = n
		case 3:
			off = n - r.Intn(2)
		case 4:
			off = []int{255, 256, 257, 511, 512}[r.Intn(5)]
		default:
			off = 1 + r.Intn(n)
		}
		if off > n {
			off = n
		}
		if off < 1 {
			off = 1
		}
		if off > 65535 {
			off = 65535
		}
		ml := pick()
		if i == badAt {
			if r.Intn(2) == 0 {
				off, bad = 0, "zero"
			} else {
				off, bad = n+1+r.Intn(3)*7, "far"
			}
		}
		seqs = append(seqs, c20Seq{lits, off, ml})
		n += ml + 4
	}
	ll := []int{0, 1, 4, 5, 6, 11, 12, 13, 15, 16, 300}[r.Intn(11)]
	if r.Intn(2) == 0 {
		ll = 5 + r.Intn(12)
	}
	last = make([]byte, ll)
	for j := range last {
		last[j] = byte(r.Intn(4)) + 'w'
	}
	return
}

func c20Lz4RealDecode(blk []byte, shape int, want int) (out []byte, err error, panicked any) {
	defer func() {
		if p := recover(); p != nil {
			panicked = p
		}
	}()
	var dst []byte
	switch shape % 4 {
	case 1: // exactly the decoded size, dirty
		dst = bytes.Repeat([]byte{0xFF}, want)[:0]
	case 2: // one byte short, dirty
		if want > 0 {
			dst = bytes.Repeat([]byte{0xFF}, want-1)[:0]
		}
	case 3: // large, dirty
		dst = bytes.Repeat([]byte{0xFF}, want+1000)[:0]
	}
	c := &lz4.Codec{}
	out, err = c.Decode(dst, blk)
	return
}

var c20Lz4Levels = []lz4.Level{lz4.Fastest, lz4.Fast, lz4.Level1, lz4.Level2, lz4.Level3, lz4.Level4, lz4.Level5, lz4.Level6, lz4.Level7, lz4.Level8, lz4.Level9}

func c20Lz4Input(r *rand.Rand, big bool) (string, []byte) {
	lens := []int{0, 1, 2, 4, 5, 6, 11, 12, 13, 14, 15, 16, 17, 18, 19, 20, 21, 31, 32, 33, 63, 64, 65, 66, 127, 128, 129, 255, 256, 257, 269, 270, 274, 275, 300, 529, 530, 1000, 1023, 1024, 1025, 4096}
	n := lens[r.Intn(len(lens))]
	if big {
		n = []int{65535, 65536, 65537, 65555, 70000, 131100}[r.Intn(6)]
	}
	kinds := []string{"runs", "zero", "alpha4", "text", "rand", "period", "farcopy"}
	kind := kinds[r.Intn(len(kinds))]
	seed := r.Int63n(1 << 40)
	name := fmt.Sprintf("%s/%d/%d", kind, n, seed)
	switch kind {
	case "period": // period p: matches at offset p, overlapping
		rr := rand.New(rand.NewSource(seed))
		p := 1 + rr.Intn(40)
		b := make([]byte, n)
		for i := range b {
			if i < p {
				b[i] = byte(rr.Intn(256))
			} else {
				b[i] = b[i-p]
			}
		}
		return name, b
	case "farcopy": // random half, then a copy of it: offsets about n/2 (up to and beyond 65535)
		rr := rand.New(rand.NewSource(seed))
		b := make([]byte, n)
		rr.Read(b[:n/2])
		copy(b[n/2:], b[:n/2])
		return name, b
	}
	return name, c20Input{Kind: kind, Len: n, Seed: seed}.Bytes()
}

func c20Field(ans, key string) string {
	for _, f := range strings.Fields(ans) {
		if strings.HasPrefix(f, key+"=") {
			return strings.TrimPrefix(f, key+"=")
		}
	}
	return "?"
}

func RunC20Lz4Seqs(ctx *core.Ctx) {
	ctx.SetRule("a sequence list is non-trivial when it has at least one match; an encoder input when it has at least 13 bytes (shorter blocks cannot hold a match)")
	nw := 8
	nA := ctx.Scale(6000, 60000)
	nB := ctx.Scale(2500, 25000)
	nC := ctx.Scale(400, 3000)
	var wg sync.WaitGroup
	for w := 0; w < nw; w++ {
		wg.Add(1)
		go func(w int) {
			defer wg.Done()
			d := ctx.Driver()
			if d == nil {
				return
			}
			r := ctx.Rand(fmt.Sprintf("c20-lz4seqs-%d", w))
			// ---------------- (A) generated sequence lists -> real decoder
			var reqs []string
			var bads []string
			for i := w; i < nA; i += nw {
				seqs, last, bad := c20GenSeqs(r)
				txt := c20SeqsText(seqs, last)
				ctx.Case("seqs "+txt, len(seqs) > 0)
				reqs = append(reqs, "lz4.encseqs "+txt)
				bads = append(bads, bad)
			}
			ans, err := d.AskMany(reqs)
			if err != nil {
				ctx.Fail("L2", "driver-error", err.Error(), nil)
				return
			}
			for i, a := range ans {
				f := strings.Fields(a)
				if len(f) != 5 || f[0] != "ok" {
					ctx.Fail("L2", "lz4seqs-model-answer", "pqdriver did not answer ok to lz4.encseqs", map[string]any{"request": reqs[i], "answer": a})
					continue
				}
				blk := mustHex(strings.Replace(f[1], "-", "", 1))
				writable, endok := f[2] == "w=1", f[3] == "e=1"
				if writable != (bads[i] == "") {
					ctx.Fail("L2", "lz4seqs-generator-vs-seqsOk", "the generator's idea of a writable list differs from seqsOk", map[string]any{"request": reqs[i], "answer": a})
					continue
				}
				var want []byte
				if writable {
					want = mustHex(strings.Replace(strings.TrimPrefix(f[4], "ok:"), "-", "", 1))
				}
				got, derr, pan := c20Lz4RealDecode(blk, i, len(want))
				cls := "ok"
				if pan != nil {
					cls = "panic"
				} else if derr != nil {
					cls = "error"
				}
				ctx.Hist("c20.lz4seqs-real-decoder", fmt.Sprintf("writable=%v/end-rules=%v/%s", writable, endok, cls))
				detail := map[string]any{"sequences": reqs[i], "block_hex": f[1], "spec": f[4], "real": cls, "real_out_hex": core.Hex(got), "dst_shape": i % 4, "error": fmt.Sprint(derr), "panic": fmt.Sprint(pan)}
				switch {
				case pan != nil:
					ctx.Fail("L1", "lz4-decode-panics-on-sequence-block", "Codec.Decode panicked on a block written from a sequence list", detail)
				case writable && derr == nil && !bytes.Equal(got, want):
					ctx.Fail("L2", "lz4-real-decoder-wrong-bytes-on-writable-sequences", "the real LZ4 decoder returns, without error, other bytes than the sequences mean (applySeqs / lz4Dec)", detail)
				case writable && derr != nil && endok:
					ctx.Fail("L2", "lz4-real-decoder-rejects-conformant-sequences", "the real LZ4 decoder rejects a writable block that obeys the end-of-block rules", detail)
				case writable && derr != nil:
					ctx.Observe("lz4-real-decoder-rejects-block-violating-end-rules", "readable by the spec reader, end-of-block restrictions violated, real decoder answers an error (allowed)", detail)
				case !writable && derr == nil:
					ctx.Observe("lz4-real-decoder-accepts-unwritable-block", "offset 0 / before the start of the output accepted by the real decoder (outside the property: malformed input)", detail)
				}
			}
			// ---------------- (B) real encoder outputs -> lz4.parse
			reqs = reqs[:0]
			var names []string
			var ins [][]byte
			var lvls []int
			for i := w; i < nB; i += nw {
				name, x := c20Lz4Input(r, i%40 == 39)
				li := r.Intn(len(c20Lz4Levels))
				c := &lz4.Codec{Level: c20Lz4Levels[li]}
				enc, err := c.Encode(nil, x)
				ctx.Case(fmt.Sprintf("enc %s level%d", name, li), len(x) >= 13)
				if err != nil {
					ctx.Fail("L1", "lz4-encode-error", "Codec.Encode fails on a plain input", map[string]any{"input": name, "level": li, "error": err.Error()})
					continue
				}
				reqs = append(reqs, "lz4.parse "+core.Hex(enc))
				names, ins, lvls = append(names, name), append(ins, x), append(lvls, li)
			}
			ans, err = d.AskMany(reqs)
			if err != nil {
				ctx.Fail("L2", "driver-error", err.Error(), nil)
				return
			}
			for i, a := range ans {
				detail := map[string]any{"input": names[i], "level_index": lvls[i], "answer": a}
				if len(reqs[i]) < 4000 {
					detail["block_hex"] = strings.TrimPrefix(reqs[i], "lz4.parse ")
				}
				if len(a) > 300 {
					detail["answer"] = a[:300] + "…"
				}
				if !strings.HasPrefix(a, "ok ") {
					ctx.Fail("L2", "lz4-real-encoder-output-not-a-sequence-list", "the spec parser cannot split the real encoder's output into sequences", detail)
					continue
				}
				f := strings.Fields(a)
				nseq := c20Field(a, "n")
				cls := "matches"
				if nseq == "0" {
					cls = "literals-only"
				}
				ctx.Hist("c20.lz4seqs-real-encoder", fmt.Sprintf("%s/overlapping=%s/length-ext=%s", cls, c20Field(a, "ovl"), c20Field(a, "x")))
				switch {
				case c20Field(a, "canon") != "1":
					ctx.Fail("L2", "lz4-real-encoder-output-not-canonical", "encSeqs (parseBlock s) differs from the real encoder's stream s", detail)
				case c20Field(a, "w") != "1":
					ctx.Fail("L2", "lz4-real-encoder-output-unwritable", "the real encoder's sequences are not writable (offset 0 or before the start)", detail)
				case f[len(f)-1] != core.Hex(ins[i]):
					ctx.Fail("L1", "lz4-real-encoder-sequences-do-not-mean-the-input", "applySeqs of the real encoder's sequences is not the input", detail)
				case c20Field(a, "e") != "1":
					ctx.Fail("L2", "lz4-real-encoder-violates-end-of-block-rules", "the real encoder's output breaks the end-of-block restrictions of lz4_Block_format.md (last 5 bytes literals, last match starts 12 bytes before the end)", detail)
				}
			}
			// ---------------- (C) proved greedy reference encoder -> real decoder
			reqs = reqs[:0]
			ins = ins[:0]
			names = names[:0]
			for i := w; i < nC; i += nw {
				name, x := c20Lz4Input(r, false)
				if len(x) > 700 {
					x = x[:300+r.Intn(400)]
				}
				win := []int{1, 4, 32, 300}[r.Intn(4)]
				name = fmt.Sprintf("%s[:%d] window %d", name, len(x), win)
				ctx.Case("greedy "+name, len(x) >= 13)
				reqs = append(reqs, fmt.Sprintf("lz4.greedy %d %s", win, core.Hex(x)))
				names, ins = append(names, name), append(ins, x)
			}
			ans, err = d.AskMany(reqs)
			if err != nil {
				ctx.Fail("L2", "driver-error", err.Error(), nil)
				return
			}
			for i, a := range ans {
				if !strings.HasPrefix(a, "ok ") {
					ctx.Fail("L2", "lz4seqs-model-answer", "pqdriver did not answer ok to lz4.greedy", map[string]any{"request": reqs[i], "answer": a})
					continue
				}
				blk := mustHex(strings.Replace(strings.TrimPrefix(a, "ok "), "-", "", 1))
				got, derr, pan := c20Lz4RealDecode(blk, i, len(ins[i]))
				ctx.Hist("c20.lz4seqs-greedy", fmt.Sprintf("compressed=%v", len(blk) < len(ins[i])))
				if pan != nil || derr != nil || !bytes.Equal(got, ins[i]) {
					ctx.Fail("L2", "lz4-real-decoder-differs-on-greedy-reference-stream", "the real LZ4 decoder does not read the proved reference encoder's stream back to the input",
						map[string]any{"input": names[i], "block_hex": core.Hex(blk), "error": fmt.Sprint(derr), "panic": fmt.Sprint(pan), "real_out_hex": core.Hex(got)})
				}
			}
		}(w)
	}
	wg.Wait()
}
