package props

import (
	"bytes"
	"encoding/binary"
	"fmt"
	"math"
	"math/rand"
	"strings"
	"sync"

	"github.com/parquet-go/parquet-go"

	"verifharness/core"
	"verifharness/gen"
)

func init() { RegisterSub("C18", "leak", RunC18Leak) }

// Marker rows: every value is distinctive (random, high entropy) so that finding 8 consecutive
// bytes of it anywhere in the file means the value (or a statistic derived from it) was written in clear.
type c18LeakRow struct {
	S  string   `parquet:"s"`          // PLAIN byte array
	D  string   `parquet:"d,dict"`     // dictionary page holds the values, PLAIN
	DL string   `parquet:"dl,delta"`   // delta byte array: suffixes concatenated
	I  int64    `parquet:"i,plain"`    // PLAIN int64, little-endian
	J  int64    `parquet:"j,dict"`     // dictionary of int64
	O  *string  `parquet:"o,optional"` // optional: null pages and statistics with nulls
	L  []int64  `parquet:"l,plain"`    // repeated
	F  float64  `parquet:"f,plain"`
	U  [16]byte `parquet:"u,uuid"` // fixed_len_byte_array(16)
}

const c18Alnum = "ABCDEFGHIJKLMNOPQRSTUVWXYZabcdefghijklmnopqrstuvwxyz0123456789"

func c18MarkerString(r *rand.Rand) string {
	b := make([]byte, 28)
	for i := range b {
		b[i] = c18Alnum[r.Intn(len(c18Alnum))]
	}
	return string(b)
}

func c18MarkerInt(r *rand.Rand) int64 {
	for {
		v := r.Uint64()
		ok := true
		for s := 0; s < 64; s += 8 {
			if b := byte(v >> s); b == 0 || b == 0xff {
				ok = false
			}
		}
		if ok {
			return int64(v)
		}
	}
}

// c18LeakRows builds rows and the 8-byte patterns (with the column they come from) whose presence
// in the raw bytes of the file is a leak.
func c18LeakRows(r *rand.Rand, n int) ([]c18LeakRow, map[[8]byte]string) {
	pats := map[[8]byte]string{}
	addBytes := func(col string, b []byte) {
		// a window in the middle of the value: survives prefix stripping (delta byte array) and truncation to 16 bytes
		var w [8]byte
		copy(w[:], b[4:12])
		pats[w] = col
	}
	addInt := func(col string, v int64) {
		var w [8]byte
		binary.LittleEndian.PutUint64(w[:], uint64(v))
		pats[w] = col
	}
	dictS := []string{c18MarkerString(r), c18MarkerString(r), c18MarkerString(r)}
	dictJ := []int64{c18MarkerInt(r), c18MarkerInt(r), c18MarkerInt(r)}
	rows := make([]c18LeakRow, n)
	for i := range rows {
		row := &rows[i]
		row.S = c18MarkerString(r)
		addBytes("s", []byte(row.S))
		row.D = dictS[r.Intn(len(dictS))]
		addBytes("d", []byte(row.D))
		row.DL = c18MarkerString(r)
		addBytes("dl", []byte(row.DL))
		row.I = c18MarkerInt(r)
		addInt("i", row.I)
		row.J = dictJ[r.Intn(len(dictJ))]
		addInt("j", row.J)
		if r.Intn(3) != 0 {
			o := c18MarkerString(r)
			row.O = &o
			addBytes("o", []byte(o))
		}
		for k := r.Intn(3); k > 0; k-- {
			v := c18MarkerInt(r)
			row.L = append(row.L, v)
			addInt("l.list.element", v)
		}
		fv := c18MarkerInt(r)
		row.F = math.Float64frombits(uint64(fv))
		if row.F != row.F { // a NaN would be left out of statistics; keep a plain number
			row.F = float64(fv)
			fv = int64(math.Float64bits(row.F))
		}
		addInt("f", fv)
		u := c18MarkerString(r)
		copy(row.U[:], u)
		addBytes("u", row.U[:])
	}
	return rows, pats
}

// c18Scan returns, per column, the number of its patterns found in data and the first hit.
func c18Scan(data []byte, pats map[[8]byte]string) (found map[string]int, firstAt map[string]int) {
	found, firstAt = map[string]int{}, map[string]int{}
	var w [8]byte
	for i := 0; i+8 <= len(data); i++ {
		copy(w[:], data[i:i+8])
		if col, ok := pats[w]; ok {
			if found[col] == 0 {
				firstAt[col] = i
			}
			found[col]++
		}
	}
	return
}

func c18LeakWrite(rows []c18LeakRow, path string, opts []parquet.WriterOption) (out []byte, err error) {
	defer func() {
		if p := recover(); p != nil {
			err = fmt.Errorf("PANIC: %v", p)
		}
	}()
	var buf bytes.Buffer
	schema := parquet.SchemaOf(c18LeakRow{})
	switch path {
	case "generic-writer":
		w := parquet.NewGenericWriter[c18LeakRow](&buf, opts...)
		half := len(rows) / 2
		if _, err = w.Write(rows[:half]); err != nil {
			return nil, err
		}
		if err = w.Flush(); err != nil {
			return nil, err
		}
		if _, err = w.Write(rows[half:]); err != nil {
			return nil, err
		}
		err = w.Close()
	case "writer-write-any":
		w := parquet.NewWriter(&buf, append([]parquet.WriterOption{schema}, opts...)...)
		for i := range rows {
			if err = w.Write(&rows[i]); err != nil {
				return nil, err
			}
		}
		err = w.Close()
	case "generic-buffer-rowgroup":
		b := parquet.NewGenericBuffer[c18LeakRow]()
		if _, err = b.Write(rows); err != nil {
			return nil, err
		}
		w := parquet.NewGenericWriter[c18LeakRow](&buf, opts...)
		if _, err = w.WriteRowGroup(b); err != nil {
			return nil, err
		}
		err = w.Close()
	case "begin-rowgroup":
		w := parquet.NewGenericWriter[c18LeakRow](&buf, opts...)
		half := len(rows) / 2
		for _, part := range [][]c18LeakRow{rows[:half], rows[half:]} {
			rg := w.BeginRowGroup()
			var prs []parquet.Row
			for i := range part {
				prs = append(prs, schema.Deconstruct(nil, &part[i]))
			}
			if len(prs) == 0 {
				continue
			}
			if _, err = rg.WriteRows(prs); err != nil {
				return nil, err
			}
			if _, err = rg.Commit(); err != nil {
				return nil, err
			}
		}
		err = w.Close()
	default:
		err = fmt.Errorf("unknown path %s", path)
	}
	return buf.Bytes(), err
}

func RunC18Leak(ctx *core.Ctx) {
	ctx.SetRule(c18Rule)
	paths := []string{"generic-writer", "writer-write-any", "generic-buffer-rowgroup", "begin-rowgroup"}
	type cfg struct {
		encFooter bool
		keyMode   int
		version   int
		codec     string
		stats     bool
		path      string
		pagebuf   int
		maxrows   int64
		bloom     bool
	}
	var cfgs []cfg
	for _, ef := range []bool{true, false} {
		for km := 0; km < 3; km++ {
			for _, v := range []int{1, 2} {
				for ci, codec := range []string{"none", "snappy", "zstd"} {
					for pi, path := range paths {
						if !ctx.Thorough() && codec != "none" && (pi+ci+km+v)%3 != 0 {
							continue // quick tier: compressed variants are thinned out
						}
						cfgs = append(cfgs, cfg{encFooter: ef, keyMode: km, version: v, codec: codec, stats: (km+v+pi)%2 == 0, path: path,
							pagebuf: []int{0, 300, 2000}[(km+pi+ci)%3], maxrows: []int64{0, 7, 40}[(v+pi+km)%3], bloom: (pi+km)%2 == 0})
					}
				}
			}
		}
	}
	c18NoFooterKey(ctx)
	var wg sync.WaitGroup
	sem := make(chan struct{}, 16)
	for idx, c := range cfgs {
		wg.Add(1)
		sem <- struct{}{}
		go func(idx int, c cfg) {
			defer wg.Done()
			defer func() { <-sem }()
			r := ctx.Rand(fmt.Sprintf("c18/leak/%d", idx))
			rows, pats := c18LeakRows(r, []int{3, 40, 120}[idx%3])
			enc := &c18Enc{EncFooter: c.encFooter, FooterKey: c18RandKey(r), KeyMode: []string{"footer-only", "all-columns", "some-columns"}[c.keyMode]}
			if c.keyMode > 0 {
				enc.ColKeys = map[string][]byte{}
				for i, p := range parquet.SchemaOf(c18LeakRow{}).Columns() {
					if c.keyMode == 1 || i%2 == 0 {
						enc.ColKeys[joinPath(p)] = c18RandKey(r)
					}
				}
			}
			opts := []parquet.WriterOption{parquet.DataPageVersion(c.version), parquet.Compression(gen.Codecs[c.codec]), parquet.DataPageStatistics(c.stats)}
			if c.pagebuf > 0 {
				opts = append(opts, parquet.PageBufferSize(c.pagebuf))
			}
			if c.maxrows > 0 && c.path != "begin-rowgroup" { // a BeginRowGroup writer refuses more rows than the limit
				opts = append(opts, parquet.MaxRowsPerRowGroup(c.maxrows))
			}
			if c.bloom {
				opts = append(opts, parquet.BloomFilters(parquet.SplitBlockFilter(10, "s"), parquet.SplitBlockFilter(10, "i")))
			}
			form := c18RandForm(r, len(opts))
			if idx%3 == 0 {
				form = nil // the plain spelling: options, then WithEncryption
			}
			encCfg := enc.Config()
			desc := fmt.Sprintf("leak|%+v|%s|rows=%d|seed-stream=c18/leak/%d|form=%v", c, enc.Desc(), len(rows), idx, form)
			ctx.Case(desc, len(enc.ColKeys) > 0 && len(rows) > 3)
			ctx.Hist("leak_path", c.path)
			ctx.Hist("leak_codec", c.codec)
			detail := map[string]any{"config": fmt.Sprintf("%+v", c), "encryption": enc.Desc(), "rows": len(rows), "rand_stream": fmt.Sprintf("c18/leak/%d", idx),
				"row_type": "c18LeakRow (harness/props/c18_leak.go)", "option_form": form.String()}
			plain, perr := c18LeakWrite(rows, c.path, form.build(opts, nil, nil))
			if perr != nil {
				ctx.Hist("leak_outcome", "twin-write-error "+c.path+" "+perr.Error())
				return
			}
			have := map[string]bool{}
			for _, col := range pats {
				have[col] = true
			}
			// sanity of the scan: in the unencrypted uncompressed twin every column's markers must be found
			if c.codec == "none" {
				found, _ := c18Scan(plain, pats)
				for _, col := range []string{"s", "d", "dl", "i", "j", "o", "l.list.element", "f", "u"} {
					if have[col] && found[col] == 0 {
						ctx.Fail("L2", "leak-scan-blind column="+col, "the marker scan does not find the values of a column in the UNENCRYPTED twin: the scan would miss a leak", detail)
					}
				}
			}
			data, err := c18LeakWrite(rows, c.path, form.build(opts, encCfg, nil))
			if err != nil && strings.Contains(err.Error(), "not supported with encryption") {
				ctx.Hist("leak_outcome", "writer-refuses "+c.path)
				return
			}
			if err != nil {
				ctx.Fail("L1", "write-error path="+c.path+" "+c18ErrKind(err), "writing marker rows with encryption failed: "+err.Error(), detail)
				return
			}
			found, firstAt := c18Scan(data, pats)
			if len(found) == 0 {
				ctx.Hist("leak_outcome", "clean")
				return
			}
			footerStart := len(data)
			if len(data) >= 12 {
				footerStart = len(data) - 8 - int(binary.LittleEndian.Uint32(data[len(data)-8:]))
			}
			for col, n := range found {
				where, key := "data-region", "plaintext-values-leak"
				if firstAt[col] >= footerStart {
					where, key = "footer-region", "plaintext-statistics-leak"
				}
				d := map[string]any{"column": col, "hits": n, "first_offset": firstAt[col], "region": where, "bytes": fmt.Sprintf("%x", data[firstAt[col]:firstAt[col]+8])}
				for k, v := range detail {
					d[k] = v
				}
				ctx.Fail("L1", key+" path="+c.path, fmt.Sprintf("%d marker values of encrypted column %q occur in clear in the %s of the file (first at offset %d)", n, col, where, firstAt[col]), d)
			}
			ctx.Hist("leak_outcome", "leak")
		}(idx, c)
	}
	wg.Wait()
}

func joinPath(p []string) string {
	s := ""
	for i, x := range p {
		if i > 0 {
			s += "."
		}
		s += x
	}
	return s
}

// c18NoFooterKey: an EncryptionConfig with column keys but no footer key is never validated. The
// Lean mirror (C18Leak.without_footer_key_pages_are_raw) says the columns without a key of their
// own are written raw until Close fails on the footer; a nil Close with raw values would be a leak.
func c18NoFooterKey(ctx *core.Ctx) {
	defer func() {
		if p := recover(); p != nil {
			ctx.Hist("leak_outcome", "no-footer-key: panic (refused)")
		}
	}()
	r := ctx.Rand("c18/leak/nofooterkey")
	rows, pats := c18LeakRows(r, 400)
	enc := &c18Enc{EncFooter: true, ColKeys: map[string][]byte{"i": c18RandKey(r)}, KeyMode: "no-footer-key"}
	var buf bytes.Buffer
	w := parquet.NewGenericWriter[c18LeakRow](&buf, parquet.WithEncryption(enc.Config()), parquet.PageBufferSize(256), parquet.WriteBufferSize(0))
	_, werr := w.Write(rows)
	ferr := w.Flush()
	cerr := w.Close()
	found, _ := c18Scan(buf.Bytes(), pats)
	ctx.Case("leak|no-footer-key|"+enc.Desc(), true)
	detail := map[string]any{"encryption": enc.Desc(), "write_err": fmt.Sprint(werr), "flush_err": fmt.Sprint(ferr), "close_err": fmt.Sprint(cerr), "columns_in_clear": found, "rand_stream": "c18/leak/nofooterkey"}
	switch {
	case len(found) > 0 && werr == nil && ferr == nil && cerr == nil:
		ctx.Fail("L1", "plaintext-values-leak path=no-footer-key", "a file written with column keys but no footer key was closed without error and holds the other columns in clear", detail)
	case len(found) > 0:
		ctx.Observe("no-footer-key-writes-raw-until-close-fails", "EncryptionConfig{ColumnKeys: …} without FooterKey is not validated: the columns without a key of their own reach the sink in clear and the writer only fails when it seals the footer (Lean: C18Leak.without_footer_key_pages_are_raw)", detail)
	default:
		ctx.Hist("leak_outcome", "no-footer-key: nothing raw")
	}
}
