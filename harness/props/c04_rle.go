package props

// C04, part "rle": the RLE / bit-packed hybrid encoding (encoding/rle) and the legacy BIT_PACKED
// levels (encoding/bitpacked).
//
// L1 (the property on the real code, oracles independent of the mirror):
//   * the Lean SPEC decoder applied to the bytes the Go encoder produced returns the input;
//   * Go Decode(Encode(xs)) == xs;
//   * foreign streams: spec-conformant encodings produced by a harness-side writer with a random
//     run segmentation (what another Parquet writer may emit) must be decoded by Go to the values
//     (levels, int32 / dictionary indexes, boolean, legacy BIT_PACKED);
// Observations (ctx.Observe: behaviour of the Go DECODERS on malformed / truncated input, outside
// what C04 states, reported in the evidence but never part of the verdict):
//   * malformed streams (random bytes, mutated valid streams): the Go decoder should never panic,
//     and when both Go and the spec decoder accept, they should return the same values.
// L2 (real code vs Lean mirror): Go encoder bytes == mirror bytes, byte-exact. On the asm build the
//   int32 run detection kernel (AVX2) segments differently from the portable code; there the bytes
//   must equal the portable mirror or the mirror of the AVX2 kernel, and the differences to the
//   portable mirror are counted in a histogram.

import (
	"bytes"
	"encoding/binary"
	"encoding/json"
	"fmt"
	"math/bits"
	"math/rand"
	"os"
	"strconv"
	"strings"
	"sync"

	"github.com/parquet-go/parquet-go/encoding/bitpacked"
	"github.com/parquet-go/parquet-go/encoding/rle"

	"verifharness/core"
	"verifharness/drv"
)

func init() { RegisterSub("C04", "rle", RunC04Rle) }

// ---------------------------------------------------------------- cases

// kinds: levels (uint8, w<=8), int32 (w<=32), bool (packed bits), dict (RLE_DICTIONARY index page),
// bitpacked (legacy BIT_PACKED levels)
type c04rleCase struct {
	kind string
	w    int
	vals []uint32 // levels/int32/dict/bitpacked: the values; bool: the packed bytes
	tag  string   // generator pattern, for histograms
}

func (c c04rleCase) canon() string {
	return fmt.Sprintf("%s w=%d %s", c.kind, c.w, core.JoinInts(c.vals))
}

func (c c04rleCase) bytesVals() []byte {
	b := make([]byte, len(c.vals))
	for i, v := range c.vals {
		b[i] = byte(v)
	}
	return b
}

func (c c04rleCase) inRange() bool {
	if c.kind == "bool" || c.kind == "dict" {
		return true
	}
	for _, v := range c.vals {
		if c.w < 32 && v>>uint(c.w) != 0 {
			return false
		}
	}
	return true
}

var c04rleLens = []int{0, 1, 2, 3, 7, 8, 9, 15, 16, 17, 23, 24, 25, 31, 32, 33, 39, 40, 41, 63, 64, 65, 71, 72, 73, 127, 128, 129, 255, 256, 257}

func c04rleLen(r *rand.Rand) int {
	switch x := r.Intn(20); {
	case x < 11:
		return c04rleLens[r.Intn(len(c04rleLens))]
	case x < 18:
		return r.Intn(100)
	case x < 19:
		return 500 + r.Intn(40)
	default:
		return []int{1023, 1024, 1025, 2047, 2048, 2049}[r.Intn(6)]
	}
}

var c04rlePatterns = []string{"const", "alt", "runs8", "runs", "rand", "alpha2", "lanes", "onedev", "max", "constgroups", "blocks"}

// c04rleValues fills n values below 2^w following a named pattern.
func c04rleValues(r *rand.Rand, pat string, w, n int) []uint32 {
	mask := uint32(0)
	if w >= 32 {
		mask = ^uint32(0)
	} else {
		mask = uint32(1)<<uint(w) - 1
	}
	rv := func() uint32 {
		switch r.Intn(6) {
		case 0:
			return 0
		case 1:
			return mask
		case 2:
			return mask >> 1
		case 3:
			return (mask >> 1) + 1&mask
		}
		return r.Uint32() & mask
	}
	out := make([]uint32, n)
	a, b := rv(), rv()
	if a == b {
		b = (a + 1) & mask
	}
	switch pat {
	case "const":
		for i := range out {
			out[i] = a
		}
	case "alt":
		for i := range out {
			if i%2 == 0 {
				out[i] = a
			} else {
				out[i] = b
			}
		}
	case "runs8", "runs": // run boundaries at/around multiples of 8 and 64
		i := 0
		cur := a
		for i < n {
			var l int
			if pat == "runs8" {
				l = []int{7, 8, 9, 15, 16, 17, 24, 63, 64, 65, 1, 2}[r.Intn(12)]
			} else {
				l = 1 + r.Intn(30)
			}
			for k := 0; k < l && i < n; k++ {
				out[i] = cur
				i++
			}
			if r.Intn(3) == 0 {
				cur = rv()
			} else if cur == a {
				cur = b
			} else {
				cur = a
			}
		}
	case "rand":
		for i := range out {
			out[i] = r.Uint32() & mask
		}
	case "alpha2":
		for i := range out {
			if r.Intn(4) == 0 {
				out[i] = b
			} else {
				out[i] = a
			}
		}
	case "lanes": // groups of 8 of the shape a,a,a,a,b,b,b,b mixed with constant and random groups
		for i := 0; i < n; i += 8 {
			x, y := a, b
			switch r.Intn(5) {
			case 0:
				y = x
			case 1:
				x, y = b, a
			case 2:
				x, y = rv(), rv()
			}
			noisy := r.Intn(6) == 0
			for k := 0; k < 8 && i+k < n; k++ {
				switch {
				case noisy:
					out[i+k] = r.Uint32() & mask
				case k < 4:
					out[i+k] = x
				default:
					out[i+k] = y
				}
			}
		}
	case "onedev":
		for i := range out {
			out[i] = a
		}
		if n > 0 {
			out[r.Intn(n)] = b
		}
	case "max":
		for i := range out {
			out[i] = mask
		}
		if n > 0 && r.Intn(2) == 0 {
			out[r.Intn(n)] = 0
		}
	case "constgroups": // constant groups whose value changes from group to group (levels: words[j] vs words[j-1])
		cur := a
		for i := 0; i < n; i += 8 {
			if r.Intn(3) == 0 {
				cur = rv()
			}
			dev := r.Intn(5) == 0
			for k := 0; k < 8 && i+k < n; k++ {
				out[i+k] = cur
			}
			if dev && i+7 < n {
				out[i+r.Intn(8)] = rv()
			}
		}
	case "blocks": // bytes for booleans: mostly 00/FF with isolated other bytes
		for i := range out {
			switch r.Intn(8) {
			case 0:
				out[i] = r.Uint32() & mask
			case 1, 2, 3:
				out[i] = 0
			case 4, 5, 6:
				out[i] = mask
			default:
				if i > 0 {
					out[i] = out[i-1]
				}
			}
		}
	}
	return out
}

func c04rleMaxW(kind string) int {
	switch kind {
	case "levels", "bitpacked":
		return 8
	case "bool":
		return 8 // the "values" of a bool case are packed bytes
	}
	return 32
}

func c04rleGen(r *rand.Rand) c04rleCase {
	kind := []string{"levels", "levels", "int32", "int32", "int32", "bool", "bool", "dict", "bitpacked"}[r.Intn(9)]
	pat := c04rlePatterns[r.Intn(len(c04rlePatterns))]
	n := c04rleLen(r)
	c := c04rleCase{kind: kind, tag: pat}
	switch kind {
	case "bool":
		if r.Intn(3) != 0 {
			pat = []string{"blocks", "runs8", "runs", "const", "onedev"}[r.Intn(5)]
			c.tag = pat
		}
		c.vals = c04rleValues(r, pat, 8, n)
		if pat != "rand" && pat != "blocks" && r.Intn(2) == 0 { // make 00/FF bytes likely
			for i, v := range c.vals {
				if v&1 == 0 {
					c.vals[i] = 0
				} else if v&2 == 0 {
					c.vals[i] = 0xFF
				}
			}
		}
	case "dict":
		w := r.Intn(33)
		if r.Intn(2) == 0 {
			w = r.Intn(12)
		}
		c.vals = c04rleValues(r, pat, w, n)
	default:
		c.w = r.Intn(c04rleMaxW(kind) + 1)
		if kind == "int32" && r.Intn(2) == 0 {
			c.w = r.Intn(10)
		}
		c.vals = c04rleValues(r, pat, c.w, n)
		// out-of-range values: the encoder's contract is only stated for values below 2^w; what it
		// does otherwise is pinned by the mirror (L2)
		if kind != "bitpacked" && n > 0 && c.w < c04rleMaxW(kind) && r.Intn(12) == 0 {
			k := 1 + r.Intn(3)
			for ; k > 0; k-- {
				hi := uint32(1) << uint(c.w+r.Intn(c04rleMaxW(kind)-c.w))
				c.vals[r.Intn(n)] |= hi
			}
			c.tag += "+oor"
		}
	}
	return c
}

// ---------------------------------------------------------------- Go side

type c04rleBufs struct {
	enc  []byte
	dec8 []byte
	dec  []int32
}

// dirty returns a destination buffer: reused from the previous call (dirty history), or fresh
// with a capacity smaller/larger than needed, filled with 0xFF.
func c04rleDirty(r *rand.Rand, prev []byte, need int) []byte {
	switch r.Intn(5) {
	case 0:
		return nil
	case 1:
		return prev
	case 2:
		b := make([]byte, r.Intn(need+2))
		for i := range b {
			b[i] = 0xFF
		}
		return b
	case 3:
		b := make([]byte, need+r.Intn(64), need+64+r.Intn(64))
		b = b[:cap(b)]
		for i := range b {
			b[i] = 0xFF
		}
		return b[:r.Intn(len(b)+1)]
	}
	for i := range prev[:cap(prev)] {
		prev[:cap(prev)][i] = 0xFF
	}
	return prev
}

func c04rleDirty32(r *rand.Rand, prev []int32, need int) []int32 {
	switch r.Intn(4) {
	case 0:
		return nil
	case 1:
		return prev
	case 2:
		l := r.Intn(need + 2)
		b := make([]int32, l, l+r.Intn(need+40))
		full := b[:cap(b)]
		for i := range full {
			full[i] = -1
		}
		return b
	}
	full := prev[:cap(prev)]
	for i := range full {
		full[i] = -1
	}
	return prev
}

// srcView returns enc either with exact capacity or with dirty spare capacity behind it (the
// int32 decoder reads the padding behind len(src) when the capacity allows it).
func c04rleSrcView(r *rand.Rand, enc []byte) []byte {
	if r.Intn(2) == 0 {
		return append(make([]byte, 0, len(enc)), enc...)
	}
	b := make([]byte, len(enc)+1+r.Intn(48))
	for i := range b {
		b[i] = 0xFF
	}
	copy(b, enc)
	return b[:len(enc)]
}

type c04rleOut struct {
	enc    []byte
	encErr string // "" | "err" | "panic: ..."
	dec    []uint32
	decErr string
}

func c04rleCatch(f func() error) (res string) {
	defer func() {
		if p := recover(); p != nil {
			res = fmt.Sprint("panic: ", p)
		}
	}()
	if err := f(); err != nil {
		return "err: " + err.Error()
	}
	return ""
}

func c04rleToU32(xs []int32) []uint32 {
	out := make([]uint32, len(xs))
	for i, x := range xs {
		out[i] = uint32(x)
	}
	return out
}

func c04rleToI32(xs []uint32) []int32 {
	out := make([]int32, len(xs))
	for i, x := range xs {
		out[i] = int32(x)
	}
	return out
}

func c04rleBytesToU32(xs []byte) []uint32 {
	out := make([]uint32, len(xs))
	for i, x := range xs {
		out[i] = uint32(x)
	}
	return out
}

// goEncode runs the real encoder on the case.
func c04rleGoEncode(r *rand.Rand, bufs *c04rleBufs, c c04rleCase) (enc []byte, status string) {
	dst := c04rleDirty(r, bufs.enc, len(c.vals)*4+16)
	status = c04rleCatch(func() (err error) {
		switch c.kind {
		case "levels":
			enc, err = (&rle.Encoding{BitWidth: c.w}).EncodeLevels(dst, c.bytesVals())
		case "int32":
			enc, err = (&rle.Encoding{BitWidth: c.w}).EncodeInt32(dst, c04rleToI32(c.vals))
		case "bool":
			enc, err = (&rle.Encoding{BitWidth: 1}).EncodeBoolean(dst, c.bytesVals())
		case "dict":
			enc, err = (&rle.DictionaryEncoding{}).EncodeInt32(dst, c04rleToI32(c.vals))
		case "bitpacked":
			enc, err = (&bitpacked.Encoding{BitWidth: c.w}).EncodeLevels(dst, c.bytesVals())
		}
		return err
	})
	if status == "" {
		bufs.enc = enc
		enc = bytes.Clone(enc)
	}
	return enc, status
}

// goDecode runs the real decoder; values come back as uint32 (bool: the packed bytes).
func c04rleGoDecode(r *rand.Rand, bufs *c04rleBufs, kind string, w int, src []byte) (vals []uint32, status string) {
	src = c04rleSrcView(r, src)
	status = c04rleCatch(func() (err error) {
		switch kind {
		case "levels":
			var out []byte
			out, err = (&rle.Encoding{BitWidth: w}).DecodeLevels(c04rleDirty(r, bufs.dec8, len(src)), src)
			vals, bufs.dec8 = c04rleBytesToU32(out), out
		case "bool":
			var out []byte
			out, err = (&rle.Encoding{BitWidth: 1}).DecodeBoolean(c04rleDirty(r, bufs.dec8, len(src)), src)
			vals, bufs.dec8 = c04rleBytesToU32(out), out
		case "bitpacked":
			var out []byte
			out, err = (&bitpacked.Encoding{BitWidth: w}).DecodeLevels(c04rleDirty(r, bufs.dec8, len(src)), src)
			vals, bufs.dec8 = c04rleBytesToU32(out), out
		case "int32":
			var out []int32
			out, err = (&rle.Encoding{BitWidth: w}).DecodeInt32(c04rleDirty32(r, bufs.dec, len(src)), src)
			vals, bufs.dec = c04rleToU32(out), out
		case "dict":
			var out []int32
			out, err = (&rle.DictionaryEncoding{}).DecodeInt32(c04rleDirty32(r, bufs.dec, len(src)), src)
			vals, bufs.dec = c04rleToU32(out), out
		}
		return err
	})
	return vals, status
}

// ---------------------------------------------------------------- harness-side stream tools

type c04rleRun struct {
	bp    bool
	count int    // header >> 1
	val   []byte // rle: stored value bytes
}

// c04rleScan walks the run structure of a hybrid body the way any reader must, and returns the
// runs and the number of values a decode-everything reader would produce. ok=false when the
// stream is truncated or a header is unreadable. It is used to (1) keep allocation bombs (a run
// header may announce up to 2^31 values) out of the in-process decoder calls and (2) classify
// disagreements.
func c04rleScan(w int, body []byte) (runs []c04rleRun, total uint64, ok bool) {
	return c04rleScanFraming(w, body, false)
}

// goFraming: frame zero-length runs the way the Go decoders do (header only, no value bytes);
// otherwise the way the format grammar does (every RLE run carries its value).
func c04rleScanFraming(w int, body []byte, goFraming bool) (runs []c04rleRun, total uint64, ok bool) {
	i := 0
	for i < len(body) {
		u, n := binary.Uvarint(body[i:])
		if n <= 0 {
			return runs, total, false
		}
		i += n
		count := u >> 1
		if count > 1<<31-1 {
			return runs, total + count, false
		}
		if count == 0 && goFraming {
			continue
		}
		if u&1 == 1 {
			nb := int(count) * w
			total += 8 * count
			if total > 1<<40 || i+nb > len(body) {
				return runs, total, false
			}
			runs = append(runs, c04rleRun{bp: true, count: int(count)})
			i += nb
		} else {
			vb := (w + 7) / 8
			total += count
			if i+vb > len(body) {
				runs = append(runs, c04rleRun{count: int(count), val: body[i:]})
				return runs, total, false
			}
			runs = append(runs, c04rleRun{count: int(count), val: body[i : i+vb]})
			i += vb
		}
	}
	return runs, total, true
}

// body of a stream of the given kind (strips the boolean length prefix / the dictionary width byte)
func c04rleBody(kind string, w int, src []byte) (int, []byte) {
	switch kind {
	case "bool":
		if len(src) < 4 {
			return 1, nil
		}
		n := int(binary.LittleEndian.Uint32(src))
		b := src[4:]
		if n < len(b) && n >= 0 {
			b = b[:n]
		}
		return 1, b
	case "dict":
		if len(src) == 0 {
			return 0, nil
		}
		return int(src[0]), src[1:]
	}
	return w, src
}

// c04rleForeign writes vals at width w as a spec-conformant hybrid stream with a random run
// segmentation (RLE runs of any length >= 1 over equal neighbours, bit-packed runs of 8g values,
// the last one zero padded), canonical RLE values. This is the harness's own writer: it shares
// nothing with the library or the Lean model.
func c04rleForeign(r *rand.Rand, w int, vals []uint32) []byte {
	var out []byte
	put := func(u uint64) {
		var b [10]byte
		out = append(out, b[:binary.PutUvarint(b[:], u)]...)
	}
	i := 0
	for i < len(vals) {
		eq := 1
		for i+eq < len(vals) && vals[i+eq] == vals[i] {
			eq++
		}
		useRle := eq >= 8 && r.Intn(4) != 0 || r.Intn(4) == 0
		if useRle {
			k := 1 + r.Intn(eq)
			if r.Intn(2) == 0 {
				k = eq
			}
			put(uint64(k) << 1)
			v := vals[i]
			for b := 0; b < (w+7)/8; b++ {
				out = append(out, byte(v))
				v >>= 8
			}
			i += k
			continue
		}
		g := 1 + r.Intn(3)
		if rem := (len(vals) - i + 7) / 8; g > rem {
			g = rem
		}
		put(uint64(g)<<1 | 1)
		var acc uint64
		nbits := 0
		for k := 0; k < 8*g; k++ {
			var v uint32
			if i+k < len(vals) {
				v = vals[i+k]
			}
			acc |= uint64(v) << uint(nbits)
			nbits += w
			for nbits >= 8 {
				out = append(out, byte(acc))
				acc >>= 8
				nbits -= 8
			}
		}
		i += 8 * g
	}
	return out
}

// c04rleForeignBoolRuns writes a BOOLEAN page body directly from a random run list, the way other
// writers (parquet-java, arrow, duckdb) lay booleans out: RLE runs of any length (so runs start and
// end at any bit offset) with `true` stored as 01 or FF, mixed with bit-packed runs of 8g values.
// Returns the body and the values it encodes (padding of bit-packed runs included, they are values).
func c04rleForeignBoolRuns(r *rand.Rand) (body []byte, vals []uint32) {
	put := func(u uint64) {
		var b [10]byte
		body = append(body, b[:binary.PutUvarint(b[:], u)]...)
	}
	lens := []int{1, 2, 3, 4, 5, 7, 8, 9, 15, 16, 17, 23, 24, 25, 63, 64, 65, 127, 128, 129}
	nruns := 1 + r.Intn(6)
	for k := 0; k < nruns; k++ {
		if r.Intn(3) == 0 {
			g := 1 + r.Intn(3)
			put(uint64(g)<<1 | 1)
			for j := 0; j < g; j++ {
				b := byte(r.Intn(256))
				if r.Intn(3) == 0 {
					b = []byte{0x00, 0xFF, 0x01, 0x80}[r.Intn(4)]
				}
				body = append(body, b)
				for t := 0; t < 8; t++ {
					vals = append(vals, uint32(b>>uint(t))&1)
				}
			}
			continue
		}
		n := lens[r.Intn(len(lens))]
		if r.Intn(3) == 0 {
			n = 1 + r.Intn(200)
		}
		bit := uint32(r.Intn(2))
		put(uint64(n) << 1)
		switch {
		case bit == 0:
			body = append(body, 0x00)
		case r.Intn(2) == 0:
			body = append(body, 0x01)
		default:
			body = append(body, 0xFF)
		}
		for j := 0; j < n; j++ {
			vals = append(vals, bit)
		}
	}
	return body, vals
}

func c04rleWrap(kind string, w int, body []byte) []byte {
	switch kind {
	case "bool":
		var p [4]byte
		binary.LittleEndian.PutUint32(p[:], uint32(len(body)))
		return append(p[:], body...)
	case "dict":
		return append([]byte{byte(w)}, body...)
	}
	return body
}

func c04rleMask(w int) uint32 {
	if w >= 32 {
		return ^uint32(0)
	}
	return uint32(1)<<uint(w) - 1
}

func c04rleUnpackBools(bs []uint32) []uint32 {
	out := make([]uint32, 0, 8*len(bs))
	for _, b := range bs {
		for k := 0; k < 8; k++ {
			out = append(out, (b>>uint(k))&1)
		}
	}
	return out
}

func c04rleParseVals(ans string) ([]uint32, bool) {
	if !strings.HasPrefix(ans, "ok ") {
		return nil, false
	}
	s := ans[3:]
	if s == "-" {
		return nil, true
	}
	parts := strings.Split(s, ",")
	out := make([]uint32, len(parts))
	for i, p := range parts {
		v, err := strconv.ParseUint(p, 10, 32)
		if err != nil {
			return nil, false
		}
		out[i] = uint32(v)
	}
	return out, true
}

func c04rleEqU32(a, b []uint32) bool {
	if len(a) != len(b) {
		return false
	}
	for i := range a {
		if a[i] != b[i] {
			return false
		}
	}
	return true
}

// ---------------------------------------------------------------- batching

type c04rleBatch struct {
	ctx  *core.Ctx
	d    *drv.Driver
	reqs []string
	pend []func(string)
}

func (b *c04rleBatch) ask(req string, f func(ans string)) {
	b.reqs = append(b.reqs, req)
	b.pend = append(b.pend, f)
	if len(b.reqs) >= 1500 {
		b.flush()
	}
}

func (b *c04rleBatch) flush() {
	if b.d == nil || len(b.reqs) == 0 {
		b.reqs, b.pend = b.reqs[:0], b.pend[:0]
		return
	}
	ans, err := b.d.AskMany(b.reqs)
	if err != nil {
		b.ctx.Fail("L2", "driver-error", err.Error(), nil)
	}
	for i, a := range ans {
		b.pend[i](a)
	}
	b.reqs, b.pend = b.reqs[:0], b.pend[:0]
}

// ---------------------------------------------------------------- checks

func c04rleLenClass(n int) string {
	switch {
	case n == 0:
		return "0"
	case n < 8:
		return "1-7"
	case n%8 == 0 && n <= 64:
		return "8k<=64"
	case n < 64:
		return "9-63"
	case n <= 257:
		return "64-257"
	}
	return ">257"
}

func c04rleDetail(c c04rleCase, variant string, extra map[string]any) map[string]any {
	m := map[string]any{"kind": c.kind, "bit_width": c.w, "values": core.JoinInts(c.vals), "variant": variant,
		"replay_case": fmt.Sprintf("rle-enc %s %d %s", c.kind, c.w, core.JoinInts(c.vals))}
	for k, v := range extra {
		m[k] = v
	}
	return m
}

// c04rleEncodeCase: encoder-side checks for one case.
func c04rleEncodeCase(ctx *core.Ctx, r *rand.Rand, bufs *c04rleBufs, b *c04rleBatch, c c04rleCase) (goEnc []byte) {
	inRange := c.inRange()
	ctx.Case("enc "+c.canon(), len(c.vals) >= 8 && (c.w > 0 || c.kind == "bool" || c.kind == "dict"))
	ctx.Hist("rle.kind", c.kind)
	ctx.Hist("rle.width."+c.kind, strconv.Itoa(c.w))
	ctx.Hist("rle.length", c04rleLenClass(len(c.vals)))
	ctx.Hist("rle.pattern", c.tag)
	if !inRange {
		ctx.Hist("rle.range", "out-of-range")
	} else {
		ctx.Hist("rle.range", "in-range")
	}
	enc, st := c04rleGoEncode(r, bufs, c)
	if strings.HasPrefix(st, "panic") {
		ctx.Fail("L1", "rle-encode-panic-"+c.kind, "encoder panicked: "+st, c04rleDetail(c, ctx.Variant, nil))
		return nil
	}
	nvals := len(c.vals)
	want := c.vals
	if c.kind == "bool" {
		nvals = 8 * len(c.vals)
		want = c04rleUnpackBools(c.vals)
	}
	if c.kind == "bitpacked" {
		c04rleBitpackedCase(ctx, r, bufs, b, c, enc, st)
		return nil
	}
	hexEnc := core.Hex(enc)
	// ---- L2: mirror bytes
	var encReq string
	switch c.kind {
	case "levels", "bool":
		encReq = fmt.Sprintf("rle.enc %s %d %s", c.kind, c.w, core.Hex(c.bytesVals()))
	default:
		encReq = fmt.Sprintf("rle.enc %s %d %s", c.kind, c.w, core.JoinInts(c.vals))
	}
	goAns := "ok " + hexEnc
	if st != "" {
		goAns = "err invalid-bit-width"
		ctx.Hist("rle.encode", "rejected")
	} else {
		ctx.Hist("rle.encode", "ok")
	}
	isI32 := c.kind == "int32" || c.kind == "dict"
	if ctx.Variant == "asm" && isI32 {
		w := c.w
		if c.kind == "dict" {
			w = 0
			for _, v := range c.vals {
				if l := bits.Len32(v); l > w {
					w = l
				}
			}
		}
		var portable string
		b.ask(encReq, func(ans string) { portable = ans })
		b.ask(fmt.Sprintf("rle.enc int32avx2 %d %s", w, core.JoinInts(c.vals)), func(ans string) {
			avx := ans
			if c.kind == "dict" && strings.HasPrefix(ans, "ok ") {
				avx = fmt.Sprintf("ok %02x%s", w, strings.TrimPrefix(ans[3:], "-"))
			}
			switch goAns {
			case portable:
				ctx.Hist("rle.int32-asm-bytes", "equal-to-portable-mirror")
			case avx:
				ctx.Hist("rle.int32-asm-bytes", "differ-from-portable-mirror(equal-to-avx2-kernel-mirror)")
				pb, _ := hexDecodeLoose(strings.TrimPrefix(portable, "ok "))
				ctx.Hist("rle.int32-asm-byte-length-delta", strconv.Itoa(len(enc)-len(pb)))
			default:
				ctx.Fail("L2", "rle-encode-mirror-"+c.kind+"-asm", "Go encoder bytes equal neither the portable mirror nor the AVX2-kernel mirror",
					c04rleDetail(c, ctx.Variant, map[string]any{"impl": goAns, "model_portable": portable, "model_avx2": avx}))
			}
		})
	} else {
		b.ask(encReq, func(ans string) {
			if ans != goAns {
				key := "rle-encode-mirror-" + c.kind
				if !inRange {
					key += "-out-of-range"
				}
				ctx.Fail("L2", key, "Go encoder bytes differ from the Lean mirror",
					c04rleDetail(c, ctx.Variant, map[string]any{"impl": goAns, "model": ans}))
			}
		})
	}
	if st != "" {
		// the encoder rejected the input: allowed only for values that do not fit the width
		if inRange {
			ctx.Fail("L1", "rle-encode-rejects-valid-"+c.kind, "encoder returned an error for in-range values: "+st, c04rleDetail(c, ctx.Variant, nil))
		}
		return nil
	}
	// run statistics of the produced stream (also note N1: boolean RLE run value 0xFF)
	bw, body := c04rleBody(c.kind, c.w, enc)
	runs, _, okScan := c04rleScan(bw, body)
	if !okScan && !(c.kind == "bool" && len(c.vals) == 0) {
		ctx.Fail("L1", "rle-encode-unparseable-"+c.kind, "encoder output does not parse as a sequence of runs", c04rleDetail(c, ctx.Variant, map[string]any{"encoded": hexEnc}))
	}
	for _, ru := range runs {
		if ru.bp {
			ctx.Hist("rle.runs", "bit-packed")
		} else {
			ctx.Hist("rle.runs", "rle")
			if c.kind == "bool" && len(ru.val) == 1 && ru.val[0] > 1 && ru.count > 0 {
				ctx.Hist("rle.N1-bool-rle-run-value", fmt.Sprintf("non-canonical 0x%02x", ru.val[0]))
			} else if c.kind == "bool" && ru.count > 0 {
				ctx.Hist("rle.N1-bool-rle-run-value", "canonical")
			}
		}
	}
	if !inRange {
		return enc // no losslessness claim for values that do not fit the width
	}
	// ---- L1: Lean spec decoder on the Go bytes
	specKind := map[string]string{"levels": "hybrid", "int32": "hybrid", "bool": "bool", "dict": "dict"}[c.kind]
	b.ask(fmt.Sprintf("rle.specdec %s %d %d %s", specKind, c.w, nvals, hexEnc), func(ans string) {
		got, ok := c04rleParseVals(ans)
		if !ok || !c04rleEqU32(got, want) {
			ctx.Fail("L1", "rle-spec-decode-of-go-encoding-"+c.kind, "the spec decoder does not read back the input from the bytes the Go encoder produced",
				c04rleDetail(c, ctx.Variant, map[string]any{"encoded": hexEnc, "spec_decoder": ans}))
		}
	})
	// ---- L1: Go round trip
	dec, dst := c04rleGoDecode(r, bufs, c.kind, c.w, enc)
	c04rleDecMirror(ctx, b, c.kind, c.w, enc, dec, dst)
	if dst != "" || !c04rleEqU32(dec, c.vals) {
		ctx.Fail("L1", "rle-go-roundtrip-"+c.kind, "Decode(Encode(xs)) != xs: "+dst,
			c04rleDetail(c, ctx.Variant, map[string]any{"encoded": hexEnc, "decoded": core.JoinInts(dec)}))
	}
	// ---- L1: foreign conformant stream of the same values (another writer's segmentation)
	if r.Intn(2) == 0 {
		fw := bw
		foreign := c04rleWrap(c.kind, fw, c04rleForeign(r, fw, want))
		c04rleForeignCase(ctx, r, bufs, b, c, want, foreign)
	}
	return enc
}

func hexDecodeLoose(s string) ([]byte, bool) {
	if s == "-" {
		return nil, true
	}
	out := make([]byte, 0, len(s)/2)
	for i := 0; i+1 < len(s); i += 2 {
		v, err := strconv.ParseUint(s[i:i+2], 16, 8)
		if err != nil {
			return nil, false
		}
		out = append(out, byte(v))
	}
	return out, true
}

// c04rleBoolRunDefect tells whether a boolean stream contains an RLE run that the Go decoder
// (which copies the stored byte ceil(count/8) times) cannot expand per value: a run length that is
// not a multiple of 8, or a stored value other than 00 / FF (the canonical `true` is 01).
func c04rleBoolRunDefect(runs []c04rleRun) (string, bool) {
	odd, val := false, false
	for _, ru := range runs {
		if !ru.bp && ru.count%8 != 0 {
			odd = true
		}
		if !ru.bp && ru.count > 0 && len(ru.val) == 1 && ru.val[0] != 0 && ru.val[0] != 0xFF {
			val = true
		}
	}
	switch {
	case odd && val:
		return "RLE run length not a multiple of 8 and run value not 00/FF", true
	case odd:
		return "RLE run length not a multiple of 8", true
	case val:
		return "RLE run value not 00/FF (e.g. true stored as 01)", true
	}
	return "", false
}

const c04rleKeyBool = "rle-bool-decode-rle-run-not-expanded-per-value"
const c04rleKeyI32Trunc = "rle-int32-decode-truncated-bitpacked-run-reads-past-input"
const c04rleKeyLevelsW0 = "rle-levels-decode-bitpacked-run-at-width-0"

// c04rleDecMirror: L2 for the DECODERS - what DecodeLevels / DecodeInt32 / DictionaryEncoding.
// DecodeInt32 / DecodeBoolean return must equal the Lean mirrors of decodeBytes / decodeInt32 /
// decodeBits (values when both accept, error <=> error). Not compared: a Go panic, and the two
// malformed-input observations (int32 bit-packed run longer than the input: Go reads the spare
// capacity where the mirror reports truncation; asm levels at width 0).
func c04rleDecMirror(ctx *core.Ctx, b *c04rleBatch, kind string, w int, stream []byte, dec []uint32, st string) {
	if strings.HasPrefix(st, "panic") {
		return
	}
	if kind == "levels" && w == 0 && ctx.Variant == "asm" {
		ctx.Hist("rle.decode-mirror", "skipped: levels width 0 on asm (observation)")
		return
	}
	impl := "err"
	if st == "" {
		if kind == "bool" {
			bs := make([]byte, len(dec))
			for i, v := range dec {
				bs[i] = byte(v)
			}
			impl = "ok " + core.Hex(bs)
		} else {
			impl = "ok " + core.JoinInts(dec)
		}
	}
	hexS := core.Hex(stream)
	var req string
	switch kind {
	case "levels":
		req = fmt.Sprintf("rle.godeclevels %d %s", w, hexS)
	case "int32":
		req = fmt.Sprintf("rle.godecint32 %d %s", w, hexS)
	case "dict":
		req = "rle.godecdict " + hexS
	case "bool":
		// the BYTE-level mirror (appendBitsAt / appendBitRun / resize over a destination whose spare
		// capacity holds the given byte); proved equal to the bit-level mirror rle.godecbool, which
		// is still asked on a quarter of the streams
		req = fmt.Sprintf("rle.godecboolbytes %d %s", []int{0, 255, 0xA5}[len(stream)%3], hexS)
		if len(stream)%4 == 0 {
			b.ask("rle.godecbool "+hexS, func(ans string) {
				if strings.HasPrefix(ans, "err") {
					ans = "err"
				}
				if ans != impl {
					ctx.Fail("L2", "rle-decode-mirror-bool-bitlevel", "Go DecodeBoolean differs from the bit-level Lean mirror",
						map[string]any{"kind": kind, "stream": hexS, "impl": impl, "model": ans, "variant": ctx.Variant,
							"replay_case": fmt.Sprintf("rle-dec %s %d %s", kind, w, hexS)})
				}
			})
		}
	default:
		return
	}
	b.ask(req, func(ans string) {
		model := ans
		if strings.HasPrefix(ans, "err") {
			model = "err"
		}
		if model == impl {
			ctx.Hist("rle.decode-mirror", kind+": equal ("+model[:2]+")")
			return
		}
		if (kind == "int32" || kind == "dict") && ans == "err trunc-bitpacked" {
			ctx.Hist("rle.decode-mirror", "skipped: int32 truncated bit-packed run read past len(src) (observation)")
			return
		}
		if len(impl) > 400 {
			impl = impl[:400] + "..."
		}
		if len(ans) > 400 {
			ans = ans[:400] + "..."
		}
		ctx.Fail("L2", "rle-decode-mirror-"+kind, "Go decoder differs from the Lean mirror of the portable decoder",
			map[string]any{"kind": kind, "bit_width": w, "stream": hexS, "impl": impl, "model": ans, "variant": ctx.Variant,
				"replay_case": fmt.Sprintf("rle-dec %s %d %s", kind, w, hexS)})
	})
}

// c04rleForeignCase: a conformant stream written by the harness's own writer must be read by the
// Go decoder (and by the spec decoder) as the values it encodes.
func c04rleForeignCase(ctx *core.Ctx, r *rand.Rand, bufs *c04rleBufs, b *c04rleBatch, c c04rleCase, want []uint32, stream []byte) {
	ctx.Case("foreign "+c.kind+" "+strconv.Itoa(c.w)+" "+core.Hex(stream), len(want) >= 8)
	ctx.Hist("rle.foreign", c.kind)
	hexS := core.Hex(stream)
	specKind := map[string]string{"levels": "hybrid", "int32": "hybrid", "bool": "bool", "dict": "dict"}[c.kind]
	detail := func(extra map[string]any) map[string]any {
		m := map[string]any{"kind": c.kind, "bit_width": c.w, "stream": hexS, "encodes": core.JoinInts(want), "variant": ctx.Variant,
			"replay_case": fmt.Sprintf("rle-dec %s %d %s %s", c.kind, c.w, hexS, core.JoinInts(want))}
		for k, v := range extra {
			m[k] = v
		}
		return m
	}
	b.ask(fmt.Sprintf("rle.specdec %s %d %d %s", specKind, c.w, len(want), hexS), func(ans string) {
		got, ok := c04rleParseVals(ans)
		if !ok || !c04rleEqU32(got, want) {
			ctx.Fail("L2", "rle-spec-decoder-vs-harness-writer-"+c.kind, "the Lean spec decoder and the harness's conformant writer disagree (one of the two oracles is wrong)", detail(map[string]any{"spec_decoder": ans}))
		}
	})
	dec, st := c04rleGoDecode(r, bufs, c.kind, c.w, stream)
	c04rleDecMirror(ctx, b, c.kind, c.w, stream, dec, st)
	if c.kind == "bool" {
		dec = c04rleUnpackBools(dec)
	}
	if st == "" && len(dec) >= len(want) && c04rleEqU32(dec[:len(want)], want) {
		return
	}
	// classify
	bw, body := c04rleBody(c.kind, c.w, stream)
	runs, _, _ := c04rleScan(bw, body)
	key := "rle-decode-foreign-stream-" + c.kind
	what := "Go decoder misreads a spec-conformant stream: " + st
	hasBp := false
	for _, ru := range runs {
		hasBp = hasBp || ru.bp
	}
	if strings.HasPrefix(st, "panic") {
		key += "-panic"
	} else if why, ok := c04rleBoolRunDefect(runs); ok && c.kind == "bool" {
		key, what = c04rleKeyBool, "DecodeBoolean misreads a spec-conformant stream ("+why+")"
	} else if c.kind == "levels" && bw == 0 && hasBp {
		key, what = c04rleKeyLevelsW0, "DecodeLevels at bit width 0 returns non-zero values for a bit-packed run"
	}
	if len(dec) > 64 {
		dec = dec[:64]
	}
	if key == c04rleKeyLevelsW0 {
		// a level stream at bit width 0 is never written (columns without levels store none):
		// treated as malformed input, outside the property
		ctx.Observe(key, what, detail(map[string]any{"decoded_prefix": core.JoinInts(dec)}))
		return
	}
	// L1: "match the format spec" - the Go decoders must read every conformant stream
	ctx.Fail("L1", key, what, detail(map[string]any{"decoded_prefix": core.JoinInts(dec)}))
}

// c04rleMalformedCase: arbitrary bytes. Never panic; both accept => same values (Go values are
// compared after masking to the bit width: the Go decoders do not mask RLE run values, counted).
func c04rleMalformedCase(ctx *core.Ctx, r *rand.Rand, bufs *c04rleBufs, b *c04rleBatch, kind string, w int, stream []byte, origin string) {
	hexS := core.Hex(stream)
	ctx.Case("malformed "+kind+" "+strconv.Itoa(w)+" "+hexS, len(stream) >= 2)
	ctx.Hist("rle.malformed.origin", origin)
	bw, body := c04rleBody(kind, w, stream)
	if kind == "dict" && bw > 32 {
		ctx.Hist("rle.malformed.go", "width>32")
	}
	_, total, _ := c04rleScan(bw, body)
	if _, t2, _ := c04rleScanFraming(bw, body, true); t2 > total {
		total = t2
	}
	if total > 1<<16 {
		ctx.Hist("rle.malformed.go", "skipped: header announces > 65536 values (allocation up to 8 GiB, not executed)")
		return
	}
	detail := func(extra map[string]any) map[string]any {
		m := map[string]any{"kind": kind, "bit_width": w, "stream": hexS, "variant": ctx.Variant,
			"replay_case": fmt.Sprintf("rle-dec %s %d %s", kind, w, hexS)}
		for k, v := range extra {
			m[k] = v
		}
		return m
	}
	dec, st := c04rleGoDecode(r, bufs, kind, w, stream)
	c04rleDecMirror(ctx, b, kind, w, stream, dec, st)
	switch {
	case strings.HasPrefix(st, "panic"):
		ctx.Hist("rle.malformed.go", "panic")
		key := "rle-decode-panic-" + kind
		if strings.Contains(st, "slice bounds out of range") && (kind == "int32" || kind == "dict") {
			key = c04rleKeyI32Trunc
		}
		ctx.Observe(key, "decoder panicked on malformed input: "+st, detail(nil))
		return
	case st != "":
		ctx.Hist("rle.malformed.go", "error")
		return
	}
	ctx.Hist("rle.malformed.go", "ok")
	if kind == "bool" {
		dec = c04rleUnpackBools(dec)
	}
	specKind := map[string]string{"levels": "hybrid", "int32": "hybrid", "bool": "bool", "dict": "dict"}[kind]
	b.ask(fmt.Sprintf("rle.specdec %s %d %d %s", specKind, w, len(dec), hexS), func(ans string) {
		got, ok := c04rleParseVals(ans)
		if !ok {
			ctx.Hist("rle.malformed.spec", "go-accepts-spec-rejects: "+ans)
			if _, _, okScan := c04rleScan(bw, body); !okScan && ans == "err trunc-bitpacked" && (kind == "int32" || kind == "dict") {
				// same missing bounds check as the panic: with spare capacity behind len(src) the
				// decoder silently unpacks whatever bytes follow the input
				ctx.Observe(c04rleKeyI32Trunc, "decodeInt32 accepted a stream whose last bit-packed run is truncated (it read past len(src) into the slice's spare capacity)",
					detail(map[string]any{"go_values": len(dec), "spec": ans}))
			}
			return
		}
		if c04rleEqU32(got, dec) {
			ctx.Hist("rle.malformed.spec", "both-accept-equal")
			return
		}
		masked := len(got) == len(dec)
		if masked {
			m := c04rleMask(bw)
			for i := range dec {
				if dec[i]&m != got[i] {
					masked = false
					break
				}
			}
		}
		if masked && kind != "bool" {
			ctx.Hist("rle.malformed.spec", "both-accept-equal-after-masking-go-values")
			return
		}
		key := "rle-decode-disagrees-with-spec-" + kind
		runs, _, _ := c04rleScan(bw, body)
		for _, ru := range runs {
			if !ru.bp && ru.count == 0 && bw > 0 {
				// Allowed asymmetry: a zero-length RLE run. The format grammar gives every rle-run a
				// value (the spec decoder, like parquet-java, consumes it); the Go decoders skip the
				// header only. No writer emits such runs (parquet-go itself only for an empty boolean
				// page, where nothing follows), so the streams are framed differently from here on.
				ctx.Hist("rle.malformed.spec", "allowed-asymmetry: zero-length RLE run (value bytes consumed by spec, not by Go)")
				return
			}
		}
		what := "Go decoder and spec decoder both accept the stream and return different values"
		if why, isDefect := c04rleBoolRunDefect(runs); isDefect && kind == "bool" {
			key, what = c04rleKeyBool, "DecodeBoolean and the spec decoder both accept the stream and return different values ("+why+")"
		}
		d := dec
		if len(d) > 64 {
			d = d[:64]
		}
		ctx.Observe(key, what,
			detail(map[string]any{"go_prefix": core.JoinInts(d), "spec": ans}))
	})
}

// legacy BIT_PACKED levels: MSB-first packing; the decoder returns ceil(8*len/w) values, so the
// round trip is checked on the prefix.
func c04rleBitpackedCase(ctx *core.Ctx, r *rand.Rand, bufs *c04rleBufs, b *c04rleBatch, c c04rleCase, enc []byte, st string) {
	if st != "" {
		ctx.Fail("L1", "bitpacked-encode-error", "BIT_PACKED encoder failed: "+st, c04rleDetail(c, ctx.Variant, nil))
		return
	}
	if c.w == 0 || len(c.vals) == 0 {
		ctx.Hist("bitpacked", "width0-or-empty")
		if !bytes.Equal(enc, []byte{0}) {
			ctx.Fail("L2", "bitpacked-empty-shape", "BIT_PACKED encoder of empty/width-0 input no longer returns the single byte 00", c04rleDetail(c, ctx.Variant, map[string]any{"encoded": core.Hex(enc)}))
		}
		return
	}
	ctx.Hist("bitpacked", "packed")
	hexEnc := core.Hex(enc)
	b.ask(fmt.Sprintf("bitpacked.specdec %d %d %s", c.w, len(c.vals), hexEnc), func(ans string) {
		got, ok := c04rleParseVals(ans)
		if !ok || !c04rleEqU32(got, c.vals) {
			ctx.Fail("L1", "bitpacked-spec-decode-of-go-encoding", "the spec decoder (MSB-first BIT_PACKED) does not read back the input from the Go bytes",
				c04rleDetail(c, ctx.Variant, map[string]any{"encoded": hexEnc, "spec_decoder": ans}))
		}
	})
	b.ask(fmt.Sprintf("bitpacked.enc %d %s", c.w, core.Hex(c.bytesVals())), func(ans string) {
		if ans != "ok "+hexEnc {
			ctx.Fail("L2", "bitpacked-encode-mirror", "Go BIT_PACKED encoder bytes differ from the Lean model",
				c04rleDetail(c, ctx.Variant, map[string]any{"impl": "ok " + hexEnc, "model": ans}))
		}
	})
	// L1: the (only) conformant BIT_PACKED encoding of the values, written by the harness's own
	// MSB-first packer, must be read back by the Go decoder
	var foreign []byte
	var acc uint32
	nb := 0
	for _, v := range c.vals {
		for k := c.w - 1; k >= 0; k-- {
			acc = acc<<1 | (v>>uint(k))&1
			if nb++; nb == 8 {
				foreign, acc, nb = append(foreign, byte(acc)), 0, 0
			}
		}
	}
	if nb > 0 {
		foreign = append(foreign, byte(acc<<uint(8-nb)))
	}
	ctx.Case("foreign bitpacked "+strconv.Itoa(c.w)+" "+core.Hex(foreign), len(c.vals) >= 8)
	ctx.Hist("rle.foreign", "bitpacked")
	if fdec, fst := c04rleGoDecode(r, bufs, "bitpacked", c.w, foreign); fst != "" || len(fdec) < len(c.vals) || !c04rleEqU32(fdec[:len(c.vals)], c.vals) {
		ctx.Fail("L1", "bitpacked-decode-foreign-stream", "Go BIT_PACKED decoder misreads the conformant (MSB-first) encoding of the values: "+fst,
			c04rleDetail(c, ctx.Variant, map[string]any{"stream": core.Hex(foreign), "decoded": core.JoinInts(fdec)}))
	}
	c04rleBitpackedDecodeCase(ctx, r, bufs, b, c.w, foreign)
	if r.Intn(4) == 0 {
		// BIT_PACKED has no freedom: any byte string is the encoding of the floor(8*len/w) values it holds
		raw := make([]byte, 1+r.Intn(40))
		for i := range raw {
			raw[i] = byte(r.Intn(256))
			if r.Intn(4) == 0 {
				raw[i] = []byte{0x00, 0xFF, 0x80, 0x01}[r.Intn(4)]
			}
		}
		c04rleBitpackedDecodeCase(ctx, r, bufs, b, c.w, raw)
	}
	dec, dst := c04rleGoDecode(r, bufs, "bitpacked", c.w, enc)
	if dst != "" || len(dec) < len(c.vals) || !c04rleEqU32(dec[:len(c.vals)], c.vals) {
		ctx.Fail("L1", "bitpacked-go-roundtrip", "DecodeLevels(EncodeLevels(xs)) does not start with xs: "+dst,
			c04rleDetail(c, ctx.Variant, map[string]any{"encoded": hexEnc, "decoded": core.JoinInts(dec)}))
	}
}

// c04rleBitpackedDecodeCase: the Go BIT_PACKED decoder on an arbitrary byte string (width 1..8, dirty
// dst): L1 against the Lean SPEC decoder on the n = floor(8*len/w) values the string holds, L2
// against the mirror of decodeLevels (goDecodeBitPacked) on everything it returns, the value of the
// trailing partial bits included.
func c04rleBitpackedDecodeCase(ctx *core.Ctx, r *rand.Rand, bufs *c04rleBufs, b *c04rleBatch, w int, stream []byte) {
	if w < 1 || w > 8 || len(stream) == 0 {
		return
	}
	hexS := core.Hex(stream)
	ctx.Case("bitpacked-dec "+strconv.Itoa(w)+" "+hexS, 8*len(stream) >= 8*w)
	ctx.Hist("bitpacked.decode", "w="+strconv.Itoa(w))
	dec, st := c04rleGoDecode(r, bufs, "bitpacked", w, stream)
	detail := map[string]any{"kind": "bitpacked", "bit_width": w, "stream": hexS, "decoded": core.JoinInts(dec), "status": st, "variant": ctx.Variant,
		"replay_case": fmt.Sprintf("rle-dec bitpacked %d %s", w, hexS)}
	if st != "" {
		ctx.Fail("L1", "bitpacked-decode-fails", "Go BIT_PACKED decoder fails on a byte string: "+st, detail)
		return
	}
	n := 8 * len(stream) / w
	b.ask(fmt.Sprintf("bitpacked.specdec %d %d %s", w, n, hexS), func(ans string) {
		got, ok := c04rleParseVals(ans)
		if !ok || len(dec) < n || !c04rleEqU32(got, dec[:n]) {
			detail["spec_decoder"] = ans
			ctx.Fail("L1", "bitpacked-decode-differs-from-spec", "Go BIT_PACKED decoder does not return the values the spec decoder reads from the same bytes", detail)
		}
	})
	b.ask(fmt.Sprintf("bitpacked.godec %d %s", w, hexS), func(ans string) {
		if ans != "ok "+core.JoinInts(dec) {
			detail["model"] = ans
			ctx.Fail("L2", "bitpacked-decode-mirror", "Go BIT_PACKED decoder differs from the Lean mirror of decodeLevels", detail)
		}
	})
}

// ---------------------------------------------------------------- malformed generator

func c04rleMutate(r *rand.Rand, s []byte) ([]byte, string) {
	s = bytes.Clone(s)
	switch r.Intn(6) {
	case 0:
		if len(s) > 0 {
			s[r.Intn(len(s))] ^= 1 << uint(r.Intn(8))
		}
		return s, "bitflip"
	case 1:
		if len(s) > 0 {
			return s[:r.Intn(len(s))], "truncate"
		}
		return s, "truncate"
	case 2:
		k := 1 + r.Intn(4)
		for ; k > 0; k-- {
			s = append(s, byte(r.Intn(256)))
		}
		return s, "append-garbage"
	case 3:
		if len(s) > 0 {
			s[r.Intn(len(s))] = byte(r.Intn(256))
		}
		return s, "replace-byte"
	case 4:
		if len(s) > 0 {
			i := r.Intn(len(s))
			s = append(s[:i], s[i+1:]...)
		}
		return s, "delete-byte"
	}
	if len(s) > 0 {
		i := r.Intn(len(s))
		s = append(s[:i+1], s[i:]...)
		s[i] = []byte{0x00, 0x01, 0x02, 0x03, 0x10, 0x80, 0xFF}[r.Intn(7)]
	}
	return s, "insert-byte"
}

func c04rleRandomStream(r *rand.Rand) []byte {
	n := r.Intn(24)
	s := make([]byte, n)
	for i := range s {
		switch r.Intn(4) {
		case 0:
			s[i] = byte(r.Intn(8))
		case 1:
			s[i] = []byte{0, 1, 2, 3, 0x10, 0x11, 0x7f, 0x80, 0xfe, 0xff}[r.Intn(10)]
		default:
			s[i] = byte(r.Intn(256))
		}
	}
	return s
}

// ---------------------------------------------------------------- corpus

// corpus lines (files corpus/C04/rle-*.case):
//
//	rle-enc <kind> <w> <values>          encoder-side checks on these values
//	rle-dec <kind> <w> <hex> [<values>]  decoder-side checks on this stream (with values: a
//	                                     conformant stream that encodes them)
func c04rleCorpus(ctx *core.Ctx, r *rand.Rand, bufs *c04rleBufs, b *c04rleBatch) {
	for _, f := range ctx.CorpusFiles() {
		base := f[strings.LastIndex(f, "/")+1:]
		if !strings.HasPrefix(base, "rle-") {
			continue
		}
		data, err := os.ReadFile(f)
		if err != nil {
			continue
		}
		for _, line := range strings.Split(string(data), "\n") {
			c04rleCorpusLine(ctx, r, bufs, b, line)
		}
	}
}

func c04rleCorpusLine(ctx *core.Ctx, r *rand.Rand, bufs *c04rleBufs, b *c04rleBatch, line string) {
	parseVals := func(s string) []uint32 {
		if s == "-" {
			return nil
		}
		var out []uint32
		for _, p := range strings.Split(s, ",") {
			v, _ := strconv.ParseUint(p, 10, 32)
			out = append(out, uint32(v))
		}
		return out
	}
	t := strings.Fields(line)
	if len(t) < 4 || strings.HasPrefix(line, "#") {
		return
	}
	w, _ := strconv.Atoi(t[2])
	ctx.Hist("rle.corpus", t[0])
	switch t[0] {
	case "rle-enc":
		c04rleEncodeCase(ctx, r, bufs, b, c04rleCase{kind: t[1], w: w, vals: parseVals(t[3]), tag: "corpus"})
	case "rle-dec":
		stream, ok := hexDecodeLoose(t[3])
		if !ok {
			return
		}
		if t[1] == "bitpacked" {
			c04rleBitpackedDecodeCase(ctx, r, bufs, b, w, stream)
			return
		}
		if len(t) >= 5 {
			c04rleForeignCase(ctx, r, bufs, b, c04rleCase{kind: t[1], w: w, tag: "corpus"}, parseVals(t[4]), stream)
		} else {
			c04rleMalformedCase(ctx, r, bufs, b, t[1], w, stream, "corpus")
		}
	}
}

func c04rleReplayLine(path string) string {
	data, err := os.ReadFile(path)
	if err != nil {
		return ""
	}
	var obj struct {
		Detail struct {
			ReplayCase string `json:"replay_case"`
		} `json:"detail"`
	}
	if json.Unmarshal(data, &obj) != nil {
		return ""
	}
	return obj.Detail.ReplayCase
}

// ---------------------------------------------------------------- entry point

func RunC04Rle(ctx *core.Ctx) {
	ctx.SetRule("RLE/bit-packed hybrid: (kind in levels,int32,bool,dict,bitpacked) x every bit width x lengths at 8-group boundaries x run patterns (constant, alternating, runs cut at multiples of 8/64, lane patterns a,a,a,a,b,b,b,b, one deviation, random), dirty reused dst, plus foreign conformant streams and malformed streams; distinct by canonical text (kind, width, values or stream bytes); non-trivial = at least 8 values (one full group) at a non-zero width, or a stream of at least 2 bytes")
	if ctx.Replay != "" {
		// a replay file carries detail.replay_case (one corpus line): run only that
		if line := c04rleReplayLine(ctx.Replay); line != "" {
			r := ctx.Rand("c04rle/replay")
			b := &c04rleBatch{ctx: ctx, d: ctx.Driver()}
			c04rleCorpusLine(ctx, r, &c04rleBufs{}, b, line)
			b.flush()
		}
		return
	}
	nWorkers := 14
	perWorker := ctx.Scale(9000, 40000)
	if ctx.Widen {
		perWorker *= 3
	}
	{ // the corpus first, alone, so that its minimal cases are the ones recorded for each key
		b := &c04rleBatch{ctx: ctx, d: ctx.Driver()}
		c04rleCorpus(ctx, ctx.Rand("c04rle/corpus"), &c04rleBufs{}, b)
		b.flush()
	}
	var wg sync.WaitGroup
	for wk := 0; wk < nWorkers; wk++ {
		wg.Add(1)
		go func(wk int) {
			defer wg.Done()
			r := ctx.Rand(fmt.Sprintf("c04rle/%d", wk))
			b := &c04rleBatch{ctx: ctx, d: ctx.Driver()}
			bufs := &c04rleBufs{}
			// the systematic part is dealt out case by case over the workers (it used to run on
			// worker 0 alone, which made the thorough tier wait for one goroutine)
			c04rleSystematic(ctx, r, bufs, b, wk, nWorkers)
			var lastEnc []byte
			lastKind, lastW := "levels", 1
			for i := 0; i < perWorker; i++ {
				c := c04rleGen(r)
				if wk == 1 && i < 6 {
					ctx.Sample(map[string]any{"kind": c.kind, "bit_width": c.w, "pattern": c.tag, "values": core.JoinInts(c.vals)})
				}
				if enc := c04rleEncodeCase(ctx, r, bufs, b, c); enc != nil {
					lastEnc, lastKind, lastW = enc, c.kind, c.w
				}
				// a BOOLEAN page of another writer, built from a random run list: about one case in eight
				if r.Intn(8) == 0 {
					body, vals := c04rleForeignBoolRuns(r)
					ctx.Hist("rle.foreign-bool-runs", c04rleLenClass(len(vals)))
					c04rleForeignCase(ctx, r, bufs, b, c04rleCase{kind: "bool", tag: "foreign-runs"}, vals, c04rleWrap("bool", 1, body))
				}
				// malformed stream: about one case in three
				if r.Intn(3) == 0 {
					kind, w := lastKind, lastW
					var s []byte
					var origin string
					if r.Intn(3) == 0 {
						kind = []string{"levels", "int32", "bool", "dict"}[r.Intn(4)]
						w = r.Intn(c04rleMaxW(kind) + 1)
						s, origin = c04rleRandomStream(r), "random-bytes"
						if kind == "bool" && r.Intn(2) == 0 {
							s = c04rleWrap("bool", 1, s)
						}
					} else {
						s, origin = c04rleMutate(r, lastEnc)
						if r.Intn(4) == 0 {
							s, _ = c04rleMutate(r, s)
							origin = "two-mutations"
						}
					}
					c04rleMalformedCase(ctx, r, bufs, b, kind, w, s, origin)
				}
			}
			b.flush()
		}(wk)
	}
	wg.Wait()
}

// c04rleSystematic: every kind x every width x every boundary length x every pattern once.
func c04rleSystematic(ctx *core.Ctx, r *rand.Rand, bufs *c04rleBufs, b *c04rleBatch, part, nparts int) {
	idx := 0
	mine := func() bool { // every nparts-th case of the enumeration belongs to this worker
		idx++
		return idx%nparts == part
	}
	lens := []int{0, 1, 7, 8, 9, 15, 16, 17, 24, 63, 64, 65}
	for _, kind := range []string{"levels", "int32", "bool", "dict", "bitpacked"} {
		for w := 0; w <= c04rleMaxW(kind); w++ {
			if kind == "bool" && w != 8 {
				continue
			}
			for _, n := range lens {
				for _, pat := range c04rlePatterns {
					if !mine() {
						continue
					}
					c := c04rleCase{kind: kind, w: w, tag: pat, vals: c04rleValues(r, pat, w, n)}
					if kind == "bool" || kind == "dict" {
						c.w = 0
					}
					c04rleEncodeCase(ctx, r, bufs, b, c)
				}
			}
		}
	}
	// exhaustive over sequences of up to 4 word shapes x 3 tails (run detection sees words only
	// through "constant / equal to the previous pattern / lane pattern / other")
	shapes := [][]uint32{
		{0, 0, 0, 0, 0, 0, 0, 0}, {1, 1, 1, 1, 1, 1, 1, 1}, {0, 0, 0, 0, 1, 1, 1, 1}, {1, 1, 1, 1, 0, 0, 0, 0},
		{0, 1, 0, 1, 0, 1, 0, 1}, {0, 0, 0, 0, 0, 0, 0, 1}, {1, 0, 0, 0, 0, 0, 0, 0},
	}
	tails := [][]uint32{{}, {0}, {1, 1, 0}, {0, 0, 0, 0, 0, 0, 0}}
	var rec func(prefix []uint32, depth int)
	rec = func(prefix []uint32, depth int) {
		for _, tl := range tails {
			if !mine() {
				continue
			}
			vals := append(append([]uint32(nil), prefix...), tl...)
			for _, kw := range []struct {
				kind string
				w    int
			}{{"levels", 1}, {"int32", 1}, {"int32", 9}, {"dict", 0}} {
				c04rleEncodeCase(ctx, r, bufs, b, c04rleCase{kind: kw.kind, w: kw.w, tag: "shapes", vals: vals})
			}
		}
		if depth == ctx.Scale(3, 5) {
			return
		}
		for _, sh := range shapes {
			rec(append(append([]uint32(nil), prefix...), sh...), depth+1)
		}
	}
	rec(nil, 0)
	// boolean: all byte sequences of length <= 5 (quick) / 7 (thorough) over {00, FF, 13, 14}
	alpha := []uint32{0x00, 0xFF, 0x13, 0x14}
	var recb func(prefix []uint32)
	recb = func(prefix []uint32) {
		if mine() {
			c04rleEncodeCase(ctx, r, bufs, b, c04rleCase{kind: "bool", tag: "shapes", vals: append([]uint32(nil), prefix...)})
		}
		if len(prefix) == ctx.Scale(5, 7) {
			return
		}
		for _, a := range alpha {
			recb(append(append([]uint32(nil), prefix...), a))
		}
	}
	recb(nil)
	// the minimal input on which the AVX2 kernel segments differently from the portable code (F15)
	if part != 0 {
		return
	}
	c04rleEncodeCase(ctx, r, bufs, b, c04rleCase{kind: "int32", w: 1, tag: "f15", vals: []uint32{0, 1, 0, 1, 0, 1, 0, 1, 0, 0, 0, 0, 1, 1, 1, 1}})
}
