package props

import (
	"bytes"
	"crypto/sha256"
	"encoding/binary"
	"encoding/hex"
	"fmt"
	"math/bits"
	"strings"

	"github.com/parquet-go/parquet-go"
	"github.com/parquet-go/parquet-go/encoding/thrift"
	"github.com/parquet-go/parquet-go/format"
)

// A parquet file cut into named sections in causal order (page payloads before the headers,
// indexes and footer fields that are derived from them), so that for two files that should be
// byte-identical the FIRST differing section names the place where they start to differ.
// Only digests are kept: the sections of one build's file can be compared with those another
// process recorded.
type c17Section struct {
	Label string `json:"l"`           // position: rg0/c2/p3/values
	Class string `json:"c"`           // kind without indices: dict-index-page-values
	Sha   string `json:"s"`           // sha256 prefix of the section's bytes
	Runs  string `json:"r,omitempty"` // RLE/bit-packed hybrid streams: digest of the run structure
	Ints  string `json:"i,omitempty"` // ... and of the decoded integers
}

func c17Sha(b []byte) string {
	h := sha256.Sum256(b)
	return hex.EncodeToString(h[:8])
}

func c17ShaFull(b []byte) string {
	h := sha256.Sum256(b)
	return hex.EncodeToString(h[:])
}

// c17RLE parses a Parquet RLE/bit-packed hybrid stream of the given bit width and returns a
// digest of its run structure ("R<count>" / "B<groups>" sequence) and of the decoded integers.
func c17RLE(b []byte, width int) (runs, ints string) {
	if width <= 0 || width > 32 {
		return "", ""
	}
	var rs strings.Builder
	hv := sha256.New()
	var tmp [4]byte
	emit := func(v uint32) { binary.LittleEndian.PutUint32(tmp[:], v); hv.Write(tmp[:]) }
	for i := 0; i < len(b); {
		u, n := binary.Uvarint(b[i:])
		if n <= 0 {
			return "malformed", "malformed"
		}
		i += n
		if u&1 == 1 {
			groups := int(u >> 1)
			nb := groups * width
			if nb < 0 || i+nb > len(b) {
				return "malformed", "malformed"
			}
			fmt.Fprintf(&rs, "B%d,", groups)
			var acc uint64
			var have int
			p := i
			for k := 0; k < groups*8; k++ {
				for have < width {
					acc |= uint64(b[p]) << have
					p++
					have += 8
				}
				emit(uint32(acc & (1<<width - 1)))
				acc >>= width
				have -= width
			}
			i += nb
		} else {
			count := int(u >> 1)
			nb := (width + 7) / 8
			if i+nb > len(b) {
				return "malformed", "malformed"
			}
			var v uint32
			for k := 0; k < nb; k++ {
				v |= uint32(b[i+k]) << (8 * k)
			}
			i += nb
			fmt.Fprintf(&rs, "R%d,", count)
			if count > 1<<24 {
				return "malformed", "malformed"
			}
			for k := 0; k < count; k++ {
				emit(v)
			}
		}
	}
	return c17Sha([]byte(rs.String())), hex.EncodeToString(hv.Sum(nil)[:8])
}

func c17IsDictEncoding(e format.Encoding) bool {
	return e == format.RLEDictionary || e == format.PlainDictionary
}

func c17Sections(file []byte) (secs []c17Section, err error) {
	defer func() {
		if r := recover(); r != nil {
			err = fmt.Errorf("PANIC: %v", r)
		}
	}()
	f, err := parquet.OpenFile(bytes.NewReader(file), int64(len(file)))
	if err != nil {
		return nil, err
	}
	add := func(label, class string, b []byte) *c17Section {
		secs = append(secs, c17Section{Label: label, Class: class, Sha: c17Sha(b)})
		return &secs[len(secs)-1]
	}
	addRLE := func(label, class string, b []byte, stream []byte, width int) {
		s := add(label, class, b)
		s.Runs, s.Ints = c17RLE(stream, width)
	}
	text := func(label, class string, v any) { add(label, class, []byte(fmt.Sprintf("%+v", v))) }
	md := f.Metadata()
	var leaves []*parquet.Column
	var walk func(c *parquet.Column)
	walk = func(c *parquet.Column) {
		if c.Leaf() {
			leaves = append(leaves, c)
			return
		}
		for _, ch := range c.Columns() {
			walk(ch)
		}
	}
	walk(f.Root())
	add("magic", "file-magic", file[:4])
	proto := new(thrift.CompactProtocol)
	for ri := range md.RowGroups {
		rg := &md.RowGroups[ri]
		for ci := range rg.Columns {
			m := &rg.Columns[ci].MetaData
			if ci >= len(leaves) {
				return secs, fmt.Errorf("row group %d has more column chunks than the schema has leaves", ri)
			}
			maxRep, maxDef := leaves[ci].MaxRepetitionLevel(), leaves[ci].MaxDefinitionLevel()
			start := m.DataPageOffset
			if m.DictionaryPageOffset > 0 && m.DictionaryPageOffset < start {
				start = m.DictionaryPageOffset
			}
			end := start + m.TotalCompressedSize
			if start < 4 || end > int64(len(file)) || start > end {
				text(fmt.Sprintf("rg%d/c%d/range", ri, ci), "column-chunk-range-invalid", []int64{start, end})
				continue
			}
			codec := parquet.LookupCompressionCodec(m.Codec)
			codecName := strings.ToLower(m.Codec.String())
			decompress := func(b []byte) ([]byte, bool) {
				if m.Codec == format.Uncompressed {
					return b, true
				}
				out, err := codec.Decode(nil, b)
				return out, err == nil
			}
			pos := start
			for pi := 0; pos < end; pi++ {
				rd := bytes.NewReader(file[pos:end])
				var h format.PageHeader
				if err := thrift.NewDecoder(proto.NewReader(rd)).Decode(&h); err != nil {
					return secs, fmt.Errorf("rg %d column %d page %d: page header: %w", ri, ci, pi, err)
				}
				hlen := int64(int(end-pos) - rd.Len())
				header := file[pos : pos+hlen]
				if h.CompressedPageSize < 0 || pos+hlen+int64(h.CompressedPageSize) > end {
					return secs, fmt.Errorf("rg %d column %d page %d: page body exceeds the column chunk", ri, ci, pi)
				}
				body := file[pos+hlen : pos+hlen+int64(h.CompressedPageSize)]
				pos += hlen + int64(h.CompressedPageSize)
				lp := fmt.Sprintf("rg%d/c%d/p%d/", ri, ci, pi)
				switch h.Type {
				case format.DictionaryPage:
					if plain, ok := decompress(body); ok {
						add(lp+"values", "dictionary-page-values", plain)
					} else {
						add(lp+"values", "dictionary-page-undecodable", body)
					}
					if m.Codec != format.Uncompressed {
						add(lp+"compressed", "dictionary-page-compressed-"+codecName, body)
					}
					c17Header(text, add, lp, "dictionary-page", &h, header)
				case format.DataPage:
					enc := h.DataPageHeader.V.Encoding
					kind := "data-page"
					if c17IsDictEncoding(enc) {
						kind = "dict-index-page"
					}
					plain, ok := decompress(body)
					if !ok {
						add(lp+"body", kind+"-undecodable", body)
					} else {
						rest := plain
						level := func(name string, max int) bool {
							if max == 0 {
								return true
							}
							if len(rest) < 4 {
								return false
							}
							n := int(binary.LittleEndian.Uint32(rest))
							if n < 0 || 4+n > len(rest) {
								return false
							}
							addRLE(lp+name, kind+"-"+name, rest[:4+n], rest[4:4+n], bits.Len(uint(max)))
							rest = rest[4+n:]
							return true
						}
						if !level("rep-levels", maxRep) || !level("def-levels", maxDef) {
							add(lp+"body", kind+"-levels-malformed", plain)
						} else {
							c17Values(addRLE, add, lp, kind, enc, rest)
						}
					}
					if m.Codec != format.Uncompressed {
						add(lp+"compressed", kind+"-compressed-"+codecName, body)
					}
					c17Header(text, add, lp, kind, &h, header)
				case format.DataPageV2:
					v2 := h.DataPageHeaderV2.V
					enc := v2.Encoding
					kind := "data-page"
					if c17IsDictEncoding(enc) {
						kind = "dict-index-page"
					}
					rl, dl := int(v2.RepetitionLevelsByteLength), int(v2.DefinitionLevelsByteLength)
					if rl < 0 || dl < 0 || rl+dl > len(body) {
						add(lp+"body", kind+"-levels-malformed", body)
					} else {
						if maxRep > 0 {
							addRLE(lp+"rep-levels", kind+"-rep-levels", body[:rl], body[:rl], bits.Len(uint(maxRep)))
						}
						if maxDef > 0 {
							addRLE(lp+"def-levels", kind+"-def-levels", body[rl:rl+dl], body[rl:rl+dl], bits.Len(uint(maxDef)))
						}
						vals := body[rl+dl:]
						compressed := m.Codec != format.Uncompressed && (!v2.IsCompressed.Valid || v2.IsCompressed.V)
						if compressed {
							if plain, ok := decompress(vals); ok {
								c17Values(addRLE, add, lp, kind, enc, plain)
							} else {
								add(lp+"values", kind+"-undecodable", vals)
							}
							add(lp+"compressed", kind+"-compressed-"+codecName, vals)
						} else {
							c17Values(addRLE, add, lp, kind, enc, vals)
						}
					}
					c17Header(text, add, lp, kind, &h, header)
				default:
					add(lp+"body", "other-page", body)
					add(lp+"header", "other-page-header", header)
				}
			}
		}
	}
	for ri := range md.RowGroups {
		for ci := range md.RowGroups[ri].Columns {
			cc := &md.RowGroups[ri].Columns[ci]
			if l, o := int64(cc.MetaData.BloomFilterLength), cc.MetaData.BloomFilterOffset; l > 0 && o > 0 && o+l <= int64(len(file)) {
				add(fmt.Sprintf("rg%d/c%d/bloom", ri, ci), "bloom-filter", file[o:o+l])
			} else if o > 0 {
				text(fmt.Sprintf("rg%d/c%d/bloom", ri, ci), "bloom-filter-without-length", "present")
			}
		}
	}
	ncols := len(leaves)
	cis, ois := f.ColumnIndexes(), f.OffsetIndexes()
	for ri := range md.RowGroups {
		for ci := range md.RowGroups[ri].Columns {
			cc := &md.RowGroups[ri].Columns[ci]
			lp := fmt.Sprintf("rg%d/c%d/column-index/", ri, ci)
			if k := ri*ncols + ci; k < len(cis) {
				x := &cis[k]
				text(lp+"null-pages", "column-index-null-pages", x.NullPages)
				text(lp+"min-values", "column-index-min-values", x.MinValues)
				text(lp+"max-values", "column-index-max-values", x.MaxValues)
				text(lp+"boundary-order", "column-index-boundary-order", x.BoundaryOrder)
				text(lp+"null-counts", "column-index-null-counts", x.NullCounts)
				text(lp+"rep-histogram", "column-index-repetition-level-histogram", x.RepetitionLevelHistogram)
				text(lp+"def-histogram", "column-index-definition-level-histogram", x.DefinitionLevelHistogram)
			}
			if l, o := int64(cc.ColumnIndexLength), cc.ColumnIndexOffset; l > 0 && o > 0 && o+l <= int64(len(file)) {
				add(lp+"bytes", "column-index-bytes", file[o:o+l])
			}
		}
	}
	for ri := range md.RowGroups {
		for ci := range md.RowGroups[ri].Columns {
			cc := &md.RowGroups[ri].Columns[ci]
			lp := fmt.Sprintf("rg%d/c%d/offset-index/", ri, ci)
			if k := ri*ncols + ci; k < len(ois) {
				text(lp+"page-locations", "offset-index-page-locations", ois[k].PageLocations)
				text(lp+"unencoded-bytes", "offset-index-unencoded-byte-array-data-bytes", ois[k].UnencodedByteArrayDataBytes)
			}
			if l, o := int64(cc.OffsetIndexLength), cc.OffsetIndexOffset; l > 0 && o > 0 && o+l <= int64(len(file)) {
				add(lp+"bytes", "offset-index-bytes", file[o:o+l])
			}
		}
	}
	// footer fields
	text("footer/version", "footer-version", md.Version)
	text("footer/schema", "footer-schema", md.Schema)
	text("footer/num-rows", "footer-num-rows", md.NumRows)
	text("footer/created-by", "footer-created-by", md.CreatedBy)
	text("footer/key-value-metadata", "footer-key-value-metadata", md.KeyValueMetadata)
	text("footer/column-orders", "footer-column-orders", len(md.ColumnOrders))
	text("footer/num-row-groups", "footer-num-row-groups", len(md.RowGroups))
	for ri := range md.RowGroups {
		rg := &md.RowGroups[ri]
		lp := fmt.Sprintf("footer/rg%d/", ri)
		text(lp+"num-rows", "footer-row-group-num-rows", rg.NumRows)
		text(lp+"sorting-columns", "footer-sorting-columns", fmt.Sprintf("%+v absent=%v", rg.SortingColumns, rg.SortingColumns == nil))
		for ci := range rg.Columns {
			cc := &rg.Columns[ci]
			m := &cc.MetaData
			lc := fmt.Sprintf("%sc%d/", lp, ci)
			text(lc+"path-in-schema", "footer-path-in-schema", fmt.Sprintf("%q", []string(m.PathInSchema)))
			text(lc+"type", "footer-column-type", m.Type)
			text(lc+"encodings", "footer-encodings", m.Encoding)
			text(lc+"codec", "footer-codec", m.Codec)
			text(lc+"num-values", "footer-num-values", m.NumValues)
			text(lc+"statistics-null-count", "footer-statistics-null-count", m.Statistics.NullCount)
			text(lc+"statistics-min-value", "footer-statistics-min-value", fmt.Sprintf("%x/%v", m.Statistics.MinValue, m.Statistics.MinValue == nil))
			text(lc+"statistics-max-value", "footer-statistics-max-value", fmt.Sprintf("%x/%v", m.Statistics.MaxValue, m.Statistics.MaxValue == nil))
			text(lc+"statistics-deprecated", "footer-statistics-deprecated-min-max", fmt.Sprintf("%x/%x", m.Statistics.Min, m.Statistics.Max))
			text(lc+"statistics-distinct-count", "footer-statistics-distinct-count", m.Statistics.DistinctCount)
			text(lc+"encoding-stats", "footer-encoding-stats", m.EncodingStats)
			text(lc+"size-statistics", "footer-size-statistics", m.SizeStatistics)
			text(lc+"geospatial-statistics", "footer-geospatial-statistics", fmt.Sprintf("%+v types=%v/%v", m.GeospatialStatistics.BBox,
				[]int32(m.GeospatialStatistics.GeoSpatialTypes), m.GeospatialStatistics.GeoSpatialTypes == nil))
			text(lc+"key-value-metadata", "footer-column-key-value-metadata", m.KeyValueMetadata)
			text(lc+"sizes", "footer-column-sizes", []int64{m.TotalUncompressedSize, m.TotalCompressedSize})
			text(lc+"offsets", "footer-column-offsets", []int64{m.DataPageOffset, m.IndexPageOffset, m.DictionaryPageOffset, m.BloomFilterOffset, int64(m.BloomFilterLength),
				cc.FileOffset, cc.ColumnIndexOffset, int64(cc.ColumnIndexLength), cc.OffsetIndexOffset, int64(cc.OffsetIndexLength)})
		}
		text(lp+"sizes", "footer-row-group-sizes", []int64{rg.TotalByteSize, rg.TotalCompressedSize, rg.FileOffset, int64(rg.Ordinal)})
	}
	if n := len(file); n >= 12 {
		fl := int(binary.LittleEndian.Uint32(file[n-8:]))
		if fl >= 0 && fl+8 <= n {
			add("footer/bytes", "footer-bytes", file[n-8-fl:n-8])
		}
		add("tail", "file-tail", file[n-8:])
	}
	add("file", "file-bytes", file)
	return secs, nil
}

// c17Header adds the decoded fields of a page header as sections before its raw bytes, so that a
// header that differs is classed by the field (statistics, crc, sizes) and not just "header".
func c17Header(text func(label, class string, v any), add func(label, class string, b []byte) *c17Section, lp, kind string, h *format.PageHeader, raw []byte) {
	var st *format.Statistics
	var counts any
	switch h.Type {
	case format.DataPage:
		v := &h.DataPageHeader.V
		st, counts = &v.Statistics, []any{v.NumValues, v.Encoding, v.DefinitionLevelEncoding, v.RepetitionLevelEncoding}
	case format.DataPageV2:
		v := &h.DataPageHeaderV2.V
		st, counts = &v.Statistics, []any{v.NumValues, v.NumNulls, v.NumRows, v.Encoding, v.DefinitionLevelsByteLength, v.RepetitionLevelsByteLength, v.IsCompressed}
	case format.DictionaryPage:
		v := &h.DictionaryPageHeader.V
		counts = []any{v.NumValues, v.Encoding, v.IsSorted}
	}
	text(lp+"header/counts", kind+"-header-counts", counts)
	text(lp+"header/sizes", kind+"-header-sizes", []int32{h.UncompressedPageSize, h.CompressedPageSize})
	if st != nil {
		text(lp+"header/statistics-null-count", kind+"-header-statistics-null-count", st.NullCount)
		text(lp+"header/statistics-min-value", kind+"-header-statistics-min-value", fmt.Sprintf("%x/%v/%x", st.MinValue, st.MinValue == nil, st.Min))
		text(lp+"header/statistics-max-value", kind+"-header-statistics-max-value", fmt.Sprintf("%x/%v/%x", st.MaxValue, st.MaxValue == nil, st.Max))
		text(lp+"header/statistics-distinct-count", kind+"-header-statistics-distinct-count", st.DistinctCount)
	}
	text(lp+"header/crc", kind+"-header-crc", h.CRC)
	add(lp+"header", kind+"-header", raw)
}

func c17Values(addRLE func(label, class string, b, stream []byte, width int), add func(label, class string, b []byte) *c17Section,
	lp, kind string, enc format.Encoding, vals []byte) {
	if c17IsDictEncoding(enc) {
		if len(vals) >= 1 {
			addRLE(lp+"values", kind+"-values", vals, vals[1:], int(vals[0]))
		} else {
			add(lp+"values", kind+"-values", vals)
		}
		return
	}
	add(lp+"values", kind+"-values-"+strings.ReplaceAll(strings.ToLower(enc.String()), "_", "-"), vals)
}

// c17FirstDiff returns the class and position of the first section in which two section lists
// differ ("" when they agree). A hybrid RLE section whose decoded integers agree while the run
// structure differs is classed as "...-rle-segmentation".
func c17FirstDiff(a, b []c17Section) (class, label string) {
	n := len(a)
	if len(b) < n {
		n = len(b)
	}
	for i := 0; i < n; i++ {
		x, y := a[i], b[i]
		if x.Label != y.Label || x.Class != y.Class {
			return "layout-differs-at-" + x.Class, x.Label + " vs " + y.Label
		}
		if x.Sha != y.Sha {
			if x.Runs != "" && x.Runs != "malformed" && y.Runs != "malformed" && x.Ints == y.Ints && x.Runs != y.Runs {
				return strings.TrimSuffix(x.Class, "-values") + "-rle-segmentation", x.Label
			}
			return x.Class, x.Label
		}
	}
	if len(a) != len(b) {
		return "layout-differs-section-count", fmt.Sprintf("%d vs %d sections", len(a), len(b))
	}
	return "", ""
}

// c17Chain is the compact form of a section list that crosses the process boundary: 8 hex digits
// per section digest, in order; hybrid RLE sections contribute three entries (bytes, run
// structure, decoded integers).
func c17Chain(secs []c17Section) string {
	var sb strings.Builder
	for _, s := range secs {
		sb.WriteString(s.Sha[:8])
		if s.Runs != "" {
			sb.WriteString((s.Runs + "00000000")[:8])
			sb.WriteString((s.Ints + "00000000")[:8])
		}
	}
	return sb.String()
}

// c17FirstDiffChain compares this process's sections with the chain another process recorded for
// the same case.
func c17FirstDiffChain(mine []c17Section, peer string) (class, label string) {
	pos := 0
	next := func() (string, bool) {
		if pos+8 > len(peer) {
			return "", false
		}
		pos += 8
		return peer[pos-8 : pos], true
	}
	for _, s := range mine {
		sha, ok := next()
		if !ok {
			return "layout-differs-at-" + s.Class, s.Label + " (the other file has fewer sections)"
		}
		runs, ints := "", ""
		if s.Runs != "" {
			runs, _ = next()
			ints, ok = next()
			if !ok {
				return "layout-differs-at-" + s.Class, s.Label
			}
		}
		if sha != s.Sha[:8] {
			if s.Runs != "" && s.Runs != "malformed" && ints == (s.Ints + "00000000")[:8] && runs != (s.Runs + "00000000")[:8] {
				return strings.TrimSuffix(s.Class, "-values") + "-rle-segmentation", s.Label
			}
			return s.Class, s.Label
		}
	}
	if pos != len(peer) {
		return "layout-differs-section-count", "the other file has more sections"
	}
	return "", ""
}

// c17DiffFiles classifies the first difference of two files that should be byte-identical.
func c17DiffFiles(want, got []byte) (class, label string) {
	if bytes.Equal(want, got) {
		return "", ""
	}
	a, err := c17Sections(want)
	if err != nil {
		return "reference-file-unreadable", err.Error()
	}
	b, err := c17Sections(got)
	if err != nil {
		return "file-unreadable " + errClass(err), err.Error()
	}
	class, label = c17FirstDiff(a, b)
	if class == "" {
		return "bytes-outside-known-sections", fmt.Sprintf("lengths %d vs %d", len(want), len(got))
	}
	return class, label
}
