package props

import (
	"encoding/hex"
	"fmt"
	"math/big"
	"math/rand"
	"strings"
	"sync"

	"github.com/parquet-go/parquet-go"
	"github.com/parquet-go/parquet-go/variant"

	"verifharness/core"
)

// Property C19, part "carrier": shredding never changes a value, whatever shredding schema SOMEONE ELSE
// chose. The Go writer is handed hand-built shredding schemas whose typed_value uses every physical
// layout the format allows for a variant primitive:
//
//	DECIMAL(p, s) on INT32 (p 1..9), INT64 (p 1..18), FIXED_LEN_BYTE_ARRAY(n) for every n in 1..16
//	(p 1..maxprec(n)), BYTE_ARRAY (p 1..38), scale 0 / small / = p;
//	INT(8/16/32/64), plain INT32/INT64, FLOAT, DOUBLE, STRING, BYTE_ARRAY, DATE, TIME, TIMESTAMP
//	(micros/nanos, utc or not), UUID - each fed with values of the NEIGHBOURING kinds too (narrower and
//	wider integers, the other float width, the other decimal widths, binary for string, ...);
//
// at the root, as an object field and as a list element, with values at the edges of the carrier's range
// (0, +-1, +-(10^p-1), +-10^p, +-2^(8n-1) -+ 1, the int8/16/32/64/128 limits) in every decimal width and
// with matching and non-matching scales.
//
//	L1  every read path (shredded raw / Go-native, conversion to unshredded, legacy reader, cursor reader)
//	    returns the rows written, for 4 write paths.
//	L1  (root shape) per row exactly one of value / typed_value is set unless the writer keeps both null
//	    for nothing; a DECIMAL typed_value cell, decoded by the SPEC reading of the column type (big-endian
//	    two's complement, the column's scale; INT32 = decimal4, INT64 = decimal8, binary = decimal16),
//	    is the value written and lies inside the declared precision; an FLBA cell has n bytes.
//	L2  (root shape, DECIMAL columns) the typed_value cell equals the Lean MIRROR `decToCol` of the
//	    decimal cases of variantToParquetValue (op variant.deccol), and the mirror's reader gives back
//	    the value.

func init() { RegisterSub("C19", "carrier", RunC19Carrier) }

const c19CarrierRule = "carrier: hand-built shredding schemas (DECIMAL on INT32/INT64/FLBA(1..16)/BYTE_ARRAY x precision x scale, every other shredded primitive type) fed with values of the column's kind and of the neighbouring kinds at the edges of the carrier's range; a case is non-trivial when at least one value is a scalar"

type c19CarrierCol struct {
	name  string // canonical text, e.g. dec(18,2)@flba8
	class string // failure-key class, e.g. dec@flba<16
	node  func() parquet.Node
	dec   bool
	phys  string // i32 i64 flba<n> ba (decimal columns)
	bytes int    // carrier width in bytes (16 for BYTE_ARRAY: the widest variant decimal)
	prec  int
	scale int
	kinds []string // value kinds aimed at a non-decimal column
}

var c19Pow10 = func() []*big.Int {
	out := make([]*big.Int, 40)
	for i := range out {
		out[i] = new(big.Int).Exp(big.NewInt(10), big.NewInt(int64(i)), nil)
	}
	return out
}()

// largest precision an n-byte two's complement holds: 10^p - 1 <= 2^(8n-1) - 1
func c19MaxPrec(n int) int {
	lim := new(big.Int).Lsh(big.NewInt(1), uint(8*n-1))
	p := 0
	for p+1 < len(c19Pow10) && c19Pow10[p+1].Cmp(lim) <= 0 {
		p++
	}
	return p
}

func c19PickPrec(r *rand.Rand, maxp int) int {
	switch r.Intn(4) {
	case 0:
		return maxp
	case 1:
		return 1
	case 2:
		return max(1, maxp-1)
	}
	return 1 + r.Intn(maxp)
}

func c19RandCarrierCol(r *rand.Rand) *c19CarrierCol {
	if r.Intn(10) < 7 {
		c := &c19CarrierCol{dec: true}
		var typ parquet.Type
		switch k := r.Intn(10); {
		case k == 0:
			c.phys, c.bytes, typ = "i32", 4, parquet.Int32Type
			c.prec = c19PickPrec(r, 9)
			c.class = "dec@i32"
		case k == 1:
			c.phys, c.bytes, typ = "i64", 8, parquet.Int64Type
			c.prec = c19PickPrec(r, 18)
			if c.prec < 10 && r.Intn(4) > 0 {
				c.prec += 9 // the library logs a warning for DECIMAL(p < 10) on INT64 (legal, unusual): keep those rare
			}
			c.class = "dec@i64"
		case k <= 3:
			c.phys, c.bytes, typ = "ba", 16, parquet.ByteArrayType
			c.prec = c19PickPrec(r, 38)
			c.class = "dec@ba"
		default:
			n := 1 + r.Intn(16)
			if r.Intn(5) == 0 {
				n = 16
			}
			c.phys, c.bytes, typ = fmt.Sprintf("flba%d", n), n, parquet.FixedLenByteArrayType(n)
			c.prec = c19PickPrec(r, c19MaxPrec(n))
			c.class = "dec@flba<16"
			if n == 16 {
				c.class = "dec@flba16"
			}
		}
		switch r.Intn(4) {
		case 0:
			c.scale = 0
		case 1:
			c.scale = c.prec
		default:
			c.scale = r.Intn(c.prec + 1)
		}
		sc, p := c.scale, c.prec
		c.node = func() parquet.Node { return parquet.Decimal(sc, p, typ) }
		c.name = fmt.Sprintf("dec(%d,%d)@%s", p, sc, c.phys)
		return c
	}
	ints := []string{"i8", "i16", "i32", "i64"}
	type alt struct {
		name  string
		node  func() parquet.Node
		kinds []string
	}
	utc := r.Intn(2) == 0
	tss := []string{"ts", "tsntz", "tsns", "tsntzns", "time", "i64"}
	alts := []alt{
		{"int8", func() parquet.Node { return parquet.Int(8) }, ints},
		{"int16", func() parquet.Node { return parquet.Int(16) }, ints},
		{"int32", func() parquet.Node { return parquet.Int(32) }, ints},
		{"int64", func() parquet.Node { return parquet.Int(64) }, ints},
		{"INT32", func() parquet.Node { return parquet.Leaf(parquet.Int32Type) }, append([]string{"date", "d4"}, ints...)},
		{"INT64", func() parquet.Node { return parquet.Leaf(parquet.Int64Type) }, append([]string{"ts", "time", "d8"}, ints...)},
		{"float", func() parquet.Node { return parquet.Leaf(parquet.FloatType) }, []string{"f32", "f64"}},
		{"double", func() parquet.Node { return parquet.Leaf(parquet.DoubleType) }, []string{"f32", "f64"}},
		{"string", func() parquet.Node { return parquet.String() }, []string{"s", "bin"}},
		{"binary", func() parquet.Node { return parquet.Leaf(parquet.ByteArrayType) }, []string{"s", "bin", "u", "d16"}},
		{"date", func() parquet.Node { return parquet.Date() }, []string{"date", "i32", "i64"}},
		{"uuid", func() parquet.Node { return parquet.UUID() }, []string{"u", "bin", "d16"}},
		{fmt.Sprintf("ts-micros-%v", utc), func() parquet.Node { return parquet.TimestampAdjusted(parquet.Microsecond, utc) }, tss},
		{fmt.Sprintf("ts-nanos-%v", utc), func() parquet.Node { return parquet.TimestampAdjusted(parquet.Nanosecond, utc) }, tss},
		{fmt.Sprintf("time-micros-%v", utc), func() parquet.Node { return parquet.TimeAdjusted(parquet.Microsecond, utc) }, tss},
	}
	a := alts[r.Intn(len(alts))]
	return &c19CarrierCol{name: a.name, class: strings.SplitN(a.name, "-", 2)[0], node: a.node, kinds: a.kinds}
}

// a decimal node of the given width holding x, nil when x does not fit the width
func c19DecNode(kind string, scale int, x *big.Int) *c19Node {
	bits := map[string]uint{"d4": 31, "d8": 63, "d16": 127}[kind]
	lim := new(big.Int).Lsh(big.NewInt(1), bits)
	if x.Cmp(lim) >= 0 || x.Cmp(new(big.Int).Neg(lim)) < 0 {
		return nil
	}
	n := &c19Node{kind: kind, scale: byte(scale)}
	if kind != "d16" {
		n.i = x.Int64()
		return n
	}
	u := new(big.Int).Set(x)
	if u.Sign() < 0 {
		u.Add(u, new(big.Int).Lsh(big.NewInt(1), 128))
	}
	be := u.FillBytes(make([]byte, 16))
	n.b = make([]byte, 16)
	for i := range be {
		n.b[i] = be[15-i]
	}
	return n
}

// an integer at an edge of the column's precision / the carrier's range / the variant widths
func c19EdgeInt(r *rand.Rand, prec, carrierBytes int) *big.Int {
	pow2 := func(k int) *big.Int { return new(big.Int).Lsh(big.NewInt(1), uint(k)) }
	var m *big.Int
	switch r.Intn(9) {
	case 0:
		m = big.NewInt(int64(r.Intn(3)))
	case 1, 2:
		m = new(big.Int).Add(c19Pow10[min(prec, 39)], big.NewInt(int64(r.Intn(3)-1))) // 10^p - 1, 10^p, 10^p + 1
	case 3:
		m = new(big.Int).Add(pow2(8*carrierBytes-1), big.NewInt(int64(r.Intn(3)-1)))
	case 4:
		m = new(big.Int).Add(pow2([]int{7, 8, 15, 16, 31, 32, 63, 64, 127}[r.Intn(9)]), big.NewInt(int64(r.Intn(3)-1)))
	case 5:
		m = new(big.Int).Rand(r, c19Pow10[min(prec, 39)]) // inside the precision
	case 6:
		m = new(big.Int).Rand(r, pow2(8*carrierBytes-1)) // inside the carrier
	case 7:
		k := 1 + r.Intn(16)
		m = new(big.Int).Add(pow2(8*k-1), big.NewInt(int64(r.Intn(3)-1))) // sign-bit edge of some byte width
	default:
		m = big.NewInt(int64(r.Intn(100000)))
	}
	if r.Intn(2) == 0 {
		m.Neg(m)
	}
	return m
}

func c19CarrierValue(r *rand.Rand, c *c19CarrierCol) *c19Node {
	if r.Intn(12) == 0 {
		return c19ShredValue(r, nil, 1, false) // anything, containers included
	}
	if c.dec {
		for tries := 0; tries < 50; tries++ {
			kind := map[string]string{"i32": "d4", "i64": "d8"}[c.phys]
			if kind == "" {
				kind = "d16"
			}
			if r.Intn(4) == 0 {
				kind = []string{"d4", "d8", "d16"}[r.Intn(3)]
			}
			scale := c.scale
			if r.Intn(7) == 0 {
				scale = []int{0, 1, c.scale + 1, c.prec}[r.Intn(4)]
			}
			if n := c19DecNode(kind, scale, c19EdgeInt(r, c.prec, c.bytes)); n != nil {
				return n
			}
		}
		return c19DecNode("d16", c.scale, big.NewInt(1))
	}
	kind := c.kinds[r.Intn(len(c.kinds))]
	switch kind {
	case "i8", "i16", "i32", "i64":
		bits := map[string]int{"i8": 8, "i16": 16, "i32": 32, "i64": 64}[kind]
		for {
			x := c19EdgeInt(r, 3, []int{1, 2, 4, 8}[r.Intn(4)])
			lim := new(big.Int).Lsh(big.NewInt(1), uint(bits-1))
			if x.Cmp(lim) < 0 && x.Cmp(new(big.Int).Neg(lim)) >= 0 {
				return &c19Node{kind: kind, i: x.Int64()}
			}
		}
	case "d4", "d8", "d16":
		if n := c19DecNode(kind, r.Intn(3), c19EdgeInt(r, 5, 4)); n != nil {
			return n
		}
	case "bin":
		if r.Intn(2) == 0 {
			return &c19Node{kind: "bin", b: c19RandBytes(r, 16)}
		}
	}
	for tries := 0; tries < 400; tries++ {
		if n := c19ShredPrim(r, false); n.kind == kind {
			return n
		}
	}
	return c19ShredPrim(r, false)
}

// SPEC reading of a DECIMAL leaf: the variant decimal it stands for, as driver text
func (c *c19CarrierCol) specDecode(pay string) (text string, unscaled *big.Int, err error) {
	switch {
	case strings.HasPrefix(pay, "i32:") && c.phys == "i32", strings.HasPrefix(pay, "i64:") && c.phys == "i64":
		x, ok := new(big.Int).SetString(pay[4:], 10)
		if !ok {
			return "", nil, fmt.Errorf("leaf %q", pay)
		}
		kind := "d4"
		if c.phys == "i64" {
			kind = "d8"
		}
		return fmt.Sprintf("%s:%d:%s", kind, c.scale, x), x, nil
	case strings.HasPrefix(pay, "x") && (c.phys == "ba" || strings.HasPrefix(c.phys, "flba")):
		b, e := hex.DecodeString(pay[1:])
		if e != nil || len(b) == 0 || len(b) > 16 {
			return "", nil, fmt.Errorf("leaf %q: not 1..16 bytes", pay)
		}
		if c.phys != "ba" && len(b) != c.bytes {
			return "", nil, fmt.Errorf("leaf %q: %d bytes in a FIXED_LEN_BYTE_ARRAY(%d) column", pay, len(b), c.bytes)
		}
		x := new(big.Int).SetBytes(b)
		if b[0]&0x80 != 0 {
			x.Sub(x, new(big.Int).Lsh(big.NewInt(1), uint(8*len(b))))
		}
		n := c19DecNode("d16", c.scale, x)
		return n.String(), x, nil
	}
	return "", nil, fmt.Errorf("leaf %q does not have the column's physical type %s", pay, c.phys)
}

func RunC19Carrier(ctx *core.Ctx) {
	ctx.SetRule(c19Rule + "; " + c19CarrierRule)
	nw := 8
	total := ctx.Scale(480, 4800)
	var wg sync.WaitGroup
	for w := 0; w < nw; w++ {
		w := w
		wg.Add(1)
		go func() {
			defer wg.Done()
			r := ctx.Rand(fmt.Sprintf("c19-carrier-%d", w))
			d := ctx.Driver()
			var p c19Pending
			for i := 0; i < total/nw; i++ {
				c19CarrierCase(ctx, r, &p, w == 0 && i < 3)
				if len(p.reqs) >= 1000 {
					p.flush(ctx, d)
				}
			}
			p.flush(ctx, d)
		}()
	}
	wg.Wait()
}

func c19CarrierCase(ctx *core.Ctx, r *rand.Rand, p *c19Pending, sample bool) {
	col := c19RandCarrierCol(r)
	leaf := &c19Schema{kind: "prim", tag: col.name, node: col.node}
	shape := []string{"root", "root", "field", "elem"}[r.Intn(4)]
	s := leaf
	cls := col.class
	switch shape {
	case "field":
		other := c19RandCarrierCol(r)
		s = &c19Schema{kind: "obj", names: []string{"a", "b"}, fields: []*c19Schema{leaf, {kind: "prim", tag: other.name, node: other.node}}}
		cls += "+" + other.class // values of column a's kinds also land in field b
	case "elem":
		s = &c19Schema{kind: "list", elem: leaf}
	}
	stxt := s.String()
	var variantNode parquet.Node
	if err := c19Guard(func() error { var e error; variantNode, e = parquet.ShreddedVariant(s.parquetNode()); return e }); err != nil {
		ctx.Fail("L1", "carrier-schema-rejected col="+col.class, "ShreddedVariant rejects a shredding schema the format allows: "+err.Error(), map[string]any{"schema": stxt})
		return
	}
	schema := parquet.NewSchema("table", parquet.Group{"id": parquet.Int(32), "var": variantNode})
	ctx.Hist("carrier.column", col.class)
	ctx.Hist("carrier.shape", shape)
	if col.dec {
		ctx.Hist("carrier.dec.bytes", fmt.Sprint(col.bytes))
		ctx.Hist("carrier.dec.prec", c19Bucket(col.prec))
	}

	nrows := 5 + r.Intn(6)
	values := make([]*c19Node, nrows)
	scalars := 0
	for i := range values {
		switch shape {
		case "root":
			values[i] = c19CarrierValue(r, col)
		case "field":
			o := &c19Node{kind: "obj"}
			for _, k := range []string{"zz", "a", "b"} {
				if k == "a" || r.Intn(3) == 0 {
					o.keys = append(o.keys, k)
					o.elems = append(o.elems, c19CarrierValue(r, col))
				}
			}
			values[i] = o
		case "elem":
			a := &c19Node{kind: "arr"}
			for k := r.Intn(4); k > 0; k-- {
				a.elems = append(a.elems, c19CarrierValue(r, col))
			}
			values[i] = a
		}
		if shape != "root" || !values[i].isContainer() {
			scalars++
		}
	}
	want := make([]string, nrows)
	wantNative := make([]string, nrows)
	gov := make([]variant.Value, nrows)
	rows := make([]c19RowAny, nrows)
	var canon strings.Builder
	canon.WriteString("carrier " + stxt)
	for i, n := range values {
		want[i] = n.SortedString()
		var sb strings.Builder
		n.nativeText(&sb)
		wantNative[i] = sb.String()
		canon.WriteString(" " + n.String())
		gov[i] = n.toVariant()
		m, v := c19Encode(gov[i])
		rows[i] = c19RowAny{ID: int32(i), Var: c19Raw{Metadata: m, Value: v}}
	}
	ctx.Case(canon.String(), scalars > 0)
	if sample {
		ctx.Sample(map[string]any{"column": col.name, "shape": shape, "values": want})
	}
	for _, wp := range []string{"raw-generic", "raw-buffer", "raw-deconstruct", "columnar-writevalue"} {
		wp := wp
		detail := func(extra map[string]any) map[string]any {
			m := map[string]any{"column": col.name, "shape": shape, "schema": stxt, "parquet_schema": schema.String(), "write": wp, "values": want}
			for k, x := range extra {
				m[k] = x
			}
			return m
		}
		var data []byte
		var err error
		switch wp {
		case "raw-generic":
			data, err = c19WriteGeneric(schema, rows, "generic")
		case "raw-buffer":
			data, err = c19WriteGeneric(schema, rows, "buffer")
		case "raw-deconstruct":
			data, err = c19WriteGeneric(schema, rows, "deconstruct")
		case "columnar-writevalue":
			data, err = c19WriteColumnar(schema, gov)
		}
		if err != nil {
			ctx.Fail("L1", "carrier-write-fails "+wp+" col="+cls, "writing a variant column through a hand-built shredding schema fails: "+err.Error(), detail(nil))
			continue
		}
		// ---- L1: every read path returns the rows written
		for _, rp := range []string{"raw-direct", "native-direct", "convert", "legacy-unshredded"} {
			got, err := c19ReadPath(rp, data, schema, nrows)
			sig := wp + "->" + rp + " col=" + cls + " shape=" + shape
			if err != nil {
				ctx.Fail("L1", "carrier-read-fails "+sig, "reading the variant column back fails: "+err.Error(), detail(map[string]any{"read": rp}))
				continue
			}
			if len(got) != nrows {
				ctx.Fail("L1", "carrier-row-count "+sig, fmt.Sprintf("read %d rows, wrote %d", len(got), nrows), detail(map[string]any{"read": rp}))
				continue
			}
			for i, g := range got {
				if g.raw != nil {
					v, err := c19Decode(g.raw.Metadata, g.raw.Value)
					if err != nil {
						ctx.Fail("L1", "carrier-readback-undecodable "+sig, "the variant bytes read back do not decode: "+err.Error(), detail(map[string]any{"read": rp, "row": i}))
						continue
					}
					if t := c19VText(v, true); t != want[i] {
						ctx.Fail("L1", "carrier-value-changed "+sig, "the value read back is not the value written", detail(map[string]any{"read": rp, "row": i, "got": t, "want": want[i]}))
					}
				} else {
					var sb strings.Builder
					c19GoText(g.native, &sb)
					if sb.String() != wantNative[i] {
						ctx.Fail("L1", "carrier-native-value-changed "+sig, "the Go value read back is not the Go image of the value written",
							detail(map[string]any{"read": rp, "row": i, "got": sb.String(), "want": wantNative[i]}))
					}
				}
			}
		}
		c19CheckCursor(ctx, data, want, []int{1, 3, 1000}[r.Intn(3)], wp+"->cursor carrier col="+cls+" shape="+shape, detail)
		if shape != "root" {
			continue
		}
		// ---- L1 / L2 on the leaf cells of the root group
		cells, err := c19ColumnCells(data)
		if err != nil {
			ctx.Fail("L2", "carrier-column-scan-fails "+wp, err.Error(), detail(nil))
			continue
		}
		vc, tc := cells["var.value"], cells["var.typed_value"]
		if len(vc) != nrows || len(tc) != nrows {
			ctx.Fail("L1", "carrier-cell-count "+wp+" col="+cls, fmt.Sprintf("value has %d cells, typed_value %d, rows %d", len(vc), len(tc), nrows), detail(nil))
			continue
		}
		for i, n := range values {
			i, n := i, n
			vNull, tNull := vc[i].pay == "-", tc[i].pay == "-"
			where := "residual"
			if !tNull {
				where = "typed"
			}
			ctx.Hist("carrier.landed", where)
			if vNull == tNull {
				ctx.Fail("L1", "carrier-slot-not-exclusive "+wp+" col="+cls, "a row must sit in exactly one of value / typed_value",
					detail(map[string]any{"row": i, "value_cell": vc[i].pay, "typed_cell": tc[i].pay}))
				continue
			}
			if !col.dec {
				continue
			}
			if !tNull {
				txt, x, err := col.specDecode(tc[i].pay)
				switch {
				case err != nil:
					ctx.Fail("L1", "carrier-typed-cell-malformed "+wp+" col="+cls, err.Error(), detail(map[string]any{"row": i, "typed_cell": tc[i].pay}))
				case txt != want[i]:
					ctx.Fail("L1", "carrier-typed-cell-not-the-value "+wp+" col="+cls, "the typed_value cell, read per the column type (big-endian two's complement, column scale), is not the value written",
						detail(map[string]any{"row": i, "typed_cell": tc[i].pay, "cell_means": txt, "want": want[i]}))
				case new(big.Int).Abs(x).Cmp(c19Pow10[col.prec]) >= 0:
					ctx.Fail("L1", "carrier-typed-cell-exceeds-precision "+wp+" col="+cls, "the typed_value cell holds more digits than the column's declared precision",
						detail(map[string]any{"row": i, "typed_cell": tc[i].pay, "precision": col.prec}))
				}
			}
			if n.isContainer() {
				continue
			}
			pay := tc[i].pay
			p.add(fmt.Sprintf("variant.deccol 0 %s %d %d %s", col.phys, col.prec, col.scale, n.String()), func(ans string) {
				f := strings.Fields(ans)
				ok := len(f) >= 2 && f[0] == "ok"
				if ok && f[1] == "none" {
					ok = pay == "-"
				} else if ok {
					ok = len(f) == 3 && f[1] == pay && f[2] == n.String()
				}
				if !ok {
					ctx.Fail("L2", "carrier-leaf-mirror "+wp+" col="+cls, "the typed_value cell is not what the mirror of variantToParquetValue puts there (or the reader mirror does not give the value back)",
						detail(map[string]any{"row": i, "typed_cell": pay, "model": ans, "value": n.String()}))
				}
			})
		}
	}
}
