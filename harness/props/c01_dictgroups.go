package props

import (
	"bytes"
	"fmt"
	"io"
	"math/rand"
	"strings"
	"sync"

	"github.com/parquet-go/parquet-go"

	"verifharness/core"
)

// C01, sub-check "dictgroups": the dictionary state a column writer carries from one row group to
// the next (and, through Writer.Reset, from one file to the next). One dictionary object serves every
// row group: each dictionary type has to forget the earlier row groups completely, or a later row
// group stores indexes that mean something else in its own dictionary page.
//
// Files: one dictionary-encoded column of every dictionary type the library has a separate
// implementation for, >= 2 row groups from ONE writer (Flush between batches, MaxRowsPerRowGroup, or
// Close + Writer.Reset + another file), values of later row groups drawn from new values AND from the
// values of the earlier row groups, in several orders (new values first, old values first, mixed).
//
// L1: every file reads back (page by page per row group, and through Rows) as the triples written.
// L2: the dictionary page and the indexes stored in every row group are those of the Lean MIRROR of
//     that dictionary type's Insert/Reset state machine (PqModel/DictReset.lean, op dict.session) run
//     over the same row groups; theorem `C01DictGroups.groups_roundtrip` is the round trip of that run.

func init() { RegisterSub("C01", "dictgroups", RunC01DictGroups) }

type c01dgKind struct {
	name   string
	col    c01Col // value generator (physical type, length)
	leaf   func() parquet.Node
	family string // Lean dictionary family of dict.session
}

var c01dgKinds = []c01dgKind{
	{"boolean", c01Col{"BOOLEAN", 0, ""}, func() parquet.Node { return parquet.Leaf(parquet.BooleanType) }, "bool"},
	{"int32", c01Col{"INT32", 0, ""}, func() parquet.Node { return parquet.Leaf(parquet.Int32Type) }, "probe"},
	{"uint32", c01Col{"INT32", 0, ""}, func() parquet.Node { return parquet.Uint(32) }, "probe"},
	{"int64", c01Col{"INT64", 0, ""}, func() parquet.Node { return parquet.Leaf(parquet.Int64Type) }, "probe"},
	{"uint64", c01Col{"INT64", 0, ""}, func() parquet.Node { return parquet.Uint(64) }, "probe"},
	{"int96", c01Col{"INT96", 0, ""}, func() parquet.Node { return parquet.Leaf(parquet.Int96Type) }, "flba"},
	{"float", c01Col{"FLOAT", 0, ""}, func() parquet.Node { return parquet.Leaf(parquet.FloatType) }, "probe"},
	{"double", c01Col{"DOUBLE", 0, ""}, func() parquet.Node { return parquet.Leaf(parquet.DoubleType) }, "probe"},
	{"byte_array", c01Col{"BYTE_ARRAY", 0, ""}, func() parquet.Node { return parquet.Leaf(parquet.ByteArrayType) }, "bytes"},
	{"string", c01Col{"BYTE_ARRAY", 0, ""}, func() parquet.Node { return parquet.String() }, "bytes"},
	{"flba1", c01Col{"FIXED_LEN_BYTE_ARRAY", 1, ""}, func() parquet.Node { return parquet.Leaf(parquet.FixedLenByteArrayType(1)) }, "flba"},
	{"flba5", c01Col{"FIXED_LEN_BYTE_ARRAY", 5, ""}, func() parquet.Node { return parquet.Leaf(parquet.FixedLenByteArrayType(5)) }, "flba"},
	{"flba16", c01Col{"FIXED_LEN_BYTE_ARRAY", 16, ""}, func() parquet.Node { return parquet.Leaf(parquet.FixedLenByteArrayType(16)) }, "probe"},
	{"uuid", c01Col{"FIXED_LEN_BYTE_ARRAY", 16, ""}, func() parquet.Node { return parquet.UUID() }, "probe"},
	{"flba17", c01Col{"FIXED_LEN_BYTE_ARRAY", 17, ""}, func() parquet.Node { return parquet.Leaf(parquet.FixedLenByteArrayType(17)) }, "flba"},
}

func (k c01dgKind) tok(b []byte) string {
	if k.family == "bool" {
		if b[0] != 0 {
			return "1"
		}
		return "0"
	}
	return "x" + core.Hex(b)
}

type c01dgVal struct {
	pv parquet.Value
	b  []byte
}

// one row group of the plan: the rows and the column's triples
type c01dgGroup struct {
	rows   []parquet.Row
	stream []c01Triple
	newEnd bool // this row group ends a file (Close, then Writer.Reset onto the next output)
}

func RunC01DictGroups(ctx *core.Ctx) {
	ctx.SetRule("dictgroups: one dictionary-encoded column of every dictionary type {boolean, int32, uint32, int64, uint64, int96, float, double, byte array, string, fixed-len byte array 1/5/16/17, uuid} x shape {required, optional, repeated} x 2..4 row groups from ONE writer cut by {Flush between WriteRows, MaxRowsPerRowGroup, Close + Writer.Reset onto a new output} x data page version x page buffer size; every later row group holds values new to the writer and values of earlier row groups (new first / old first / mixed); L1: each file reads back (pages per row group, Rows) as the triples written; L2: dictionary page and stored indexes of every row group = the Lean mirror session Insert, Reset, Insert, ... of that dictionary type; non-trivial = a later row group repeats a value of an earlier one after a value new to the writer")
	ncases := ctx.Scale(10, 80)
	var wg sync.WaitGroup
	sem := make(chan struct{}, 16)
	for ki, kind := range c01dgKinds {
		wg.Add(1)
		sem <- struct{}{}
		go func(ki int, kind c01dgKind) {
			defer wg.Done()
			defer func() { <-sem }()
			d := ctx.Driver()
			if d == nil {
				return
			}
			r := ctx.Rand("c01dictgroups/" + kind.name)
			for shape := 0; shape < 3; shape++ {
				for k := 0; k < ncases; k++ {
					c01DictGroupsCase(ctx, d, r, kind, shape, k)
				}
			}
		}(ki, kind)
	}
	wg.Wait()
}

func c01DictGroupsCase(ctx *core.Ctx, d interface {
	AskMany([]string) ([]string, error)
}, r *rand.Rand, kind c01dgKind, shape, k int) {
	leaf := parquet.Encoded(kind.leaf(), &parquet.RLEDictionary)
	var node parquet.Node
	maxDef := 0
	switch shape {
	case 0:
		node = parquet.Required(leaf)
	case 1:
		node, maxDef = parquet.Optional(leaf), 1
	default:
		node, maxDef = parquet.Repeated(leaf), 1
	}
	shapeName := []string{"required", "optional", "repeated"}[shape]
	schema := parquet.NewSchema("t", parquet.Group{"v": node})

	// alphabet of distinct values
	want := []int{2, 3, 5, 9, 17, 40, 130}[r.Intn(7)]
	var alpha []c01dgVal
	seen := map[string]bool{}
	for tries := 0; len(alpha) < want && tries < 4*want+16; tries++ {
		pv, b := kind.col.value(r, r.Intn(4) == 0)
		if !seen[string(b)] {
			seen[string(b)] = true
			alpha = append(alpha, c01dgVal{pv.Clone(), bytes.Clone(b)})
		}
	}
	ngroups := 2 + r.Intn(3)
	cut := []string{"flush", "maxrows", "writer-reset", "mixed"}[(k+shape)%4]
	rowsPer := []int{1, 2, 3, 8, 33, 100}[r.Intn(6)]
	nullProb := []float64{0, 0.1, 0.5}[r.Intn(3)]
	order := []string{"new-first", "old-first", "mixed"}[r.Intn(3)]
	if k%2 == 0 {
		order = "new-first"
	}

	// plan the row groups
	used := 0 // alpha[:used] have been written by earlier row groups
	repeatAfterNew := false
	var groups []c01dgGroup
	for g := 0; g < ngroups; g++ {
		nrows := rowsPer
		if cut != "maxrows" && r.Intn(3) == 0 {
			nrows = 1 + r.Intn(2*rowsPer)
		}
		// the values this row group draws from: some new ones, and the old ones
		nnew := 0
		if used < len(alpha) {
			nnew = 1 + r.Intn(min(len(alpha)-used, max(1, (len(alpha)+ngroups-1)/ngroups)))
		}
		fresh := alpha[used : used+nnew]
		old := alpha[:used]
		var seq []c01dgVal // the leading values in their planned order, then random draws
		pickOld := func() []c01dgVal {
			if len(old) == 0 {
				return nil
			}
			n := 1 + r.Intn(min(len(old), 4))
			var out []c01dgVal
			for i := 0; i < n; i++ {
				out = append(out, old[r.Intn(len(old))])
			}
			return out
		}
		switch order {
		case "new-first":
			seq = append(append(seq, fresh...), pickOld()...)
		case "old-first":
			seq = append(append(seq, pickOld()...), fresh...)
		}
		pool := append(append([]c01dgVal{}, old...), fresh...)
		next := func() c01dgVal {
			if len(seq) > 0 {
				v := seq[0]
				seq = seq[1:]
				return v
			}
			return pool[r.Intn(len(pool))]
		}
		grp := c01dgGroup{}
		sawNew := false
		oldSet := map[string]bool{}
		for _, v := range old {
			oldSet[string(v.b)] = true
		}
		emit := func(row parquet.Row, rep int) parquet.Row {
			v := next()
			if oldSet[string(v.b)] {
				repeatAfterNew = repeatAfterNew || sawNew
			} else {
				sawNew = true
			}
			grp.stream = append(grp.stream, c01Triple{false, v.b, rep, maxDef})
			return append(row, v.pv.Level(rep, maxDef, 0))
		}
		null := func(row parquet.Row) parquet.Row {
			grp.stream = append(grp.stream, c01Triple{true, nil, 0, 0})
			return append(row, parquet.Value{}.Level(0, 0, 0))
		}
		for i := 0; i < nrows || len(seq) > 0; i++ {
			var row parquet.Row
			switch shape {
			case 0:
				row = emit(row, 0)
			case 1:
				if r.Float64() < nullProb {
					row = null(row)
				} else {
					row = emit(row, 0)
				}
			default:
				n := r.Intn(4)
				if n == 0 {
					row = null(row)
				}
				for j := 0; j < n; j++ {
					rep := 1
					if j == 0 {
						rep = 0
					}
					row = emit(row, rep)
				}
			}
			grp.rows = append(grp.rows, row)
			if cut == "maxrows" && i+1 >= nrows {
				// every row group holds exactly rowsPer rows in this mode: drop what was planned beyond
				seq = nil
			}
		}
		used += nnew
		switch cut {
		case "writer-reset":
			grp.newEnd = true
		case "mixed":
			grp.newEnd = r.Intn(2) == 0
		}
		groups = append(groups, grp)
	}
	groups[len(groups)-1].newEnd = true

	version := 1 + (k/2)%2
	pageBuf := []int{0, 1, 64, 300}[r.Intn(4)]
	opts := []parquet.WriterOption{schema, parquet.DataPageVersion(version), parquet.Compression(&parquet.Uncompressed)}
	if pageBuf > 0 {
		opts = append(opts, parquet.PageBufferSize(pageBuf))
	}
	if cut == "maxrows" {
		opts = append(opts, parquet.MaxRowsPerRowGroup(int64(rowsPer)))
	}

	var groupTexts []string
	for _, g := range groups {
		var ts []string
		for _, t := range g.stream {
			ts = append(ts, t.String())
		}
		s := strings.Join(ts, ",")
		if g.newEnd {
			s += " EOF"
		}
		groupTexts = append(groupTexts, s)
	}
	canon := fmt.Sprintf("dictgroups %s %s cut=%s rowsper=%d v%d pagebuf=%d | %s", kind.name, shapeName, cut, rowsPer, version, pageBuf, strings.Join(groupTexts, " | "))
	ctx.Case(canon, repeatAfterNew)
	ctx.Hist("dictgroups-kind", kind.name)
	ctx.Hist("dictgroups-cut", cut)
	ctx.Hist("dictgroups-order", order)
	ctx.Hist("dictgroups-repeat-after-new", fmt.Sprint(repeatAfterNew))
	detail := func(extra map[string]any) map[string]any {
		m := map[string]any{"dictionary_type": kind.name, "shape": shapeName, "cut": cut, "max_rows_per_row_group(cut=maxrows)": rowsPer,
			"version": version, "page_buffer": pageBuf, "row_groups(triples value/rep/def; EOF = Close + Writer.Reset)": groupTexts}
		for k, v := range extra {
			m[k] = v
		}
		return m
	}
	if k == 0 && shape == 0 && kind.name == "int96" {
		ctx.Sample(detail(nil))
	}
	sig := fmt.Sprintf("%s cut=%s", kind.name, cut)

	files, err := c01dgWrite(groups, cut, opts)
	if err != nil {
		ctx.Fail("L1", "dictgroups write-error "+sig+" "+errClass(err), "writing valid rows failed: "+err.Error(), detail(nil))
		return
	}
	// expected streams, per file and per planned row group
	type planned struct {
		stream []c01Triple
		groups [][]c01Triple
	}
	var plan []planned
	cur := planned{}
	for _, g := range groups {
		cur.stream = append(cur.stream, g.stream...)
		cur.groups = append(cur.groups, g.stream)
		if g.newEnd {
			plan = append(plan, cur)
			cur = planned{}
		}
	}
	if len(files) != len(plan) {
		ctx.Fail("L1", "dictgroups file-count "+sig, fmt.Sprintf("%d files written, %d planned", len(files), len(plan)), detail(nil))
		return
	}
	// the model session over the row groups as the FILES hold them (MaxRowsPerRowGroup cuts where it cuts)
	var sessOps []string
	var partOfIdx, partOfReset []int // per real row group: the session part answering its Insert (-1: none) and its Reset
	var realGroups []c01dgRowGroup
	totalGroups := 0
	for fi, data := range files {
		rd, err := c01dgRead1(data)
		if err != nil {
			ctx.Fail("L1", "dictgroups read-error "+sig+" "+c01ErrKind(err), "reading a file the writer closed successfully failed: "+err.Error(), detail(map[string]any{"file": fi}))
			return
		}
		totalGroups += len(rd.groups)
		exp := plan[fi].stream
		var got []c01Triple
		for _, g := range rd.groups {
			got = append(got, g.triples...)
		}
		if i, desc := c01dgDiff(exp, got); i >= 0 {
			ctx.Fail("L1", "dictgroups stream-differs reader=pages "+sig, fmt.Sprintf("file %d: entry %d of the column read page by page differs: %s", fi, i, desc), detail(map[string]any{"file": fi, "row_groups_in_file": len(rd.groups)}))
			return
		}
		if i, desc := c01dgDiff(exp, rd.rows); i >= 0 {
			ctx.Fail("L1", "dictgroups stream-differs reader=rows "+sig, fmt.Sprintf("file %d: entry %d of the column read through Rows differs: %s", fi, i, desc), detail(map[string]any{"file": fi}))
			return
		}
		if cut != "maxrows" && len(rd.groups) != len(plan[fi].groups) {
			ctx.Fail("L1", "dictgroups row-group-count "+sig, fmt.Sprintf("file %d holds %d row groups, %d flushed", fi, len(rd.groups), len(plan[fi].groups)), detail(map[string]any{"file": fi}))
			return
		}
		for _, g := range rd.groups {
			var toks []string
			for _, t := range g.triples {
				if !t.null {
					toks = append(toks, kind.tok(t.val))
				}
			}
			v := "-"
			if len(toks) > 0 {
				v = strings.Join(toks, ",")
			}
			// A row group without a single non-null value never reaches the dictionary: the column
			// buffer has nothing to insert, so the session has no Insert for it (an EMPTY Insert is not
			// a no-op for every type: booleanDictionary.insert adds false and true on its first call).
			if len(toks) > 0 {
				partOfIdx = append(partOfIdx, len(sessOps))
				sessOps = append(sessOps, "i="+v, "r")
			} else {
				partOfIdx = append(partOfIdx, -1)
				sessOps = append(sessOps, "r")
			}
			partOfReset = append(partOfReset, len(sessOps)-1)
			realGroups = append(realGroups, g)
		}
	}
	ctx.Hist("dictgroups-row-groups", fmt.Sprint(min(totalGroups, 6)))
	if len(realGroups) == 0 {
		return
	}
	req := fmt.Sprintf("dict.session %s 0 - %s", kind.family, strings.Join(sessOps, ";"))
	ans, err := d.AskMany([]string{req})
	if err != nil {
		ctx.Fail("L2", "driver-error", err.Error(), nil)
		return
	}
	f := strings.Fields(ans[0])
	if len(f) != 3 || f[0] != "ok" {
		ctx.Fail("L2", "dictgroups model-refuses "+kind.name, "the model answered "+ans[0], detail(map[string]any{"request": req}))
		return
	}
	parts := strings.Split(f[1], ";")
	if len(parts) != len(sessOps) {
		ctx.Fail("L2", "dictgroups model-refuses "+kind.name, "the model answered "+ans[0], detail(map[string]any{"request": req}))
		return
	}
	for gi, g := range realGroups {
		if !g.hasDict {
			if partOfIdx[gi] >= 0 && parts[partOfIdx[gi]] != "-" {
				ctx.Fail("L1", "dictgroups not-dictionary-encoded "+sig, "a row group with values of a dictionary-encoded column has no dictionary page", detail(map[string]any{"row_group": gi}))
			}
			continue
		}
		var dt []string
		for _, b := range g.dict {
			dt = append(dt, kind.tok(b))
		}
		realDict := "r=-"
		if len(dt) > 0 {
			realDict = "r=" + strings.Join(dt, ",")
		}
		realIdx := core.JoinInts(g.indexes)
		if len(g.indexes) == 0 {
			realIdx = "-"
		}
		modelIdx := "-"
		if partOfIdx[gi] >= 0 {
			modelIdx = parts[partOfIdx[gi]]
		}
		if parts[partOfReset[gi]] != realDict {
			ctx.Fail("L2", "dictgroups dictionary-differs "+sig, "the dictionary page of a row group differs from the page of the mirror session (Insert per row group, Reset between)", detail(map[string]any{"row_group": gi, "real": realDict, "model": parts[partOfReset[gi]], "request": req}))
			return
		}
		if modelIdx != realIdx {
			ctx.Fail("L2", "dictgroups indexes-differ "+sig, "the indexes stored in a row group differ from those the mirror session hands out", detail(map[string]any{"row_group": gi, "real": realIdx, "model": modelIdx, "request": req}))
			return
		}
	}
}

func c01dgDiff(exp, got []c01Triple) (int, string) {
	for i := 0; i < len(exp) || i < len(got); i++ {
		switch {
		case i >= len(exp):
			return i, "read " + got[i].String() + " beyond the end of what was written"
		case i >= len(got):
			return i, "written " + exp[i].String() + ", nothing read"
		case exp[i].String() != got[i].String():
			return i, "written " + exp[i].String() + ", read " + got[i].String()
		}
	}
	return -1, ""
}

// c01dgWrite drives ONE writer over the planned row groups and returns the files it produced.
func c01dgWrite(groups []c01dgGroup, cut string, opts []parquet.WriterOption) (files [][]byte, err error) {
	defer func() {
		if r := recover(); r != nil {
			err = fmt.Errorf("PANIC: %v", r)
		}
	}()
	out := new(bytes.Buffer)
	w := parquet.NewWriter(out, opts...)
	var pending []parquet.Row
	for gi, g := range groups {
		switch {
		case cut == "maxrows":
			// one WriteRows call for the whole file: the writer cuts the row groups itself
			pending = append(pending, g.rows...)
			if !g.newEnd {
				continue
			}
			if len(pending) > 0 {
				if _, err := w.WriteRows(pending); err != nil {
					return nil, err
				}
			}
			pending = nil
		default:
			if len(g.rows) > 0 {
				if _, err := w.WriteRows(g.rows); err != nil {
					return nil, err
				}
			}
		}
		if !g.newEnd {
			if err := w.Flush(); err != nil {
				return nil, err
			}
			continue
		}
		if err := w.Close(); err != nil {
			return nil, err
		}
		files = append(files, out.Bytes())
		if gi+1 < len(groups) {
			out = new(bytes.Buffer)
			w.Reset(out)
		}
	}
	return files, nil
}

type c01dgRowGroup struct {
	triples []c01Triple
	hasDict bool
	dict    [][]byte
	indexes []int
}

type c01dgRead struct {
	groups []c01dgRowGroup
	rows   []c01Triple
}

// c01dgRead1 reads one file: per row group the pages (triples, dictionary, stored indexes), and the
// whole file through Rows.
func c01dgRead1(data []byte) (res c01dgRead, err error) {
	defer func() {
		if r := recover(); r != nil {
			err = fmt.Errorf("PANIC: %v", r)
		}
	}()
	f, err := parquet.OpenFile(bytes.NewReader(data), int64(len(data)))
	if err != nil {
		return res, err
	}
	triple := func(v parquet.Value) c01Triple {
		t := c01Triple{null: v.IsNull(), rep: v.RepetitionLevel(), def: v.DefinitionLevel()}
		if !t.null {
			t.val = bytes.Clone(v.Bytes())
			if v.Kind() == parquet.Boolean {
				t.val = []byte{0}
				if v.Boolean() {
					t.val = []byte{1}
				}
			}
		}
		return t
	}
	for _, rg := range f.RowGroups() {
		var g c01dgRowGroup
		pr := rg.ColumnChunks()[0].Pages()
		for {
			pg, err := pr.ReadPage()
			if err == io.EOF {
				break
			}
			if err != nil {
				pr.Close()
				return res, err
			}
			if dict := pg.Dictionary(); dict != nil {
				if !g.hasDict {
					g.hasDict = true
					for i := 0; i < dict.Len(); i++ {
						v := dict.Index(int32(i))
						g.dict = append(g.dict, triple(v).val)
					}
				}
				vals := pg.Data()
				for _, x := range vals.Int32() {
					g.indexes = append(g.indexes, int(x))
				}
			}
			vr := pg.Values()
			buf := make([]parquet.Value, 97)
			for {
				n, err := vr.ReadValues(buf)
				for _, v := range buf[:n] {
					g.triples = append(g.triples, triple(v))
				}
				if err != nil || n == 0 {
					break
				}
			}
			parquet.Release(pg)
		}
		pr.Close()
		res.groups = append(res.groups, g)
	}
	rows := parquet.NewReader(f)
	defer rows.Close()
	buf := make([]parquet.Row, 50)
	for {
		n, err := rows.ReadRows(buf)
		for _, row := range buf[:n] {
			for _, v := range row {
				res.rows = append(res.rows, triple(v))
			}
		}
		if err == io.EOF {
			break
		}
		if err != nil {
			return res, err
		}
		if n == 0 {
			return res, fmt.Errorf("ReadRows returned 0 values without an error")
		}
	}
	return res, nil
}


