package props

import (
	"bytes"
	"fmt"
	"io"
	"math/rand"
	"strings"
	"sync"

	"github.com/parquet-go/parquet-go"

	"verifharness/core"
)

// Property C19, sub-check "elems": the element groups of typed lists in the columnar VariantReader
// (the LocTypedList branch of VariantCursor.processElements) against
//   L1: the statement itself, computed here from the starts arrays: an entry of slot group g gets the
//       deeper-level groups h with startsP[g] <= startsE[h] < startsP[g+1] when its list is present
//       (presence definition level >= elemsDefAbs at its first slot), none otherwise;
//   L2: the Lean mirror op `variant.elems` (elemsLoop / listOffsetsFrom).
// Files: list-heavy shredding schemas (lists, lists of lists, lists inside objects), small pages,
// sometimes several row groups; every window of a Next/SeekToRow walk with the whole cursor tree.

const c19ElemsRule = "elems: a case is one written file (list-heavy shredding schema, small pages), read window by window with an occasional SeekToRow, every element cursor of a typed list compared in every window; non-trivial = some window has a typed-list entry with at least 2 elements AND an entry without elements (null/empty list or other kind)"

func init() { RegisterSub("C19", "elems", RunC19Elems) }

func c19ElemsSchema(r *rand.Rand) *c19Schema {
	for i := 0; i < 20; i++ {
		s := c19NestedSchema(r)
		if strings.Contains(s.String(), "list") || s.kind == "list" {
			return s
		}
	}
	l := c19RandLeaf(r)
	return &c19Schema{kind: "list", elem: &c19Schema{kind: "prim", tag: l.tag, node: l.node}}
}

func c19ElemsCase(ctx *core.Ctx, r *rand.Rand, pend *c19WinPending, sample bool) {
	s := c19ElemsSchema(r).withDictionary()
	stxt := s.String()
	var variantNode parquet.Node
	if err := c19Guard(func() error { var e error; variantNode, e = parquet.ShreddedVariant(s.parquetNode()); return e }); err != nil {
		ctx.Fail("L1", "shredded-schema-rejected "+s.kind, "ShreddedVariant rejects a valid shredding schema: "+err.Error(), map[string]any{"schema": stxt})
		return
	}
	schema := parquet.NewSchema("table", parquet.Group{"id": parquet.Int(32), "var": variantNode})
	nrows := 20 + r.Intn(81)
	pageBuf := []int{64, 128, 256, 1024}[r.Intn(4)]
	opts := []parquet.WriterOption{schema, parquet.PageBufferSize(pageBuf), parquet.DataPageVersion(1 + r.Intn(2))}
	if r.Intn(2) == 0 {
		opts = append(opts, parquet.MaxRowsPerRowGroup(int64(17+r.Intn(60))))
	}
	rows := make([]c19RowAny, nrows)
	var canon strings.Builder
	fmt.Fprintf(&canon, "elems %s rows=%d pagebuf=%d", stxt, nrows, pageBuf)
	var firstValues []string
	for i := range rows {
		n := c19ShredValue(r, s, 0, false)
		if i < 6 {
			firstValues = append(firstValues, n.String())
		}
		canon.WriteString(" " + n.String())
		m, v := c19Encode(n.toVariant())
		rows[i] = c19RowAny{ID: int32(i), Var: c19Raw{Metadata: m, Value: v}}
	}
	buf := new(bytes.Buffer)
	step := 1 + r.Intn(3)
	err := c19Guard(func() error {
		w := parquet.NewGenericWriter[c19RowAny](buf, opts...)
		for i := 0; i < nrows; i += step {
			if _, err := w.Write(rows[i:min(i+step, nrows)]); err != nil {
				return err
			}
		}
		return w.Close()
	})
	window := []int{1, 2, 3, 7, 16, 50}[r.Intn(6)]
	seekAfter := -1
	if r.Intn(2) == 0 {
		seekAfter = r.Intn(4)
	}
	fmt.Fprintf(&canon, " window=%d seek=%d", window, seekAfter)
	base := map[string]any{"schema": stxt, "rows": nrows, "page_buffer": pageBuf, "write_step": step, "window": window, "first_values": firstValues}
	detail := func(extra map[string]any) map[string]any {
		m := map[string]any{}
		for k, x := range base {
			m[k] = x
		}
		for k, x := range extra {
			m[k] = x
		}
		return m
	}
	if err != nil {
		ctx.Fail("L1", "write-fails elems schema="+s.kind, "writing fails: "+err.Error(), detail(nil))
		return
	}
	data := buf.Bytes()
	nontrivial := false
	states := 0
	err = c19Guard(func() error {
		f, err := parquet.OpenFile(bytes.NewReader(data), int64(len(data)))
		if err != nil {
			return err
		}
		for rgi, rg := range f.RowGroups() {
			rd, err := parquet.NewVariantReader(rg, "var")
			if err != nil {
				return err
			}
			c19MaterializeCursors(rd.Root())
			calls := 0
			for {
				n, err := rd.Next(window)
				if err == io.EOF || n == 0 {
					break
				}
				if err != nil {
					rd.Close()
					return err
				}
				calls++
				offset := parquet.VerifVariantRowOffset(rd)
				for _, st := range parquet.VerifVariantElems(rd) {
					states++
					if c19ElemsCheck(ctx, pend, st, detail, fmt.Sprintf("row group %d, window ending at row %d, cursor %s", rgi, offset, st.Path), sample && states <= 2) {
						nontrivial = true
					}
				}
				if calls == seekAfter+1 && seekAfter >= 0 {
					seekAfter = -1
					k := r.Int63n(rg.NumRows() + 1)
					if err := rd.SeekToRow(k); err != nil {
						rd.Close()
						return err
					}
				}
			}
			rd.Close()
		}
		return nil
	})
	if err != nil {
		ctx.Fail("L1", "elems-read-fails", "reading a valid file through the VariantReader fails: "+err.Error(), detail(nil))
	}
	ctx.Hist("elems.states per case", c19WinBucket(states))
	ctx.Case(canon.String(), nontrivial)
}

// one element cursor in one window; reports whether the window is non-trivial
func c19ElemsCheck(ctx *core.Ctx, pend *c19WinPending, st parquet.VerifVariantElemsState, detail func(map[string]any) map[string]any, where string, sample bool) bool {
	info := func(extra map[string]any) map[string]any {
		m := map[string]any{"where": where, "startsP": c19WinList(st.StartsP), "startsE": c19WinList(st.StartsE), "defs": c19WinList(st.Defs),
			"elemsDefAbs": st.ElemsDefAbs, "parent_locs": c19WinList(st.ParentLocs), "parent_groups": c19WinList(st.ParentGroups),
			"slot_groups": c19WinList(st.SlotGroup), "list_offsets": c19WinList(st.ListOffsets)}
		for k, x := range extra {
			m[k] = x
		}
		return detail(m)
	}
	if len(st.ListOffsets) != len(st.ParentLocs)+1 {
		ctx.Fail("L1", "elems-listoffsets-length", "ListOffsets does not have one entry per parent entry plus one", info(nil))
		return false
	}
	if int(st.ListOffsets[len(st.ListOffsets)-1]) != len(st.SlotGroup) {
		ctx.Fail("L1", "elems-listoffsets-end", "the last list offset is not the number of element entries", info(nil))
		return false
	}
	entries := make([]string, len(st.ParentLocs))
	got := make([]string, len(st.ParentLocs))
	onlyTyped := true
	long, without := false, false
	for e, loc := range st.ParentLocs {
		lo, hi := int(st.ListOffsets[e]), int(st.ListOffsets[e+1])
		if lo > hi || hi > len(st.SlotGroup) {
			ctx.Fail("L1", "elems-listoffsets-order", "list offsets are not monotone / in range", info(map[string]any{"entry": e}))
			return false
		}
		chunk := st.SlotGroup[lo:hi]
		if loc != st.TypedList {
			entries[e] = "n"
			got[e] = "-"
			if len(chunk) > 0 {
				onlyTyped = false // elements navigated inside a residual array
			} else {
				without = true
			}
			continue
		}
		g := st.ParentGroups[e]
		entries[e] = fmt.Sprint(g)
		got[e] = c19WinList(chunk)
		// L1 oracle: the groups whose first slot lies in the entry's slot range, if the list is present
		var want []int32
		if g >= 0 && int(g)+1 < len(st.StartsP) {
			gs, ge := st.StartsP[g], st.StartsP[g+1]
			if int(gs) < len(st.Defs) && st.Defs[gs] >= st.ElemsDefAbs {
				for h := 0; h+1 < len(st.StartsE); h++ {
					if st.StartsE[h] >= gs && st.StartsE[h] < ge {
						want = append(want, int32(h))
					}
				}
			}
		}
		if c19WinList(want) != got[e] {
			ctx.Fail("L1", "elems-groups-not-in-slot-range", "the element groups of a typed-list entry are not the groups inside its slot range",
				info(map[string]any{"entry": e, "group": g, "want": c19WinList(want), "got": got[e]}))
		}
		if len(chunk) >= 2 {
			long = true
		}
		if len(chunk) == 0 {
			without = true
		}
		ctx.Hist("elems.elements per typed-list entry", c19WinBucket(len(chunk)))
	}
	if len(entries) == 0 {
		return false
	}
	req := fmt.Sprintf("variant.elems %s %s %s %d %s", c19WinList(st.StartsP), c19WinList(st.StartsE), c19WinList(st.Defs), st.ElemsDefAbs, strings.Join(entries, ","))
	wantGroups := strings.Join(got, "/")
	wantOffsets := c19WinList(st.ListOffsets)
	if sample {
		ctx.Sample("elems: " + req)
	}
	pend.add(req, func(ans string) {
		f := strings.Fields(ans)
		if len(f) != 3 || f[0] != "ok" {
			ctx.Fail("L2", "elems-mirror-refuses", "the mirror does not answer a variant.elems request: "+ans, info(map[string]any{"request": req}))
			return
		}
		if f[1] != wantGroups {
			ctx.Fail("L2", "elems-groups-differ", "element groups per entry: real cursor and mirror differ", info(map[string]any{"request": req, "mirror": f[1], "real": wantGroups}))
			return
		}
		if onlyTyped && f[2] != wantOffsets {
			ctx.Fail("L2", "elems-listoffsets-differ", "ListOffsets: real cursor and mirror differ", info(map[string]any{"request": req, "mirror": f[2], "real": wantOffsets}))
		}
	})
	return long && without
}

func RunC19Elems(ctx *core.Ctx) {
	ctx.SetRule(c19Rule + "; " + c19WindowRule + "; " + c19ElemsRule)
	nw := 8
	total := ctx.Scale(320, 3200)
	var wg sync.WaitGroup
	for w := 0; w < nw; w++ {
		w := w
		wg.Add(1)
		go func() {
			defer wg.Done()
			r := ctx.Rand(fmt.Sprintf("elems-%d", w))
			d := ctx.Driver()
			var p c19WinPending
			for i := 0; i < total/nw; i++ {
				c19ElemsCase(ctx, r, &p, w == 0 && i < 2)
				if len(p.reqs) >= 1000 {
					p.flush(ctx, d)
				}
			}
			p.flush(ctx, d)
		}()
	}
	wg.Wait()
}
