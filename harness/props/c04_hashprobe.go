package props

// C04, part "hashprobe" (round 6): the probing tables behind the typed dictionaries
// (hashprobe/hashprobe.go), no longer "observable answers only".
//
// Property side (L1, written from the package documentation): "when a key is probed, either its value
// is retrieved if it already existed in the table, or it is inserted and assigned its index in the
// insert sequence as value"; Probe returns the number of keys inserted by the call; Len is the number
// of distinct keys. Oracle: a Go map key -> index of first occurrence over the whole history.
//
// Mirror side (L2, lean/PqModel/HashProbe.lean through Driver/Ops/C04HashProbe.lean):
// (A) explicit hashes: a bare table of `groups` groups probed through the arch-dispatched
//     multiProbe32/64/128 with hashes chosen by the harness (all equal, few distinct values, next to
//     2^64-1 so that hash++ wraps, same home slot with different upper bits, random), keys including 0
//     (= the content of unoccupied slots), repeats inside a batch, tables filled exactly to the brim.
//     Values of every batch, numKeys and the final table (group by group, slot order) against
//     `hp.multi`; on the asm build also multiProbeNNDefault against the dispatched kernel.
// (B) real tables through NewUint32Table/NewUint64Table/NewUint128Table + Probe (+ Reset): after each
//     call the harness reads seed, number of groups and maxLen, computes the table's hash of every key
//     seen so far under that seed and hands them to the mirror of probeArray/grow (`hp.session`), which
//     must reproduce values, Len, number of groups, maxLen of every call and the final table.

import (
	"encoding/binary"
	"fmt"
	"math/rand"
	"runtime"
	"strconv"
	"strings"
	"sync"

	"github.com/parquet-go/parquet-go/hashprobe"

	"verifharness/core"
)

func init() { RegisterSub("C04", "hashprobe", RunC04HashProbe) }

// ------------------------------------------------------------------ keys
//
// A key is named by a uint64 id (its decimal text is the Lean token).
// 32: uint32(id) (ids below 2^32); 64: id; 128: 16 bytes spread so that ids differ in the first byte, the
// last byte or the middle only.

func hpKey128(id uint64) (k [16]byte) {
	k[0] = byte(id)
	k[15] = byte(id >> 8)
	var b [8]byte
	binary.LittleEndian.PutUint64(b[:], id>>16)
	copy(k[4:10], b[:6])
	return
}

func hpTok128(k [16]byte) string {
	var b [8]byte
	copy(b[:6], k[4:10])
	id := uint64(k[0]) | uint64(k[15])<<8 | binary.LittleEndian.Uint64(b[:])<<16
	if hpKey128(id) != k {
		return fmt.Sprintf("x%x", k[:]) // not a key of the harness: shows up as a difference
	}
	return strconv.FormatUint(id, 10)
}

type hpKV struct {
	tok string
	v   int32
}

func hpDumpText(d [][]hpKV) string {
	var sb strings.Builder
	for i, g := range d {
		if i > 0 {
			sb.WriteByte('/')
		}
		if len(g) == 0 {
			sb.WriteByte('-')
		}
		for j, kv := range g {
			if j > 0 {
				sb.WriteByte(',')
			}
			sb.WriteString(kv.tok)
			sb.WriteByte('=')
			sb.WriteString(strconv.Itoa(int(kv.v)))
		}
	}
	return sb.String()
}

type hpProbe interface {
	Multi(hashes []uintptr, ids []uint64) []int32
	Len() int
	Dump() [][]hpKV
}

type hpReal interface {
	Probe(ids []uint64) ([]int32, int)
	Len() int
	Reset()
	Seed() uintptr
	Groups() int
	MaxLen() int
	Dump() [][]hpKV
	Hash(id uint64, seed uintptr) uint64
}

type hpKind struct {
	nn       string
	g        int
	idBits   int
	newProbe func(groups int, portable bool) hpProbe
	newReal  func(cap int, maxLoad float64) hpReal
}

func hpKeys32(ids []uint64) []uint32 {
	out := make([]uint32, len(ids))
	for i, id := range ids {
		out[i] = uint32(id)
	}
	return out
}

func hpKeys128(ids []uint64) [][16]byte {
	out := make([][16]byte, len(ids))
	for i, id := range ids {
		out[i] = hpKey128(id)
	}
	return out
}

func hpDump32(d [][]hashprobe.VerifKV32) [][]hpKV {
	out := make([][]hpKV, len(d))
	for i, g := range d {
		for _, e := range g {
			out[i] = append(out[i], hpKV{strconv.FormatUint(uint64(e.Key), 10), e.Value})
		}
	}
	return out
}

func hpDump64(d [][]hashprobe.VerifKV64) [][]hpKV {
	out := make([][]hpKV, len(d))
	for i, g := range d {
		for _, e := range g {
			out[i] = append(out[i], hpKV{strconv.FormatUint(e.Key, 10), e.Value})
		}
	}
	return out
}

func hpDump128(d [][]hashprobe.VerifKV128) [][]hpKV {
	out := make([][]hpKV, len(d))
	for i, g := range d {
		for _, e := range g {
			out[i] = append(out[i], hpKV{hpTok128(e.Key), e.Value})
		}
	}
	return out
}

type hpProbe32 struct{ p *hashprobe.VerifProbe32 }

func (p hpProbe32) Multi(h []uintptr, ids []uint64) []int32 { return p.p.Multi(h, hpKeys32(ids)) }
func (p hpProbe32) Len() int                                { return p.p.Len() }
func (p hpProbe32) Dump() [][]hpKV                          { return hpDump32(p.p.Dump()) }

type hpProbe64 struct{ p *hashprobe.VerifProbe64 }

func (p hpProbe64) Multi(h []uintptr, ids []uint64) []int32 {
	return p.p.Multi(h, append([]uint64(nil), ids...))
}
func (p hpProbe64) Len() int       { return p.p.Len() }
func (p hpProbe64) Dump() [][]hpKV { return hpDump64(p.p.Dump()) }

type hpProbe128 struct{ p *hashprobe.VerifProbe128 }

func (p hpProbe128) Multi(h []uintptr, ids []uint64) []int32 { return p.p.Multi(h, hpKeys128(ids)) }
func (p hpProbe128) Len() int                                { return p.p.Len() }
func (p hpProbe128) Dump() [][]hpKV                          { return hpDump128(p.p.Dump()) }

func hpDirtyValues(n int) []int32 {
	v := make([]int32, n)
	for i := range v {
		v[i] = -7
	}
	return v
}

type hpReal32 struct{ t *hashprobe.Uint32Table }

func (t hpReal32) Probe(ids []uint64) ([]int32, int) {
	v := hpDirtyValues(len(ids))
	n := t.t.Probe(hpKeys32(ids), v)
	return v, n
}
func (t hpReal32) Len() int       { return t.t.Len() }
func (t hpReal32) Reset()         { t.t.Reset() }
func (t hpReal32) Seed() uintptr  { return t.t.VerifSeed() }
func (t hpReal32) Groups() int    { return t.t.VerifGroups() }
func (t hpReal32) MaxLen() int    { return t.t.VerifMaxLen() }
func (t hpReal32) Dump() [][]hpKV { return hpDump32(t.t.VerifDump()) }
func (t hpReal32) Hash(id uint64, seed uintptr) uint64 {
	return uint64(hashprobe.VerifHash32(uint32(id), seed))
}

type hpReal64 struct{ t *hashprobe.Uint64Table }

func (t hpReal64) Probe(ids []uint64) ([]int32, int) {
	v := hpDirtyValues(len(ids))
	n := t.t.Probe(append([]uint64(nil), ids...), v)
	return v, n
}
func (t hpReal64) Len() int       { return t.t.Len() }
func (t hpReal64) Reset()         { t.t.Reset() }
func (t hpReal64) Seed() uintptr  { return t.t.VerifSeed() }
func (t hpReal64) Groups() int    { return t.t.VerifGroups() }
func (t hpReal64) MaxLen() int    { return t.t.VerifMaxLen() }
func (t hpReal64) Dump() [][]hpKV { return hpDump64(t.t.VerifDump()) }
func (t hpReal64) Hash(id uint64, seed uintptr) uint64 {
	return uint64(hashprobe.VerifHash64(id, seed))
}

type hpReal128 struct{ t *hashprobe.Uint128Table }

func (t hpReal128) Probe(ids []uint64) ([]int32, int) {
	v := hpDirtyValues(len(ids))
	n := t.t.Probe(hpKeys128(ids), v)
	return v, n
}
func (t hpReal128) Len() int       { return t.t.Len() }
func (t hpReal128) Reset()         { t.t.Reset() }
func (t hpReal128) Seed() uintptr  { return t.t.VerifSeed() }
func (t hpReal128) Groups() int    { return t.t.VerifGroups() }
func (t hpReal128) MaxLen() int    { return t.t.VerifMaxLen() }
func (t hpReal128) Dump() [][]hpKV { return hpDump128(t.t.VerifDump()) }
func (t hpReal128) Hash(id uint64, seed uintptr) uint64 {
	return uint64(hashprobe.VerifHash128(hpKey128(id), seed))
}

func hpKinds() []hpKind {
	return []hpKind{
		{"32", 7, 32,
			func(g int, p bool) hpProbe { return hpProbe32{hashprobe.VerifNewProbe32(g, p)} },
			func(c int, l float64) hpReal { return hpReal32{hashprobe.NewUint32Table(c, l)} }},
		{"64", 4, 64,
			func(g int, p bool) hpProbe { return hpProbe64{hashprobe.VerifNewProbe64(g, p)} },
			func(c int, l float64) hpReal { return hpReal64{hashprobe.NewUint64Table(c, l)} }},
		{"128", 1, 64,
			func(g int, p bool) hpProbe { return hpProbe128{hashprobe.VerifNewProbe128(g, p)} },
			func(c int, l float64) hpReal { return hpReal128{hashprobe.NewUint128Table(c, l)} }},
	}
}

// a universe of n distinct key ids, boundary values first
func hpUniverse(r *rand.Rand, k hpKind, n int) []uint64 {
	mask := ^uint64(0)
	if k.idBits == 32 {
		mask = 1<<32 - 1
	}
	seen := map[uint64]bool{}
	var out []uint64
	add := func(id uint64) {
		id &= mask
		if !seen[id] && len(out) < n {
			seen[id] = true
			out = append(out, id)
		}
	}
	if r.Intn(4) != 0 {
		add(0) // the zero key: what an unoccupied slot holds
	}
	specials := []uint64{1, 1 << 8, 1 << 16, 1 << 31, 1<<32 - 1, 1 << 32, 1 << 63, ^uint64(0), 0x0101010101010101, 0xFF, 0xFF00}
	r.Shuffle(len(specials), func(i, j int) { specials[i], specials[j] = specials[j], specials[i] })
	for _, s := range specials[:r.Intn(len(specials)+1)] {
		add(s)
	}
	mode := r.Intn(3)
	base := r.Uint64()
	for tries := 0; len(out) < n; tries++ {
		if tries > 4*n+64 { // the three candidates of mode 0 can all be taken (specials 255, 256 next to 254)
			mode = 2
		}
		switch mode {
		case 0: // small consecutive numbers, as dictionary values often are
			add(uint64(len(out)) + uint64(r.Intn(3)))
		case 1: // consecutive from a random base
			base++
			add(base)
		default:
			add(r.Uint64())
		}
	}
	r.Shuffle(len(out), func(i, j int) { out[i], out[j] = out[j], out[i] })
	return out
}

func hpIDs(ids []uint64) string {
	if len(ids) == 0 {
		return "-"
	}
	var sb strings.Builder
	for i, id := range ids {
		if i > 0 {
			sb.WriteByte(',')
		}
		sb.WriteString(strconv.FormatUint(id, 10))
	}
	return sb.String()
}

func hpLenClass(n int) string {
	switch {
	case n <= 1:
		return fmt.Sprint(n)
	case n <= 8:
		return "2..8"
	case n < 255:
		return "9..254"
	case n <= 257:
		return "255..257"
	default:
		return ">257"
	}
}

// the L1 oracle: first-seen numbering over the whole history
type hpOracle struct {
	first map[uint64]int32
}

func newHpOracle() *hpOracle { return &hpOracle{first: map[uint64]int32{}} }

// returns the expected values and the number of new keys
func (o *hpOracle) probe(ids []uint64) ([]int32, int) {
	want := make([]int32, len(ids))
	added := 0
	for i, id := range ids {
		v, ok := o.first[id]
		if !ok {
			v = int32(len(o.first))
			o.first[id] = v
			added++
		}
		want[i] = v
	}
	return want, added
}

type hpWorker struct {
	b *c4batch
	r *rand.Rand
}

// ------------------------------------------------------------------ (A) explicit hashes

func (w *hpWorker) multiCase(k hpKind) {
	ctx, r := w.b.ctx, w.r
	groups := []int{1, 2, 4, 8, 16, 64}[r.Intn(6)]
	capacity := k.g * groups
	var u int
	switch r.Intn(7) {
	case 0:
		u = 1
	case 1:
		u = k.g
	case 2:
		u = k.g + 1
	case 3:
		u = capacity - 1
	case 4, 5:
		u = capacity // the table can get exactly full
	default:
		u = 1 + r.Intn(capacity)
	}
	u = min(max(u, 1), capacity) // never more distinct keys than slots: the probe loop would not end
	uni := hpUniverse(r, k, u)
	// the hash of each key (a function of the key, as in the real tables)
	hmode := r.Intn(6)
	hashOf := map[uint64]uint64{}
	few := []uint64{r.Uint64(), r.Uint64(), ^uint64(0), 0, uint64(groups - 1)}
	few = few[:1+r.Intn(len(few))]
	eq := []uint64{0, 1, uint64(groups - 1), ^uint64(0), ^uint64(0) - 1, r.Uint64()}[r.Intn(6)]
	home := r.Uint64() & uint64(groups-1)
	for _, id := range uni {
		var h uint64
		switch hmode {
		case 0: // all equal: one chain through the table
			h = eq
		case 1: // few distinct values
			h = few[r.Intn(len(few))]
		case 2: // next to 2^64-1: hash++ wraps around
			h = ^uint64(0) - uint64(r.Intn(2*groups+1))
		case 3: // same home group, different upper bits
			h = home | r.Uint64()&^uint64(groups-1)
		case 4: // the key itself (a weak hash)
			h = id
		default:
			h = r.Uint64()
		}
		hashOf[id] = h
	}
	nb := 1 + r.Intn(4)
	batches := make([][]uint64, nb)
	fill := r.Intn(3) == 0 // first batch walks the whole universe: fills the table if u = capacity
	for bi := range batches {
		var n int
		switch r.Intn(10) {
		case 0:
			n = 0
		case 1:
			n = 1
		case 2:
			n = 7
		case 3:
			n = 8
		case 4:
			n = 255 + r.Intn(3)
		case 5:
			n = 2 * u
		default:
			n = 1 + r.Intn(2*u+8)
		}
		var b []uint64
		if bi == 0 && fill {
			b = append(b, uni...)
			for i := 0; i < n/4; i++ { // repeats in between
				j := r.Intn(len(b) + 1)
				b = append(b[:j], append([]uint64{uni[r.Intn(u)]}, b[j:]...)...)
			}
		} else {
			win := uni[:1+r.Intn(u)]
			if r.Intn(2) == 0 {
				win = uni
			}
			b = make([]uint64, n)
			for i := range b {
				b[i] = win[r.Intn(len(win))]
			}
			if n >= 2 && r.Intn(3) == 0 {
				b[n-1] = b[0] // a repeat inside the batch for sure
			}
		}
		batches[bi] = b
	}
	// request text = canonical input
	var req strings.Builder
	fmt.Fprintf(&req, "hp.multi %d %d ", k.g, groups)
	total := 0
	for bi, b := range batches {
		if bi > 0 {
			req.WriteByte(';')
		}
		if len(b) == 0 {
			req.WriteByte('-')
		}
		for i, id := range b {
			if i > 0 {
				req.WriteByte(',')
			}
			req.WriteString(strconv.FormatUint(hashOf[id], 10))
			req.WriteByte(':')
			req.WriteString(strconv.FormatUint(id, 10))
		}
		total += len(b)
	}
	canon := "multiprobe" + k.nn + " " + req.String()

	run := func(portable bool) (ans string, dump [][]hpKV, vals [][]int32, lens []int, perr any) {
		defer func() {
			if p := recover(); p != nil {
				perr = p
			}
		}()
		p := k.newProbe(groups, portable)
		var parts []string
		for _, b := range batches {
			hs := make([]uintptr, len(b))
			for i, id := range b {
				hs[i] = uintptr(hashOf[id])
			}
			v := p.Multi(hs, b)
			vals = append(vals, v)
			lens = append(lens, p.Len())
			if len(v) == 0 {
				parts = append(parts, "-")
			} else {
				parts = append(parts, core.JoinInts(v))
			}
		}
		dump = p.Dump()
		ans = fmt.Sprintf("ok %s %d %s", strings.Join(parts, ";"), p.Len(), hpDumpText(dump))
		return
	}
	goAns, dump, vals, lens, perr := run(false)
	detail := func(extra map[string]any) map[string]any {
		m := map[string]any{"width": k.nn, "group_size": k.g, "groups": groups, "request": req.String(), "variant": w.b.variant}
		for kk, v := range extra {
			m[kk] = v
		}
		return m
	}
	// non-trivial: some key lives outside its home group (its walk crossed a full group)
	displaced := false
	distinct := 0
	for gi, g := range dump {
		for _, kv := range g {
			distinct++
			id, err := strconv.ParseUint(kv.tok, 10, 64)
			if err == nil && int(hashOf[id]&uint64(groups-1)) != gi {
				displaced = true
			}
		}
	}
	ctx.Case(canon, displaced)
	ctx.Hist("multi.width", k.nn)
	ctx.Hist("multi.groups", fmt.Sprint(groups))
	ctx.Hist("multi.hashes", []string{"all equal", "few values", "next to 2^64-1", "same home group", "key itself", "random"}[hmode])
	ctx.Hist("multi.batches", fmt.Sprint(nb))
	for _, b := range batches {
		ctx.Hist("multi.batch length", hpLenClass(len(b)))
	}
	ctx.Hist("multi.key stored outside its home group", fmt.Sprint(displaced))
	switch {
	case distinct == capacity:
		ctx.Hist("multi.fill", "exactly full")
	case 2*distinct >= capacity:
		ctx.Hist("multi.fill", "half or more")
	default:
		ctx.Hist("multi.fill", "below half")
	}
	if perr != nil {
		ctx.Fail("L1", "hashprobe-multiprobe"+k.nn+"-panic", fmt.Sprintf("multiProbe%s panics: %v", k.nn, perr), detail(nil))
		return
	}
	// L1: first-seen numbering
	o := newHpOracle()
	for bi, b := range batches {
		want, _ := o.probe(b)
		bad := false
		for i := range b {
			if vals[bi][i] != want[i] {
				ctx.Fail("L1", "hashprobe-multiprobe"+k.nn+"-first-seen-index",
					"a probed key did not get the index of its first occurrence in the insert sequence",
					detail(map[string]any{"batch": bi, "position": i, "key": b[i], "value": vals[bi][i], "expected": want[i]}))
				bad = true
				break
			}
		}
		if !bad && lens[bi] != len(o.first) {
			ctx.Fail("L1", "hashprobe-multiprobe"+k.nn+"-numkeys",
				fmt.Sprintf("multiProbe%s returned numKeys %d after %d distinct keys", k.nn, lens[bi], len(o.first)),
				detail(map[string]any{"batch": bi}))
			bad = true
		}
		if bad {
			break
		}
	}
	// L2: asm kernel against the portable loop
	if w.b.variant == "asm" {
		pAns, _, _, _, pErr := run(true)
		if pErr != nil {
			pAns = fmt.Sprintf("panic: %v", pErr)
		}
		if pAns != goAns {
			ctx.Fail("L2", "hashprobe-multiprobe"+k.nn+"-asm-vs-portable",
				"the dispatched (assembly) multiProbe and multiProbeDefault differ in values, numKeys or final table",
				detail(map[string]any{"dispatched": goAns, "portable": pAns}))
		}
	}
	// L2: the Lean mirror
	w.b.ask(req.String(), func(ans string) {
		if ans != goAns {
			ctx.Fail("L2", "hashprobe-multiprobe"+k.nn+"-mirror",
				"values, numKeys or final table of multiProbe differ from the Lean mirror",
				detail(map[string]any{"go": goAns, "model": ans}))
		}
	})
}

// ------------------------------------------------------------------ (B) real tables

type hpSegment struct {
	groups0, maxLen0 int
	calls            []string // call tokens for hp.session
	outs             []string // what Go observed per call
	dump             string
}

func (w *hpWorker) sessionCase(k hpKind, sample bool) {
	ctx, r := w.b.ctx, w.r
	capacity := []int{0, 1, 7, 8, 100}[r.Intn(5)]
	maxLoad := []float64{0.5, 0.75, 0.85, 1.0}[r.Intn(4)]
	u := []int{1, 3, 10, 50, 200, 600}[r.Intn(6)]
	uni := hpUniverse(r, k, u)
	nc := 1 + r.Intn(6)
	type call struct {
		reset bool
		ids   []uint64
	}
	var calls []call
	big := 2 // at most two long batches per session
	for i := 0; i < nc; i++ {
		if i > 0 && r.Intn(6) == 0 {
			calls = append(calls, call{reset: true})
		}
		var n int
		switch r.Intn(9) {
		case 0:
			n = 0
		case 1:
			n = 1
		case 2:
			n = 5
		case 3, 4:
			n = 30
		case 5:
			n = 255 + r.Intn(3)
		case 6:
			n = 300
		case 7:
			n = 700
		default:
			n = r.Intn(60)
		}
		if n > 60 {
			if big == 0 {
				n = 30
			} else {
				big--
			}
		}
		// a sliding window of the universe, so that later calls bring new keys next to known ones
		hi := 1 + r.Intn(u)
		if r.Intn(2) == 0 {
			hi = u
		}
		lo := 0
		if r.Intn(3) == 0 {
			lo = r.Intn(hi)
		}
		win := uni[lo:hi]
		ids := make([]uint64, n)
		for j := range ids {
			ids[j] = win[r.Intn(len(win))]
		}
		calls = append(calls, call{ids: ids})
	}
	var cs strings.Builder
	fmt.Fprintf(&cs, "table%s cap=%d maxLoad=%v", k.nn, capacity, maxLoad)
	for _, c := range calls {
		if c.reset {
			cs.WriteString(" reset")
		} else {
			cs.WriteString(" probe=" + hpIDs(c.ids))
		}
	}
	canon := cs.String()
	if sample {
		ctx.Sample(map[string]any{"hashprobe table session": c4short(canon)})
	}
	detail := func(extra map[string]any) map[string]any {
		m := map[string]any{"width": k.nn, "session": canon, "variant": w.b.variant}
		for kk, v := range extra {
			m[kk] = v
		}
		return m
	}
	sig := "hashprobe-table" + k.nn
	var segs []*hpSegment
	growths, resets := 0, 0
	var perr any
	func() {
		defer func() {
			if p := recover(); p != nil {
				perr = p
			}
		}()
		t := k.newReal(capacity, maxLoad)
		o := newHpOracle()
		// the sizing hypothesis of the Lean theorems (SizingOk), read off the real table
		sizingDone := false
		sizing := func(ci int, grew bool, lenBefore, numKeys int) {
			g, ml, ln := t.Groups(), t.MaxLen(), t.Len()
			var what string
			switch {
			case g < 1 || g&(g-1) != 0:
				what = fmt.Sprintf("the table has %d groups: not a power of two", g)
			case ml > k.g*g:
				what = fmt.Sprintf("maxLen %d exceeds the %d slots of the table", ml, k.g*g)
			case ln > k.g*g:
				what = fmt.Sprintf("Len() %d exceeds the %d slots of the table", ln, k.g*g)
			case grew && lenBefore+numKeys > k.g*g:
				what = fmt.Sprintf("the table grew for %d+%d values but has %d slots only", lenBefore, numKeys, k.g*g)
			}
			if what != "" && !sizingDone {
				sizingDone = true
				ctx.Fail("L1", "hashprobe-sizing-ok", "tableSizeAndMaxLen broke the sizing hypothesis of the theorems: "+what,
					detail(map[string]any{"call": ci, "groups": g, "maxLen": ml, "Len": ln, "group_size": k.g}))
			}
		}
		sizing(-1, false, 0, 0)
		seg := &hpSegment{groups0: t.Groups(), maxLen0: t.MaxLen()}
		var seen []uint64 // keys probed since the last Reset, in first-seen order
		l1done := false
		for ci, c := range calls {
			if c.reset {
				seg.dump = hpDumpText(t.Dump())
				segs = append(segs, seg)
				t.Reset()
				resets++
				if t.Len() != 0 && !l1done {
					l1done = true
					ctx.Fail("L1", sig+"-len-after-reset", fmt.Sprintf("Len() = %d after Reset", t.Len()), detail(map[string]any{"call": ci}))
				}
				o = newHpOracle()
				seen = seen[:0]
				seg = &hpSegment{groups0: t.Groups(), maxLen0: t.MaxLen()}
				continue
			}
			seedBefore, groupsBefore, maxLenBefore := t.Seed(), t.Groups(), t.MaxLen()
			known := len(o.first)
			want, added := o.probe(c.ids)
			for _, id := range c.ids {
				if int(o.first[id]) >= known && int(o.first[id]) == len(seen) {
					seen = append(seen, id)
				}
			}
			lenBefore := t.Len()
			vals, n := t.Probe(c.ids)
			grew := t.Seed() != seedBefore || t.Groups() != groupsBefore || t.MaxLen() != maxLenBefore
			if grew {
				growths++
			}
			sizing(ci, grew, lenBefore, len(c.ids))
			if !l1done {
				for i := range c.ids {
					if vals[i] != want[i] {
						l1done = true
						ctx.Fail("L1", sig+"-first-seen-index",
							"Probe did not give a key the index of its first occurrence in the insert sequence",
							detail(map[string]any{"call": ci, "position": i, "key": c.ids[i], "value": vals[i], "expected": want[i]}))
						break
					}
				}
			}
			if !l1done && n != added {
				l1done = true
				ctx.Fail("L1", sig+"-probe-return", fmt.Sprintf("Probe returned %d for a call that brought %d new keys", n, added), detail(map[string]any{"call": ci}))
			}
			if !l1done && t.Len() != len(o.first) {
				l1done = true
				ctx.Fail("L1", sig+"-len", fmt.Sprintf("Len() = %d after %d distinct keys", t.Len(), len(o.first)), detail(map[string]any{"call": ci}))
			}
			// the call as the mirror sees it
			seed := t.Seed()
			var tok strings.Builder
			fmt.Fprintf(&tok, "%d,%d|", t.Groups(), t.MaxLen())
			if len(seen) == 0 {
				tok.WriteByte('-')
			}
			for i, id := range seen {
				if i > 0 {
					tok.WriteByte(',')
				}
				tok.WriteString(strconv.FormatUint(id, 10))
				tok.WriteByte(':')
				tok.WriteString(strconv.FormatUint(t.Hash(id, seed), 10))
			}
			tok.WriteByte('|')
			tok.WriteString(hpIDs(c.ids))
			seg.calls = append(seg.calls, tok.String())
			vs := "-"
			if len(vals) > 0 {
				vs = core.JoinInts(vals)
			}
			seg.outs = append(seg.outs, fmt.Sprintf("%s|%d|%d|%d", vs, t.Len(), t.Groups(), t.MaxLen()))
		}
		seg.dump = hpDumpText(t.Dump())
		segs = append(segs, seg)
	}()
	ctx.Case(canon, growths > 0)
	ctx.Hist("table.width", k.nn)
	ctx.Hist("table.cap", fmt.Sprint(capacity))
	ctx.Hist("table.maxLoad", fmt.Sprint(maxLoad))
	ctx.Hist("table.growths per session", fmt.Sprint(growths))
	ctx.Hist("table.resets per session", fmt.Sprint(resets))
	for _, c := range calls {
		if !c.reset {
			ctx.Hist("table.batch length", hpLenClass(len(c.ids)))
		}
	}
	if perr != nil {
		ctx.Fail("L1", sig+"-panic", fmt.Sprintf("a Probe/Reset session panics: %v", perr), detail(nil))
		return
	}
	for si, seg := range segs {
		if len(seg.calls) == 0 {
			continue
		}
		ctx.Hist("table.final groups", fmt.Sprint(strings.Count(seg.dump, "/")+1))
		goAns := "ok " + strings.Join(seg.outs, ";") + " " + seg.dump
		req := fmt.Sprintf("hp.session %d %d %d %s", k.g, seg.groups0, seg.maxLen0, strings.Join(seg.calls, ";"))
		si := si
		w.b.ask(req, func(ans string) {
			if ans != goAns {
				ctx.Fail("L2", sig+"-session-mirror",
					"values, Len, number of groups, maxLen of a Probe call or the final table differ from the Lean mirror of probeArray/grow",
					detail(map[string]any{"segment_after_resets": si, "request": req, "go": goAns, "model": ans}))
			}
		})
	}
}

// ------------------------------------------------------------------ driver of the sub-check

func RunC04HashProbe(ctx *core.Ctx) {
	ctx.SetRule("hashprobe: (A) some key is stored outside its home group (its probe walk crossed a full group); (B) the table grew at least once during the session")
	kinds := hpKinds()
	type job struct {
		k      hpKind
		stream string
		shard  int
	}
	const shards = 4
	var list []job
	for _, k := range kinds {
		for s := 0; s < shards; s++ {
			list = append(list, job{k, "session", s})
		}
	}
	for _, k := range kinds {
		for s := 0; s < shards; s++ {
			list = append(list, job{k, "multi", s})
		}
	}
	jobs := make(chan job, len(list))
	for _, j := range list {
		jobs <- j
	}
	close(jobs)
	nw := min(max(runtime.GOMAXPROCS(0), 2), 12)
	var wg sync.WaitGroup
	for wi := 0; wi < nw; wi++ {
		wg.Add(1)
		go func() {
			defer wg.Done()
			w := &hpWorker{b: &c4batch{ctx: ctx, d: ctx.Driver(), variant: ctx.Variant}}
			for j := range jobs {
				w.r = ctx.Rand(fmt.Sprintf("c04hashprobe/%s/%s/%d", j.stream, j.k.nn, j.shard))
				if j.stream == "multi" {
					for i := 0; i < ctx.Scale(250, 2500); i++ {
						w.multiCase(j.k)
					}
				} else {
					for i := 0; i < ctx.Scale(50, 500); i++ {
						w.sessionCase(j.k, i == 0 && j.shard == 0)
					}
				}
				w.b.flush()
			}
		}()
	}
	wg.Wait()
}
