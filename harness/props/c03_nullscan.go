package props

import (
	"fmt"
	"math"
	"math/rand"
	"os"
	"strconv"
	"strings"
	"sync"
	"time"

	"github.com/parquet-go/parquet-go"
	"github.com/parquet-go/parquet-go/deprecated"

	"verifharness/core"
)

// C03/nullscan: the null bitmap scan of optional non-pointer fields on the typed write path.
//
// A case is (element kind, stride flavour, null pattern, salt). The rows are built from the
// pattern (zero value = null, a non-zero value of the kind's boundary pool otherwise) and handed to
// the closure the real writeRowsFuncOfOptional builds for that Go type (hook VerifOptionalRuns,
// which records every call of the wrapped writeRows), and to the null index kernel the typed path
// selects for the type (hook VerifNullIndex; assembly or portable, depending on the build).
//
//	L1  the recorded calls are non-empty, contiguous, cover exactly [0,n), every row is written at
//	    the parent's definition level iff it is null; the bitmap has bit p set iff row p is not null.
//	L2  the recorded calls == Lean mirror `optionalRuns` on the bitmap words (nullRuns_spec is a
//	    theorem about that mirror); the bitmap words == Lean mirror `nullIndex`.
func init() { RegisterSub("C03", "nullscan", RunC03NullScan) }

// c03nsRule is appended to the rule text of the property by C03/paths (the last sub-check to run).
const c03nsRule = "C03/nullscan: (element kind: every entry of the null-index dispatch table - bool, int8/16/32/64, int, uint8/16/32/64, uint, float32/64, string, []byte, [5]byte, [16]byte, Int96, pointer, map, time.Time, non-pointer struct (null = the zero struct) - with non-null values whose low or high bytes are zero; dense or strided rows) x null pattern: every bit pattern of length <= 12 placed at every offset 0..66 behind a constant or alternating filler, with and without rows after it, and random run-length patterns up to 1400 rows whose run boundaries sit at and around multiples of 64 and 8; non-trivial = the batch holds both a null and a non-null row"

// every entry of the nullIndexFuncOf dispatch table (null.go)
var c03nsKinds = []string{"int32", "int64", "float32", "float64", "string", "bool", "bytes16",
	"int8", "int16", "uint8", "uint16", "uint32", "uint64", "int", "uint", "bytes5", "int96", "bytes", "pointer", "map", "time", "struct"}

// c03nsStruct: a non-pointer struct on an optional field; its zero value is the null
type c03nsStruct struct {
	A int32
	S string
	P *int32
	L []int32
}

type c03nsCase struct {
	kind    string
	strided bool
	pat     []bool // true = the row holds a value (bit set)
	salt    int
	origin  string // exhaustive | random | corpus
}

func (c *c03nsCase) kindText() string {
	if c.strided {
		return c.kind + "/strided"
	}
	return c.kind
}

func c03nsPatText(pat []bool) string {
	if len(pat) == 0 {
		return "-"
	}
	b := make([]byte, len(pat))
	for i, v := range pat {
		b[i] = '0'
		if v {
			b[i] = '1'
		}
	}
	return string(b)
}

func (c *c03nsCase) canon() string {
	return c.kindText() + " " + c03nsPatText(c.pat) + " " + strconv.Itoa(c.salt)
}

var (
	c03nsI32 = []int32{1, -1, math.MinInt32, math.MaxInt32, 1 << 16, 0x100, -256}
	c03nsI64 = []int64{1, -1, math.MinInt64, math.MaxInt64, 1 << 32, 1 << 63 >> 1, -1 << 32, 0x100}
	c03nsF32 = []float32{1, float32(math.Copysign(0, -1)), float32(math.NaN()), float32(math.Inf(1)), math.SmallestNonzeroFloat32, -1.5,
		math.Float32frombits(0x7f800001), math.Float32frombits(0x00010000)}
	c03nsF64 = []float64{1, math.Copysign(0, -1), math.NaN(), math.Inf(-1), math.SmallestNonzeroFloat64, -1.5,
		math.Float64frombits(0x7ff0000000000001), math.Float64frombits(0x0000000100000000), math.Float64frombits(0x8000000000000000)}
	c03nsStr = []string{"a", "\x00", "zero", strings.Repeat("x", 40), "\x00\x00\x00\x00\x00\x00\x00\x00"}
	c03nsB16 = [][16]byte{{1}, {15: 1}, {7: 0x80}, {8: 1}, {0xFF, 0xFF, 0xFF, 0xFF, 0xFF, 0xFF, 0xFF, 0xFF, 0xFF, 0xFF, 0xFF, 0xFF, 0xFF, 0xFF, 0xFF, 0xFF}}
	// the narrow and native-width integers: values with a zero low byte / zero low half / zero
	// high part, so that a kernel of the wrong width (or one reading past the element) decides wrong
	c03nsI8  = []int8{1, -1, math.MinInt8, math.MaxInt8, 0x10}
	c03nsI16 = []int16{1, -1, 0x100, -256, 0x7f00, math.MinInt16, 0x00ff}
	c03nsU8  = []uint8{1, 0xff, 0x80, 0x10}
	c03nsU16 = []uint16{1, 0x100, 0xff00, 0x8000, 0x00ff, 0xffff, 0x2000}
	c03nsU32 = []uint32{1, 0x100, 0x10000, 0xffff0000, 0x80000000, 0x01000000, 0xffffffff}
	c03nsU64 = []uint64{1, 1 << 32, 0xffffffff00000000, 1 << 63, 0x100, 0x0100000000000000}
	c03nsInt = []int{1, -1, 1 << 32, -1 << 32, 0x100, math.MinInt64}
	c03nsUin = []uint{1, 1 << 32, 0xffffffff00000000, 1 << 63, 0x100}
	c03nsB5  = [][5]byte{{1}, {4: 1}, {2: 0x80}, {0xFF, 0xFF, 0xFF, 0xFF, 0xFF}}
	c03nsI96 = []deprecated.Int96{{1, 0, 0}, {0, 0, 1}, {0, 1, 0}, {0, 0, 0x80000000}}
	// []byte: nil is null, the empty non-nil slice is a value (the empty byte string)
	c03nsByt = [][]byte{{}, {0}, []byte("a"), make([]byte, 0, 8)}
	c03nsOne = int32(1)
	c03nsZer = int32(0)
	c03nsPtr = []*int32{&c03nsOne, &c03nsZer}
	// maps: nil is null, the empty non-nil map is present
	c03nsMap = []map[string]int32{{}, {"a": 1}, {"": 0}}
	// time.Time: the zero instant is null; the epoch, one nanosecond after the zero instant (only
	// the nanosecond field of the struct differs from zero) and instants with a location are values
	// non-pointer struct: values that differ from the zero struct in one field only, incl. the
	// last one and an empty non-nil slice
	c03nsStr4 = []c03nsStruct{{A: 1}, {S: "x"}, {P: &c03nsZer}, {L: []int32{}}, {A: -1, S: "y", L: []int32{0}}}
	c03nsTim = []time.Time{time.Unix(0, 0).UTC(), time.Time{}.Add(1), time.Unix(1700000000, 5).In(time.FixedZone("x", 3600)), time.Time{}.Add(time.Second)}
)

// c03nsKindImpl: one element type of the nullIndexFuncOf dispatch table.
type c03nsKindImpl struct {
	runs  func(pat []bool, salt int, strided bool) [][3]int
	index func(pat []bool, salt int, strided bool) []uint64
}

func c03nsRows[T any](pool []T, pat []bool, salt int) []T {
	vs := make([]T, len(pat)) // the zero value where the pattern says null
	for i, p := range pat {
		if p {
			vs[i] = pool[(i+salt)%len(pool)]
		}
	}
	return vs
}

func c03nsKindOf[T any](pool []T) c03nsKindImpl {
	return c03nsKindImpl{
		runs: func(pat []bool, salt int, strided bool) [][3]int {
			return parquet.VerifOptionalRunsOf(c03nsRows(pool, pat, salt), strided)
		},
		index: func(pat []bool, salt int, strided bool) []uint64 {
			return parquet.VerifNullIndexOf(c03nsRows(pool, pat, salt), strided)
		},
	}
}

var c03nsImpl = map[string]c03nsKindImpl{
	"int32": c03nsKindOf(c03nsI32), "int64": c03nsKindOf(c03nsI64), "float32": c03nsKindOf(c03nsF32),
	"float64": c03nsKindOf(c03nsF64), "string": c03nsKindOf(c03nsStr), "bool": c03nsKindOf([]bool{true}),
	"bytes16": c03nsKindOf(c03nsB16), "int8": c03nsKindOf(c03nsI8), "int16": c03nsKindOf(c03nsI16),
	"uint8": c03nsKindOf(c03nsU8), "uint16": c03nsKindOf(c03nsU16), "uint32": c03nsKindOf(c03nsU32),
	"uint64": c03nsKindOf(c03nsU64), "int": c03nsKindOf(c03nsInt), "uint": c03nsKindOf(c03nsUin),
	"bytes5": c03nsKindOf(c03nsB5), "int96": c03nsKindOf(c03nsI96), "bytes": c03nsKindOf(c03nsByt),
	"pointer": c03nsKindOf(c03nsPtr), "map": c03nsKindOf(c03nsMap), "time": c03nsKindOf(c03nsTim),
	"struct": c03nsKindOf(c03nsStr4),
}

func c03nsWords(pat []bool) []uint64 {
	ws := make([]uint64, (len(pat)+63)/64)
	for i, p := range pat {
		if p {
			ws[i/64] |= 1 << (uint(i) % 64)
		}
	}
	return ws
}

func c03nsWordsText(ws []uint64) string {
	if len(ws) == 0 {
		return "-"
	}
	var sb strings.Builder
	for i, w := range ws {
		if i > 0 {
			sb.WriteByte(',')
		}
		sb.WriteString(strconv.FormatUint(w, 16))
	}
	return sb.String()
}

func c03nsRunsText(runs [][3]int) string {
	if len(runs) == 0 {
		return "-"
	}
	var sb strings.Builder
	for i, r := range runs {
		if i > 0 {
			sb.WriteByte(',')
		}
		switch r[0] {
		case 1:
			sb.WriteString("N:")
		case 0:
			sb.WriteString("V:")
		default:
			sb.WriteString("?:")
		}
		fmt.Fprintf(&sb, "%d:%d", r[1], r[2])
	}
	return sb.String()
}

// c03nsOracle is the L1 oracle, written from the property statement: which rows are written
// null must be exactly the null rows, every row exactly once and in order.
func c03nsOracle(pat []bool, runs [][3]int) (key, what string) {
	n := len(pat)
	if n == 0 {
		for _, r := range runs {
			if r[1] != r[2] {
				return "nullscan-rows-written-for-empty-batch", "a non-empty array was handed to writeRows for a batch without rows"
			}
		}
		return "", ""
	}
	at := 0
	for _, r := range runs {
		if r[0] != 0 && r[0] != 1 {
			return "nullscan-unexpected-definition-level", "writeRows was called with a definition level that is neither the parent's nor the parent's + 1"
		}
		if r[1] != at {
			return "nullscan-runs-not-contiguous", fmt.Sprintf("a call starts at row %d, the previous one ended at row %d", r[1], at)
		}
		if r[2] <= r[1] {
			return "nullscan-empty-run", fmt.Sprintf("writeRows was called with an empty array at row %d of a non-empty batch (a leaf column stores a null entry for it)", r[1])
		}
		if r[2] > n {
			return "nullscan-run-past-end", fmt.Sprintf("a call ends at row %d of %d", r[2], n)
		}
		for p := r[1]; p < r[2]; p++ {
			if (r[0] == 1) == pat[p] {
				if pat[p] {
					return "nullscan-value-row-written-null", fmt.Sprintf("row %d holds a value but is written at the parent's definition level (null)", p)
				}
				return "nullscan-null-row-written-as-value", fmt.Sprintf("row %d is the zero value but is written as a value (definition level + 1)", p)
			}
		}
		at = r[2]
	}
	if at != n {
		return "nullscan-rows-not-covered", fmt.Sprintf("the calls end at row %d of %d", at, n)
	}
	return "", ""
}

func c03nsSafe[T any](f func() T) (out T, panicked string) {
	defer func() {
		if r := recover(); r != nil {
			panicked = fmt.Sprint(r)
		}
	}()
	return f(), ""
}

type c03nsAsker interface {
	AskMany([]string) ([]string, error)
}

// c03nsBatch runs a batch of cases on the real code and on the Lean mirror.
func c03nsBatch(ctx *core.Ctx, d c03nsAsker, cases []*c03nsCase) {
	type res struct {
		runs  [][3]int
		words []uint64
		want  []uint64
		dead  bool
	}
	results := make([]res, len(cases))
	var reqs []string
	for k, c := range cases {
		n := len(c.pat)
		hasNull, hasVal := false, false
		for _, p := range c.pat {
			if p {
				hasVal = true
			} else {
				hasNull = true
			}
		}
		ctx.Case(c.canon(), hasNull && hasVal)
		ctx.Hist("nullscan-kind", c.kindText())
		ctx.Hist("nullscan-origin", c.origin)
		ctx.Hist("nullscan-rows", c03nsLenBucket(n))
		detail := func(extra map[string]any) map[string]any {
			m := map[string]any{"case": "nullscan " + c.canon(), "build": ctx.Variant}
			for k, v := range extra {
				m[k] = v
			}
			return m
		}
		impl := c03nsImpl[c.kind]
		runs, pan := c03nsSafe(func() [][3]int { return impl.runs(c.pat, c.salt, c.strided) })
		if pan != "" {
			ctx.Fail("L1", "nullscan-panic kind="+c.kind, "the optional wrapper of the typed write path panicked: "+pan, detail(nil))
			results[k].dead = true
		}
		words, pan := c03nsSafe(func() []uint64 { return impl.index(c.pat, c.salt, c.strided) })
		if pan != "" {
			ctx.Fail("L1", "null-index-panic kind="+c.kind, "the null index kernel panicked: "+pan, detail(nil))
			results[k].dead = true
		}
		want := c03nsWords(c.pat)
		results[k].runs, results[k].words, results[k].want = runs, words, want
		if results[k].dead {
			continue
		}
		ctx.Hist("nullscan-runs", c03nsLenBucket(len(runs)))
		// L1: the bitmap is the null pattern
		if n > 0 {
			if len(words) < len(want) {
				ctx.Fail("L1", "null-index-bitmap-too-short kind="+c.kind, "the bitmap has fewer than (n+63)/64 words", detail(map[string]any{"words": c03nsWordsText(words)}))
			} else {
				for x := range want {
					if words[x] != want[x] {
						ctx.Fail("L1", "null-index-bit-wrong kind="+c.kind, fmt.Sprintf("bitmap word %d is %#x, the null pattern of the rows gives %#x (bit set = row holds a value)", x, words[x], want[x]),
							detail(map[string]any{"words": c03nsWordsText(words), "expected": c03nsWordsText(want)}))
						break
					}
				}
				for x := len(want); x < len(words); x++ {
					if words[x] != 0 {
						ctx.Observe("null-index-padding-word-not-zero kind="+c.kind, "a bitmap word beyond (n+63)/64 is not zero (the scan does not depend on it)", detail(map[string]any{"words": c03nsWordsText(words)}))
						break
					}
				}
				if len(words) == len(want) {
					ctx.Hist("nullscan-bitmap-words", "(n+63)/64 (pooled bitmap)")
				} else if len(words) == n {
					ctx.Hist("nullscan-bitmap-words", "n (fresh bitmap)")
				} else {
					ctx.Hist("nullscan-bitmap-words", "other")
				}
			}
		}
		// L1: the calls write exactly the null pattern
		if key, what := c03nsOracle(c.pat, runs); key != "" {
			ctx.Fail("L1", key+" kind="+c.kind, what, detail(map[string]any{"calls": c03nsRunsText(runs)}))
		}
		// L2 requests: the scan mirror runs on the words the real kernel produced
		scanWords := words
		if n == 0 {
			scanWords = nil
		}
		reqs = append(reqs, fmt.Sprintf("nullscan.run %d %s", n, c03nsWordsText(scanWords)))
		reqs = append(reqs, "nullscan.index "+c03nsPatText(c.pat))
		reqs = append(reqs, fmt.Sprintf("nullscan.before %d %s", n, c03nsWordsText(want)))
	}
	if d == nil {
		return
	}
	ans, err := d.AskMany(reqs)
	if err != nil {
		ctx.Fail("L2", "driver-error", err.Error(), nil)
		return
	}
	q := 0
	for k, c := range cases {
		if results[k].dead {
			continue
		}
		aRun, aIdx, aBefore := ans[q], ans[q+1], ans[q+2]
		q += 3
		r := results[k]
		got := "ok " + c03nsRunsText(r.runs)
		if aRun != got {
			ctx.Fail("L2", "nullscan-runs-differ-from-mirror kind="+c.kind, "the calls made by writeRowsFuncOfOptional differ from the Lean mirror optionalRuns on the same bitmap ("+ctx.Variant+" build)",
				map[string]any{"case": "nullscan " + c.canon(), "build": ctx.Variant, "words": c03nsWordsText(r.words), "impl": got, "model": aRun})
		}
		if len(c.pat) > 0 && len(r.words) >= len(r.want) {
			gotIdx := "ok " + c03nsWordsText(r.words[:len(r.want)])
			if aIdx != gotIdx {
				ctx.Fail("L2", "null-index-differs-from-mirror kind="+c.kind, "the bitmap differs from the Lean mirror nullIndex ("+ctx.Variant+" build)",
					map[string]any{"case": "nullscan " + c.canon(), "build": ctx.Variant, "impl": gotIdx, "model": aIdx})
			}
		}
		if len(c.pat) > 0 {
			// how many of the cases tell the repaired loop from the one before the repair
			repaired := "ok " + c03nsRunsText(c03nsExpectedRuns(c.pat))
			if aBefore != repaired {
				ctx.Hist("nullscan-separates-pre-repair-mask", "yes")
			} else {
				ctx.Hist("nullscan-separates-pre-repair-mask", "no")
			}
		}
	}
}

// c03nsExpectedRuns: the maximal runs of the pattern (what Chain + Alternates determine).
func c03nsExpectedRuns(pat []bool) [][3]int {
	var out [][3]int
	for i := 0; i < len(pat); {
		j := i
		for j < len(pat) && pat[j] == pat[i] {
			j++
		}
		k := 1
		if pat[i] {
			k = 0
		}
		out = append(out, [3]int{k, i, j})
		i = j
	}
	return out
}

func c03nsLenBucket(n int) string {
	switch {
	case n <= 2:
		return strconv.Itoa(n)
	case n <= 12:
		return "3..12"
	case n <= 62:
		return "13..62"
	case n <= 66:
		return "63..66"
	case n <= 126:
		return "67..126"
	case n <= 130:
		return "127..130"
	case n <= 1000:
		return "131..1000"
	}
	return ">1000"
}

// c03nsRandomPattern: run-length sequences whose boundaries sit at and around multiples of 64
// (and 8), plus noise and the constant patterns.
func c03nsRandomPattern(r *rand.Rand) []bool {
	lens := []int{63, 64, 65, 66, 127, 128, 129, 130, 191, 192, 193, 255, 256, 257, 320, 513, 640, 1023, 1024, 1025, 1100}
	n := lens[r.Intn(len(lens))]
	if r.Intn(4) == 0 {
		n = 1 + r.Intn(1400)
	}
	pat := make([]bool, n)
	switch r.Intn(10) {
	case 0: // all null
	case 1: // all values
		for i := range pat {
			pat[i] = true
		}
	case 2: // alternating single rows
		ph := r.Intn(2)
		for i := range pat {
			pat[i] = i%2 == ph
		}
	case 3: // noise
		p := []float64{0.02, 0.5, 0.98}[r.Intn(3)]
		for i := range pat {
			pat[i] = r.Float64() < p
		}
	default: // runs cut around multiples of 64 (sometimes 8)
		v := r.Intn(2) == 0
		for i := 0; i < n; {
			unit := 64
			if r.Intn(5) == 0 {
				unit = 8
			}
			next := (i/unit+1+r.Intn(3))*unit + []int{-2, -1, 0, 0, 0, 1, 2}[r.Intn(7)]
			if r.Intn(6) == 0 {
				next = i + 1 + r.Intn(3)
			}
			if next <= i {
				next = i + 1
			}
			if next > n {
				next = n
			}
			for ; i < next; i++ {
				pat[i] = v
			}
			v = !v
		}
	}
	return pat
}

func c03nsCorpusCase(toks []string) *c03nsCase {
	// nullscan <kind[/strided]> <pattern> <salt>
	if len(toks) != 4 || toks[0] != "nullscan" {
		return nil
	}
	kind, opt, _ := strings.Cut(toks[1], "/")
	ok := false
	for _, k := range c03nsKinds {
		ok = ok || k == kind
	}
	salt, err := strconv.Atoi(toks[3])
	if !ok || err != nil || (opt != "" && opt != "strided") {
		return nil
	}
	c := &c03nsCase{kind: kind, strided: opt == "strided", salt: salt, origin: "corpus"}
	if toks[2] != "-" {
		for _, ch := range toks[2] {
			switch ch {
			case '0':
				c.pat = append(c.pat, false)
			case '1':
				c.pat = append(c.pat, true)
			default:
				return nil
			}
		}
	}
	return c
}

func RunC03NullScan(ctx *core.Ctx) {
	const batch = 400
	work := make(chan []*c03nsCase, 64)
	var wg sync.WaitGroup
	for w := 0; w < 16; w++ {
		wg.Add(1)
		go func() {
			defer wg.Done()
			d := ctx.Driver()
			for cs := range work {
				if d == nil {
					c03nsBatch(ctx, nil, cs)
				} else {
					c03nsBatch(ctx, d, cs)
				}
			}
		}()
	}
	var cur []*c03nsCase
	emit := func(c *c03nsCase) {
		cur = append(cur, c)
		if len(cur) == batch {
			work <- cur
			cur = nil
		}
	}
	// corpus first
	for _, path := range ctx.CorpusFiles() {
		data, err := os.ReadFile(path)
		if err != nil {
			continue
		}
		for _, line := range strings.Split(string(data), "\n") {
			toks := strings.Fields(line)
			if len(toks) == 0 || toks[0] != "nullscan" {
				continue
			}
			c := c03nsCorpusCase(toks)
			if c == nil {
				ctx.Fail("L2", "corpus-unparsable", path, line)
				continue
			}
			emit(c)
		}
	}
	// sampled cases for the evidence file
	ctx.Sample(map[string]any{"sub": "nullscan", "kind": "int32", "pattern": "010", "calls_expected": "N:0:1,V:1:2,N:2:3", "note": "the pre-repair mask writes row 2 as a value"})
	// exhaustive: every pattern of length <= 12 at every offset 0..66
	maxLen := 12
	rot := 0
	fillers := 3 // zeros, ones, alternating
	tails := []int{0, 1, 70}
	for L := 0; L <= maxLen; L++ {
		for bits := 0; bits < 1<<uint(L); bits++ {
			for off := 0; off <= 66; off++ {
				// quick: one (kind, stride, filler, tail) per placement, rotating; thorough: seven kinds
				nk := 1
				if ctx.Thorough() {
					nk = 7
				}
				for kk := 0; kk < nk; kk++ {
					rot++
					kind := c03nsKinds[(rot+kk)%len(c03nsKinds)]
					filler := (rot / 7) % fillers
					tail := tails[(rot/21)%len(tails)]
					pat := make([]bool, 0, off+L+tail)
					for i := 0; i < off; i++ {
						pat = append(pat, filler == 1 || (filler == 2 && i%2 == 0))
					}
					for i := 0; i < L; i++ {
						pat = append(pat, bits>>uint(i)&1 == 1)
					}
					for i := 0; i < tail; i++ {
						pat = append(pat, filler == 0 || (filler == 2 && i%2 == 1))
					}
					emit(&c03nsCase{kind: kind, strided: (rot/3)%2 == 1, pat: pat, salt: rot % 11, origin: "exhaustive<=12@0..66"})
				}
			}
		}
	}
	// random long patterns
	r := ctx.Rand("c03/nullscan")
	nrand := ctx.Scale(600, 7000)
	for _, kind := range c03nsKinds {
		for _, strided := range []bool{false, true} {
			for k := 0; k < nrand; k++ {
				emit(&c03nsCase{kind: kind, strided: strided, pat: c03nsRandomPattern(r), salt: r.Intn(64), origin: "random-long"})
			}
		}
	}
	if len(cur) > 0 {
		work <- cur
	}
	close(work)
	wg.Wait()
}
