package props

import (
	"bytes"
	"fmt"
	"reflect"
	"strings"
	"sync"

	"github.com/parquet-go/parquet-go"
	"github.com/parquet-go/parquet-go/format"

	"verifharness/core"
	"verifharness/gen"
)

// C03/typedmirror: the Lean model of the typed write path (PqModel.TypedPath, theorem
// typed_eq_reflect) against the real typed path. For every catalogue type whose shape is in the
// wrapper grammar of the model, a batch of rows is written with ONE GenericBuffer[T].Write call
// (one call of the type's writeRowsFunc for the whole batch, so the bitmap scan of optional
// fields runs over the whole batch; map types included: the typed path emits map entries in key
// order, which is the order the harness abstracts them in) and the stored streams are compared with the model's
// `typedWrite` on the abstracted batch (L2). The L1 side of the same comparison is C03/paths.
func init() { RegisterSub("C03", "typedmirror", RunC03TypedMirror) }

func c03IsList(n parquet.Node) bool {
	if n.Leaf() {
		return false
	}
	lt := n.Type().LogicalType()
	if lt == nil {
		return false
	}
	_, ok := lt.Value.(*format.ListType)
	return ok
}

func c03IsMap(n parquet.Node) bool {
	if n.Leaf() {
		return false
	}
	lt := n.Type().LogicalType()
	if lt == nil {
		return false
	}
	_, ok := lt.Value.(*format.MapType)
	return ok
}

// c03MapTNode renders the key and value writers of writeRowsFuncOfMap.
func c03MapTNode(n parquet.Node, t reflect.Type, sb *strings.Builder) bool {
	kv := n.Fields()[0]
	if !c03TNode(kv.Fields()[0], t.Key(), true, sb) {
		return false
	}
	sb.WriteString(",")
	// an optional non-pointer map value (parquet-value:",optional") gets the optional wrapper in
	// writeRowsFuncOfMap like a struct field does (since the round-4 repair)
	return c03TNode(kv.Fields()[1], t.Elem(), true, sb)
}

func c03FieldType(t reflect.Type, name string) (reflect.Type, bool) {
	for i := 0; i < t.NumField(); i++ {
		tag := t.Field(i).Tag.Get("parquet")
		if sf := t.Field(i); sf.Anonymous && tag == "" && sf.Type.Kind() == reflect.Struct {
			// promoted fields of an embedded struct: structFieldsOf flattens them, the struct
			// writer gets one column writer per promoted field at its offset in the outer struct
			if ft, ok := c03FieldType(sf.Type, name); ok {
				return ft, true
			}
			continue
		}
		tn, _, _ := strings.Cut(tag, ",")
		if tn == "" {
			tn = t.Field(i).Name
		}
		if tn == name {
			return t.Field(i).Type, true
		}
	}
	return nil, false
}

// c03TNode renders the wrapper composition writeRowsFuncOf builds for the Go type t on schema
// node n in the text form of the Lean model:
// F required leaf | Z optional non-pointer leaf | S(..) struct | P(x) pointer | R(x) slice |
// L(x) slice with the list tag | Q(x) optional + list | M(k,v) map | W(k,v) optional map |
// T(..) non-pointer struct with the optional tag.
// ok = false: shape outside the model.
func c03TNode(n parquet.Node, t reflect.Type, asIs bool, sb *strings.Builder) bool {
	switch {
	case asIs && n.Optional():
		switch {
		case t.Kind() == reflect.Ptr:
			sb.WriteString("P(")
			ok := c03TNode(n, t.Elem(), false, sb)
			sb.WriteString(")")
			return ok
		case c03IsMap(n) && t.Kind() == reflect.Map:
			sb.WriteString("W(")
			ok := c03MapTNode(n, t, sb)
			sb.WriteString(")")
			return ok
		case c03IsList(n) && t.Kind() == reflect.Slice:
			sb.WriteString("Q(")
			ok := c03TNode(n.Fields()[0].Fields()[0], t.Elem(), true, sb)
			sb.WriteString(")")
			return ok
		case n.Leaf() && t.Kind() != reflect.Interface && t.Kind() != reflect.Map:
			sb.WriteString("Z")
			return true
		case !n.Leaf() && t.Kind() == reflect.Struct && !c03IsMap(n) && !c03IsList(n):
			// a non-pointer struct with the optional tag: bitmap branch of writeRowsFuncOfOptional
			// (null index of the struct type) over writeRowsFuncOfStruct
			sb.WriteString("T(")
			return c03TFields(n, t, sb)
		}
		return false
	case asIs && n.Repeated():
		if t.Kind() != reflect.Slice {
			return false
		}
		sb.WriteString("R(")
		ok := c03TNode(n, t.Elem(), false, sb)
		sb.WriteString(")")
		return ok
	case c03IsList(n):
		if t.Kind() != reflect.Slice {
			return false
		}
		sb.WriteString("L(")
		ok := c03TNode(n.Fields()[0].Fields()[0], t.Elem(), true, sb)
		sb.WriteString(")")
		return ok
	case c03IsMap(n):
		if t.Kind() != reflect.Map {
			return false
		}
		sb.WriteString("M(")
		ok := c03MapTNode(n, t, sb)
		sb.WriteString(")")
		return ok
	case n.Leaf():
		if t.Kind() == reflect.Interface || t.Kind() == reflect.Map || t.Kind() == reflect.Ptr {
			return false
		}
		sb.WriteString("F")
		return true
	default:
		if t.Kind() != reflect.Struct {
			return false
		}
		sb.WriteString("S(")
		return c03TFields(n, t, sb)
	}
}

// c03TFields renders the field writers of writeRowsFuncOfStruct and the closing parenthesis.
func c03TFields(n parquet.Node, t reflect.Type, sb *strings.Builder) bool {
	for i, f := range n.Fields() {
		if i > 0 {
			sb.WriteString(",")
		}
		ft, ok := c03FieldType(t, f.Name())
		if !ok || !c03TNode(f, ft, true, sb) {
			return false
		}
	}
	sb.WriteString(")")
	return true
}

func c03StreamsText(s *gen.Shredder, cols [][]gen.Triple) string {
	var sb strings.Builder
	for i, c := range cols {
		if i > 0 {
			sb.WriteString(";")
		}
		for j, t := range c {
			if j > 0 {
				sb.WriteString(" ")
			}
			if t.Null {
				fmt.Fprintf(&sb, "n/%d/%d", t.Rep, t.Def)
			} else {
				fmt.Fprintf(&sb, "%d/%d/%d", s.ID(t.Val), t.Rep, t.Def)
			}
		}
	}
	return sb.String()
}

func RunC03TypedMirror(ctx *core.Ctx) {
	ncases := ctx.Scale(8, 80)
	var wg sync.WaitGroup
	sem := make(chan struct{}, 16)
	for _, e := range append(append(c03Types(), gen.MapCatalog...), gen.MapValueOptCatalog...) {
		var tsb strings.Builder
		if e.Type.Kind() != reflect.Struct || !c03TNode(e.Schema, e.Type, false, &tsb) {
			ctx.Hist("typedmirror-type", "outside the wrapper grammar of the model")
			continue
		}
		ctx.Hist("typedmirror-type", "modelled")
		tnode := tsb.String()
		wg.Add(1)
		sem <- struct{}{}
		go func(e *gen.Entry) {
			defer wg.Done()
			defer func() { <-sem }()
			d := ctx.Driver()
			if d == nil {
				return
			}
			r := ctx.Rand("c03/typedmirror/" + e.Name)
			for k := 0; k < ncases; k++ {
				n := []int{1, 2, 3, 7, 63, 64, 65, 66, 127, 128, 129, 130, 200, 321}[r.Intn(14)]
				prof := &gen.Profile{NullProb: []float64{0.1, 0.5, 0.9}[r.Intn(3)], MaxLen: 1 + r.Intn(4), SmallDomain: r.Intn(3) == 0, TagNulls: true}
				if r.Intn(2) == 0 {
					prof.RunLen = []int{3, 30, 64, 70}[r.Intn(4)]
				}
				rows := e.NewRows(n)
				gen.FillRows(r, rows, prof)
				var all gen.Shredder
				vals := make([]string, n)
				for i := 0; i < n; i++ {
					vals[i] = all.ShredRow(e.Schema, rows.Index(i))
				}
				nontrivial := false
				for _, c := range all.Cols {
					hasNull, hasVal := false, false
					for _, t := range c {
						if t.Null {
							hasNull = true
						} else {
							hasVal = true
						}
					}
					nontrivial = nontrivial || (hasNull && hasVal)
				}
				ctx.Case("typedmirror|"+e.Name+"|"+strings.Join(vals, "|"), nontrivial)
				ctx.Hist("typedmirror-rows", c03nsLenBucket(n))
				var buf bytes.Buffer
				detail := map[string]any{"type": e.Name, "tnode": tnode, "rows": vals, "build": ctx.Variant}
				if err := e.WriteGenericBuffer(&buf, rows.Interface(), nil); err != nil {
					ctx.Fail("L1", "path-error path=generic-buffer-one-call "+errClass(err), "GenericBuffer[T].Write failed on a valid batch: "+err.Error(), detail)
					continue
				}
				got, err := gen.ReadColumns(buf.Bytes())
				if err != nil {
					ctx.Fail("L1", "readback-error path=generic-buffer-one-call "+errClass(err), "stored streams cannot be read back: "+err.Error(), detail)
					continue
				}
				ans, err := d.Ask("typed.write " + tnode + " " + strings.Join(vals, " "))
				if err != nil {
					ctx.Fail("L2", "driver-error", err.Error(), nil)
					return
				}
				impl := "ok " + c03StreamsText(&all, got)
				if ans != impl {
					detail["impl"] = impl
					detail["model"] = ans
					ctx.Fail("L2", "typed-path-differs-from-mirror", "the streams stored by one GenericBuffer[T].Write call differ from the Lean model typedWrite ("+ctx.Variant+" build)", detail)
				}
				if k == 0 && e == gen.Catalog[0] {
					ctx.Sample(map[string]any{"sub": "typedmirror", "type": e.Name, "tnode": tnode, "row0": vals[0]})
				}
			}
		}(e)
	}
	wg.Wait()
}
