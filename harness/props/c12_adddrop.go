package props

// C12AddDrop: telling the recorded finding F19 apart from other defects of added columns.
//
// F19 (known): conversion.Convert gives a column the target ADDS the repetition/definition levels
// and the entry count of its closest source leaf sibling, mapped through the level tables. Until
// round 6 every difference on an added column read as rows was filed under
// `added-column-borrows-sibling-levels:<shape>` whatever the column showed, so another defect of
// added columns (seed C12-6a: the borrowed sibling stays MASKED in ConvertRowGroup(...).Rows()
// when the target also drops it, the added column then shows one null at definition level 0 per
// row) was matched by the known finding.
//
// The key now carries the observation: the levels the added column shows are compared with the
// levels the recorded defect yields for the same rows - the Lean mirror `convertRow` (the
// transliteration of conversion.Convert that the `decide` theorems pin F19 on; it is compared with
// the real conversion.Convert on every case at L2). Only a column that is wrong AND shows exactly
// the borrowed levels is F19. A column that is wrong in any other way gets
// `added-column-levels-not-borrowed:<shape>:<pattern>` (the path is in the text and the detail).
//
// The oracle (reference shredding of the projected value) is unchanged; the mirror only names
// the failure.

import (
	"fmt"
	"strings"

	"verifharness/gen"
)

// c12Borrowed: per source row and target column the (repetition, definition) levels of the
// Lean mirror of conversion.Convert.
type c12Borrowed struct {
	rows [][][][2]int
}

// c12ParseBorrowed reads the answers of `convert.run` (one per source row); nil when the model
// does not accept the case.
func c12ParseBorrowed(ans []string, ncols int) *c12Borrowed {
	b := &c12Borrowed{}
	for _, a := range ans {
		parts := strings.Split(a, " | ")
		if len(parts) != 4 || !strings.HasPrefix(parts[0], "ok 1 ") || !strings.HasSuffix(parts[0], " 1") {
			return nil
		}
		cols := strings.Split(parts[1], ";")
		if len(cols) != ncols {
			return nil
		}
		row := make([][][2]int, ncols)
		for ci, col := range cols {
			for _, e := range strings.Fields(col) {
				f := strings.Split(e, "/")
				if len(f) != 3 {
					return nil
				}
				var rep, def int
				if _, err := fmt.Sscan(f[1], &rep); err != nil {
					return nil
				}
				if _, err := fmt.Sscan(f[2], &def); err != nil {
					return nil
				}
				row[ci] = append(row[ci], [2]int{rep, def})
			}
		}
		b.rows = append(b.rows, row)
	}
	return b
}

// rowLevels: the levels of column ci in the conversion of source row i (maxRep/maxDef 0: that
// level is not stored by a writer and reads back as 0, so it is not compared).
func (b *c12Borrowed) rowLevels(i, ci int, lf c12Leaf) [][2]int {
	return c12NormLevels(b.rows[i%len(b.rows)][ci], lf)
}

func c12NormLevels(in [][2]int, lf c12Leaf) [][2]int {
	out := make([][2]int, len(in))
	for i, x := range in {
		if lf.maxRep == 0 {
			x[0] = 0
		}
		if lf.maxDef == 0 {
			x[1] = 0
		}
		out[i] = x
	}
	return out
}

// c12IsBorrowed: got (levels of one added column over the rows `order`, nil = all source rows
// dup times) is the concatenation, row by row, of the borrowed levels; in a composed view
// (mayBeRight) a row may also come from a member stored under the target schema and then carries
// the right levels (wantRows[i] = the reference levels of source row i).
func c12IsBorrowed(got [][2]int, b *c12Borrowed, ci int, lf c12Leaf, order []int, dup int, mayBeRight bool, wantRows func(i int) [][2]int) (bool, [][2]int) {
	var ids []int
	if order != nil {
		ids = order
	} else {
		for k := 0; k < max(dup, 1); k++ {
			for i := range b.rows {
				ids = append(ids, i)
			}
		}
	}
	var all [][2]int
	reach := map[int]bool{0: true}
	hasPrefix := func(pos int, row [][2]int) bool {
		if pos+len(row) > len(got) {
			return false
		}
		for k := range row {
			if got[pos+k] != row[k] {
				return false
			}
		}
		return true
	}
	for _, id := range ids {
		bor := b.rowLevels(id, ci, lf)
		all = append(all, bor...)
		next := map[int]bool{}
		for pos := range reach {
			if hasPrefix(pos, bor) {
				next[pos+len(bor)] = true
			}
			if mayBeRight {
				if w := c12NormLevels(wantRows(id%len(b.rows)), lf); hasPrefix(pos, w) {
					next[pos+len(w)] = true
				}
			}
		}
		reach = next
	}
	return reach[len(got)], all
}

func c12Levels(ts []gen.Triple) [][2]int {
	out := make([][2]int, 0, len(ts))
	for _, t := range ts {
		out = append(out, [2]int{t.Rep, t.Def})
	}
	return out
}

// c12LevelPattern names what a wrong added column shows, relative to the borrowed levels.
func c12LevelPattern(got []gen.Triple, borrowed [][2]int) string {
	if len(got) == 0 {
		return "no-entries"
	}
	onePerRow := true
	for _, t := range got {
		if !(t.Null && t.Rep == 0 && t.Def == 0) {
			onePerRow = false
			break
		}
	}
	switch {
	case onePerRow:
		return "one-null-at-definition-level-0-per-row"
	case len(got) != len(borrowed):
		return "entry-count-differs-from-sibling"
	default:
		return "levels-differ-from-sibling"
	}
}

const c12NotBorrowedPrefix = "added-column-levels-not-borrowed:"

// c12AddedRowKey keys a failure of added columns on a row path (not the column-chunk paths).
// differing = the added target columns whose stream differs from the reference, in column order
// (non-empty); wantRows[i][ci] = reference stream of source row i. Returns the key and the column it speaks of.
func c12AddedRowKey(p c12Path, c *c12Case, differing []int, got [][]gen.Triple, wantRows [][][]gen.Triple, b *c12Borrowed, order []int) (key string, col int) {
	shapeOf := func(ci int) string {
		_, shape, _ := c12AddedShape(c.src, c.tgt, c.tleaves[ci].path)
		return shape
	}
	if b == nil {
		// no statement of the recorded defect for this case (driver unavailable, case outside the
		// model): not attributed to the known finding
		return c12NotBorrowedPrefix + shapeOf(differing[0]) + ":unclassified-no-mirror", differing[0]
	}
	for _, ci := range differing {
		lf := c.tleaves[ci]
		ok, bor := c12IsBorrowed(c12NormLevels(c12Levels(got[ci]), lf), b, ci, lf, order, p.dup, order != nil, func(i int) [][2]int { return c12Levels(wantRows[i][ci]) })
		if !ok {
			return c12NotBorrowedPrefix + shapeOf(ci) + ":" + c12LevelPattern(got[ci], bor), ci
		}
	}
	return c12AddedKey(p, c, differing[0]), differing[0]
}
