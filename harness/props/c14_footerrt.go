package props

// C14, part "footerrt": the theorem `walk_accepts_writer` (Props/C14FooterRT.lean: the decoder's structure walk
// accepts every output of the encoder at its full length, hence every cut of it is an end-of-input error) run on
// the real pair and on the composed mirror.
//
// Values of package format (the generator of C02's thrift sub-check: FileMetaData, PageHeader, ColumnIndex,
// OffsetIndex, RowGroup, ColumnChunk, SchemaElement, BloomFilterHeader, and the footers of real files) are
// marshalled by the library's compact-protocol encoder and followed by junk (nothing, a stop byte, a 28-byte
// signature, random bytes).
// L1 (the property on the real code): the real `skipStruct` (hook VerifSkipStruct) accepts the bytes+junk and
//     stops at len(bytes); every cut before len(bytes) is rejected with io.EOF / io.ErrUnexpectedEOF (every cut
//     for encodings up to 512 bytes, a boundary sample above).
// L2 (real code vs composed mirror): op `thrift.rt` runs `ThriftWrite.writeStruct` on the typed tree and
//     `ThriftSkip.skipStruct` / `openWalk` on the result: same encoding length, same answer of the walk on
//     bytes+junk and on each sampled cut, tree inside the theorem's domain (WfF), and the mirror's open path on
//     "PAR1"‖bytes‖junk‖len‖"PAR1" answers what `written_file_opens` / `written_file_trailing` state.

import (
	"bytes"
	"fmt"
	"math/rand"
	"reflect"
	"strconv"
	"strings"
	"sync"

	"github.com/parquet-go/parquet-go"

	"verifharness/core"
	"verifharness/gen"
)

func init() { RegisterSub("C14", "footerrt", RunC14FooterRT) }

// the walk mirror indexes a List (O(offset) per byte): the composed mirror runs on encodings up to frtMirrorMax
// bytes, with cuts up to frtMirrorCutsMax; the L1 side has no such limit
const (
	frtMirrorMax     = 2000
	frtMirrorCutsMax = 600
)

type frtCase struct {
	thCase
	enc  bool
	junk []byte
	cuts []int
}

func frtJunk(r *rand.Rand) []byte {
	switch r.Intn(6) {
	case 0, 1:
		return nil
	case 2:
		return []byte{0}
	case 3:
		b := make([]byte, 28)
		r.Read(b)
		return b
	case 4:
		b := make([]byte, 1+r.Intn(40))
		r.Read(b)
		return b
	}
	// junk that looks like the start of another struct
	return []byte{0x15, 0x02, 0x19, 0x1C}
}

func frtCuts(r *rand.Rand, n int) []int {
	seen := map[int]bool{}
	var cs []int
	add := func(m int) {
		if m >= 0 && m <= n+2 && !seen[m] {
			seen[m] = true
			cs = append(cs, m)
		}
	}
	for _, m := range []int{0, 1, 2, n - 2, n - 1, n, n + 1, n / 2} {
		add(m)
	}
	for k := 0; k < 10 && n > 0; k++ {
		add(r.Intn(n))
	}
	return cs
}

func RunC14FooterRT(ctx *core.Ctx) {
	ctx.SetRule("values of package format (C02's thrift generator: 8 root types, boundary ints, list lengths around 14/15, field ids above 15, unset / empty variants) and footers of real files, marshalled by the library's encoder, followed by junk (none, a stop byte, 28 bytes, random, a struct prefix), walked by the real skipStruct whole and cut; L1: accepted at exactly len(encoding), every cut before it is io.EOF / io.ErrUnexpectedEOF; L2: the composed mirror (writeStruct then skipStruct / openWalk) gives the same length and the same answers; non-trivial = the struct has a nested struct or list and more than 8 bytes")
	perRoot := ctx.Scale(150, 4000)
	var wg sync.WaitGroup
	run := func(stream string, produce func(r *rand.Rand, emit func(c thCase))) {
		wg.Add(1)
		go func() {
			defer wg.Done()
			d := ctx.Driver()
			if d == nil {
				return
			}
			r := ctx.Rand(stream)
			var batch []frtCase
			flush := func() {
				if len(batch) == 0 {
					return
				}
				reqs := make([]string, 0, len(batch))
				for _, c := range batch {
					if len(c.bytes) > frtMirrorMax {
						continue
					}
					j := "-"
					if len(c.junk) > 0 {
						j = core.Hex(c.junk)
					}
					cs := make([]string, len(c.cuts))
					for i, m := range c.cuts {
						cs[i] = strconv.Itoa(m)
					}
					e := "0"
					if c.enc {
						e = "1"
					}
					cj := "-"
					if len(cs) > 0 {
						cj = strings.Join(cs, ",")
					}
					reqs = append(reqs, "thrift.rt "+c.typed+" "+e+" "+j+" "+cj)
				}
				ans, err := d.AskMany(reqs)
				if err != nil {
					ctx.Fail("L2", "driver-error", err.Error(), nil)
					batch = nil
					return
				}
				k := 0
				for _, c := range batch {
					if len(c.bytes) > frtMirrorMax {
						frtJudge(ctx, c, "")
						continue
					}
					frtJudge(ctx, c, ans[k])
					k++
				}
				batch = batch[:0]
			}
			produce(r, func(c thCase) {
				b, err := thMarshal(c.val)
				if err != nil {
					return // C02's thrift sub-check reports encoder errors
				}
				c.bytes = b
				c.typed, c.untyped, err = thTexts(c.val)
				if err != nil {
					return
				}
				fc := frtCase{thCase: c, enc: r.Intn(2) == 0, junk: frtJunk(r)}
				if len(b) <= frtMirrorCutsMax {
					fc.cuts = frtCuts(r, len(b))
				}
				batch = append(batch, fc)
				if len(batch) >= 400 {
					flush()
				}
			})
			flush()
		}()
	}
	for _, root := range thRoots {
		root := root
		run("c14footerrt/"+root.name, func(r *rand.Rand, emit func(thCase)) {
			for k := 0; k < perRoot; k++ {
				v := root.mk()
				budget := []int{20, 40, 80, 150, 400, 1000}[r.Intn(6)]
				thFill(r, reflect.ValueOf(v).Elem(), 0, &budget)
				emit(thCase{kind: root.name, origin: fmt.Sprintf("stream c14footerrt/%s case %d", root.name, k), val: v})
			}
		})
	}
	run("c14footerrt/files", func(r *rand.Rand, emit func(thCase)) {
		n := ctx.Scale(1, 10)
		for _, e := range gen.Catalog {
			for k := 0; k < n; k++ {
				rows := e.NewRows([]int{0, 1, 40, 130}[r.Intn(4)])
				gen.FillRows(r, rows, &gen.Profile{NullProb: 0.3, MaxLen: 3})
				cfg := gen.RandWriterCfg(r)
				var buf bytes.Buffer
				if err := func() (err error) {
					defer func() {
						if x := recover(); x != nil {
							err = fmt.Errorf("PANIC: %v", x)
						}
					}()
					return e.WriteGeneric(&buf, rows.Interface(), nil, cfg.Opts...)
				}(); err != nil {
					continue
				}
				f, err := parquet.OpenFile(bytes.NewReader(buf.Bytes()), int64(buf.Len()))
				if err != nil {
					continue
				}
				emit(thCase{kind: "FileMetaData(file)", origin: fmt.Sprintf("footer of %s %s rows=%d (stream c14footerrt/files)", e.Name, cfg.Desc, rows.Len()), val: f.Metadata()})
			}
		}
	})
	wg.Wait()
}

func frtShort(s string) string { // "ok 12" -> "12", "err ueof" -> "ueof"
	return strings.TrimPrefix(strings.TrimPrefix(s, "ok "), "err ")
}

func frtJudge(ctx *core.Ctx, c frtCase, ans string) {
	n := len(c.bytes)
	goHex := core.Hex(c.bytes)
	nontrivial := n > 8 && (strings.Contains(c.untyped[1:], "{") || strings.Contains(c.untyped, "["))
	ctx.Case(fmt.Sprintf("%s %s junk=%x enc=%v cuts=%v", c.kind, goHex, c.junk, c.enc, c.cuts), nontrivial)
	ctx.Hist("kind", c.kind)
	ctx.Hist("bytes", histBucket(n))
	ctx.Hist("junk", histBucket(len(c.junk)))
	detail := func(extra map[string]any) map[string]any {
		m := map[string]any{"kind": c.kind, "origin": c.origin, "go_bytes": goHex, "junk": core.Hex(c.junk), "typed_tree": c.typed, "cuts": fmt.Sprint(c.cuts), "enc": c.enc}
		for k, v := range extra {
			m[k] = v
		}
		return m
	}
	whole := append(bytes.Clone(c.bytes), c.junk...)
	// L1: the real walk on the real encoder's output
	real := c14RealSkip(whole)
	if real != fmt.Sprintf("ok %d", n) {
		ctx.Fail("L1", "walk-rejects-or-misreads-encoder-output kind="+c.kind+" "+strings.SplitN(real, " ", 2)[0], fmt.Sprintf("skipStruct on the output of thrift.Marshal (%d bytes, then %d bytes of junk) answers %q, expected ok %d", n, len(c.junk), real, n), detail(nil))
	}
	cutAns := func(m int) string {
		if m > len(whole) {
			m = len(whole)
		}
		return c14RealSkip(whole[:m])
	}
	judgeCut := func(m int, a string) {
		if m < n && a != "err eof" && a != "err ueof" {
			ctx.Fail("L1", "cut-of-encoder-output-not-eof kind="+c.kind+" "+frtShort(a), fmt.Sprintf("the encoding (%d bytes) cut at %d: skipStruct answers %q, expected io.EOF / io.ErrUnexpectedEOF", n, m, a), detail(map[string]any{"cut": m}))
		}
	}
	if n <= 512 {
		for m := 0; m < n; m++ {
			judgeCut(m, cutAns(m))
		}
		ctx.Hist("cuts", "all")
	} else {
		ctx.Hist("cuts", "sampled")
	}
	// L2: the composed mirror
	if ans == "" {
		ctx.Hist("mirror", "skipped (large)")
		return
	}
	ctx.Hist("mirror", "run")
	f := strings.Fields(ans)
	if len(f) != 6 || f[0] != "ok" {
		ctx.Fail("L2", "mirror-rejects-tree kind="+c.kind, "thrift.rt answered "+thClip(ans, 0), detail(nil))
		return
	}
	if f[1] != "wf=1" {
		ctx.Fail("L2", "tree-not-wellformed kind="+c.kind, "the tree of a format value is outside the domain of walk_accepts_writer (WfF false)", detail(nil))
	}
	if f[2] != fmt.Sprintf("len=%d", n) {
		ctx.Fail("L2", "encoder-length-differs kind="+c.kind, fmt.Sprintf("mirror %s, library %d bytes", f[2], n), detail(nil))
	}
	if f[3] != "skip="+frtShort(real) {
		ctx.Fail("L2", "walk-differs-on-encoder-output kind="+c.kind, fmt.Sprintf("mirror %s, real %q", f[3], real), detail(nil))
	}
	wantOpen := fmt.Sprintf("open=ok_%d", n)
	switch {
	case len(c.junk) == 28 && !c.enc:
		wantOpen = "open=err_signed-no-keys"
	case len(c.junk) != 0 && len(c.junk) != 28:
		wantOpen = fmt.Sprintf("open=err_trailing:%d", len(c.junk))
	}
	if f[4] != wantOpen {
		ctx.Fail("L2", "mirror-open-path-differs-from-theorem kind="+c.kind, fmt.Sprintf("mirror %s, written_file_opens / written_file_trailing state %s", f[4], wantOpen), detail(nil))
	}
	var mc []string
	if t := strings.TrimPrefix(f[5], "cuts="); t != "" {
		mc = strings.Split(t, ",")
	}
	if len(mc) != len(c.cuts) {
		ctx.Fail("L2", "mirror-cut-count kind="+c.kind, "thrift.rt answered "+thClip(ans, 0), detail(nil))
		return
	}
	for i, m := range c.cuts {
		// the mirror cuts the encoding alone, so does the real side here
		mm := m
		if mm > n {
			mm = n
		}
		a := c14RealSkip(c.bytes[:mm])
		judgeCut(mm, a)
		if mc[i] != frtShort(a) {
			ctx.Fail("L2", "walk-differs-on-cut kind="+c.kind+" mirror="+mc[i]+" real="+frtShort(a), fmt.Sprintf("cut at %d of %d: mirror %s, real %q", mm, n, mc[i], a), detail(map[string]any{"cut": mm}))
		}
	}
	if nontrivial {
		ctx.Sample(map[string]any{"kind": c.kind, "bytes": n, "junk": len(c.junk), "tree": thClip(c.untyped, 0)})
	}
}
