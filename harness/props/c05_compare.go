package props

import (
	"bytes"
	"encoding/hex"
	"fmt"
	"math"
	"math/big"
	"math/rand"
	"strconv"
	"strings"
	"sync"

	"github.com/parquet-go/parquet-go"

	"verifharness/core"
)

func init() { RegisterSub("C05", "compare", RunC05Compare) }

// Sub-check `compare`: the three-way comparison functions of compare.go (compareBool, compareInt32/64,
// compareUint32/64, compareFloat32/64, compareBE128, lessBE128, through the verif hooks), bytes.Compare, and
// Type.Compare of every leaf type that ends in one of them, against
//   L2  the literal Lean mirrors of PqModel/CompareTypes.lean (op c05c.cmp), which Props/C05Compare.lean proves
//       equal to the spec orders of Stats.lean, and
//   L1  the spec order evaluated here without the library's comparison code: signed / unsigned numbers, floats by
//       math/big (NaN compares equal to everything: that is what Compare does and what the theorems state),
//       byte strings by a byte loop, 16-byte values as big-endian integers.
// One case = one operand class and one pair; every real function of the class is run on it.

type c05cFn struct {
	name string // stable name used in failure keys
	drv  string // mirror kind of c05c.cmp
	run  func(x, y c05cArg) int
	// for Type.Compare entries: the type, its tag in c05c.arm, and the Value of an operand
	typ parquet.Type
	tag string
	val func(a c05cArg) parquet.Value
}

type c05cArg struct {
	bits uint64
	b    []byte
}

func c05cSign(c int) int {
	switch {
	case c < 0:
		return -1
	case c > 0:
		return 1
	}
	return 0
}

func c05cTypeFn(name, drv, tag string, t parquet.Type, val func(a c05cArg) parquet.Value) c05cFn {
	return c05cFn{name: "Type.Compare/" + name, drv: drv, run: func(x, y c05cArg) int { return t.Compare(val(x), val(y)) }, typ: t, tag: tag, val: val}
}

func c05cBool(b bool) int {
	if b {
		return 1
	}
	return 0
}

func c05cArr16(b []byte) *[16]byte {
	var a [16]byte
	copy(a[:], b)
	return &a
}

// the real functions of each operand class
func c05cFns(class string) []c05cFn {
	v32 := func(a c05cArg) parquet.Value { return parquet.Int32Value(int32(uint32(a.bits))) }
	v64 := func(a c05cArg) parquet.Value { return parquet.Int64Value(int64(a.bits)) }
	vba := func(a c05cArg) parquet.Value { return parquet.ByteArrayValue(a.b) }
	vfl := func(a c05cArg) parquet.Value { return parquet.FixedLenByteArrayValue(a.b) }
	switch class {
	case "bool":
		return []c05cFn{
			{name: "compareBool", drv: "bool", run: func(x, y c05cArg) int { return parquet.VerifCompareBool(x.bits != 0, y.bits != 0) }},
			c05cTypeFn("BOOLEAN", "bool", "boolean", parquet.BooleanType, func(a c05cArg) parquet.Value { return parquet.BooleanValue(a.bits != 0) }),
		}
	case "w32":
		return []c05cFn{
			{name: "compareInt32", drv: "i32", run: func(x, y c05cArg) int { return parquet.VerifCompareInt32(int32(uint32(x.bits)), int32(uint32(y.bits))) }},
			{name: "compareUint32", drv: "u32", run: func(x, y c05cArg) int { return parquet.VerifCompareUint32(uint32(x.bits), uint32(y.bits)) }},
			c05cTypeFn("INT32", "i32", "int32", parquet.Int32Type, v32),
			c05cTypeFn("DATE", "i32", "date", parquet.Date().Type(), v32),
			c05cTypeFn("TIME_MILLIS", "i32", "time32", parquet.Time(parquet.Millisecond).Type(), v32),
			c05cTypeFn("DECIMAL_INT32", "i32", "decimal32", parquet.Decimal(2, 9, parquet.Int32Type).Type(), v32),
			c05cTypeFn("INT_8", "int8s", "int8s", parquet.Int(8).Type(), v32),
			c05cTypeFn("INT_16", "int16s", "int16s", parquet.Int(16).Type(), v32),
			c05cTypeFn("INT_32", "int32s", "int32s", parquet.Int(32).Type(), v32),
			c05cTypeFn("UINT_8", "int8u", "int8u", parquet.Uint(8).Type(), v32),
			c05cTypeFn("UINT_16", "int16u", "int16u", parquet.Uint(16).Type(), v32),
			c05cTypeFn("UINT_32", "int32u", "int32u", parquet.Uint(32).Type(), v32),
		}
	case "w64":
		return []c05cFn{
			{name: "compareInt64", drv: "i64", run: func(x, y c05cArg) int { return parquet.VerifCompareInt64(int64(x.bits), int64(y.bits)) }},
			{name: "compareUint64", drv: "u64", run: func(x, y c05cArg) int { return parquet.VerifCompareUint64(x.bits, y.bits) }},
			c05cTypeFn("INT64", "i64", "int64", parquet.Int64Type, v64),
			c05cTypeFn("TIME_MICROS", "i64", "time64", parquet.Time(parquet.Microsecond).Type(), v64),
			c05cTypeFn("TIME_NANOS", "i64", "time64", parquet.Time(parquet.Nanosecond).Type(), v64),
			c05cTypeFn("TIMESTAMP_MILLIS", "i64", "timestamp", parquet.Timestamp(parquet.Millisecond).Type(), v64),
			c05cTypeFn("DECIMAL_INT64", "i64", "decimal64", parquet.Decimal(2, 18, parquet.Int64Type).Type(), v64),
			c05cTypeFn("INT_64", "int64s", "int64s", parquet.Int(64).Type(), v64),
			c05cTypeFn("UINT_64", "int64u", "int64u", parquet.Uint(64).Type(), v64),
		}
	case "f32":
		return []c05cFn{
			{name: "compareFloat32", drv: "f32", run: func(x, y c05cArg) int {
				return parquet.VerifCompareFloat32(math.Float32frombits(uint32(x.bits)), math.Float32frombits(uint32(y.bits)))
			}},
			c05cTypeFn("FLOAT", "f32", "float", parquet.FloatType, func(a c05cArg) parquet.Value { return parquet.FloatValue(math.Float32frombits(uint32(a.bits))) }),
		}
	case "f64":
		return []c05cFn{
			{name: "compareFloat64", drv: "f64", run: func(x, y c05cArg) int {
				return parquet.VerifCompareFloat64(math.Float64frombits(x.bits), math.Float64frombits(y.bits))
			}},
			c05cTypeFn("DOUBLE", "f64", "double", parquet.DoubleType, func(a c05cArg) parquet.Value { return parquet.DoubleValue(math.Float64frombits(a.bits)) }),
		}
	case "bytes":
		return []c05cFn{
			{name: "bytes.Compare", drv: "bytes", run: func(x, y c05cArg) int { return bytes.Compare(x.b, y.b) }},
			c05cTypeFn("BYTE_ARRAY", "bytes", "byteArray", parquet.ByteArrayType, vba),
			c05cTypeFn("STRING", "bytes", "string", parquet.String().Type(), vba),
			c05cTypeFn("JSON", "bytes", "json", parquet.JSON().Type(), vba),
			c05cTypeFn("BSON", "bytes", "bson", parquet.BSON().Type(), vba),
			c05cTypeFn("ENUM", "bytes", "enum", parquet.Enum().Type(), vba),
			c05cTypeFn("FIXED_LEN_BYTE_ARRAY", "bytes", "flba", parquet.FixedLenByteArrayType(7), vfl),
			c05cTypeFn("INTERVAL", "bytes", "interval", parquet.IntervalNode().Type(), vfl),
			c05cTypeFn("GEOMETRY", "bytes", "geometry", parquet.Geometry("").Type(), vba),
			c05cTypeFn("GEOGRAPHY", "bytes", "geography", parquet.Geography("", 0).Type(), vba),
		}
	case "b16":
		return []c05cFn{
			{name: "compareBE128", drv: "be128", run: func(x, y c05cArg) int { return parquet.VerifCompareBE128(c05cArr16(x.b), c05cArr16(y.b)) }},
			{name: "lessBE128", drv: "less128", run: func(x, y c05cArg) int { return c05cBool(parquet.VerifLessBE128(c05cArr16(x.b), c05cArr16(y.b))) }},
			{name: "bytes.Compare", drv: "bytes", run: func(x, y c05cArg) int { return bytes.Compare(x.b, y.b) }},
			c05cTypeFn("FIXED_LEN_BYTE_ARRAY(16)", "be128", "be128", parquet.FixedLenByteArrayType(16), vfl),
			c05cTypeFn("UUID", "be128", "uuid", parquet.UUID().Type(), vfl),
		}
	}
	return nil
}

var c05cClasses = []string{"w32", "w32", "w64", "w64", "f32", "f32", "f32", "f64", "f64", "f64", "bytes", "bytes", "b16", "b16"}

// ---- the spec order, evaluated without the library (L1 oracle)

func c05cBigFloat(f float64) *big.Float { return new(big.Float).SetFloat64(f) }

func c05cSpec(drv string, x, y c05cArg) int {
	cmpI := func(a, b int64) int {
		switch {
		case a < b:
			return -1
		case a > b:
			return 1
		}
		return 0
	}
	cmpU := func(a, b uint64) int {
		switch {
		case a < b:
			return -1
		case a > b:
			return 1
		}
		return 0
	}
	cmpB := func(a, b []byte) int {
		for i := 0; i < len(a) && i < len(b); i++ {
			if a[i] != b[i] {
				return cmpI(int64(a[i]), int64(b[i]))
			}
		}
		return cmpI(int64(len(a)), int64(len(b)))
	}
	switch drv {
	case "bool":
		return cmpU(x.bits&1, y.bits&1)
	case "i32", "int32s", "int16s", "int8s":
		return cmpI(int64(int32(uint32(x.bits))), int64(int32(uint32(y.bits))))
	case "u32", "int32u", "int16u", "int8u":
		return cmpU(uint64(uint32(x.bits)), uint64(uint32(y.bits)))
	case "i64", "int64s":
		return cmpI(int64(x.bits), int64(y.bits))
	case "u64", "int64u":
		return cmpU(x.bits, y.bits)
	case "f32", "f64":
		var a, b float64
		if drv == "f32" {
			a, b = float64(math.Float32frombits(uint32(x.bits))), float64(math.Float32frombits(uint32(y.bits)))
		} else {
			a, b = math.Float64frombits(x.bits), math.Float64frombits(y.bits)
		}
		if a != a || b != b {
			return 0
		}
		return c05cBigFloat(a).Cmp(c05cBigFloat(b))
	case "bytes":
		return cmpB(x.b, y.b)
	case "be128":
		return new(big.Int).SetBytes(x.b).Cmp(new(big.Int).SetBytes(y.b))
	case "less128":
		return c05cBool(new(big.Int).SetBytes(x.b).Cmp(new(big.Int).SetBytes(y.b)) < 0)
	}
	return 99
}

// ---- generators

var c05cEdges32 = []uint64{0, 1, 2, 0x7f, 0x80, 0x81, 0xff, 0x100, 0x7fff, 0x8000, 0xffff, 0x10000, 0x7ffffffe, 0x7fffffff, 0x80000000, 0x80000001, 0xffffff7f, 0xffffff80, 0xfffffffe, 0xffffffff}
var c05cEdges64 = []uint64{0, 1, 2, 0xff, 0x7fffffff, 0x80000000, 0xffffffff, 0x100000000, 0x7ffffffffffffffe, 0x7fffffffffffffff, 0x8000000000000000, 0x8000000000000001, 0xffffffff00000000, 0xffffffff7fffffff, 0xffffffff80000000, 0xfffffffffffffffe, 0xffffffffffffffff}

// float bit patterns: zeros, subnormals, binade borders, 1.0, max finite, infinities, quiet / signalling / negative NaNs
var c05cEdgesF32 = []uint64{0, 0x80000000, 1, 0x80000001, 0x007fffff, 0x00800000, 0x00800001, 0x807fffff, 0x80800000, 0x3f7fffff, 0x3f800000, 0x3f800001, 0xbf800000, 0x40000000, 0x7f7fffff, 0xff7fffff, 0x7f800000, 0xff800000, 0x7f800001, 0x7fc00000, 0xffc00000, 0x7fffffff, 0xffffffff, 0xff800001}
var c05cEdgesF64 = []uint64{0, 0x8000000000000000, 1, 0x8000000000000001, 0x000fffffffffffff, 0x0010000000000000, 0x0010000000000001, 0x800fffffffffffff, 0x8010000000000000, 0x3fefffffffffffff, 0x3ff0000000000000, 0x3ff0000000000001, 0xbff0000000000000, 0x4000000000000000, 0x7fefffffffffffff, 0xffefffffffffffff, 0x7ff0000000000000, 0xfff0000000000000, 0x7ff0000000000001, 0x7ff8000000000000, 0xfff8000000000000, 0x7fffffffffffffff, 0xffffffffffffffff, 0xfff0000000000001}

func c05cGenBits(r *rand.Rand, edges []uint64, width uint) uint64 {
	mask := uint64(1)<<width - 1
	if width == 64 {
		mask = ^uint64(0)
	}
	switch r.Intn(4) {
	case 0:
		return r.Uint64() & mask
	case 1:
		return (edges[r.Intn(len(edges))] + uint64(r.Intn(5)) - 2) & mask
	default:
		return edges[r.Intn(len(edges))]
	}
}

func c05cGenBytes(r *rand.Rand, n int) []byte {
	b := make([]byte, n)
	switch r.Intn(4) {
	case 0:
		r.Read(b)
	case 1:
		for i := range b {
			b[i] = 0xff
		}
	case 2:
		for i := range b {
			b[i] = []byte{0, 1, 0x7f, 0x80, 0xff}[r.Intn(5)]
		}
	default: // all zero
	}
	return b
}

func c05cGenPair(r *rand.Rand, class string) (x, y c05cArg) {
	switch class {
	case "bool":
		return c05cArg{bits: uint64(r.Intn(2))}, c05cArg{bits: uint64(r.Intn(2))}
	case "w32", "w64", "f32", "f64":
		edges, width := c05cEdges32, uint(32)
		switch class {
		case "w64":
			edges, width = c05cEdges64, 64
		case "f32":
			edges = c05cEdgesF32
		case "f64":
			edges, width = c05cEdgesF64, 64
		}
		x.bits = c05cGenBits(r, edges, width)
		switch r.Intn(6) {
		case 0:
			y.bits = x.bits
		case 1: // a neighbour pattern, a flipped sign bit, a flipped low bit
			y.bits = x.bits + 1
		case 2:
			y.bits = x.bits ^ (uint64(1) << (width - 1))
		default:
			y.bits = c05cGenBits(r, edges, width)
		}
		if width == 32 {
			x.bits, y.bits = uint64(uint32(x.bits)), uint64(uint32(y.bits))
		}
		return
	case "b16":
		x.b = c05cGenBytes(r, 16)
		y.b = c05cGenBytes(r, 16)
		if r.Intn(2) == 0 { // differ in exactly one position: the halves' border (7, 8) is where the two-word compare switches
			y.b = bytes.Clone(x.b)
			if r.Intn(4) != 0 {
				i := []int{0, 6, 7, 8, 9, 15, r.Intn(16)}[r.Intn(7)]
				y.b[i] += byte(1 + r.Intn(255))
				if r.Intn(2) == 0 { // and the opposite way in a later byte
					j := i + r.Intn(16-i)
					if j != i {
						y.b[j] = x.b[j] + 0x80
					}
				}
			}
		}
		return
	default: // bytes
		lens := []int{0, 0, 1, 2, 3, 7, 8, 9, 15, 16, 17, 31, 32, 33, 63, 64, 65, 100}
		x.b = c05cGenBytes(r, lens[r.Intn(len(lens))])
		switch r.Intn(5) {
		case 0:
			y.b = bytes.Clone(x.b)
		case 1: // proper prefix / extension
			if len(x.b) > 0 {
				y.b = bytes.Clone(x.b[:r.Intn(len(x.b))])
			} else {
				y.b = c05cGenBytes(r, 1+r.Intn(3))
			}
		case 2: // one differing byte
			y.b = bytes.Clone(x.b)
			if len(y.b) > 0 {
				y.b[r.Intn(len(y.b))] ^= byte(1 << uint(r.Intn(8)))
			}
			if r.Intn(2) == 0 {
				y.b = append(y.b, c05cGenBytes(r, r.Intn(4))...)
			}
		default:
			y.b = c05cGenBytes(r, lens[r.Intn(len(lens))])
		}
		return
	}
}

func c05cText(class string, a c05cArg) string {
	if class == "bytes" || class == "b16" {
		return c05Hex(a.b)
	}
	return strconv.FormatUint(a.bits, 10)
}

// payload of a Value as the mirror of (*intType).Compare takes it: Int32Value sign-extends into the 64-bit field
func c05cPayload(drv string, a c05cArg) string {
	if strings.HasPrefix(drv, "int") && !strings.HasPrefix(drv, "int64") {
		return strconv.FormatUint(uint64(int64(int32(uint32(a.bits)))), 10)
	}
	return strconv.FormatUint(a.bits, 10)
}

func c05cParseArg(class, s string) (a c05cArg, ok bool) {
	if class == "bytes" || class == "b16" {
		if s == "e" {
			return c05cArg{b: []byte{}}, true
		}
		b, err := hex.DecodeString(s)
		return c05cArg{b: b}, err == nil && (class != "b16" || len(b) == 16)
	}
	v, err := strconv.ParseUint(s, 10, 64)
	return c05cArg{bits: v}, err == nil
}

func c05cClassOfBits(class string, v uint64) string {
	switch class {
	case "f32":
		f := math.Float32frombits(uint32(v))
		switch {
		case f != f:
			return "nan"
		case f == 0:
			return "zero"
		case math.IsInf(float64(f), 0):
			return "inf"
		case uint32(v)&0x7f800000 == 0:
			return "subnormal"
		}
		return "normal"
	case "f64":
		f := math.Float64frombits(v)
		switch {
		case f != f:
			return "nan"
		case f == 0:
			return "zero"
		case math.IsInf(f, 0):
			return "inf"
		case v&0x7ff0000000000000 == 0:
			return "subnormal"
		}
		return "normal"
	}
	return ""
}

func c05cOne(ctx *core.Ctx, b *c05Batch, class string, x, y c05cArg) {
	canon := "compare " + class + " " + c05cText(class, x) + " " + c05cText(class, y)
	ctx.Case(canon, true)
	ctx.Hist("compare-class", class)
	if class == "f32" || class == "f64" {
		ctx.Hist("compare-float-operands", c05cClassOfBits(class, x.bits)+"/"+c05cClassOfBits(class, y.bits))
	}
	if class == "bytes" {
		ctx.Hist("compare-bytes-lengths", c05Bucket(len(x.b))+"/"+c05Bucket(len(y.b)))
	}
	for _, f := range c05cFns(class) {
		f := f
		var got int
		detail := map[string]any{"case": canon, "function": f.name, "build": ctx.Variant}
		if p := c05Recover(func() { got = c05cSign(f.run(x, y)) }); p != nil {
			ctx.Fail("L1", "compare-panic "+f.name, fmt.Sprint(p), detail)
			continue
		}
		want := c05cSpec(f.drv, x, y)
		ctx.Hist("compare-result", fmt.Sprint(got))
		if got != want {
			detail["impl"], detail["spec"] = got, want
			ctx.Fail("L1", "compare-not-spec-order "+f.name, f.name+" does not return the sign of the column order of its type", detail)
		}
		var req string
		if class == "bytes" || class == "b16" {
			req = "c05c.cmp " + f.drv + " " + c05Hex(x.b) + " " + c05Hex(y.b)
		} else {
			req = "c05c.cmp " + f.drv + " " + c05cPayload(f.drv, x) + " " + c05cPayload(f.drv, y)
		}
		b.ask(req, func(ans string) {
			if ans != fmt.Sprintf("ok %d", got) {
				ctx.Fail("L2", "compare-mirror "+f.name, f.name+" differs from its Lean mirror", map[string]any{"case": canon, "function": f.name, "request": req, "impl": got, "model": ans, "build": ctx.Variant})
			}
		})
		if f.typ == nil {
			continue
		}
		// the arms compareRowsFuncOfColumnIndexes installs for a sorting column of this type, on rows that hold the
		// operands at column index 1
		var ax, ay string
		if class == "bytes" || class == "b16" {
			ax, ay = c05Hex(x.b), c05Hex(y.b)
		} else {
			ax, ay = c05cPayload("int32s", x), c05cPayload("int32s", y)
			if class != "w32" {
				ax, ay = c05cPayload("", x), c05cPayload("", y)
			}
		}
		for _, desc := range []bool{false, true} {
			dir, wantArm := "asc", got
			if desc {
				dir, wantArm = "desc", -got
			}
			var arm int
			d2 := map[string]any{"case": canon, "function": f.name, "arm": dir, "build": ctx.Variant}
			if p := c05Recover(func() {
				r1 := parquet.Row{parquet.Int64Value(7), f.val(x)}
				r2 := parquet.Row{parquet.Int64Value(-7), f.val(y)}
				arm = c05cSign(parquet.VerifCompareRowsFuncOfIndex(1, f.typ, desc)(r1, r2))
			}); p != nil {
				ctx.Fail("L1", "compare-arm-panic "+f.name, fmt.Sprint(p), d2)
				continue
			}
			ctx.Hist("compare-arm", dir)
			if arm != wantArm {
				d2["arm_result"], d2["type_compare"] = arm, got
				ctx.Fail("L1", "compare-arm-not-type-compare "+dir+" "+f.name, "the "+dir+"ending arm of the positional row comparator does not order the column as its Type.Compare does", d2)
			}
			areq := "c05c.arm " + f.tag + " " + dir + " " + ax + " " + ay
			b.ask(areq, func(ans string) {
				if ans != fmt.Sprintf("ok %d", arm) {
					ctx.Fail("L2", "compare-arm-mirror "+dir+" "+f.name, "the row comparator arm differs from its Lean mirror", map[string]any{"case": canon, "function": f.name, "request": areq, "impl": arm, "model": ans, "build": ctx.Variant})
				}
			})
		}
		treq := "c05c.arm " + f.tag + " type " + ax + " " + ay
		b.ask(treq, func(ans string) {
			if ans != fmt.Sprintf("ok %d", got) {
				ctx.Fail("L2", "compare-type-mirror "+f.name, "Type.Compare differs from the Lean mirror of the type's Compare method", map[string]any{"case": canon, "function": f.name, "request": treq, "impl": got, "model": ans, "build": ctx.Variant})
			}
		})
	}
}

func RunC05Compare(ctx *core.Ctx) {
	ctx.SetRule("one case = an operand class (bool, 32-bit word, 64-bit word, float32 / float64 bit pattern, byte strings of any two lengths, 16-byte values) and a pair of operands (edges of the signed and unsigned ranges, both zeros, subnormals, binade borders, infinities, quiet / signalling / negative NaNs, neighbours, flipped sign bit; equal strings, proper prefixes, one differing byte, 0xFF runs; 16-byte values differing around the border of the two 64-bit halves); every comparison function of the class (the compare* functions of compare.go through hooks, bytes.Compare, Type.Compare of every physical and logical type that ends in them: 42 functions) is run on the pair and compared with its Lean mirror (L2) and with the spec order computed without the library (L1); for each of the 31 types also the ascending and descending arm of the positional row comparator (compareRowsFuncOfIndexAscending/Descending) against Type.Compare (L1) and against the Lean mirror of the arm (L2); distinct by class and operands, non-trivial = always")
	if ctx.Replay != "" {
		d := c05ReplayDetail(ctx)
		if d == nil {
			return
		}
		s, _ := d["case"].(string)
		toks := strings.Fields(s)
		if len(toks) != 4 || toks[0] != "compare" {
			ctx.Fail("L2", "replay-unreadable", "detail.case is not `compare <class> <x> <y>`", s)
			return
		}
		x, ok1 := c05cParseArg(toks[1], toks[2])
		y, ok2 := c05cParseArg(toks[1], toks[3])
		if !ok1 || !ok2 || c05cFns(toks[1]) == nil {
			ctx.Fail("L2", "replay-unreadable", "bad operands", s)
			return
		}
		b := &c05Batch{ctx: ctx, d: ctx.Driver()}
		c05cOne(ctx, b, toks[1], x, y)
		b.flush()
		return
	}
	workers := 16
	total := ctx.Scale(48000, 640000)
	var wg sync.WaitGroup
	for w := 0; w < workers; w++ {
		wg.Add(1)
		go func(w int) {
			defer wg.Done()
			r := ctx.Rand(fmt.Sprintf("c05compare/%d", w))
			b := &c05Batch{ctx: ctx, d: ctx.Driver()}
			if w == 0 { // both booleans; every pair of float edge patterns, every pair of integer edges
				for p := uint64(0); p < 4; p++ {
					c05cOne(ctx, b, "bool", c05cArg{bits: p & 1}, c05cArg{bits: p >> 1})
				}
				for _, cl := range []string{"f32", "f64", "w32", "w64"} {
					edges := map[string][]uint64{"f32": c05cEdgesF32, "f64": c05cEdgesF64, "w32": c05cEdges32, "w64": c05cEdges64}[cl]
					for _, p := range edges {
						for _, q := range edges {
							c05cOne(ctx, b, cl, c05cArg{bits: p}, c05cArg{bits: q})
						}
					}
				}
			}
			for i := 0; i < total/workers; i++ {
				class := c05cClasses[r.Intn(len(c05cClasses))]
				x, y := c05cGenPair(r, class)
				c05cOne(ctx, b, class, x, y)
			}
			b.flush()
		}(w)
	}
	wg.Wait()
}
