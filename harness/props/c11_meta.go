package props

import (
	"encoding/hex"
	"fmt"
	"io"
	"math"
	"sort"
	"strings"

	"github.com/parquet-go/parquet-go"
	"github.com/parquet-go/parquet-go/format"

	"verifharness/gen"
)

// C11 round 3 — "the metadata describes the bytes" for files written through WriteRowGroup.
//
// c11Values: canonical text of the value-carrying metadata of one chunk (column index, size
// statistics, chunk statistics, encoding statistics) in the format of the `copy.splicev` op
// (Driver/Ops/C11.lean, mirror SpliceMeta.lean).
//
// c11DescribeOracle: L1 oracle written from parquet.thrift only (OffsetIndex, ColumnIndex,
// SizeStatistics, Statistics): the page index and the statistics of every chunk must describe the
// pages the chunk holds — independent of which path wrote them.

func c11Hex(b []byte) string {
	if len(b) == 0 {
		return "e"
	}
	return hex.EncodeToString(b)
}

func c11OptHex(b []byte) string {
	if b == nil {
		return "n"
	}
	return c11Hex(b)
}

func c11Dots[T any](xs []T, f func(T) string) string {
	if len(xs) == 0 {
		return "-"
	}
	out := make([]string, len(xs))
	for i, x := range xs {
		out[i] = f(x)
	}
	return strings.Join(out, ".")
}

func c11Values(m *format.ColumnMetaData, ci *format.ColumnIndex) string {
	i64 := func(x int64) string { return fmt.Sprint(x) }
	np := "-"
	if len(ci.NullPages) > 0 {
		var sb strings.Builder
		for _, b := range ci.NullPages {
			sb.WriteByte('0' + byte(b2i(b)))
		}
		np = sb.String()
	}
	return strings.Join([]string{
		np, c11Dots(ci.MinValues, c11Hex), c11Dots(ci.MaxValues, c11Hex), fmt.Sprint(int(ci.BoundaryOrder)),
		c11Dots(ci.NullCounts, i64), c11Dots(ci.RepetitionLevelHistogram, i64), c11Dots(ci.DefinitionLevelHistogram, i64),
		i64(m.SizeStatistics.UnencodedByteArrayDataBytes), c11Dots(m.SizeStatistics.RepetitionLevelHistogram, i64), c11Dots(m.SizeStatistics.DefinitionLevelHistogram, i64),
		i64(m.Statistics.NullCount), i64(m.Statistics.DistinctCount),
		c11OptHex(m.Statistics.MinValue), c11OptHex(m.Statistics.MaxValue), c11OptHex(m.Statistics.Min), c11OptHex(m.Statistics.Max),
		c11Dots(m.EncodingStats, func(s format.PageEncodingStats) string {
			return fmt.Sprintf("%d_%d_%d", int(s.PageType), int(s.Encoding), s.Count)
		}),
	}, ":")
}

// what one data page holds, read through the sequential page reader
type c11PageContent struct {
	vals             []string // canonical triples
	rows, nulls      int64
	rep, def         []int64
	min, max         parquet.Value
	hasBounds        bool
	byteArrayBytes   int64
}

func c11IsNaN(v parquet.Value) bool {
	switch v.Kind() {
	case parquet.Float:
		return v.Float() != v.Float()
	case parquet.Double:
		return math.IsNaN(v.Double())
	}
	return false
}

func c11ReadPageContent(p parquet.Page, typ parquet.Type, maxRep, maxDef int) (pc c11PageContent, err error) {
	pc.rep, pc.def = make([]int64, maxRep+1), make([]int64, maxDef+1)
	vr := p.Values()
	buf := make([]parquet.Value, 256)
	for {
		n, rerr := vr.ReadValues(buf)
		for _, v := range buf[:n] {
			pc.vals = append(pc.vals, fmt.Sprint(gen.TripleOf(v)))
			r, d := v.RepetitionLevel(), v.DefinitionLevel()
			if r > maxRep || d > maxDef {
				return pc, fmt.Errorf("level out of range")
			}
			pc.rep[r]++
			pc.def[d]++
			if r == 0 {
				pc.rows++
			}
			if v.IsNull() {
				pc.nulls++
				continue
			}
			if v.Kind() == parquet.ByteArray {
				pc.byteArrayBytes += int64(len(v.ByteArray()))
			}
			if c11IsNaN(v) {
				continue
			}
			if !pc.hasBounds {
				pc.min, pc.max, pc.hasBounds = v.Clone(), v.Clone(), true
				continue
			}
			if typ.Compare(v, pc.min) < 0 {
				pc.min = v.Clone()
			}
			if typ.Compare(v, pc.max) > 0 {
				pc.max = v.Clone()
			}
		}
		if rerr == io.EOF {
			return pc, nil
		}
		if rerr != nil {
			return pc, rerr
		}
		if n == 0 {
			return pc, fmt.Errorf("ReadValues returned 0 values and no error")
		}
	}
}

func c11EqInts(a []int64, b []int64) bool {
	if len(a) != len(b) {
		return false
	}
	for i := range a {
		if a[i] != b[i] {
			return false
		}
	}
	return true
}

// c11DescribeOracle returns, per violated clause, "aspect" -> first description. The aspects are
// stable names of the clause of the format documents that fails.
func c11DescribeOracle(f *parquet.File) (viol map[string]string, err error) {
	defer func() {
		if r := recover(); r != nil {
			err = fmt.Errorf("PANIC: %v", r)
		}
	}()
	viol = map[string]string{}
	add := func(aspect, what string) {
		if _, dup := viol[aspect]; !dup {
			viol[aspect] = what
		}
	}
	md := f.Metadata()
	cis := f.ColumnIndexes()
	schema := f.Schema()
	paths := schema.Columns()
	ncols := len(paths)
	for gi, rg := range f.RowGroups() {
		for ci, cc := range rg.ColumnChunks() {
			if gi >= len(md.RowGroups) || ci >= len(md.RowGroups[gi].Columns) || ci >= ncols {
				continue
			}
			where := fmt.Sprintf("row group %d column %d", gi, ci)
			leaf, ok := schema.Lookup(paths[ci]...)
			if !ok {
				continue
			}
			typ := cc.Type()
			m := &md.RowGroups[gi].Columns[ci].MetaData
			// ---- the pages, read one after the other
			var pages []c11PageContent
			pr := cc.Pages()
			for {
				p, rerr := pr.ReadPage()
				if rerr == io.EOF {
					break
				}
				if rerr != nil {
					pr.Close()
					return viol, rerr
				}
				pc, cerr := c11ReadPageContent(p, typ, leaf.MaxRepetitionLevel, leaf.MaxDefinitionLevel)
				parquet.Release(p)
				if cerr != nil {
					pr.Close()
					return viol, cerr
				}
				pages = append(pages, pc)
			}
			pr.Close()
			var nulls, unenc int64
			rep, def := make([]int64, leaf.MaxRepetitionLevel+1), make([]int64, leaf.MaxDefinitionLevel+1)
			var flatRep, flatDef []int64
			var cmin, cmax parquet.Value
			chas := false
			for _, pc := range pages {
				nulls += pc.nulls
				unenc += pc.byteArrayBytes
				for l, n := range pc.rep {
					rep[l] += n
				}
				for l, n := range pc.def {
					def[l] += n
				}
				flatRep, flatDef = append(flatRep, pc.rep...), append(flatDef, pc.def...)
				if pc.hasBounds {
					if !chas || typ.Compare(pc.min, cmin) < 0 {
						cmin = pc.min
					}
					if !chas || typ.Compare(pc.max, cmax) > 0 {
						cmax = pc.max
					}
					chas = true
				}
			}
			// ---- offset index: one location per data page, cumulative first rows, usable for seeking
			if oi, oerr := cc.OffsetIndex(); oerr == nil && oi != nil {
				if oi.NumPages() != len(pages) {
					add("offset-index-page-count", fmt.Sprintf("%s: offset index lists %d pages, the chunk holds %d", where, oi.NumPages(), len(pages)))
				} else {
					var row int64
					for i, pc := range pages {
						if oi.FirstRowIndex(i) != row {
							add("offset-index-first-row", fmt.Sprintf("%s page %d: first_row_index %d, the pages before hold %d rows", where, i, oi.FirstRowIndex(i), row))
							break
						}
						row += pc.rows
					}
					if _, bad := viol["offset-index-first-row"]; !bad {
						seen := map[int]bool{}
						for _, i := range []int{len(pages) - 1, len(pages) / 2, 0} {
							if i < 0 || seen[i] || pages[i].rows == 0 {
								continue
							}
							seen[i] = true
							sp := cc.Pages()
							serr := sp.SeekToRow(oi.FirstRowIndex(i))
							var got c11PageContent
							if serr == nil {
								var p parquet.Page
								if p, serr = sp.ReadPage(); serr == nil {
									got, serr = c11ReadPageContent(p, typ, leaf.MaxRepetitionLevel, leaf.MaxDefinitionLevel)
									parquet.Release(p)
								}
							}
							sp.Close()
							if serr != nil {
								add("offset-index-seek", fmt.Sprintf("%s: SeekToRow(%d) (first row of page %d in the offset index) then ReadPage fails: %v", where, oi.FirstRowIndex(i), i, serr))
							} else if strings.Join(got.vals, " ") != strings.Join(pages[i].vals, " ") {
								add("offset-index-seek", fmt.Sprintf("%s: SeekToRow(%d) (first row of page %d in the offset index) reads other values than the sequential reader: first %s, expected %s",
									where, oi.FirstRowIndex(i), i, firstOf(got.vals), firstOf(pages[i].vals)))
							}
						}
					}
				}
			}
			// ---- column index: entry i describes page i
			k := gi*ncols + ci
			if xi, xerr := cc.ColumnIndex(); xerr == nil && xi != nil && xi.NumPages() > 0 {
				if xi.NumPages() != len(pages) {
					add("column-index-page-count", fmt.Sprintf("%s: column index lists %d pages, the chunk holds %d", where, xi.NumPages(), len(pages)))
				} else {
					for i, pc := range pages {
						n := int64(len(pc.vals))
						if n == 0 {
							continue
						}
						if xi.NullPage(i) != (pc.nulls == n) {
							add("column-index-null-page", fmt.Sprintf("%s page %d: null_pages %v, the page holds %d nulls of %d values", where, i, xi.NullPage(i), pc.nulls, n))
						}
						if xi.NullCount(i) != pc.nulls {
							add("column-index-null-count", fmt.Sprintf("%s page %d: null_counts %d, the page holds %d nulls", where, i, xi.NullCount(i), pc.nulls))
						}
						if pc.hasBounds && !xi.NullPage(i) {
							if typ.Compare(xi.MinValue(i), pc.min) > 0 {
								add("column-index-min-not-a-lower-bound", fmt.Sprintf("%s page %d: min_values %v, the page holds %v", where, i, xi.MinValue(i), pc.min))
							}
							if typ.Compare(xi.MaxValue(i), pc.max) < 0 {
								add("column-index-max-not-an-upper-bound", fmt.Sprintf("%s page %d: max_values %v, the page holds %v", where, i, xi.MaxValue(i), pc.max))
							}
						}
					}
					if k < len(cis) {
						if h := cis[k].RepetitionLevelHistogram; len(h) > 0 && !c11EqInts(h, flatRep) {
							add("column-index-level-histogram", fmt.Sprintf("%s: repetition_level_histograms %v, the pages hold %v", where, h, flatRep))
						}
						if h := cis[k].DefinitionLevelHistogram; len(h) > 0 && !c11EqInts(h, flatDef) {
							add("column-index-level-histogram", fmt.Sprintf("%s: definition_level_histograms %v, the pages hold %v", where, h, flatDef))
						}
					}
				}
			}
			// ---- chunk statistics and size statistics
			if m.Statistics.NullCount != nulls {
				add("chunk-null-count", fmt.Sprintf("%s: statistics null_count %d, the pages hold %d nulls", where, m.Statistics.NullCount, nulls))
			}
			if chas && m.Statistics.MinValue != nil && m.Statistics.MaxValue != nil {
				kind := typ.Kind()
				if lo := kind.Value(m.Statistics.MinValue); typ.Compare(lo, cmin) > 0 {
					add("chunk-min-not-a-lower-bound", fmt.Sprintf("%s: statistics min_value %v, the chunk holds %v", where, lo, cmin))
				}
				if hi := kind.Value(m.Statistics.MaxValue); typ.Compare(hi, cmax) < 0 {
					add("chunk-max-not-an-upper-bound", fmt.Sprintf("%s: statistics max_value %v, the chunk holds %v", where, hi, cmax))
				}
			}
			ss := &m.SizeStatistics
			if len(ss.RepetitionLevelHistogram) > 0 && !c11EqInts(ss.RepetitionLevelHistogram, rep) {
				add("size-statistics-level-histogram", fmt.Sprintf("%s: repetition_level_histogram %v, the pages hold %v", where, ss.RepetitionLevelHistogram, rep))
			}
			if len(ss.DefinitionLevelHistogram) > 0 && !c11EqInts(ss.DefinitionLevelHistogram, def) {
				add("size-statistics-level-histogram", fmt.Sprintf("%s: definition_level_histogram %v, the pages hold %v", where, ss.DefinitionLevelHistogram, def))
			}
			if typ.Kind() == parquet.ByteArray && ss.UnencodedByteArrayDataBytes != unenc {
				add("size-statistics-unencoded-bytes", fmt.Sprintf("%s: unencoded_byte_array_data_bytes %d, the values hold %d bytes", where, ss.UnencodedByteArrayDataBytes, unenc))
			}
		}
	}
	return viol, nil
}

func firstOf(xs []string) string {
	if len(xs) == 0 {
		return "(no values)"
	}
	return xs[0]
}

func sortedKeys(m map[string]string) []string {
	out := make([]string, 0, len(m))
	for k := range m {
		out = append(out, k)
	}
	sort.Strings(out)
	return out
}
